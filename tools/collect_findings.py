#!/usr/bin/env python3
"""Developer aid (not used by the checks): run ./check P repeatedly and, for
violations that occur in an edge:<knob> stream, add a known-finding entry with
that case as witness.  Stops at the first violation in the main/corpus stream."""
import json, subprocess, sys, re
WHAT = {
 "valign_baseline": "D9: w:vertAlign w:val=\"baseline\" is rendered as <bas>...</bas>, outside the documented vocabulary",
 "link_mixed_format": "D7: a hyperlink whose child runs do not all merge is rendered with a blank line between the pieces of its text",
 "alt_text_markup": "D17: picture alt text containing & < > is emitted unescaped with html=True",
 "math_markup": "D22: equation text containing & or < is emitted unescaped inside <latex>...</latex> with html=True",
 "ddlist_markup": "D26: drop-down entries containing & < > are emitted unescaped with html=True",
 "toggle_off_values": "D8: toggle properties switched off (w:val=0/false/off, u=none) are rendered as switched on",
 "tabstops_in_ppr": "D12: tab-stop definitions w:pPr/w:tabs/w:tab each emit a spurious tab character",
 "sym_without_char": "D16: w:sym without w:char emits &#x0one;",
 "link_dangling": "D6: a hyperlink whose r:id has no relationship raises KeyError while merging runs",
 "nested_tables": "D10: after a table nested in a cell the rest of the outer table reports lineage[1]=None",
 "sdt_in_table": "D21: w:sdt inside a table displaces tbl/tr/tc from the lineage",
 "vmerge_continue_val": "D5: <w:vMerge w:val=\"continue\"/> is treated as an unmerged cell",
 "grid_before": "D2: a vMerge continuation below a shorter row raises IndexError",
 "checkbox_onoff": "D4: check-box values on/off raise KeyError",
 "ddlist_empty": "D3: a drop-down without entries raises IndexError",
 "no_r_namespace": "D1: a part whose root does not declare xmlns:r raises KeyError('r')",
 "start_zero": "D13: w:start w:val=\"0\" numbers the first item 1",
 "markers_in_link": "D23: comment range markers inside a hyperlink raise KeyError",
 "comment_in_heading": "D11: with html=True a comment range inside a heading paragraph is anchored one run off",
 "adjacent_links_diff_anchor": "D20: adjacent links with the same target and different anchors are merged into one link",
 "xml_comment_in_props": "D24: an XML comment inside w:rPr / w:pPr / w:tcPr raises KeyError (comment.nsmap is empty)",
 "nested_par_in_table": "D27: a text box (nested paragraph) inside a table cell splits the table; a later vMerge continuation raises IndexError",
 "textbox_in_link": "D32: a text box anchored inside a hyperlink's run: the link text is assembled per child of the (merged) hyperlink, nested paragraphs first; html on/off merge the link's runs differently, so the ORDER of the pieces differs between html=True and html=False",
 "cell_without_par": "a table cell without a paragraph (schema-invalid) raises IndexError",
}
prop = sys.argv[1]
for _ in range(25):
    p = subprocess.run(["./check", prop, "--tier", "quick"], capture_output=True, text=True, cwd="/verif")
    if p.returncode == 0:
        print("clean"); break
    m = re.findall(r"VIOLATION property=\S+ replay=(\S+)", p.stdout)
    if not m: print(p.stdout[-500:], p.stderr[-500:]); break
    d = json.load(open("/verif/" + m[0]))
    if d.get("kind") != "violation" or not str(d.get("stream", "")).startswith("edge:"):
        print("NOT AN EDGE VIOLATION:", json.dumps(d)[:800]); break
    knob = d["stream"][5:]
    oracle = d["what"].split(":")[0]
    f = json.load(open("/verif/known_findings.json"))
    ent = {"status": "known", "property": prop, "id": f"{knob}/{oracle}", "features": [
        {"toggle_off_values": "toggle_off", "nested_tables": "nested_table", "vmerge_continue_val": "vmerge_continue_val"}.get(knob, knob)],
        "oracles": [oracle], "what": WHAT.get(knob, knob), "witness": {"stream": d["stream"], "seed": d["seed"]},
        "example": d["what"][:300]}
    if ent["features"][0] not in d["features"]:
        print("feature name mismatch", knob, d["features"]); break
    f["findings"].append(ent)
    json.dump(f, open("/verif/known_findings.json", "w"), indent=1)
    print("added", prop, ent["id"])
