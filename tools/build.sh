#!/bin/bash
# Rebuild everything the checks need from /repo's current working tree:
#   1. regenerate coq/gen/Tables.v from the source (fail-closed translator)
#   2. full .vo build of model + proofs (coq_makefile, -j16, under timeout)
#   3. extract the model entry point and build the OCaml driver
# Serialised by a lock so that concurrent checks do not race.
# exit: 0 ok, 2 table translator rejected the source, 3 some Coq file does not check (partial
#       build: see build/stale.txt; the driver is built when model/Driver.vo exists), 4 driver build failed
set -u
VERIF="$(cd "$(dirname "$0")/.." && pwd)"
REPO="${D2P_REPO:-/repo}"
cd "$VERIF"
mkdir -p build
exec 9>build/.lock
flock 9
python3 tools/gen_tables.py "$REPO" coq/gen/Tables.v 2>build/translator.err || { cat build/translator.err >&2; exit 2; }
# source translator (pure functions -> coq/gen/Source.v).  When it rejects the source there is
# no Source.v: gen/Source.vo and what depends on it (proofs/Source*.v and the property files
# that use them) fail below, everything else still builds (make -k, exit 3 = partial build)
python3 tools/gen_source.py "$REPO" coq/gen/Source.v 2>build/translator_source.err || cat build/translator_source.err >&2
python3 tools/gen_source_heap.py "$REPO" coq/gen/SourceHeap.v coq/gen/SourceHeapViews.v coq/gen/SourceHeapRuns.v 2>>build/translator_source.err || cat build/translator_source.err >&2
cd coq
if [ ! -f Makefile.coq ] || [ _CoqProject -nt Makefile.coq ]; then
  coq_makefile -f _CoqProject -o Makefile.coq >/dev/null 2>&1 || exit 3
fi
PARTIAL=0
if ! timeout 3000 make -f Makefile.coq -j16 -k >"$VERIF/build/coq.log" 2>&1; then
  grep -B2 -A12 "^Error\|Error:" "$VERIF/build/coq.log" | head -60 >&2
  PARTIAL=1
  # some file does not check: remove every .vo that is not up to date (the failed files and
  # everything depending on them), so that nothing stale can be loaded; the checks of the
  # properties whose files still compile go on, the others report the broken obligation
  make -f Makefile.coq -n -k 2>/dev/null | grep -o '[A-Za-z_]*/[A-Za-z0-9_]*\.v\b' | sort -u >"$VERIF/build/stale.txt"
  while read -r f; do rm -f "${f}o" "${f}ok" "${f}os"; done <"$VERIF/build/stale.txt"
  [ -f model/Driver.vo ] || exit 3
fi
mkdir -p extract/build
cd extract/build
if [ ! -x d2p_driver ] || [ ../../model/Driver.vo -nt d2p_driver ] || [ ../driver.ml -nt d2p_driver ] || [ ../Extract.v -nt d2p_driver ]; then
  cp ../Extract.v Extract.v
  timeout 600 coqc -Q ../../model D2P -Q ../../gen D2P Extract.v >"$VERIF/build/extract.log" 2>&1 || { cat "$VERIF/build/extract.log" >&2; exit 4; }
  cp ../driver.ml .
  timeout 600 ocamlfind ocamlopt d2p.mli d2p.ml driver.ml -o d2p_driver.tmp >>"$VERIF/build/extract.log" 2>&1 || { cat "$VERIF/build/extract.log" >&2; exit 4; }
  mv d2p_driver.tmp d2p_driver
fi
[ "$PARTIAL" = 1 ] && exit 3
exit 0
