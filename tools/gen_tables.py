#!/usr/bin/env python3
"""Regenerate coq/gen/Tables.v from the data tables in /repo's source.

Fail-closed: reads the modules with `ast` only (never imports them) and
accepts only the literal shapes listed below.  Anything else -> exit status 2,
no output file, and the calling check reports the tie as broken.

usage: gen_tables.py <repo_root> <out.v>
"""
from __future__ import annotations

import ast
import sys
from pathlib import Path


class Reject(Exception):
    pass


def die(msg: str):
    raise Reject(msg)


def parse(repo: Path, mod: str) -> ast.Module:
    p = repo / "docx2python" / mod
    try:
        return ast.parse(p.read_text(encoding="utf-8"), filename=str(p))
    except (OSError, SyntaxError) as ex:
        die(f"cannot parse {p}: {ex}")


def coq_str(s: str) -> str:
    if not isinstance(s, str):
        die(f"expected str constant, got {s!r}")
    body = ";".join(str(ord(c)) for c in s)
    shown = "".join(c if 32 <= ord(c) < 127 and c not in '*()"' else "?" for c in s)
    return f"([{body}]%N (* {shown} *) : str)"


def coq_ostr(s) -> str:
    return "None" if s is None else f"(Some {coq_str(s)})"


def coq_list(items: list[str], ty: str | None = None) -> str:
    inner = ";\n    ".join(items)
    t = f" : list ({ty})" if ty else ""
    return f"([\n    {inner}]{t})" if items else f"([]{t})"


def const_str(node: ast.AST) -> str:
    if isinstance(node, ast.Constant) and isinstance(node.value, str):
        return node.value
    die(f"line {getattr(node, 'lineno', '?')}: expected a string constant")


def top_assign(mod: ast.Module, name: str) -> ast.AST:
    found = []
    for st in mod.body:
        if isinstance(st, ast.Assign) and len(st.targets) == 1:
            t = st.targets[0]
            if isinstance(t, ast.Name) and t.id == name:
                found.append(st.value)
        elif isinstance(st, ast.AnnAssign) and isinstance(st.target, ast.Name):
            if st.target.id == name and st.value is not None:
                found.append(st.value)
    if len(found) != 1:
        die(f"expected exactly one top-level assignment of {name}, found {len(found)}")
    return found[0]


def top_func(mod_or_cls, name: str) -> ast.FunctionDef:
    found = [s for s in mod_or_cls.body if isinstance(s, ast.FunctionDef) and s.name == name]
    if len(found) != 1:
        die(f"expected exactly one def {name}, found {len(found)}")
    return found[0]


def top_class(mod: ast.Module, name: str) -> ast.ClassDef:
    found = [s for s in mod.body if isinstance(s, ast.ClassDef) and s.name == name]
    if len(found) != 1:
        die(f"expected exactly one class {name}, found {len(found)}")
    return found[0]


# --------------------------------------------------------------- Tags enum
def read_tags(mod: ast.Module) -> list[tuple[str, str]]:
    cls = top_class(mod, "Tags")
    out: list[tuple[str, str]] = []
    for st in cls.body:
        if isinstance(st, ast.Expr) and isinstance(st.value, ast.Constant):
            continue  # docstring
        if (
            isinstance(st, ast.Assign)
            and len(st.targets) == 1
            and isinstance(st.targets[0], ast.Name)
        ):
            out.append((st.targets[0].id, const_str(st.value)))
            continue
        die(f"Tags: unexpected statement at line {st.lineno}")
    names = [n for n, _ in out]
    vals = [v for _, v in out]
    if len(set(names)) != len(names) or len(set(vals)) != len(vals):
        die("Tags: duplicate member name or value (enum aliasing not modelled)")
    return out


def tags_member(node: ast.AST, tags: dict[str, str]) -> str:
    """`Tags.NAME` -> NAME"""
    if (
        isinstance(node, ast.Attribute)
        and isinstance(node.value, ast.Name)
        and node.value.id == "Tags"
        and node.attr in tags
    ):
        return node.attr
    die(f"line {getattr(node, 'lineno', '?')}: expected Tags.<MEMBER>")


def tags_set(node: ast.AST, tags: dict[str, str]) -> list[str]:
    """`{Tags.A, Tags.B}` or `set(Tags) - {...}` -> member names (enum order)"""
    if isinstance(node, ast.Set):
        names = {tags_member(e, tags) for e in node.elts}
        return [n for n in tags if n in names]
    if (
        isinstance(node, ast.BinOp)
        and isinstance(node.op, ast.Sub)
        and isinstance(node.left, ast.Call)
        and isinstance(node.left.func, ast.Name)
        and node.left.func.id == "set"
        and len(node.left.args) == 1
        and isinstance(node.left.args[0], ast.Name)
        and node.left.args[0].id == "Tags"
        and not node.left.keywords
    ):
        minus = set(tags_set(node.right, tags))
        return [n for n in tags if n not in minus]
    die(f"line {getattr(node, 'lineno', '?')}: unsupported Tags set expression")


# ------------------------------------------------------- one-line formatters
def read_formatter_body(fn: ast.FunctionDef) -> list[str]:
    args = [a.arg for a in fn.args.args]
    if args != ["tag", "val"] or fn.args.vararg or fn.args.kwarg or fn.args.kwonlyargs:
        die(f"{fn.name}: parameters must be (tag, val)")
    body = list(fn.body)
    if body and isinstance(body[0], ast.Expr) and isinstance(body[0].value, ast.Constant):
        body = body[1:]  # docstring
    while body and isinstance(body[0], ast.Delete):
        for t in body[0].targets:
            if not (isinstance(t, ast.Name) and t.id in ("tag", "val")):
                die(f"{fn.name}: unexpected del target")
        body = body[1:]
    if len(body) != 1 or not isinstance(body[0], ast.Return) or body[0].value is None:
        die(f"{fn.name}: body must be `del ...; return <expr>`")
    return expr_parts(body[0].value, fn.name)


def expr_parts(e: ast.AST, where: str) -> list[str]:
    if isinstance(e, ast.Constant) and isinstance(e.value, str):
        return [f"FLit {coq_str(e.value)}"]
    if isinstance(e, ast.Name) and e.id == "tag":
        return ["FTag"]
    if isinstance(e, ast.Name) and e.id == "val":
        return ["FVal"]
    if isinstance(e, ast.Subscript) and isinstance(e.value, ast.Name):
        sl = e.slice
        if (
            e.value.id == "val"
            and isinstance(sl, ast.Slice)
            and sl.lower is None
            and sl.step is None
            and isinstance(sl.upper, ast.Constant)
            and isinstance(sl.upper.value, int)
            and 0 <= sl.upper.value <= 64
        ):
            return [f"FValPrefix {sl.upper.value}"]
        if (
            e.value.id == "tag"
            and isinstance(sl, ast.UnaryOp)
            and isinstance(sl.op, ast.USub)
            and isinstance(sl.operand, ast.Constant)
            and sl.operand.value == 1
        ):
            return ["FTagLast"]
    if isinstance(e, ast.JoinedStr):
        out: list[str] = []
        for v in e.values:
            if isinstance(v, ast.Constant):
                out += expr_parts(v, where)
            elif (
                isinstance(v, ast.FormattedValue)
                and v.conversion == -1
                and v.format_spec is None
            ):
                out += expr_parts(v.value, where)
            else:
                die(f"{where}: unsupported f-string part")
        return out
    if isinstance(e, ast.BinOp) and isinstance(e.op, ast.Add):
        return expr_parts(e.left, where) + expr_parts(e.right, where)
    die(f"{where}: unsupported return expression at line {getattr(e, 'lineno', '?')}")


def read_html_formatter_defaults(mod: ast.Module) -> tuple[str, str | None, str | None]:
    cls = top_class(mod, "HtmlFormatter")
    fields: list[tuple[str, ast.AST]] = []
    for st in cls.body:
        if isinstance(st, ast.Expr) and isinstance(st.value, ast.Constant):
            continue
        if isinstance(st, ast.AnnAssign) and isinstance(st.target, ast.Name) and st.value is not None:
            fields.append((st.target.id, st.value))
            continue
        die(f"HtmlFormatter: unexpected statement at line {st.lineno}")
    if [f for f, _ in fields] != ["formatter", "container", "property_"]:
        die("HtmlFormatter: fields must be formatter, container, property_")
    f0 = fields[0][1]
    if not isinstance(f0, ast.Name):
        die("HtmlFormatter.formatter default must be a function name")

    def ostr(n):
        if isinstance(n, ast.Constant) and (n.value is None or isinstance(n.value, str)):
            return n.value
        die("HtmlFormatter default must be None or a string")

    return f0.id, ostr(fields[1][1]), ostr(fields[2][1])


def read_xml2html(mod: ast.Module):
    d = top_assign(mod, "XML2HTML_FORMATTER")
    if not isinstance(d, ast.Dict):
        die("XML2HTML_FORMATTER must be a dict literal")
    dflt = read_html_formatter_defaults(mod)
    out = []
    for k, v in zip(d.keys, d.values):
        if k is None:
            die("XML2HTML_FORMATTER: ** expansion not supported")
        key = const_str(k)
        if not key:
            die("XML2HTML_FORMATTER: empty key")
        if not (
            isinstance(v, ast.Call)
            and isinstance(v.func, ast.Name)
            and v.func.id == "HtmlFormatter"
            and not v.keywords
            and len(v.args) <= 3
        ):
            die(f"XML2HTML_FORMATTER[{key!r}] must be HtmlFormatter(<positional>)")
        vals = list(dflt)
        for i, a in enumerate(v.args):
            if i == 0:
                if not isinstance(a, ast.Name):
                    die(f"XML2HTML_FORMATTER[{key!r}]: formatter must be a name")
                vals[0] = a.id
            else:
                if not (isinstance(a, ast.Constant) and (a.value is None or isinstance(a.value, str))):
                    die(f"XML2HTML_FORMATTER[{key!r}]: container/property must be constants")
                vals[i] = a.value
        if (vals[1] is None) != (vals[2] is None):
            die(f"XML2HTML_FORMATTER[{key!r}]: container and property must both be given or both None")
        out.append((key, vals[0], vals[1], vals[2]))
    if len({k for k, *_ in out}) != len(out):
        die("XML2HTML_FORMATTER: duplicate key")
    bodies = {name: read_formatter_body(top_func(mod, name)) for name in {f for _, f, _, _ in out}}
    return out, bodies


# ---------------------------------------------------------------- numbering
def read_roman(mod: ast.Module) -> list[tuple[str, str]]:
    v = top_assign(mod, "ROMAN_SUBS")
    if not isinstance(v, (ast.List, ast.Tuple)):
        die("ROMAN_SUBS must be a list literal")
    out = []
    for e in v.elts:
        if not (isinstance(e, ast.Tuple) and len(e.elts) == 2):
            die("ROMAN_SUBS entries must be 2-tuples")
        out.append((const_str(e.elts[0]), const_str(e.elts[1])))
    return out


NUMFN = {
    "decimal": "NFDecimal",
    "lower_letter": "NFLowerLetter",
    "upper_letter": "NFUpperLetter",
    "lower_roman": "NFLowerRoman",
    "upper_roman": "NFUpperRoman",
    "bullet": "NFBullet",
}


def read_numfmt(mod: ast.Module) -> list[tuple[str, str]]:
    fn = top_func(mod, "_get_bullet_function")
    dicts = [
        s
        for s in fn.body
        if isinstance(s, (ast.Assign, ast.AnnAssign))
        and isinstance(s.value, ast.Dict)
    ]
    if len(dicts) != 1:
        die("_get_bullet_function: expected one dict literal")
    d = dicts[0].value
    out = []
    for k, v in zip(d.keys, d.values):
        key = const_str(k)
        if not (
            isinstance(v, ast.Attribute)
            and isinstance(v.value, ast.Name)
            and v.value.id == "nums"
            and v.attr in NUMFN
        ):
            die(f"numFmt table[{key!r}]: expected nums.<renderer>")
        out.append((key, NUMFN[v.attr]))
    if len({k for k, _ in out}) != len(out):
        die("numFmt table: duplicate key")
    return out


def read_checkbox(mod: ast.Module):
    fn = top_func(mod, "get_checkBox_entry")
    rets = [s for s in fn.body if isinstance(s, ast.Return)]
    if len(rets) != 1:
        die("get_checkBox_entry: expected one top-level return")
    r = rets[0].value
    if not (isinstance(r, ast.Subscript) and isinstance(r.value, ast.Dict)):
        die("get_checkBox_entry: return must be {...}[get_wval()]")
    out = []
    none_val = None
    for k, v in zip(r.value.keys, r.value.values):
        if isinstance(k, ast.Constant) and k.value is None:
            none_val = const_str(v)
        else:
            out.append((const_str(k), const_str(v)))
    return out, none_val


def read_string_set(node: ast.AST, what: str) -> list[str]:
    if isinstance(node, (ast.Set, ast.List, ast.Tuple)):
        return sorted(const_str(e) for e in node.elts)
    die(f"{what}: expected a literal collection of strings")


def read_overwrite(mod: ast.Module, cft: list[str]) -> list[str]:
    cls = top_class(mod, "DocxReader")
    fn = top_func(cls, "save")
    vals = [
        s.value
        for s in fn.body
        if isinstance(s, ast.Assign)
        and len(s.targets) == 1
        and isinstance(s.targets[0], ast.Name)
        and s.targets[0].id == "overwrite"
    ]
    if len(vals) != 1 or not isinstance(vals[0], ast.List):
        die("DocxReader.save: expected `overwrite = [...]`")
    out: list[str] = []
    for e in vals[0].elts:
        if isinstance(e, ast.Starred) and isinstance(e.value, ast.Name) and e.value.id == "CONTENT_FILE_TYPES":
            out += cft
        else:
            out.append(const_str(e))
    return out


def read_methods(mod: ast.Module, tags: dict[str, str]) -> tuple[list[str], list[str]]:
    cls = top_class(mod, "TagRunner")
    opens, closes = [], []
    lower2name = {n.lower(): n for n in tags}
    for s in cls.body:
        if isinstance(s, ast.FunctionDef):
            if s.name.startswith("_open_") and s.name[6:] in lower2name:
                opens.append(lower2name[s.name[6:]])
            if s.name.startswith("_close_") and s.name[7:] in lower2name:
                closes.append(lower2name[s.name[7:]])
    return sorted(opens), sorted(closes)


def read_handler_facts(mod: ast.Module, tags: dict[str, str]):
    """Per TagRunner._open_* / _close_* method, in source order of occurrence:
      ret    the constant it returns (True / False; None for a close method), following
             `return self._open_x(tree)` aliases;
      calls  the self.tables.<method> calls in its body, in source order;
      lits   the string literals of its body (f-string fragments included), docstring and
             attribute names excluded;
      attrs  the attribute names it reads: qn(tree, "w:id") second arguments and
             tree.attrib["name"] subscripts.
    Fail-closed on any return that is not a constant or such an alias."""
    cls = top_class(mod, "TagRunner")
    lower2name = {n.lower(): n for n in tags}
    methods = {s.name: s for s in cls.body if isinstance(s, ast.FunctionDef)}

    def ret_of(fn, seen=()):
        rets = [n for n in ast.walk(fn) if isinstance(n, ast.Return)]
        vals = set()
        for r in rets:
            v = r.value
            if v is None:
                vals.add(None)
            elif isinstance(v, ast.Constant) and isinstance(v.value, bool):
                vals.add(v.value)
            elif (isinstance(v, ast.Call) and isinstance(v.func, ast.Attribute)
                  and isinstance(v.func.value, ast.Name) and v.func.value.id == "self"
                  and v.func.attr in methods and v.func.attr not in seen):
                vals.add(ret_of(methods[v.func.attr], seen + (fn.name,)))
            else:
                die(f"{fn.name}: return value is neither a bool constant nor a handler alias")
        if not rets:
            vals.add(None)
        if len(vals) != 1:
            die(f"{fn.name}: returns different constants on different paths: {vals}")
        return vals.pop()

    def body_facts(fn, seen=()):
        body = list(fn.body)
        if body and isinstance(body[0], ast.Expr) and isinstance(body[0].value, ast.Constant) \
                and isinstance(body[0].value.value, str):
            body = body[1:]
        calls, lits, attrs = [], [], []
        skip = set()
        nodes = []
        for st in body:
            nodes.extend(sorted((n for n in ast.walk(st) if hasattr(n, "lineno")),
                                key=lambda n: (n.lineno, n.col_offset)))
        for n in nodes:
            if isinstance(n, ast.Call) and isinstance(n.func, ast.Name) and n.func.id == "qn" and len(n.args) == 2:
                a = n.args[1]
                if isinstance(a, ast.Constant) and isinstance(a.value, str):
                    attrs.append(a.value)
                    skip.add(id(a))
            if isinstance(n, ast.Subscript) and isinstance(n.value, ast.Attribute) and n.value.attr == "attrib":
                a = n.slice
                if isinstance(a, ast.Constant) and isinstance(a.value, str):
                    attrs.append(a.value)
                    skip.add(id(a))
            if isinstance(n, ast.Call) and isinstance(n.func, ast.Attribute):
                f = n.func
                if isinstance(f.value, ast.Attribute) and isinstance(f.value.value, ast.Name) \
                        and f.value.value.id == "self" and f.value.attr in ("tables", "bullets"):
                    calls.append(f"{f.value.attr}.{f.attr}")
                if isinstance(f.value, ast.Name) and f.value.id == "self" and f.attr in methods \
                        and f.attr not in seen and f.attr != fn.name:
                    c2, l2, a2 = body_facts(methods[f.attr], seen + (fn.name,))
                    calls += c2
                    lits += l2
                    attrs += a2
        for n in nodes:
            if isinstance(n, ast.Constant) and isinstance(n.value, str) and id(n) not in skip:
                lits.append(n.value)
        return calls, lits, attrs

    out = []
    for name, fn in methods.items():
        for pre in ("_open_", "_close_"):
            if name.startswith(pre) and name[len(pre):] in lower2name:
                calls, lits, attrs = body_facts(fn)
                out.append((pre[1:-1], lower2name[name[len(pre):]], ret_of(fn), calls, lits, attrs))
    return sorted(out, key=lambda x: (x[0], x[1]))


def read_depth_none_tags(mod: ast.Module, tags) -> list[str]:
    fn = top_func(mod, "_get_elem_depth")
    for s in fn.body:
        if isinstance(s, ast.If) and isinstance(s.test, ast.Compare):
            c = s.test
            if len(c.ops) == 1 and isinstance(c.ops[0], ast.In):
                return tags_set(c.comparators[0], tags)
    die("_get_elem_depth: expected `if get_prefixed_tag(tree) in {...}`")


def read_text_tags(mod: ast.Module, tags) -> list[str]:
    fn = top_func(mod, "_is_text_or_text_math")
    for s in fn.body:
        if isinstance(s, ast.Assign) and isinstance(s.value, ast.Set):
            return tags_set(s.value, tags)
    die("_is_text_or_text_math: expected a set literal")


def main(repo: Path, out: Path) -> None:
    ar = parse(repo, "attribute_register.py")
    tags_l = read_tags(ar)
    tags = dict(tags_l)
    content = tags_set(top_assign(ar, "_CONTENT_TAGS"), tags)
    x2h, bodies = read_xml2html(ar)
    mr = parse(repo, "merge_runs.py")
    mergeable = tags_set(top_assign(mr, "_MERGEABLE_TAGS"), tags)
    text_tags = read_text_tags(mr, tags)
    nf = parse(repo, "numbering_formats.py")
    roman = read_roman(nf)
    bn = parse(repo, "bullets_and_numbering.py")
    numfmt = read_numfmt(bn)
    fm = parse(repo, "forms.py")
    cb, cb_none = read_checkbox(fm)
    if cb_none is None:
        die("check-box table: no None key")
    dr = parse(repo, "docx_reader.py")
    cft = read_string_set(top_assign(dr, "CONTENT_FILE_TYPES"), "CONTENT_FILE_TYPES")
    overwrite = read_overwrite(dr, cft)
    tr = parse(repo, "text_runs.py")
    off_values = read_string_set(top_assign(tr, "_OFF_VALUES"), "_OFF_VALUES")
    dt = parse(repo, "docx_text.py")
    opens, closes = read_methods(dt, tags)
    depth_none = read_depth_none_tags(dt, tags)
    hfacts = read_handler_facts(dt, tags)

    def tagvals(names):
        return coq_list([coq_str(tags[n]) for n in names], "str")

    L = []
    L.append("(* GENERATED by tools/gen_tables.py from /repo's source - do not edit *)")
    L.append("From Coq Require Import List NArith.")
    L.append("From D2P Require Import Str TableTypes.")
    L.append("Import ListNotations.")
    L.append("")
    L.append("Definition tags_table : list (str * str) :=\n  "
             + coq_list([f"({coq_str(n)}, {coq_str(v)})" for n, v in tags_l]) + ".")
    L.append(f"Definition content_tags : list str :=\n  {tagvals(content)}.")
    L.append(f"Definition mergeable_tags : list str :=\n  {tagvals(mergeable)}.")
    L.append(f"Definition text_tags : list str :=\n  {tagvals(text_tags)}.")
    L.append(f"Definition depth_none_tags : list str :=\n  {tagvals(depth_none)}.")
    L.append("Definition open_methods : list str :=\n  "
             + coq_list([coq_str(n) for n in opens], "str") + ".")
    L.append("Definition close_methods : list str :=\n  "
             + coq_list([coq_str(n) for n in closes], "str") + ".")
    for name in tags:
        L.append(f"Definition tag_{name} : str := {coq_str(tags[name])}.")
    for fname, parts in sorted(bodies.items()):
        L.append(f"Definition fmt{fname} : fexpr := [{'; '.join(parts)}].")
    L.append("Definition xml2html_table : list (str * hformatter) :=\n  "
             + coq_list([
                 f"({coq_str(k)}, {{| hf_expr := fmt{f}; hf_container := {coq_ostr(c)}; hf_property := {coq_ostr(p)} |}})"
                 for k, f, c, p in x2h]) + ".")
    L.append("Definition roman_subs : list (str * str) :=\n  "
             + coq_list([f"({coq_str(a)}, {coq_str(b)})" for a, b in roman]) + ".")
    L.append("Definition numfmt_table : list (str * numfn) :=\n  "
             + coq_list([f"({coq_str(k)}, {v})" for k, v in numfmt]) + ".")
    L.append("Definition checkbox_table : list (str * str) :=\n  "
             + coq_list([f"({coq_str(k)}, {coq_str(v)})" for k, v in cb]) + ".")
    L.append(f"Definition checkbox_none : str := {coq_str(cb_none)}.")
    L.append("Definition content_file_types : list str :=\n  "
             + coq_list([coq_str(s) for s in cft], "str") + ".")
    L.append("Definition save_overwrite_types : list str :=\n  "
             + coq_list([coq_str(s) for s in overwrite], "str") + ".")
    def hrow(h):
        kind, name, ret, calls, lits, attrs = h
        r = {True: "Some true", False: "Some false", None: "None"}[ret]
        return (f"(({coq_str(kind)}, {coq_str(name)}), ({r}, ({coq_list([coq_str(c) for c in calls], 'str')}, "
                f"({coq_list([coq_str(x) for x in lits], 'str')}, {coq_list([coq_str(a) for a in attrs], 'str')}))))")
    L.append("Definition handler_facts : list ((str * str) * (option bool * (list str * (list str * list str)))) :=\n  "
             + coq_list([hrow(h) for h in hfacts]) + ".")
    L.append("Definition off_values : list str :=\n  "
             + coq_list([coq_str(s) for s in off_values], "str") + ".")
    text = "\n".join(L) + "\n"
    if not out.exists() or out.read_text() != text:
        out.parent.mkdir(parents=True, exist_ok=True)
        out.write_text(text)


if __name__ == "__main__":
    try:
        main(Path(sys.argv[1]), Path(sys.argv[2]))
    except Reject as ex:
        print(f"gen_tables: REJECT: {ex}", file=sys.stderr)
        sys.exit(2)
