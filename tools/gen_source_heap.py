#!/usr/bin/env python3
"""Source translator, HEAP embedding: regenerate coq/gen/SourceHeap.v from the Python SOURCE TEXT
of the caret methods of depth_collector.DepthCollector (never imports them).

These methods work on aliases (`_rightmost_branches` is a stack of references into the nested
list `tree`), so mutable objects live in a heap (model/PyHeap.v): a list display allocates,
`x.append(v)` / `x.pop()` / `self.f = v` update the heap through a reference, `x[i]` / `self.f`
read through it; a slice of a list is a new list; tuples, strings, numbers, None are values.
Each method becomes  S_H_<name> : [fuel ->] pv (* self *) -> args -> heap -> hres pv.
proofs/SourceCaret.v proves that they refine the functional model of model/Collector.v.

Fail-closed like gen_source.py: anything outside the fragment -> exit 2, no output file.

usage: gen_source_heap.py <repo_root> <caret.v> [<views.v> [<runs.v>]]
"""
from __future__ import annotations

import ast
import sys
from pathlib import Path

sys.path.insert(0, str(Path(__file__).resolve().parent))
from gen_source import EXN, Reject, coq_str, die  # noqa: E402

MODULE = "depth_collector.py"
CLASS = "DepthCollector"
METHODS = ["__init__", "_set_in_lineage", "tree", "caret_depth", "_drop_caret", "_raise_caret",
           "set_caret", "conclude_paragraph"]
EXN_H = EXN | {"CaretDepthError"}
EXTERNAL = {"get_localname": "localname"}      # calls on lxml elements = reads of the element object
CMP = {ast.Lt: "py_lt", ast.Gt: "py_gt", ast.LtE: "py_le", ast.GtE: "py_ge", ast.Eq: "py_eq", ast.NotEq: "py_ne"}
BIN = {ast.Add: "py_add", ast.Sub: "py_sub"}


def mangle(name: str) -> str:
    return "S_H_" + name.strip("_").replace("__", "_")


class HFn:
    def __init__(self, tr, node: ast.FunctionDef):
        self.tr, self.node = tr, node
        self.tmp = 0
        a = node.args
        if a.vararg or a.kwarg or a.kwonlyargs or a.posonlyargs or not a.args:
            die(node, "plain positional parameters only")
        self.params = [x.arg for x in a.args]
        self.defaults = []
        for d in a.defaults:
            if not (isinstance(d, ast.Constant) and d.value is None):
                die(d, "parameter default: None only")
            self.defaults.append("VNone")
        self.is_property = any(isinstance(d, ast.Name) and d.id == "property" for d in node.decorator_list)
        for d in node.decorator_list:
            if not (isinstance(d, ast.Name) and d.id == "property"):
                die(node, "decorator is not translated")
        self.recursive = any(isinstance(n, ast.Call) and (
            (isinstance(n.func, ast.Attribute) and isinstance(n.func.value, ast.Name) and n.func.value.id == "self"
             and n.func.attr == node.name) or
            (isinstance(n.func, ast.Name) and n.func.id == node.name and self.params[0] != "self"))
            for n in ast.walk(node))
        self.is_gen = any(isinstance(n, (ast.Yield, ast.YieldFrom)) for n in ast.walk(node))
        self.uses_deepcopy = any(isinstance(n, ast.Call) and isinstance(n.func, ast.Attribute) and n.func.attr == "deepcopy"
                                 for n in ast.walk(node))

    def fresh(self):
        self.tmp += 1
        return f"t{self.tmp}"

    @staticmethod
    def v(name):
        return "v_" + name

    def pat(self, names):
        names = list(names)
        if not names:
            return "tt"
        if len(names) == 1:
            return self.v(names[0])
        return "(" + ", ".join(self.v(n) for n in names) + ")"

    def lam_pat(self, names):
        names = list(names)
        return "'tt" if not names else (self.pat(names) if len(names) == 1 else "'" + self.pat(names))

    # ---- expressions: (lines, atom), all in the heap monad
    def ex(self, e, env):
        L = []

        def pure(rhs):
            t = self.fresh()
            L.append(f"{t} <~ hlift ({rhs}) ;;;")
            return t

        def eff(rhs):
            t = self.fresh()
            L.append(f"{t} <~ {rhs} ;;;")
            return t

        def go(e):
            if isinstance(e, ast.Constant):
                if e.value is None:
                    return "VNone"
                if isinstance(e.value, bool):
                    return f"(VBool {'true' if e.value else 'false'})"
                if isinstance(e.value, int):
                    return f"(VInt ({e.value})%Z)"
                if isinstance(e.value, str):
                    return f"(VStr {coq_str(e.value)})"
                die(e, "unsupported constant")
            if isinstance(e, ast.UnaryOp) and isinstance(e.op, ast.USub) and isinstance(e.operand, ast.Constant) \
                    and isinstance(e.operand.value, int):
                return f"(VInt (-{e.operand.value})%Z)"
            if isinstance(e, ast.Name):
                if e.id in env:
                    return self.v(e.id)
                die(e, f"name {e.id} is not a bound local")
            if isinstance(e, ast.Attribute):
                if isinstance(e.value, ast.Name) and e.value.id == "self" and e.attr in self.tr.properties:
                    return eff(self.tr.call_text(self, e.attr, [self.v("self")]))
                if e.attr in getattr(self.tr, "foreign_properties", {}):
                    return eff(self.tr.call_text(self, self.tr.foreign_properties[e.attr], [go(e.value)]))
                a = go(e.value)
                return eff(f"hy_getattr {a} {coq_str(e.attr)}")
            if isinstance(e, ast.Subscript):
                a = go(e.value)
                if isinstance(e.slice, ast.Slice):
                    if e.slice.step is not None:
                        die(e, "slice steps are not translated")
                    lo = go(e.slice.lower) if e.slice.lower is not None else "VNone"
                    hi = go(e.slice.upper) if e.slice.upper is not None else "VNone"
                    return eff(f"hy_slice {a} {lo} {hi}")
                return eff(f"hy_index {a} {go(e.slice)}")
            if isinstance(e, ast.BinOp) and type(e.op) in BIN:
                return pure(f"{BIN[type(e.op)]} {go(e.left)} {go(e.right)}")
            if isinstance(e, ast.Compare):
                if len(e.ops) != 1:
                    die(e, "chained comparisons are not translated")
                op, rhs = e.ops[0], e.comparators[0]
                if isinstance(op, (ast.Is, ast.IsNot)):
                    if not (isinstance(rhs, ast.Constant) and rhs.value is None):
                        die(e, "`is` against None only")
                    t = pure(f"py_is_none {go(e.left)}")
                    return pure(f"py_not {t}") if isinstance(op, ast.IsNot) else t
                if type(op) not in CMP:
                    die(e, "unsupported comparison")
                return pure(f"{CMP[type(op)]} {go(e.left)} {go(rhs)}")
            if isinstance(e, ast.Tuple):
                if any(isinstance(x, ast.Starred) for x in e.elts):
                    parts = []
                    for x in e.elts:
                        parts.append(eff(f"hy_items {go(x.value)}") if isinstance(x, ast.Starred) else f"[{go(x)}]")
                    return f"(VTuple ({' ++ '.join(parts)}))"
                return f"(VTuple [{'; '.join(go(x) for x in e.elts)}])"
            if isinstance(e, ast.List):
                if any(isinstance(x, ast.Starred) for x in e.elts):
                    parts = []
                    for x in e.elts:
                        if isinstance(x, ast.Starred):
                            parts.append(eff(f"hy_items {go(x.value)}"))
                        else:
                            parts.append(f"[{go(x)}]")
                    return eff(f"hy_new_list ({' ++ '.join(parts)})")
                return eff(f"hy_new_list [{'; '.join(go(x) for x in e.elts)}]")
            if isinstance(e, ast.Dict) and not e.keys:
                return eff(f"hy_new_obj {coq_str('dict')} []")
            if isinstance(e, (ast.ListComp, ast.GeneratorExp)):
                items = self.comp(e.generators, e.elt, env)
                t = eff(items)
                return eff(f"hy_new_list {t}") if isinstance(e, ast.ListComp) else f"(VTuple {t})"
            if isinstance(e, ast.JoinedStr):
                acc = None
                for piece in e.values:
                    if isinstance(piece, ast.Constant):
                        a = f"(VStr {coq_str(piece.value)})"
                    elif isinstance(piece, ast.FormattedValue) and piece.conversion == -1 and piece.format_spec is None:
                        a = eff(self.tr.str_text(self, go(piece.value)))
                    else:
                        die(e, "unsupported f-string piece")
                    acc = a if acc is None else pure(f"py_add {acc} {a}")
                return acc if acc is not None else "(VStr [])"
            if isinstance(e, ast.BoolOp) and len(e.values) == 2:
                # a or b / a and b: Python's value semantics, b evaluated only when needed
                La, a = self.ex(e.values[0], env)
                Lb, b = self.ex(e.values[1], env)
                L.extend(La)
                t, tb = self.fresh(), self.fresh()
                L.append(f"{tb} <~ hy_truth {a} ;;;")
                keep, other = (f"hnx {a}", f"{' '.join(Lb)} hnx {b}")
                if isinstance(e.op, ast.Or):
                    L.append(f"{t} <~~ (if {tb} then ({keep}) else ({other})) ;;;")
                else:
                    L.append(f"{t} <~~ (if {tb} then ({other}) else ({keep})) ;;;")
                return t
            if isinstance(e, ast.UnaryOp) and isinstance(e.op, ast.Not):
                a = go(e.operand)
                tb = self.fresh()
                L.append(f"{tb} <~ hy_truth {a} ;;;")
                return f"(VBool (negb {tb}))"
            if isinstance(e, ast.IfExp):
                Lc, c = self.ex(e.test, env)
                La, a = self.ex(e.body, env)
                Lb, b = self.ex(e.orelse, env)
                L.extend(Lc)
                t, tb = self.fresh(), self.fresh()
                L.append(f"{tb} <~ hy_truth {c} ;;;")
                # each branch is evaluated only when taken: a block returning its value through Nx
                L.append(f"{t} <~~ (if {tb} then ({' '.join(La)} hnx {a}) else ({' '.join(Lb)} hnx {b})) ;;;")
                return t
            if isinstance(e, ast.Call):
                if e.keywords:
                    die(e, "keyword arguments are not translated")
                f = e.func
                if isinstance(f, ast.Name):
                    if f.id == "cast" and len(e.args) == 2:
                        return go(e.args[1])
                    if f.id == "len" and len(e.args) == 1:
                        return eff(f"hy_len {go(e.args[0])}")
                    if f.id in EXTERNAL and len(e.args) == 1:
                        return eff(f"hy_getattr {go(e.args[0])} {coq_str(EXTERNAL[f.id])}")
                    if f.id == "str" and len(e.args) == 1:
                        return eff(self.tr.str_text(self, go(e.args[0])))
                    if f.id == "reversed" and len(e.args) == 1:
                        return eff(f"hy_reversed {go(e.args[0])}")
                    if f.id == "enumerate" and len(e.args) == 1:
                        return eff(f"hy_enumerate {go(e.args[0])}")
                    if f.id in getattr(self.tr, "functions", set()):
                        return eff(self.tr.call_text(self, f.id, [go(x) for x in e.args]))
                    if f.id in getattr(self.tr, "ext_fns", {}):
                        if len(e.args) != self.tr.ext_fns[f.id]:
                            die(e, f"call of the external {f.id} with {len(e.args)} arguments")
                        self.tr.ext_used.add(f.id)
                        return eff(f"ext_{f.id} {' '.join(go(x) for x in e.args)}")
                    if f.id in getattr(self.tr, "dataclasses", {}):
                        return eff(self.tr.construct_text(self, f.id, e.args, go, eff))
                    die(e, f"call of {f.id} is not translated")
                if isinstance(f, ast.Attribute):
                    if isinstance(f.value, ast.Name) and f.value.id == "self" and f.attr in self.tr.methods:
                        args = [go(x) for x in e.args]
                        return eff(self.tr.call_text(self, f.attr, [self.v("self")] + args))
                    if isinstance(f.value, ast.Name) and f.value.id == "copy" and f.attr == "deepcopy" \
                            and "copy" not in env and len(e.args) == 1:
                        return eff(f"hy_deepcopy fuel {go(e.args[0])}")
                    if isinstance(f.value, ast.Name) and f.value.id == "it" and f.attr == "chain" and "it" not in env:
                        parts = [go(x) for x in e.args]
                        t = eff(f"hy_chain [{'; '.join(parts)}]")
                        return f"(VTuple {t})"       # consumed by a tuple unpacking only (checked at the assignment)
                    recv = go(f.value)
                    if f.attr == "append" and len(e.args) == 1:
                        a = go(e.args[0])
                        eff(f"hy_append {recv} {a}")
                        return "VNone"
                    if f.attr == "pop" and not e.args:
                        return eff(f"hy_pop {recv}")
                    if f.attr == "join" and len(e.args) == 1:
                        return eff(f"hy_join {recv} {go(e.args[0])}")
                    if f.attr == "split" and not e.args:
                        return pure(f"py_split_ws {recv}")
                    if f.attr == "replace" and len(e.args) == 2:
                        return pure(f"py_replace {recv} {go(e.args[0])} {go(e.args[1])}")
                    die(e, f"method {f.attr} is not translated")
            die(e, f"unsupported expression {type(e).__name__}")

        atom = go(e)
        return L, atom

    def comp(self, gens, elt, env):
        """hm (list pv) text of a comprehension (items as a Coq list)"""
        g = gens[0]
        if g.is_async:
            die(g, "async comprehension")
        Li, it = self.ex(g.iter, env)
        env2 = set(env)
        if isinstance(g.target, ast.Name):
            x, unpack = self.v(g.target.id), ""
            env2.add(g.target.id)
        else:
            x = self.fresh()
            unpack = self.hm_lines(self.unpack_target(g.target, x, env2))
        cond = "halways"
        if g.ifs:
            if len(g.ifs) != 1:
                die(g, "one `if` per comprehension clause")
            Lc, c = self.ex(g.ifs[0], env2)
            cond = f"(fun {x} => {unpack} {self.hm_lines(Lc)} hy_truth {c})"
        if len(gens) > 1:
            body = self.comp(gens[1:], elt, env2)
        else:
            Lb, b = self.ex(elt, env2)
            body = f"{self.hm_lines(Lb)} hret [{b}]"
        return f"({self.hm_lines(Li)} hy_comp {it} {cond} (fun {x} => {unpack} {body}))"

    def unpack_target(self, target, atom, env):
        """statement-level lines binding the names of a loop / comprehension target from the item"""
        if isinstance(target, ast.Name):
            env.add(target.id)
            return [f"{self.v(target.id)} <~ hret {atom} ;;;"]
        if isinstance(target, ast.Tuple) and 1 <= len(target.elts) <= 4:
            n = len(target.elts)
            parts = [self.fresh() for _ in target.elts]
            fn = {1: "hy_unpack1", 2: "hy_unpack2", 3: "hy_unpack3", 4: "hy_unpack4v"}[n]
            pat = parts[0] if n == 1 else "'(" + ", ".join(parts) + ")"
            lines = [f"{pat} <~ {fn} {atom} ;;;"]
            for t, a in zip(target.elts, parts):
                lines += self.unpack_target(t, a, env)
            return lines
        die(target, "loop targets: names and tuples of 1 to 4 (possibly nested) targets")

    @staticmethod
    def hm_lines(L):
        """statement-level binds `x <~ m ;;;` re-spelled as hm-level binds `x <~h m ;;;`"""
        out = []
        for l in L:
            if "<~~" in l:
                raise Reject("conditional expression inside a comprehension is not translated")
            out.append(l.replace(" <~ ", " <~h ", 1) if l.startswith("'") or " <~ " in l else l)
        return " ".join(out)

    # ---- statements
    def assigned(self, stmts):
        out = set()

        def tgt(t):
            if isinstance(t, ast.Name):
                out.add(t.id)
            elif isinstance(t, ast.Tuple):
                for x in t.elts:
                    tgt(x)
            elif isinstance(t, (ast.Attribute, ast.Subscript)):
                pass
            else:
                die(t, "unsupported assignment target")

        def walk(sts):
            for st in sts:
                if isinstance(st, ast.Assign):
                    for t in st.targets:
                        tgt(t)
                elif isinstance(st, ast.AnnAssign):
                    if st.value is not None:
                        tgt(st.target)
                elif isinstance(st, ast.If):
                    walk(st.body)
                    walk(st.orelse)
                elif isinstance(st, ast.Try):
                    walk(st.body)
                    for h in st.handlers:
                        walk(h.body)
                elif isinstance(st, ast.For):
                    if st.orelse:
                        die(st, "loop else clause")
                    walk(st.body)
                elif isinstance(st, ast.Expr):
                    if isinstance(st.value, (ast.Yield, ast.YieldFrom)):
                        out.add("acc_")
                elif isinstance(st, ast.AugAssign):
                    if not isinstance(st.target, ast.Attribute):
                        die(st, "augmented assignment: `obj.attr += e` only")
                elif isinstance(st, (ast.Return, ast.Raise, ast.Pass)):
                    pass
                else:
                    die(st, f"unsupported statement {type(st).__name__}")
        walk(stmts)
        return sorted(out)

    @staticmethod
    def always_exits(stmts):
        if not stmts:
            return False
        last = stmts[-1]
        if isinstance(last, (ast.Return, ast.Raise)):
            return True
        if isinstance(last, ast.If) and last.orelse:
            return HFn.always_exits(last.body) and HFn.always_exits(last.orelse)
        return False

    def block(self, stmts, env, tail, ind):
        pad = "  " * ind
        if not stmts:
            return pad + tail
        st, rest = stmts[0], stmts[1:]
        env = set(env)

        def cont():
            return self.block(rest, env, tail, ind)

        def lines(L, *more):
            return "\n".join([pad + x for x in list(L) + list(more)])

        if isinstance(st, ast.Expr) and isinstance(st.value, ast.Constant) and isinstance(st.value.value, str):
            return cont()
        if isinstance(st, ast.Pass):
            return cont()
        if isinstance(st, (ast.Assign, ast.AnnAssign)):
            if isinstance(st, ast.AnnAssign):
                if st.value is None:
                    return cont()
                targets, value = [st.target], st.value
            else:
                targets, value = st.targets, st.value
            if len(targets) != 1:
                die(st, "chained assignment")
            t = targets[0]
            L, a = self.ex(value, env)
            if isinstance(t, ast.Name):
                env.add(t.id)
                return lines(L, f"let {self.v(t.id)} := {a} in") + "\n" + cont()
            if isinstance(t, ast.Attribute):
                Lr, r = self.ex(t.value, env)
                return lines(L + Lr, f"_ <~ hy_setattr {r} {coq_str(t.attr)} {a} ;;;") + "\n" + cont()
            if isinstance(t, ast.Subscript) and not isinstance(t.slice, ast.Slice):
                Lr, r = self.ex(t.value, env)
                Li, i = self.ex(t.slice, env)
                return lines(L + Lr + Li, f"_ <~ hy_setitem {r} {i} {a} ;;;") + "\n" + cont()
            if isinstance(t, ast.Tuple) and len(t.elts) == 4 and all(isinstance(x, ast.Name) for x in t.elts) \
                    and a.startswith("(VTuple t"):
                names = [x.id for x in t.elts]
                for n in names:
                    env.add(n)
                inner = a[len("(VTuple "):-1]
                return lines(L, f"'({', '.join(self.v(n) for n in names)}) <~ hy_unpack4 {inner} ;;;") + "\n" + cont()
            die(st, "unsupported assignment target")
        if isinstance(st, ast.AugAssign):
            # obj.attr += e : the object expression is evaluated ONCE and first, then the old value is
            # read, then e is evaluated, then the sum is stored in that same object
            if not (isinstance(st.target, ast.Attribute) and isinstance(st.op, ast.Add)):
                die(st, "augmented assignment: `obj.attr += e` only")
            Lr, r = self.ex(st.target.value, env)
            old = self.fresh()
            L, a = self.ex(st.value, env)
            new = self.fresh()
            return lines(Lr + [f"{old} <~ hy_getattr {r} {coq_str(st.target.attr)} ;;;"] + L +
                         [f"{new} <~ hlift (py_add {old} {a}) ;;;",
                          f"_ <~ hy_setattr {r} {coq_str(st.target.attr)} {new} ;;;"]) + "\n" + cont()
        if isinstance(st, ast.Expr):
            if isinstance(st.value, ast.Call):
                L, _ = self.ex(st.value, env)
                return lines(L) + "\n" + cont()
            if isinstance(st.value, ast.Yield) and st.value.value is not None:
                L, a = self.ex(st.value.value, env)
                return lines(L, f"let v_acc_ := v_acc_ ++ [{a}] in") + "\n" + cont()
            if isinstance(st.value, ast.YieldFrom):
                L, a = self.ex(st.value.value, env)
                t = self.fresh()
                return lines(L, f"{t} <~ hy_items {a} ;;;", f"let v_acc_ := v_acc_ ++ {t} in") + "\n" + cont()
            die(st, "expression statements: docstring, call, yield, yield from")
        if isinstance(st, ast.Return):
            if self.is_gen:
                if st.value is not None:
                    die(st, "return with a value in a generator")
                return pad + "hrt (VTuple v_acc_)"
            if st.value is None:
                return pad + "hrt VNone"
            L, a = self.ex(st.value, env)
            return lines(L, f"hrt {a}")
        if isinstance(st, ast.Raise):
            e = st.exc
            name = e.func.id if isinstance(e, ast.Call) and isinstance(e.func, ast.Name) else (
                e.id if isinstance(e, ast.Name) else None)
            if name not in EXN_H:
                die(st, "raise of a known exception class only")
            return pad + f"hex {name}"
        if isinstance(st, ast.If):
            L, c = self.ex(st.test, env)
            tb = self.fresh()
            L.append(f"{tb} <~ hy_truth {c} ;;;")
            if self.always_exits(st.body) and not st.orelse:
                thn = self.block(st.body, env, "hex ModelError", ind + 1)
                return "\n".join([pad + x for x in L] + [pad + f"if {tb} then (", thn, pad + ") else (",
                                                          self.block(rest, env, tail, ind + 1), pad + ")"])
            av = self.assigned(st.body + st.orelse)
            pre = [f"let {self.v(x)} := VNone in" for x in av if x not in env]
            inner_tail = f"hnx {self.pat(av)}"
            thn = self.block(st.body, env, inner_tail, ind + 1)
            els = self.block(st.orelse, env, inner_tail, ind + 1)
            env |= set(av)
            return "\n".join([pad + x for x in L + pre] +
                             [pad + f"{self.lam_pat(av)} <~~ (if {tb} then (", thn, pad + ") else (", els,
                              pad + ")) ;;;", cont()])
        if isinstance(st, ast.For):
            av = self.assigned(st.body)
            pre = [f"let {self.v(x)} := VNone in" for x in av if x not in env]
            L, it = self.ex(st.iter, env)
            env_in = env | set(av)
            env_body = set(env_in)
            if isinstance(st.target, ast.Name):
                x, unpack = self.v(st.target.id), []
                env_body.add(st.target.id)
            else:
                x = self.fresh()
                unpack = self.unpack_target(st.target, x, env_body)
            body = self.block(st.body, env_body, f"hnx {self.pat(av)}", ind + 2)
            env |= set(av)
            return "\n".join([pad + y for y in L + pre] +
                             [pad + f"{self.lam_pat(av)} <~~ hy_for {it} (fun {x} {self.lam_pat(av)} =>"] +
                             [pad + "    " + u for u in unpack] +
                             [body, pad + f"  ) {self.pat(av)} ;;;", cont()])
        if isinstance(st, ast.Try):
            if st.orelse or st.finalbody or len(st.handlers) != 1:
                die(st, "try: one except clause, no else / finally")
            h = st.handlers[0]
            if not (isinstance(h.type, ast.Name) and h.type.id in EXN_H) or h.name is not None:
                die(st, "except: one known exception class, no binding")
            av = self.assigned(st.body + h.body)
            pre = [f"let {self.v(x)} := VNone in" for x in av if x not in env]
            inner_tail = f"hnx {self.pat(av)}"
            body = self.block(st.body, env, inner_tail, ind + 1)
            hnd = self.block(h.body, env, inner_tail, ind + 1)
            env |= set(av)
            return "\n".join([pad + x for x in pre] +
                             [pad + f"{self.lam_pat(av)} <~~ htry (", body, pad + f") {h.type.id} (", hnd,
                              pad + ") ;;;", cont()])
        die(st, f"unsupported statement {type(st).__name__}")

    def emit(self):
        env = set(self.params)
        end = "hrt (VTuple v_acc_)" if self.is_gen else "hrt VNone"
        body = self.block(list(self.node.body), env | ({"acc_"} if self.is_gen else set()), end, 2)
        if self.is_gen:
            body = "    let v_acc_ := @nil pv in\n" + body
        name = self.tr.mangle(self)
        params = " ".join(f"({self.v(p)} : pv)" for p in self.params)
        head = f"(* {self.tr.qual(self)}{' [property]' if self.is_property else ''}{' [generator: returns the tuple of yielded items]' if self.is_gen else ''} *)\n"
        if self.recursive:
            return (head + f"Fixpoint {name} (fuel : nat) {params} {{struct fuel}} : hm pv :=\n"
                    f"  match fuel with\n  | O => hraise ModelError\n  | S fuel' =>\n    hfn_result (S:=unit) (\n{body}\n    )\n  end.\n")
        fuel = "(fuel : nat) " if self.tr.fuelled[self.tr.key(self)] else ""
        return head + f"Definition {name} {fuel}{params} : hm pv :=\n  hfn_result (S:=unit) (\n{body}\n  ).\n"


class HTranslator:
    def __init__(self, repo: Path):
        p = repo / "docx2python" / MODULE
        try:
            tree = ast.parse(p.read_text(encoding="utf-8"), filename=str(p))
        except (OSError, SyntaxError) as ex:
            raise Reject(f"cannot parse {p}: {ex}")
        cls = [n for n in tree.body if isinstance(n, ast.ClassDef) and n.name == CLASS]
        if len(cls) != 1:
            raise Reject(f"class {CLASS} not found exactly once")
        self.nodes = {}
        for m in METHODS:
            c = [n for n in cls[0].body if isinstance(n, ast.FunctionDef) and n.name == m]
            if len(c) != 1:
                raise Reject(f"{CLASS}.{m} not found exactly once")
            self.nodes[m] = c[0]
        self.methods = set(METHODS)
        self.properties = {m for m, n in self.nodes.items()
                           if any(isinstance(d, ast.Name) and d.id == "property" for d in n.decorator_list)}
        self.fns = {m: HFn(self, n) for m, n in self.nodes.items()}
        # fuel: a method needs it when it is recursive or calls one that needs it (fixpoint)
        self.fuelled = {m: f.recursive for m, f in self.fns.items()}
        changed = True
        while changed:
            changed = False
            for m, n in self.nodes.items():
                if self.fuelled[m]:
                    continue
                for x in ast.walk(n):
                    if isinstance(x, ast.Attribute) and isinstance(x.value, ast.Name) and x.value.id == "self" \
                            and x.attr in self.methods and self.fuelled.get(x.attr):
                        self.fuelled[m] = True
                        changed = True

    def mangle(self, fn):
        return mangle(fn.node.name)

    def qual(self, fn):
        return f"{CLASS}.{fn.node.name}"

    def key(self, fn):
        return fn.node.name

    def str_text(self, fn, atom):
        return f"hlift (py_str {atom})"

    def call_text(self, caller: HFn, callee: str, args):
        f = self.fns[callee]
        if callee not in self.emitted and callee != caller.node.name:
            raise Reject(f"{caller.node.name} calls {callee}, which is translated later: reorder METHODS")
        npar = len(f.params)
        if len(args) < npar - len(f.defaults) or len(args) > npar:
            raise Reject(f"wrong number of arguments in a call of {callee}")
        if len(args) < npar:
            args = args + f.defaults[len(f.defaults) - (npar - len(args)):]
        fuel = ""
        if self.fuelled[callee]:
            fuel = "fuel' " if (callee == caller.node.name and caller.recursive) else "fuel "
        return f"{mangle(callee)} {fuel}{' '.join(args)}"

    def run(self):
        out = ["(* GENERATED by tools/gen_source_heap.py from /repo's source text - do not edit *)",
               "From Coq Require Import List NArith ZArith Bool.",
               "From D2P Require Import Str Err PyVal PyHeap.",
               "Import ListNotations.", "Open Scope pyh_scope.", "", f"(* ===== {MODULE}: class {CLASS} ===== *)"]
        self.emitted = set()
        for m in METHODS:
            self.emit_or_skip(out, m)
        return "\n".join(out) + "\n"

    def emit_or_skip(self, out, m):
        """a method outside the fragment is left out, with the reason as a comment (and so, in turn, are the
        methods that call it): the proofs about the missing definitions fail, the others stay checked"""
        try:
            out.append(self.fns[m].emit())
            self.emitted.add(m)
        except Reject as ex:
            msg = str(ex).replace("*)", "* )").replace("(*", "( *").replace('"', "'")
            print(f"gen_source_heap: REJECTED {CLASS}.{m}: {ex}", file=sys.stderr)
            out.append(f"(* REJECTED {CLASS}.{m}: {msg} *)\n")


# ---------------------------------------------------------------------------------------------
# third output: the paragraph / run methods of DepthCollector (gen/SourceHeapRuns.v, on top of SourceHeap.v)
RUN_METHODS = ["commence_paragraph", "_open_par", "_open_runs", "_open_run", "commence_run", "conclude_run",
               "escape", "add_text_into_open_run", "add_code_into_open_run", "insert_text_as_new_run",
               "queue_run_for_next_paragraph"]
RUN_DATACLASSES = ["Run", "Par"]
# untranslated functions called by these methods: parameters (Section variables) of the generated file
RUN_EXT_FNS = {"get_paragraph_formatting": 2, "get_run_formatting": 2, "get_pStyle": 1}


class RunsTranslator(HTranslator):
    def __init__(self, repo: Path):
        global METHODS
        base = list(METHODS)
        saved = METHODS
        METHODS = base + RUN_METHODS
        try:
            super().__init__(repo)
        finally:
            METHODS = saved
        self.base = base
        self.ext_fns = dict(RUN_EXT_FNS)
        self.ext_used = set()
        p = repo / "docx2python" / MODULE
        tree = ast.parse(p.read_text(encoding="utf-8"), filename=str(p))
        self.dataclasses = {}
        for name in RUN_DATACLASSES:
            cls = [n for n in tree.body if isinstance(n, ast.ClassDef) and n.name == name]
            if len(cls) != 1:
                raise Reject(f"class {name} not found exactly once")
            if not any(ast.unparse(d) in ("dataclasses.dataclass", "dataclass") for d in cls[0].decorator_list):
                raise Reject(f"class {name} is not a plain @dataclass")
            fields = []      # (name, kind, default)  kind: 'req' | 'const' | 'list' | 'noinit'
            for st in cls[0].body:
                if isinstance(st, ast.AnnAssign) and isinstance(st.target, ast.Name):
                    if st.value is None:
                        fields.append((st.target.id, "req", None))
                    elif isinstance(st.value, ast.Constant) and isinstance(st.value.value, str):
                        fields.append((st.target.id, "const", f"(VStr {coq_str(st.value.value)})"))
                    elif ast.unparse(st.value) == "dataclasses.field(default_factory=list)":
                        fields.append((st.target.id, "list", None))
                    elif ast.unparse(st.value) == "dataclasses.field(init=False)":
                        fields.append((st.target.id, "noinit", None))
                    else:
                        die(st, f"dataclass field default of {name}.{st.target.id} is not translated")
                elif isinstance(st, ast.Assign):
                    die(st, f"class attribute in dataclass {name}")
            seen_default = False
            for _, kind, _ in fields:
                if kind in ("const", "list"):
                    seen_default = True
                elif kind == "req" and seen_default:
                    raise Reject(f"dataclass {name}: required field after a defaulted one")
            post = [n for n in cls[0].body if isinstance(n, ast.FunctionDef) and n.name == "__post_init__"]
            noinit = [f for f, k, _ in fields if k == "noinit"]
            if noinit:
                # every init=False field must be assigned unconditionally at the top level of __post_init__
                done = set()
                if post:
                    for st in post[0].body:
                        if isinstance(st, ast.Assign) and len(st.targets) == 1 and isinstance(st.targets[0], ast.Attribute) \
                                and isinstance(st.targets[0].value, ast.Name) and st.targets[0].value.id == "self":
                            done.add(st.targets[0].attr)
                if set(noinit) - done:
                    raise Reject(f"dataclass {name}: init=False field not set by __post_init__")
            self.dataclasses[name] = (fields, post[0] if post else None)

    def construct_text(self, caller, name, args, go, eff):
        fields, _ = self.dataclasses[name]
        init = [(f, k, d) for f, k, d in fields if k != "noinit"]
        if len(args) > len(init):
            die(args[0], f"too many arguments for {name}(...)")
        vals = [go(a) for a in args]
        for f, k, d in init[len(vals):]:
            if k == "req":
                raise Reject(f"{name}(...) without the required field {f}")
            vals.append(d if k == "const" else eff("hy_new_list []"))
        return f"S_H_new_{name} {' '.join(vals)}"

    def run(self):
        out = ["(* GENERATED by tools/gen_source_heap.py from /repo's source text - do not edit *)",
               "From Coq Require Import List NArith ZArith Bool.",
               "From D2P Require Import Str Err PyVal PyHeap SourceHeap.",
               "Import ListNotations.", "Open Scope pyh_scope.", "",
               f"(* ===== {MODULE}: dataclasses {', '.join(RUN_DATACLASSES)}; paragraph and run methods of {CLASS} ===== *)",
               "Section Ext.",
               "(* functions of text_runs.py that are not translated here: parameters *)"]
        for f, n in RUN_EXT_FNS.items():
            out.append(f"Variable ext_{f} : {' -> '.join(['pv'] * n)} -> hm pv.")
        out.append("")
        self.emitted = set(self.base)
        for name in RUN_DATACLASSES:
            fields, post = self.dataclasses[name]
            init = [f for f, k, _ in fields if k != "noinit"]
            flds = "; ".join(f"({coq_str(f)}, {'VNone' if k == 'noinit' else 'v_' + f})" for f, k, _ in fields)
            params = " ".join(f"(v_{f} : pv)" for f in init)
            if post is not None:
                fn = HFn(self, post)
                self.fuelled["__post_init__"] = False
                text = fn.emit().replace("S_H_post_init", f"S_H_{name}_post_init").replace(
                    f"(* {CLASS}.__post_init__", f"(* {name}.__post_init__")
                out.append(text)
                out.append(f"(* {name}(...): allocate the object, then __post_init__ *)\n"
                           f"Definition S_H_new_{name} {params} : hm pv :=\n"
                           f"  o <~h hy_new_obj {coq_str(name)} [{flds}] ;;;\n"
                           f"  _ <~h S_H_{name}_post_init o ;;;\n  hret o.\n")
            else:
                out.append(f"(* {name}(...): allocate the object *)\n"
                           f"Definition S_H_new_{name} {params} : hm pv :=\n"
                           f"  hy_new_obj {coq_str(name)} [{flds}].\n")
        for m in RUN_METHODS:
            self.emit_or_skip(out, m)
        out.append("End Ext.")
        return "\n".join(out) + "\n"


# ---------------------------------------------------------------------------------------------
# second output: the string views in heap mode (freshness of what they return, C14)
VIEWS_SPEC = [
    ("text_runs.py", ["html_open", "html_close"]),
    ("depth_collector.py", ["Run.__str__", "Par.run_strings", "get_par_strings"]),
    ("docx_output.py", ["_join_runs"]),
    ("iterators.py", ["enum_at_depth", "get_html_map"]),
]


class ViewsTranslator:
    """module-level functions and methods of small classes, translated with the heap embedding"""

    def __init__(self, repo: Path):
        self.repo = repo
        self.fns = {}            # key (qualified python name) -> HFn
        self.functions = set()   # names of translated module-level functions
        self.methods = set()
        self.properties = set()
        self.foreign_properties = {}   # attribute name -> key
        self.fuelled = {}
        self.emitted = set()
        self.str_classes = []
        self.quals = {}

    def mangle(self, fn):
        return "S_HV_" + self.quals[id(fn)].replace(".", "_").replace("__", "_").strip("_")

    def qual(self, fn):
        return self.quals[id(fn)]

    def key(self, fn):
        return self.quals[id(fn)]

    def str_text(self, fn, atom):
        if atom.startswith("(VTuple"):
            return f"hy_str {atom}"          # str() of a tuple display: Python's repr of a tuple of ints
        return f"S_HV_str {atom}" if self.str_classes else f"hlift (py_str {atom})"

    def call_text(self, caller, callee, args):
        if callee == caller.node.name and caller.recursive:
            if len(args) != len(caller.params):
                raise Reject(f"wrong number of arguments in a call of {callee}")
            return f"{self.mangle(caller)} fuel' {' '.join(args)}"
        if callee not in self.fns:
            raise Reject(f"call of {callee}, which is not translated (yet)")
        f = self.fns[callee]
        if len(args) != len(f.params):
            raise Reject(f"wrong number of arguments in a call of {callee}")
        fuel = "fuel " if self.fuelled[self.quals[id(f)]] else ""
        return f"{self.mangle(f)} {fuel}{' '.join(args)}"

    def run(self):
        out = ["(* GENERATED by tools/gen_source_heap.py from /repo's source text - do not edit *)",
               "From Coq Require Import List NArith ZArith Bool.",
               "From D2P Require Import Str Err PyVal PyHeap.",
               "Import ListNotations.", "Open Scope pyh_scope.", ""]
        for mod, names in VIEWS_SPEC:
            p = self.repo / "docx2python" / mod
            try:
                tree = ast.parse(p.read_text(encoding="utf-8"), filename=str(p))
            except (OSError, SyntaxError) as ex:
                raise Reject(f"cannot parse {p}: {ex}")
            out.append(f"(* ===== {mod} ===== *)")
            for qual in names:
                parts = qual.split(".")
                body = tree.body
                if len(parts) == 2:
                    cls = [n for n in body if isinstance(n, ast.ClassDef) and n.name == parts[0]]
                    if len(cls) != 1:
                        raise Reject(f"{mod}: class {parts[0]} not found exactly once")
                    body = cls[0].body
                cands = [n for n in body if isinstance(n, ast.FunctionDef) and n.name == parts[-1]
                         and not any(isinstance(d, ast.Name) and d.id == "overload" for d in n.decorator_list)]
                if len(cands) != 1:
                    raise Reject(f"{mod}: {qual} not found exactly once")
                cands = [n for n in cands if not any(isinstance(d, ast.Name) and d.id == "overload" for d in n.decorator_list)] or cands
                fn = HFn(self, cands[0])
                self.quals[id(fn)] = qual
                callees = {n.func.id for n in ast.walk(cands[0]) if isinstance(n, ast.Call) and isinstance(n.func, ast.Name)}
                self.fuelled[qual] = fn.recursive or fn.uses_deepcopy or any(
                    self.fuelled.get(c) for c in callees if c in self.fns and c != cands[0].name)
                self.functions.add(cands[0].name) if len(parts) == 1 else None
                text = fn.emit()
                self.fns[qual] = fn
                if len(parts) == 1:
                    self.functions.add(qual)
                    self.fns[parts[0]] = fn
                elif fn.is_property:
                    self.foreign_properties[parts[-1]] = qual
                out.append(text)
                if len(parts) == 2 and parts[1] == "__str__":
                    self.str_classes.append(parts[0])
                    arms = " else ".join(
                        f"if str_eqb c {coq_str(c)} then {self.mangle(self.fns[c + '.__str__'])} v" for c in self.str_classes)
                    out.append("(* str(x): dispatch on the class of the object x refers to *)\n"
                               "Definition S_HV_str (v : pv) : hm pv := fun h =>\n"
                               "  match v with\n"
                               "  | VRef a => match h_get a h with\n"
                               f"              | Some (HObj c _) => ({arms} else hraise TypeError) h\n"
                               "              | _ => HErr TypeError h\n"
                               "              end\n"
                               "  | _ => hlift (py_str v) h\n"
                               "  end.\n")
        return "\n".join(out) + "\n"


def write(out: Path, make):
    try:
        text = make()
    except Reject as ex:
        print(f"gen_source_heap: REJECTED ({out.name}): {ex}", file=sys.stderr)
        from gen_source import write_stub
        write_stub(out, str(ex))
        return 2
    if not out.exists() or out.read_text() != text:
        out.parent.mkdir(parents=True, exist_ok=True)
        out.write_text(text)
    return 0


def main():
    if len(sys.argv) not in (3, 4, 5):
        print(__doc__, file=sys.stderr)
        sys.exit(64)
    repo = Path(sys.argv[1])
    rc = write(Path(sys.argv[2]), lambda: HTranslator(repo).run())
    if len(sys.argv) >= 4:
        rc = max(rc, write(Path(sys.argv[3]), lambda: ViewsTranslator(repo).run()))
    if len(sys.argv) == 5:
        rc = max(rc, write(Path(sys.argv[4]), lambda: RunsTranslator(repo).run()))
    sys.exit(rc)


def _old_main():
    repo, out = Path(sys.argv[1]), Path(sys.argv[2])
    try:
        text = HTranslator(repo).run()
    except Reject as ex:
        print(f"gen_source_heap: REJECTED: {ex}", file=sys.stderr)
        if out.exists():
            out.unlink()
        sys.exit(2)
    if not out.exists() or out.read_text() != text:
        out.parent.mkdir(parents=True, exist_ok=True)
        out.write_text(text)
    sys.exit(0)


if __name__ == "__main__":
    main()
