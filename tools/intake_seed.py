#!/usr/bin/env python3
"""Developer aid: confirm a seeded change produced in a scratch worktree, store it
under /verif/seeded/<id>/ and run checks against it.
   tools/intake_seed.py <worktree> <seed id> <property> [props to run ... | all]"""
import json, os, shutil, subprocess, sys
wt, sid, prop = sys.argv[1], sys.argv[2], sys.argv[3]
run_props = sys.argv[4:] or [prop]
env = dict(os.environ, PYTHONPATH=wt)
def sh(cmd, **kw):
    return subprocess.run(cmd, shell=True, capture_output=True, text=True, **kw)
patch = f"{wt}/out/patch.diff"
if not os.path.exists(patch) or os.path.getsize(patch) == 0:
    sh(f"git -C {wt} diff -- docx2python > {patch}")
meta = {"id": sid, "property": prop, "ran": []}
# (no `git stash`: the stash is shared by all worktrees of a repository)
cur = sh(f"git -C {wt} diff -- docx2python").stdout
if cur.strip() != open(patch).read().strip():
    print("NOTE: working tree differs from out/patch.diff: resetting the worktree to the patch")
    sh(f"git -C {wt} checkout -- docx2python")
    a = sh(f"git -C {wt} apply {patch}")
    if a.returncode != 0:
        print("patch does not apply:", a.stderr[-300:]); sys.exit(2)
# 1. confirm: suite passes with the change, demo fails with and passes without
t = sh(f"cd {wt} && /venv/bin/python -m pytest -q -p no:cacheprovider 2>&1 | tail -1", env=env)
meta["suite_with_change"] = t.stdout.strip()
d1 = sh(f"cd {wt} && /venv/bin/python out/demo.py", env=env)
meta["demo_with_change"] = {"rc": d1.returncode, "tail": (d1.stdout + d1.stderr)[-300:]}
sh(f"git -C {wt} apply -R {patch}")
d0 = sh(f"cd {wt} && /venv/bin/python out/demo.py", env=env)
sh(f"git -C {wt} apply {patch}")
meta["demo_without_change"] = {"rc": d0.returncode, "tail": (d0.stdout + d0.stderr)[-200:]}
ok = "140 passed" in meta["suite_with_change"] and d1.returncode != 0 and d0.returncode == 0
meta["confirmed"] = ok
notes = open(f"{wt}/out/notes.md").read() if os.path.exists(f"{wt}/out/notes.md") else ""
meta["needs"] = notes[:1500]
dst = f"/verif/seeded/{sid}"
os.makedirs(dst, exist_ok=True)
shutil.copy(patch, f"{dst}/patch.diff")
shutil.copy(f"{wt}/out/demo.py", f"{dst}/demo.py")
print("confirmed:", ok, meta["suite_with_change"], d1.returncode, d0.returncode)
if ok:
    r = sh(f"/verif/tools/try_patch.sh {dst}/patch.diff {' '.join(run_props)}")
    print(r.stdout[-3000:], r.stderr[-500:])
    for line in r.stdout.splitlines():
        parts = line.split()
        if parts and parts[0].startswith("C") and len(parts) >= 2 and parts[1].startswith("rc="):
            meta["ran"].append({"check": parts[0], "rc": int(parts[1][3:]), "line": line[:300]})
    meta["caught_by"] = [x["check"] for x in meta["ran"] if x["rc"] != 0]
json.dump(meta, open(f"{dst}/meta.json", "w"), indent=1)
