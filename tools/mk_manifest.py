#!/usr/bin/env python3
"""Write /verif/MANIFEST.json (one check per property)."""
import json, subprocess
props = [json.loads(l) for l in open("/verif/properties.jsonl")]
fix_commits = subprocess.run(["git", "-C", "/repo", "log", "--format=%H %s"], capture_output=True, text=True).stdout.splitlines()
fix_commits = [l.split()[0] for l in fix_commits if " fix:" in l]
TEXT = {
 "C01": ("theorems over all element trees and environments (properties/C01.v: shape invariant of the collector by induction over the tree, no CaretDepthError) + correspondence of the nesting shapes of all 15 part attributes with /repo on generated packages and the corpus + shape oracle on /repo's values + source translation: _get_elem_depth (BFS = min distance, 1..4), get_par_strings/_join_runs, and the caret methods of DepthCollector in a heap embedding refine the model (alias stack = rightmost spine)", "8 C01"),
 "C02": ("refinement theorem: a paragraph of inline content yields exactly one record whose tokens are label + marker + the children's contributions in order; merge keeps the atom sequence (partial, counterexample proved); correspondence of all plain strings; reference-rendering oracle per paragraph + source translation: _is_content / has_content and the content-tag set equal the model; the run methods of the collector in the heap embedding (add_text_into_open_run, insert_text_as_new_run, commence_run ...) do exactly the model's run operations and touch nothing else", "8 C02"),
 "C03": ("theorems on the view functions (address-wise agreement of the three forms, concatenation of document*, text) for arbitrary nested input + correspondence of all views + the four equalities evaluated on /repo's values + source translation: get_par_strings, _join_runs, flatten_text and the 22 view attributes of DocxContent equal the model for every archive", "8 C03"),
 "C04": ("grid theorems for every tiling (n x m, duplicate / blank, agreement off merges) + END-TO-END refinement: walking a whole tbl/tr/tc/p table from any reachable state appends exactly the grid function's table, each position holding the records of the source cell covering it (GridWalk; side condition refuted without it) + correspondence + cell-by-cell grid oracle", "8 C04"),
 "C05": ("lineage theorem for every directly nested table walked from any state, free-paragraph theorem, element/style from the paragraph refinement + correspondence of lineage/style/element + oracle on /repo's records, predicates and get_headings + source translation: is_tbl/is_tr/is_tc and get_pStyle equal the model; commence_paragraph in the heap embedding stores the lineage as it is after set_caret in a new Par (frame of the caret methods proved)", "8 C05"),
 "C06": ("merge theorems (atoms preserved, idempotent - both partial with machine-checked counterexamples for each dropped hypothesis) + correspondence at run granularity + metamorphic re-splitting oracle + source translation: _is_mergeable, _is_text_or_text_math and the merge key _elem_key equal the model for every element", "8 C06"),
 "C07": ("balance theorem for every document (nested paragraphs and link bodies included), escaping theorems, vocabulary over the regenerated formatter table, switched-off properties produce no tag + correspondence of html strings + tokenizer oracle (balance, vocabulary, escapes, projection onto plain, per-character tag sets exactly those of the source run properties) + source translation: html_open/html_close, Run.__str__, Par.run_strings, DepthCollector.escape, namespace.qn and gather_Pr equal the model", "8 C07"),
 "C08": ("unbounded theorems for letters, Roman 1..3999 by kernel computation, counting rule for every history, sorted positions, marker layout + correspondence of the renderers and of list documents + oracle recomputing counts and marker text + source translation: the six renderers, _increment_list_counter, BulletGenerator.get_bullet_fmt (numId / ilvl of a paragraph) and docx_context.collect_numAttrs (the numbering table) equal the model for all arguments", "8 C08"),
 "C09": ("path-inference theorems (relative, absolute, root, own rels; the two failing classes refuted) + correspondence of file list and all attributes on re-laid-out packages + layout-invariance oracle", "8 C09"),
 "C10": ("marker theorems via the paragraph refinement (link resolved / anchor / fallback, one run, note references, note labels) + correspondence at run granularity and of utilities.get_links (regex re-implemented in Utilities.v) + oracle against relationships and get_links + relationships re-pointed through the reader render their current target", "8 C10"),
 "C11": ("theorems on the images mapping (sound, complete, missing skipped); files on disk are observed only: oracle compares folder listing and bytes; partial + file-system model (Fs.v): exactly the images are written, byte-identical, nothing else changes", "8 C11"),
 "C12": ("prefix-monotonicity theorems for run strings at comment markers, bounds of recorded ranges, mismatch outcomes (partial: single open paragraph; counterexamples proved) + correspondence of comments + anchor oracles", "8 C12"),
 "C13": ("totality theorem: local success of every element implies success of the whole walk and rendering (table-free, marker-free trees), internal errors unreachable for every input + correspondence of outcome classes on the edge stream + no-exception oracle + source translation: forms.get_checkBox_entry / get_ddList_entry equal the model for every element", "8 C13"),
 "C14": ("state-machine theorems over all histories (reads return the value, cache monotone) + correspondence of outcome sequences + purity/freshness/input-untouched oracles; partial: Python heap aliasing observed only + source translation with the heap embedding: get_par_strings / _join_runs / Par.run_strings return freshly allocated lists and modify no existing cell; mutating a result cannot change the collector's represented state", "8 C14"),
 "C15": ("theorems over all histories (outcomes, never reopened, close idempotent, exit = close) + correspondence + descriptor / reopen / exception-identity oracles; partial: OS descriptors observed only", "8 C15"),
 "C16": ("theorems on the written archive (copied members exact, rewritten members = cached trees, names, duplicate refuted, second save via merge idempotence) + member-by-member correspondence + round-trip oracles", "8 C16"),
 "C17": ("node-level commutation theorem with the forced side condition, frame theorems, trailing-newline refutation + correspondence of the written archive + paragraph-wise commutation oracle + source translation: the merge key _elem_key", "8 C17"),
 "C18": ("theorems: the whole extraction is equal under any injective renaming of namespace URIs; XML comments, PIs and inter-element whitespace are invisible to merge + walk (TriviaFacts; equation clause and prefix clause shown necessary); attribute order and other prefixes irrelevant + correspondence on six serialisation variants + invariance oracle; partial: encoding/compression live in lxml/zipfile", "8 C18"),
 "C19": ("theorems: paragraph structure independent of html setting and inline merging, html reaches the walk only through the formatter table, dup local to merged positions + correspondence of the structural projection + pairwise option oracle + the returned images mapping does not depend on the folder (Fs.v)", "8 C19"),
 "C20": ("theorems for arbitrary nested lists and all depths (complete, sorted, indexable, iter = enum, bad depth) + exhaustive small trees + wide trees compared with the model and checked directly; html map by correspondence and oracle + source translation: enum_at_depth / iter_at_depth and the eight helpers equal the model; get_html_map translated with the heap embedding never modifies a cell that existed before the call", "8 C20"),
}
PARTIAL = {"C11": "the file system itself (mkdir / open('wb') are modelled in model/Fs.v and compared with what /repo wrote)", "C14": "caller buffers / input files (freshness of the returned lists is proved for the views translated with the heap embedding, SourceFresh.v; the heap semantics of PyHeap.v is modelled)", "C15": "OS file descriptors",
           "C18": "character encoding, XML declaration, compression, timestamps (lxml / zipfile)", "C20": "copy.deepcopy is modelled (PyHeap.hy_deepcopy); that the html map does not modify its argument is proved for the source translation in the heap embedding (SourceHtmlMap.v)"}
checks = []
for p in props:
    pid = p["id"]
    txt, ref = TEXT[pid]
    note = ("trusted base: Coq 8.16.1 kernel (vm_compute, no native_compute), no axioms (every theorem prints 'Closed under the global context'), "
            "tools/gen_tables.py (tables) and tools/gen_source.py / gen_source_heap.py (Python-to-Gallina translators with the Python semantics of model/PyVal.v, PyHeap.v), "
            "extraction with ExtrOcamlBasic + 40-line OCaml driver, the Python correspondence harness (sampling); "
            "modelled not verified: lxml, zipfile, pathlib, re, copy.deepcopy, CPython.")
    if pid in PARTIAL:
        note += " PARTIAL: not in the Gallina model, observed by the harness only: " + PARTIAL[pid] + "."
    checks.append({
        "property_id": pid,
        "quick_cmd": f"./check {pid} --tier quick",
        "thorough_cmd": f"./check {pid} --tier thorough",
        "evidence_file": f"/verif/evidence/{pid}.json",
        "replay_cmd_template": f"./check {pid} --replay {{path}}",
        "engine": "coq-model+correspondence",
        "level_claimed": {"category": "proof", "text": txt, "design_ref": "DESIGN.md section " + ref},
        "level_note": note,
        "technique": "machine-checked proof in Coq 8.16 over an executable Gallina model; model tied to /repo on every run by tables and pure functions regenerated from the source text (translators, equality theorems) and by a differential correspondence check",
    })
m = {
 "version": 1,
 "setup_cmd": "make -C /verif setup",
 "hooks": {"guard": "DOCX2PYTHON_VERIF", "enable": "no hooks are needed: every observable is reachable through the public API; checks run /repo with PYTHONPATH=/repo",
           "baseline_off_cmd": "cd /repo && /venv/bin/python -m pytest -ra -q -p no:cacheprovider --timeout=900 --continue-on-collection-errors",
           "source_commits": fix_commits, "add_only": True},
 "engines": [{"name": "coq-model+correspondence", "path": "/verif/check", "serves_properties": [p["id"] for p in props],
              "kind_free_text": "Coq development (coq/), translators (tools/gen_tables.py, gen_source.py, gen_source_heap.py), extracted OCaml driver, Python differential harness (harness/)"}],
 "checks": checks,
 "not_applicable": [],
 "notes": "known findings and fix: commits are listed in /verif/known_findings.json; see DESIGN.md",
}
json.dump(m, open("/verif/MANIFEST.json", "w"), indent=1)
print(len(checks), "checks;", len(fix_commits), "fix commits")
