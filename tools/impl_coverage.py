#!/usr/bin/env python3
"""Developer aid: union of the implementation line coverage recorded in evidence/*.json
(function-body lines of /repo/docx2python executed by the checks' correspondence and oracle runs)."""
import glob, json
not_exec = None
totals = {}
for f in sorted(glob.glob("/verif/evidence/C*.json")):
    c = json.load(open(f))["coverage"].get("implementation_lines_executed")
    if not c:
        continue
    ne = {k: set(v) for k, v in c.get("not_executed", {}).items()}
    for k, v in c["per_file"].items():
        totals[k] = int(v.split("/")[1])
    if not_exec is None:
        not_exec = ne
    else:
        for k in list(not_exec):
            not_exec[k] &= ne.get(k, set())
tot = sum(totals.values())
miss = sum(len(v) for v in (not_exec or {}).values())
print(f"function-body lines executed by at least one check: {tot - miss}/{tot}")
for k in sorted(totals):
    m = sorted((not_exec or {}).get(k, set()))
    print(f"  {k}: {totals[k] - len(m)}/{totals[k]}" + (f"  never executed: {m}" if m else ""))
