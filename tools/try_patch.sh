#!/bin/bash
# Developer aid: apply a seeded change to /repo's working tree, run checks, undo.
#   tools/try_patch.sh <patch.diff> [C01 C02 ... | all]
set -u
PATCH="$1"; shift
PROPS="$*"
[ -z "$PROPS" ] || [ "$PROPS" = "all" ] && PROPS="C01 C02 C03 C04 C05 C06 C07 C08 C09 C10 C11 C12 C13 C14 C15 C16 C17 C18 C19 C20"
cd /verif
git -C /repo diff --quiet || { echo "/repo working tree is dirty"; exit 2; }
git -C /repo apply "$PATCH" || { echo "patch does not apply"; exit 2; }
trap 'git -C /repo checkout -- . ; rm -rf /verif/evidence.try' EXIT
mkdir -p /verif/evidence.try
for p in $PROPS; do
  cp evidence/$p.json evidence.try/ 2>/dev/null
  s=$(date +%s)
  out=$(./check $p --tier quick 2>&1); rc=$?
  e=$(date +%s)
  echo "$p rc=$rc $((e-s))s $(echo "$out" | grep VIOLATION | head -1)"
  cp evidence.try/$p.json evidence/ 2>/dev/null   # evidence must describe the unchanged tree
done
