#!/bin/bash
# compile every property file once (setup); the checks recompile their own
cd "$(dirname "$0")/../coq" || exit 1
ls properties/*.v | xargs -P8 -I{} timeout 900 coqc -Q model D2P -Q gen D2P -Q proofs D2P -Q properties D2P {} >/dev/null 2>&1
exit 0
