#!/usr/bin/env python3
"""Developer aid: write coq/properties/<P>.v from a spec listing, per theorem,
the library lemma it restates.  The statement text is copied from the lemma
(binders turned into an explicit forall) so that the property file contains
the full statement and closes it with a bare `exact lemma.`"""
import re, sys, json
from pathlib import Path
COQ = Path("/verif/coq")

def strip_comments(t):
    out, d, i = [], 0, 0
    while i < len(t):
        if t.startswith("(*", i): d += 1; i += 2
        elif t.startswith("*)", i) and d: d -= 1; i += 2
        else:
            if d == 0: out.append(t[i])
            i += 1
    return "".join(out)

def statement(lib, lemma):
    text = strip_comments((COQ / "proofs" / f"{lib}.v").read_text())
    m = re.search(rf"^\s*(?:Lemma|Theorem|Corollary|Example)\s+{re.escape(lemma)}\b(.*?)\.\s*\n\s*Proof\.", text, flags=re.S | re.M)
    if not m:
        sys.exit(f"cannot find {lemma} in {lib}.v")
    hdr = m.group(1)
    depth = 0
    for i, ch in enumerate(hdr):
        if ch in "([{": depth += 1
        elif ch in ")]}": depth -= 1
        elif ch == ":" and depth == 0 and hdr[i:i+2] != ":=":
            binders, stmt = hdr[:i].strip(), hdr[i+1:].strip()
            break
    else:
        sys.exit(f"no colon in header of {lemma}")
    if binders:
        stmt = f"forall {binders},\n  {stmt}"
    return stmt

def main(spec_path):
    spec = json.loads(Path(spec_path).read_text())
    prop = spec["property"]
    L = [f"(* {prop} — {spec['title']}.", "   Statements only (copied from the lemma libraries); every proof is a bare",
         "   `exact`; see the cited files in coq/proofs for the proofs. *)"]
    L.append(spec.get("imports", "From Coq Require Import List NArith ZArith Bool Arith Sorting.Sorted Sorting.Permutation."))
    L.append(f"From D2P Require Import {spec['require']}.")
    L.append("Import ListNotations.")
    for pre in spec.get("preamble", []):
        L.append(pre)
    L.append("")
    for th in spec["theorems"]:
        L.append(f"(* {th['comment']} *)")
        st = statement(th['lib'], th['lemma'])
        if th.get("section_binders"):
            # the lemma is stated inside a Section: the variables it uses become leading binders
            st = f"forall {th['section_binders']},\n  {st}"
        L.append(f"Theorem {th['name']} :\n  {st}.")
        L.append(f"Proof. exact {th['lemma']}. Qed.")
        L.append(f"Print Assumptions {th['name']}.")
        L.append("")
    (COQ / "properties" / f"{prop}.v").write_text("\n".join(L))

main(sys.argv[1])
