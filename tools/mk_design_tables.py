#!/usr/bin/env python3
"""Regenerate the machine-derived sections of DESIGN.md (between markers):
theorems per property, findings, seeded changes."""
import json, glob, os, re
V="/verif"
def theorems():
    out=["### 8.0 As built: the theorems in `coq/properties/Cxx.v`\n",
         "Every theorem below is stated in full in the property file, closed by `exact <lemma>` and reported *Closed under the global context* by `Print Assumptions`. `_partial` = proved under hypotheses the faithful model forced; `_refuted` / `counterexample` = the unrestricted statement is false of the model (and of the code), with a machine-checked witness.\n"]
    for f in sorted(glob.glob(f"{V}/coq/properties/specs/C*.json")):
        d=json.load(open(f))
        out.append(f"**{d['property']}** — {d['title']}\n")
        for t in d["theorems"]:
            out.append(f"* `{t['name']}` (`{t['lib']}.{t['lemma']}`): {t['comment']}")
        out.append("")
    for p,lib in (("C01","ShapeFacts"),("C03","ViewFacts"),("C07","TokFacts"),("C08","NumFmtFacts, BulletsFacts"),("C20","IterFacts / IterProps")):
        text=open(f"{V}/coq/properties/{p}.v").read()
        names=re.findall(r"^Theorem (\w+)",text,flags=re.M)
        out.append(f"**{p}** (hand-written property file, lemmas from {lib}): " + ", ".join(f"`{n}`" for n in names)+"\n")
    return "\n".join(out)
def findings():
    d=json.load(open(f"{V}/known_findings.json"))
    out=["### 9.1 Outcome of every deviation (from `known_findings.json`)\n","| status | property | id / commit | what |","|---|---|---|---|"]
    for f in d["findings"]:
        ident=f.get("commit") if f["status"]=="fixed" else f.get("id")
        out.append(f"| {f['status']} | {f['property']} | `{ident}` | {f['what'].replace('|','/')} |")
    return "\n".join(out)+"\n"
def seeded():
    out=["| seeded change | property | needs | confirmed (suite passes, demo fails/passes) | checks run → caught by |","|---|---|---|---|---|"]
    for m in sorted(glob.glob(f"{V}/seeded/*/meta.json")):
        d=json.load(open(m))
        needs=(d.get("summary") or "").replace("|","/")
        ran=", ".join(f"{x['check']}{'✓' if x['rc'] else '✗'}" for x in d.get("ran",[]))
        out.append(f"| `{d['id']}` | {d['property']} | {needs} | {d.get('confirmed')} | {ran} → **{', '.join(d.get('caught_by',[])) or 'missed'}** |")
    return "\n".join(out)+"\n"
s=open(f"{V}/DESIGN.md").read()
for tag,fn in (("THEOREMS",theorems),("FINDINGS",findings),("SEEDED",seeded)):
    a,b=f"<!-- BEGIN {tag} -->",f"<!-- END {tag} -->"
    if a in s:
        s=s[:s.index(a)+len(a)]+"\n"+fn()+"\n"+s[s.index(b):]
open(f"{V}/DESIGN.md","w").write(s)
