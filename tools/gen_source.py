#!/usr/bin/env python3
"""Source translator: regenerate coq/gen/Source.v from the Python SOURCE TEXT of the
pure functions of /repo/docx2python (never imports them).

Every listed function is translated, statement by statement, into a Gallina function over
the dynamically typed universe `pv` of model/PyVal.v (shallow embedding: Python locals become
Gallina binders, loops become the `py_for` / `py_while` combinators threading the variables
assigned in the loop, `return` / `raise` become the `Rt` / `Ex` outcomes, a generator is a
function with a hidden accumulator of yielded items).  proofs/SourceFacts.v proves each
generated function equal to the hand-written model's function for ALL arguments.

Fail-closed: any construct outside the fragment below -> exit status 2, no output file.
The fragment (and with it the trusted part of this translator) is described in DESIGN.md 4.4.

usage: gen_source.py <repo_root> <out.v>
"""
from __future__ import annotations

import ast
import sys
from pathlib import Path

sys.path.insert(0, str(Path(__file__).resolve().parent))


class Reject(Exception):
    pass


def die(node, msg):
    raise Reject(f"line {getattr(node, 'lineno', '?')}: {msg}")


# (module, [names]) in generation order; "Class.method" for methods / properties
SPEC = [
    ("numbering_formats.py", ["ROMAN_SUBS", "lower_letter", "upper_letter", "lower_roman",
                              "upper_roman", "decimal", "bullet"]),
    ("text_runs.py", ["html_open", "html_close"]),
    ("depth_collector.py", ["Run.__str__", "Par.run_strings", "get_par_strings", "DepthCollector.escape"]),
    ("docx_output.py", ["_join_runs"]),
    ("iterators.py", ["enum_at_depth", "iter_at_depth", "iter_tables", "iter_rows", "iter_cells",
                      "iter_paragraphs", "enum_tables", "enum_rows", "enum_cells",
                      "enum_paragraphs"]),
    ("docx_text.py", ["flatten_text"]),
    ("bullets_and_numbering.py", ["_increment_list_counter"]),
    ("docx_text.py", ["_get_elem_depth"]),
    ("attribute_register.py", ["_CONTENT_TAGS", "_is_content", "has_content"]),
    ("merge_runs.py", ["_MERGEABLE_TAGS", "_is_mergeable", "_elem_key", "_is_text_or_text_math"]),
    ("iterators.py", ["is_tbl", "is_tr", "is_tc"]),
    ("namespace.py", ["qn"]),
    ("text_runs.py", ["_gather_sub_vals", "gather_Pr", "get_pStyle"]),
    ("namespace.py", ["get_attrib_by_qn", "iterfind_by_qn"]),
    ("forms.py", ["get_checkBox_entry", "get_ddList_entry"]),
    ("bullets_and_numbering.py", ["BulletGenerator._get_numPr", "BulletGenerator._get_numId", "BulletGenerator._get_ilvl",
                                  "BulletGenerator.get_bullet_fmt"]),
    ("namespace.py", ["find_by_qn", "findall_by_qn"]),
    ("docx_context.py", ["NumIdAttrs", "collect_numAttrs"]),
    ("docx_output.py", ["DocxContent._get_pars", "DocxContent.header_pars", "DocxContent.footer_pars", "DocxContent.officeDocument_pars", "DocxContent.body_pars", "DocxContent.footnotes_pars", "DocxContent.endnotes_pars", "DocxContent.document_pars", "DocxContent.header_runs", "DocxContent.footer_runs", "DocxContent.officeDocument_runs", "DocxContent.body_runs", "DocxContent.footnotes_runs", "DocxContent.endnotes_runs", "DocxContent.document_runs", "DocxContent.header", "DocxContent.footer", "DocxContent.officeDocument", "DocxContent.body", "DocxContent.footnotes", "DocxContent.endnotes", "DocxContent.document", "DocxContent.text"]),
    ("attribute_register.py", ["_format_just_return_tag", "_format_strike", "_format_vertAlign", "_format_smallCaps", "_format_caps", "_format_highlight", "_format_sz", "_format_color", "_format_heading"]),
]

EXN = {"ValueError", "KeyError", "IndexError", "TypeError", "AttributeError", "StopIteration"}
KNOWN_GLOBALS = {"ascii_lowercase": "ascii_lowercase"}
BUILTINS = {"divmod": ("py_divmod", 2), "len": ("py_len", 1), "enumerate": ("py_enumerate", 1),
            "reversed": ("py_reversed", 1), "list": ("py_list", 1), "tuple": ("py_tuple", 1),
            "int": ("py_int", 1)}
# calls on lxml elements, modelled as reads of the element object (VObj "Element"): trusted mapping
EXTERNAL = {"get_prefixed_tag": "ptag", "get_localname": "localname"}
# functions of other modules that are NOT translated: they become explicit function parameters
# `ext_<name>` of every translated function that (transitively) calls them
EXTERNAL_FN = {"get_html_formatting": 2, "find_parent_by_qn": 2, "files_of_type": 2}
# methods of untranslated objects, called as obj.m(args): parameters `ext_<m>` applied to the receiver and the arguments
EXTERNAL_METHODS = {"files_of_type": 1}
METHODS = {("join", 1): "py_join", ("replace", 2): "py_replace", ("upper", 0): "py_upper",
           ("split", 0): "py_split_ws", ("get", 1): "py_dict_get", ("get", 2): "py_dict_get2",
           ("split", 1): "py_split_on", ("iterfind", 1): "py_iterfind",
           ("find", 1): "py_find", ("findall", 1): "py_findall"}
CMP = {ast.Lt: "py_lt", ast.Gt: "py_gt", ast.LtE: "py_le", ast.GtE: "py_ge", ast.Eq: "py_eq",
       ast.NotEq: "py_ne"}
BIN = {ast.Add: "py_add", ast.Sub: "py_sub", ast.Mult: "py_mul"}


def coq_str(s: str) -> str:
    body = ";".join(str(ord(c)) for c in s)
    shown = "".join(c if 32 <= ord(c) < 127 and c not in '*()"' else "?" for c in s)
    return f"([{body}]%N (* {shown} *))"


def mangle(name: str) -> str:
    return "S_" + name.replace(".", "_").replace("__", "_")


class Fn:
    """translation of one function body"""

    def __init__(self, tr: "Translator", qual: str, node: ast.FunctionDef, is_method: bool):
        self.tr, self.qual, self.node = tr, qual, node
        self.tmp = 0
        self.local_fns = {}      # nested function name -> {"qual", "params", "defaults", "fuel"}
        self.externals = set()   # untranslated functions called (directly or through translated callees)
        self.setlocals = {}      # local names bound to a set display of constants
        self.loop_tails = []     # what `continue` means in the innermost loop being translated
        self.params = [a.arg for a in node.args.args]
        if node.args.vararg or node.args.kwarg or node.args.kwonlyargs or node.args.posonlyargs:
            die(node, "only plain positional parameters are translated")
        def own(n0):
            """nodes of this function, not those of functions nested in it"""
            stack = list(ast.iter_child_nodes(n0))
            while stack:
                n = stack.pop()
                yield n
                if not isinstance(n, ast.FunctionDef):
                    stack.extend(ast.iter_child_nodes(n))
        own_nodes = list(own(node))
        self.is_gen = any(isinstance(n, (ast.Yield, ast.YieldFrom)) for n in own_nodes)
        self.recursive = any(isinstance(n, ast.Call) and isinstance(n.func, ast.Name)
                             and n.func.id == node.name for n in own_nodes) and not is_method
        self.has_while = any(isinstance(n, ast.While) for n in own_nodes)
        self.mutated_params = [p for p in self.params if p in self.mutation_roots(
            [st for st in node.body if not isinstance(st, ast.FunctionDef)])]
        callees = {n.func.id for n in own_nodes if isinstance(n, ast.Call)
                   and isinstance(n.func, ast.Name)}
        attrs = {n.attr for n in own_nodes if isinstance(n, ast.Attribute)}
        self.calls_fuelled = any(tr.fuelled.get(c) for c in callees if c != node.name) or \
            any(tr.fuelled.get(tr.properties[a]) for a in attrs if a in tr.properties) or \
            (any(c == "str" for c in callees) and tr.str_dispatch_fuelled)
        # functions defined inside this one: translated first, lifted to the top level; they must
        # not read the enclosing function's locals (checked), so lifting is sound
        self.inner_text = []
        for st in node.body:
            if isinstance(st, ast.FunctionDef):
                if st.decorator_list:
                    die(st, "decorated nested function")
                inner = Fn(tr, f"{qual}.{st.name}", st, False)
                bound = set(inner.params) | set(inner.assigned([x for x in st.body]))
                outer_assigned = set(self.assigned([x for x in node.body if not isinstance(x, ast.FunctionDef)]))
                captured = []
                for n in own(st):
                    if isinstance(n, ast.Name) and isinstance(n.ctx, ast.Load) and n.id not in bound \
                            and (n.id in self.params or n.id in outer_assigned) and n.id != st.name:
                        # a closure over a PARAMETER the enclosing function never re-binds: its value at the
                        # call is its value at the definition, so it can be passed as a leading argument
                        if n.id in self.params and n.id not in outer_assigned and n.id not in self.mutation_roots(
                                [x for x in node.body if not isinstance(x, ast.FunctionDef)]):
                            if n.id not in captured:
                                captured.append(n.id)
                        else:
                            die(n, f"nested function {st.name} reads {n.id} of the enclosing function")
                inner.params = captured + inner.params
                inner.captured = captured
                dfl = []
                for d in st.args.defaults:
                    if isinstance(d, ast.Constant) and isinstance(d.value, int) and not isinstance(d.value, bool):
                        dfl.append(f"(VInt ({d.value})%Z)")
                    elif isinstance(d, ast.Constant) and d.value is None:
                        dfl.append("VNone")
                    else:
                        die(d, "default of a nested function: an int constant or None")
                info = {"qual": inner.qual, "params": inner.params[len(captured):], "defaults": dfl, "fuel": inner.needs_fuel,
                        "captured": captured}
                inner.local_fns[st.name] = info
                self.local_fns[st.name] = info
                self.inner_text.append(inner.emit())
                info["exts"] = inner.ext_list
        self.needs_fuel = self.recursive or self.has_while or self.calls_fuelled or \
            any(i["fuel"] for i in self.local_fns.values())

    # ----- helpers
    def fresh(self) -> str:
        self.tmp += 1
        return f"t{self.tmp}"

    @staticmethod
    def v(name: str) -> str:
        return "v_" + name

    def pat(self, names) -> str:
        names = list(names)
        if not names:
            return "tt"
        if len(names) == 1:
            return self.v(names[0]) if names[0] != "acc_" else "acc_"
        return "(" + ", ".join(self.v(n) if n != "acc_" else "acc_" for n in names) + ")"

    def lam_pat(self, names) -> str:
        names = list(names)
        if not names:
            return "'tt"
        if len(names) == 1:
            return self.pat(names)
        return "'" + self.pat(names)

    def root_of(self, node):
        """Name at the root of a subscript chain, with the list of index expressions"""
        path = []
        while isinstance(node, ast.Subscript):
            if isinstance(node.slice, ast.Slice):
                die(node, "slices are not translated in assignment targets")
            path.append(node.slice)
            node = node.value
        if not isinstance(node, ast.Name):
            die(node, "mutation target must be a local name with subscripts")
        return node.id, list(reversed(path))

    def mutation_roots(self, stmts) -> set:
        roots = set()
        for st in stmts:
            for n in ast.walk(st):
                if isinstance(n, ast.Expr) and isinstance(n.value, ast.Call) and \
                        isinstance(n.value.func, ast.Attribute) and n.value.func.attr == "append":
                    roots.add(self.root_of(n.value.func.value)[0])
                elif isinstance(n, (ast.Assign, ast.AugAssign)):
                    tg = n.targets if isinstance(n, ast.Assign) else [n.target]
                    for t in tg:
                        if isinstance(t, ast.Subscript):
                            roots.add(self.root_of(t)[0])
                elif isinstance(n, ast.Delete):
                    for t in n.targets:
                        if not isinstance(t, ast.Name):
                            roots.add(self.root_of(t)[0])
        return roots

    def assigned(self, stmts) -> list:
        """variables (re)bound by a list of statements, in sorted order; acc_ for yields"""
        out = set()

        def tgt(t):
            if isinstance(t, ast.Name):
                out.add(t.id)
            elif isinstance(t, (ast.Tuple, ast.List)):
                for e in t.elts:
                    tgt(e)
            elif isinstance(t, ast.Subscript):
                out.add(self.root_of(t)[0])
            else:
                die(t, "unsupported assignment target")

        def walk(sts):
            for st in sts:
                if isinstance(st, ast.Assign):
                    for t in st.targets:
                        tgt(t)
                elif isinstance(st, ast.AnnAssign):
                    if st.value is not None:
                        tgt(st.target)
                elif isinstance(st, ast.AugAssign):
                    tgt(st.target)
                elif isinstance(st, ast.Delete):
                    for t in st.targets:
                        if not isinstance(t, ast.Name):
                            tgt(t)
                elif isinstance(st, ast.Expr):
                    if isinstance(st.value, (ast.Yield, ast.YieldFrom)):
                        out.add("acc_")
                    elif isinstance(st.value, ast.Call) and isinstance(st.value.func, ast.Attribute) \
                            and st.value.func.attr == "append":
                        out.add(self.root_of(st.value.func.value)[0])
                elif isinstance(st, ast.If):
                    walk(st.body)
                    walk(st.orelse)
                elif isinstance(st, (ast.For, ast.While)):
                    if st.orelse:
                        die(st, "loop else clauses are not translated")
                    walk(st.body)
                elif isinstance(st, ast.With):
                    walk(st.body)
                elif isinstance(st, ast.Try):
                    walk(st.body)
                    for h_ in st.handlers:
                        walk(h_.body)
                elif isinstance(st, (ast.Return, ast.Raise, ast.Pass, ast.FunctionDef, ast.Continue)):
                    pass
                else:
                    die(st, f"unsupported statement {type(st).__name__}")
        walk(stmts)
        return sorted(out)

    @staticmethod
    def always_exits(stmts) -> bool:
        if not stmts:
            return False
        last = stmts[-1]
        if isinstance(last, (ast.Return, ast.Raise, ast.Continue)):
            return True
        if isinstance(last, ast.If) and last.orelse:
            return Fn.always_exits(last.body) and Fn.always_exits(last.orelse)
        return False

    # ----- expressions: returns (binding lines, atom); mode 'o' (out) or 'r' (res)
    def bindline(self, mode, x, rhs):
        return f"{x} <~ {rhs} ;;;" if mode == "o" else f"{x} <- {rhs} ;;"

    def ex(self, e, env: set, mode: str):
        L = []

        def go(e) -> str:
            if isinstance(e, ast.Constant):
                if e.value is None:
                    return "VNone"
                if isinstance(e.value, bool):
                    return f"(VBool {'true' if e.value else 'false'})"
                if isinstance(e.value, int):
                    return f"(VInt ({e.value})%Z)"
                if isinstance(e.value, str):
                    return f"(VStr {coq_str(e.value)})"
                die(e, "unsupported constant")
            if isinstance(e, ast.Name):
                if e.id in env:
                    return self.v(e.id)
                if e.id in self.tr.constants:
                    return mangle(e.id)
                if e.id in KNOWN_GLOBALS:
                    return KNOWN_GLOBALS[e.id]
                die(e, f"name {e.id} is not a bound local, translated constant or known global")
            if isinstance(e, ast.BinOp):
                if type(e.op) not in BIN:
                    die(e, "unsupported binary operator")
                a, b = go(e.left), go(e.right)
                t = self.fresh()
                L.append(self.bindline(mode, t, f"{BIN[type(e.op)]} {a} {b}"))
                return t
            if isinstance(e, ast.UnaryOp) and isinstance(e.op, ast.USub) and isinstance(e.operand, ast.Constant) \
                    and isinstance(e.operand.value, int) and not isinstance(e.operand.value, bool):
                return f"(VInt (-{e.operand.value})%Z)"
            if isinstance(e, ast.BoolOp) and len(e.values) >= 2:
                # a or b / a and b: short-circuit, the value is one of the operands
                acc = go(e.values[0])
                for nxt in e.values[1:]:
                    Ln, bn = self.ex(nxt, env, "r")
                    t = self.fresh()
                    keep = f"Ok {acc}"
                    other = f"({' '.join(Ln)} Ok {bn})"
                    if isinstance(e.op, ast.Or):
                        L.append(self.bindline(mode, t, f"(if py_truth {acc} then {keep} else {other})"))
                    else:
                        L.append(self.bindline(mode, t, f"(if py_truth {acc} then {other} else {keep})"))
                    acc = t
                return acc
            if isinstance(e, ast.IfExp):
                c = go(e.test)
                La, a = self.ex(e.body, env, "r")
                Lb, b = self.ex(e.orelse, env, "r")
                t = self.fresh()
                L.append(self.bindline(mode, t, f"(if py_truth {c} then ({' '.join(La)} Ok {a}) else ({' '.join(Lb)} Ok {b}))"))
                return t
            if isinstance(e, ast.UnaryOp) and isinstance(e.op, ast.Not):
                a = go(e.operand)
                t = self.fresh()
                L.append(self.bindline(mode, t, f"py_not {a}"))
                return t
            if isinstance(e, ast.Compare):
                if len(e.ops) != 1:
                    die(e, "chained comparisons are not translated")
                op, rhs = e.ops[0], e.comparators[0]
                if isinstance(op, (ast.Is, ast.IsNot)):
                    if not (isinstance(rhs, ast.Constant) and rhs.value is None):
                        die(e, "`is` is only translated against None")
                    a = go(e.left)
                    t = self.fresh()
                    L.append(self.bindline(mode, t, f"py_is_none {a}"))
                    if isinstance(op, ast.IsNot):
                        t2 = self.fresh()
                        L.append(self.bindline(mode, t2, f"py_not {t}"))
                        return t2
                    return t
                if isinstance(op, (ast.In, ast.NotIn)) and isinstance(rhs, ast.Name) and rhs.id in self.tr.setconsts \
                        and rhs.id not in env:
                    a = go(e.left)
                    t = self.fresh()
                    L.append(self.bindline(mode, t, f"py_in_consts {a} {mangle(rhs.id)}"))
                    if isinstance(op, ast.NotIn):
                        t2 = self.fresh()
                        L.append(self.bindline(mode, t2, f"py_not {t}"))
                        return t2
                    return t
                if isinstance(op, (ast.In, ast.NotIn)) and isinstance(rhs, ast.Name) and rhs.id in self.setlocals:
                    a = go(e.left)
                    t = self.fresh()
                    L.append(self.bindline(mode, t, f"py_in_consts {a} [{'; '.join(self.setlocals[rhs.id])}]"))
                    if isinstance(op, ast.NotIn):
                        t2 = self.fresh()
                        L.append(self.bindline(mode, t2, f"py_not {t}"))
                        return t2
                    return t
                if isinstance(op, (ast.In, ast.NotIn)) and isinstance(rhs, ast.Set):
                    a = go(e.left)
                    cs = [go(x) for x in rhs.elts]
                    if any(not c.startswith("(V") for c in cs):
                        die(e, "`in` is translated against a set display of constants only")
                    t = self.fresh()
                    L.append(self.bindline(mode, t, f"py_in_consts {a} [{'; '.join(cs)}]"))
                    if isinstance(op, ast.NotIn):
                        t2 = self.fresh()
                        L.append(self.bindline(mode, t2, f"py_not {t}"))
                        return t2
                    return t
                if type(op) not in CMP:
                    die(e, "unsupported comparison")
                a, b = go(e.left), go(rhs)
                t = self.fresh()
                L.append(self.bindline(mode, t, f"{CMP[type(op)]} {a} {b}"))
                return t
            if isinstance(e, ast.Subscript):
                if isinstance(e.slice, ast.Slice):
                    if e.slice.step is not None:
                        die(e, "slice steps are not translated")
                    a = go(e.value)
                    lo = go(e.slice.lower) if e.slice.lower is not None else "VNone"
                    hi = go(e.slice.upper) if e.slice.upper is not None else "VNone"
                    t = self.fresh()
                    L.append(self.bindline(mode, t, f"py_slice {a} {lo} {hi}"))
                    return t
                a, i = go(e.value), go(e.slice)
                t = self.fresh()
                L.append(self.bindline(mode, t, f"py_index {a} {i}"))
                return t
            if isinstance(e, ast.Attribute) and isinstance(e.value, ast.Name) and e.value.id == "Tags" \
                    and "Tags" not in env:
                if e.attr not in self.tr.tags:
                    die(e, f"Tags.{e.attr} is not a member of attribute_register.Tags")
                return f"(VStr {coq_str(self.tr.tags[e.attr])})"
            if isinstance(e, ast.Attribute):
                a = go(e.value)
                t = self.fresh()
                if e.attr in self.tr.properties:
                    L.append(self.bindline(mode, t, self.call_text(self.tr.properties[e.attr], [a])))
                else:
                    L.append(self.bindline(mode, t, f"py_attr {a} {coq_str(e.attr)}"))
                return t
            if isinstance(e, (ast.Tuple, ast.List)):
                ctor = "VTuple" if isinstance(e, ast.Tuple) else "VList"
                if any(isinstance(x, ast.Starred) for x in e.elts):
                    parts = []
                    for x in e.elts:
                        if isinstance(x, ast.Starred):
                            a = go(x.value)
                            t = self.fresh()
                            L.append(self.bindline(mode, t, f"py_star {a}"))
                            parts.append(t)
                        else:
                            parts.append(f"[{go(x)}]")
                    return f"({ctor} ({' ++ '.join(parts)}))"
                return f"({ctor} [{'; '.join(go(x) for x in e.elts)}])"
            if isinstance(e, ast.JoinedStr):
                acc = None
                for piece in e.values:
                    if isinstance(piece, ast.Constant):
                        a = f"(VStr {coq_str(piece.value)})"
                    elif isinstance(piece, ast.FormattedValue):
                        if piece.conversion != -1 or piece.format_spec is not None:
                            die(e, "f-string conversions / format specs are not translated")
                        inner = go(piece.value)
                        a = self.fresh()
                        L.append(self.bindline(mode, a, f"{self.tr.str_fn(self)} {inner}"))
                    else:
                        die(e, "unsupported f-string piece")
                    if acc is None:
                        acc = a
                    else:
                        t = self.fresh()
                        L.append(self.bindline(mode, t, f"py_add {acc} {a}"))
                        acc = t
                return acc if acc is not None else "(VStr [])"
            if isinstance(e, ast.Dict) and not e.keys:
                return "(VDict None [])"
            if isinstance(e, ast.Dict) and all(isinstance(k, ast.Constant) for k in e.keys) \
                    and all(isinstance(v, ast.Constant) for v in e.values):
                keys = [k.value for k in e.keys]
                if len(set(map(repr, keys))) != len(keys):
                    die(e, "dict display with a repeated key")
                return "(VDict None [" + "; ".join(f"({go(k)}, {go(v)})" for k, v in zip(e.keys, e.values)) + "])"
            if isinstance(e, ast.Call) and isinstance(e.func, ast.Name) and e.func.id == "isinstance" and len(e.args) == 2 \
                    and isinstance(e.args[1], ast.Name) and e.args[1].id == "str" and not e.keywords:
                a = go(e.args[0])
                t = self.fresh()
                L.append(self.bindline(mode, t, f"py_is_str {a}"))
                return t
            if isinstance(e, (ast.ListComp, ast.GeneratorExp)):
                t = self.fresh()
                L.append(self.bindline(mode, t, self.comp(e.generators, e.elt, env)))
                return f"(VList {t})"
            if isinstance(e, ast.Call):
                return call(e)
            die(e, f"unsupported expression {type(e).__name__}")

        def call(e: ast.Call) -> str:
            f = e.func
            if isinstance(f, ast.Name) and f.id in self.tr.dataclasses and f.id not in env:
                # a plain dataclass: an object holding its fields (positional or keyword arguments, all required)
                fields = self.tr.dataclasses[f.id]
                vals = {}
                if len(e.args) > len(fields):
                    die(e, f"too many arguments for {f.id}(...)")
                for name, a in zip(fields, e.args):
                    vals[name] = go(a)
                for kw in e.keywords:
                    if kw.arg is None or kw.arg not in fields or kw.arg in vals:
                        die(e, f"bad keyword argument for {f.id}(...)")
                    vals[kw.arg] = go(kw.value)
                if set(vals) != set(fields):
                    die(e, f"{f.id}(...) must be given every field")
                return f"(VObj {coq_str(f.id)} [" + "; ".join(f"({coq_str(n)}, {vals[n]})" for n in fields) + "])"
            if e.keywords:
                die(e, "keyword arguments are not translated")
            if isinstance(f, ast.Name):
                if f.id == "cast":
                    if len(e.args) != 2:
                        die(e, "cast takes two arguments")
                    return go(e.args[1])
                if f.id == "any" and len(e.args) == 1 and isinstance(e.args[0], ast.GeneratorExp) \
                        and len(e.args[0].generators) == 1 and not e.args[0].generators[0].ifs:
                    g = e.args[0].generators[0]
                    it = go(g.iter)
                    x = self.fresh()
                    env2 = set(env)
                    unpack = self.unpack_target(g.target, x, env2, "r")
                    Lb, b = self.ex(e.args[0].elt, env2, "r")
                    t = self.fresh()
                    L.append(self.bindline(mode, t, f"py_any {it} (fun {x} => {' '.join(unpack)} {' '.join(Lb)} Ok {b})"))
                    return t
                args = [go(a) for a in e.args]
                t = self.fresh()
                if f.id in EXTERNAL and len(args) == 1:
                    L.append(self.bindline(mode, t, f"py_attr {args[0]} {coq_str(EXTERNAL[f.id])}"))
                    return t
                if f.id == "max" and len(args) == 2:
                    L.append(self.bindline(mode, t, f"py_max2 {args[0]} {args[1]}"))
                    return t
                if f.id == "next" and len(args) == 1:
                    L.append(self.bindline(mode, t, f"py_next {args[0]}"))
                    return t
                if f.id == "next" and len(args) == 2:
                    L.append(self.bindline(mode, t, f"py_next_default {args[0]} {args[1]}"))
                    return t
                if f.id in EXTERNAL_FN and EXTERNAL_FN[f.id] == len(args) and f.id not in env:
                    self.externals.add(f.id)
                    L.append(self.bindline(mode, t, f"ext_{f.id} {' '.join(args)}"))
                    return t
                if f.id in self.local_fns:
                    inner = self.local_fns[f.id]
                    dflt = inner["defaults"]
                    npar = len(inner["params"])
                    if len(args) < npar - len(dflt) or len(args) > npar:
                        die(e, f"wrong number of arguments for {f.id}")
                    args = args + dflt[len(dflt) - (npar - len(args)):] if len(args) < npar else args
                    fuel = ("fuel' " if self.qual == inner["qual"] else "fuel ") if inner["fuel"] else ""
                    exts = [f"ext_{x}" for x in inner.get("exts", [])]
                    self.externals |= set(inner.get("exts", []))
                    caps = []
                    for c in inner.get("captured", []):
                        if c not in env:
                            die(e, f"captured name {c} is not bound at the call of {f.id}")
                        caps.append(self.v(c))
                    L.append(self.bindline(mode, t, f"{mangle(inner['qual'])} {fuel}{' '.join(exts + caps + args)}"))
                    return t
                if f.id == "str" and len(args) == 1:
                    L.append(self.bindline(mode, t, f"{self.tr.str_fn(self)} {args[0]}"))
                elif f.id in BUILTINS and BUILTINS[f.id][1] == len(args):
                    L.append(self.bindline(mode, t, f"{BUILTINS[f.id][0]} {' '.join(args)}"))
                elif f.id in self.tr.functions or f.id == self.node.name:
                    # trailing parameters left out by the caller take their (constant) defaults
                    if f.id in self.tr.defaults:
                        npar, dfl = self.tr.defaults[f.id]
                        missing = npar - len(args)
                        if missing < 0 or missing > len(dfl):
                            die(e, f"call of {f.id} with {len(args)} arguments")
                        if missing:
                            args = args + [go(d) for d in dfl[len(dfl) - missing:]]
                    L.append(self.bindline(mode, t, self.call_text(f.id, args)))
                else:
                    die(e, f"call of {f.id} is not translated")
                return t
            if isinstance(f, ast.Attribute) and isinstance(f.value, ast.Name) and f.value.id == "self" \
                    and "self" in env and "." in self.qual \
                    and f"{self.qual.split('.')[0]}.{f.attr}" in self.tr.method_arity:
                # a call of another translated method of the same class
                mq = f"{self.qual.split('.')[0]}.{f.attr}"
                if self.tr.method_arity[mq] != len(e.args) + 1:
                    die(e, f"call of {mq} with {len(e.args)} arguments")
                args = [go(a) for a in e.args]
                exts = self.tr.ext_params.get(mq, [])
                self.externals |= set(exts)
                t = self.fresh()
                fuel = "fuel " if self.tr.fuelled.get(mq) else ""
                L.append(self.bindline(mode, t, f"{mangle(mq)} {fuel}{' '.join([f'ext_{x}' for x in exts] + [self.v('self')] + args)}"))
                return t
            if isinstance(f, ast.Attribute) and f.attr in EXTERNAL_METHODS and EXTERNAL_METHODS[f.attr] == len(e.args):
                recv = go(f.value)
                args = [go(a) for a in e.args]
                self.externals.add(f.attr)
                t = self.fresh()
                L.append(self.bindline(mode, t, f"ext_{f.attr} {recv} {' '.join(args)}"))
                return t
            if isinstance(f, ast.Attribute):
                key = (f.attr, len(e.args))
                if key not in METHODS:
                    die(e, f"method {f.attr}/{len(e.args)} is not translated")
                recv = go(f.value)
                args = [go(a) for a in e.args]
                t = self.fresh()
                L.append(self.bindline(mode, t, f"{METHODS[key]} {recv} {' '.join(args)}".rstrip()))
                return t
            die(e, "unsupported call")

        atom = go(e)
        return L, atom

    def call_text(self, fname: str, args) -> str:
        """call of a translated function (fname is the python-level qualified name)"""
        exts = self.tr.ext_params.get(fname, [])
        self.externals |= set(exts)
        args = [f"ext_{x}" for x in exts] + list(args)
        fuel = ""
        if fname == self.node.name and self.recursive:
            fuel = "fuel' "
        elif self.tr.fuelled.get(fname):
            fuel = "fuel "
        return f"{mangle(fname)} {fuel}{' '.join(args)}"

    def comp(self, gens, elt, env: set) -> str:
        """res (list pv) text of a comprehension"""
        g = gens[0]
        if g.is_async:
            die(g, "async comprehension")
        Li, it = self.ex(g.iter, env, "r")
        x = self.fresh()
        env2 = set(env)
        unpack = self.unpack_target(g.target, x, env2, "r")
        cond = "always"
        if g.ifs:
            lines = []
            atom = None
            if len(g.ifs) != 1:
                die(g, "one `if` per comprehension clause")
            lines, atom = self.ex(g.ifs[0], env2, "r")
            cond = f"(fun {x} => {' '.join(unpack)} {' '.join(lines)} Ok {atom})"
        if len(gens) > 1:
            body = self.comp(gens[1:], elt, env2)
        else:
            Lb, b = self.ex(elt, env2, "r")
            body = f"{' '.join(Lb)} Ok [{b}]"
        return f"({' '.join(Li)} py_comp {it} {cond} (fun {x} => {' '.join(unpack)} {body}))"

    def unpack_target(self, target, x: str, env: set, mode: str):
        """lines binding the names of a for / comprehension target from the item atom x"""
        if isinstance(target, ast.Name):
            env.add(target.id)
            return [f"let {self.v(target.id)} := {x} in"]
        if isinstance(target, ast.Tuple) and len(target.elts) == 2:
            a, b = self.fresh(), self.fresh()
            op = "<~" if mode == "o" else "<-"
            sep = ";;;" if mode == "o" else ";;"
            lines = [f"'({a}, {b}) {op} py_unpack2 {x} {sep}"]
            lines += self.unpack_target(target.elts[0], a, env, mode)
            lines += self.unpack_target(target.elts[1], b, env, mode)
            return lines
        die(target, "loop targets: a name or a pair (possibly nested)")

    # ----- statements
    def block(self, stmts, env: set, tail: str, ind: int) -> str:
        """Gallina text (type out S) for the statements followed by `tail`"""
        pad = "  " * ind
        if not stmts:
            return pad + tail
        st, rest = stmts[0], stmts[1:]
        env = set(env)

        def cont():
            return self.block(rest, env, tail, ind)

        if isinstance(st, ast.Expr) and isinstance(st.value, ast.Constant) and isinstance(st.value.value, str):
            return cont()                      # docstring
        if isinstance(st, ast.Pass):
            return cont()
        if isinstance(st, ast.Continue):
            if not self.loop_tails:
                die(st, "continue outside a loop")
            return pad + self.loop_tails[-1]
        if isinstance(st, (ast.Assign, ast.AnnAssign)):
            if isinstance(st, ast.AnnAssign):
                if st.value is None:
                    return cont()
                targets, value = [st.target], st.value
            else:
                targets, value = st.targets, st.value
            if len(targets) != 1:
                die(st, "chained assignment")
            t = targets[0]
            L, a = ([], "") if isinstance(value, ast.Set) else self.ex(value, env, "o")
            if isinstance(t, ast.Name) and isinstance(value, ast.Set):
                Ls = []
                items = []
                for x in value.elts:
                    Lx, ax = self.ex(x, env, "o")
                    if Lx or not ax.startswith("(V"):
                        die(st, "a set display of constants only")
                    items.append(ax)
                self.setlocals[t.id] = items
                return cont()
            if isinstance(t, ast.Name):
                env.add(t.id)
                return "\n".join([pad + l for l in L] + [pad + f"let {self.v(t.id)} := {a} in", cont()])
            if isinstance(t, ast.Tuple):
                lines = self.unpack_target(t, a, env, "o")
                return "\n".join([pad + l for l in L + lines] + [cont()])
            if isinstance(t, ast.Subscript):
                root, path = self.root_of(t)
                if root not in env:
                    die(st, f"{root} is not bound")
                P = []
                for p in path:
                    Lp, ap = self.ex(p, env, "o")
                    L += Lp
                    P.append(ap)
                L.append(f"{self.v(root)} <~ py_update_path {self.v(root)} [{'; '.join(P[:-1])}] "
                         f"(fun c_ => py_setitem c_ {P[-1]} {a}) ;;;")
                return "\n".join([pad + l for l in L] + [cont()])
            die(st, "unsupported assignment target")
        if isinstance(st, ast.AugAssign):
            if type(st.op) not in BIN:
                die(st, "unsupported augmented operator")
            L, a = self.ex(st.value, env, "o")
            if isinstance(st.target, ast.Name):
                if st.target.id not in env:
                    die(st, "augmented assignment to an unbound name")
                L.append(f"{self.v(st.target.id)} <~ {BIN[type(st.op)]} {self.v(st.target.id)} {a} ;;;")
                return "\n".join([pad + l for l in L] + [cont()])
            root, path = self.root_of(st.target)
            if root not in env:
                die(st, f"{root} is not bound")
            P = []
            for p in path:
                Lp, ap = self.ex(p, env, "o")
                L += Lp
                P.append(ap)
            L.append(f"{self.v(root)} <~ py_update_path {self.v(root)} [{'; '.join(P[:-1])}] "
                     f"(fun c_ => (old_ <- py_index c_ {P[-1]} ;; new_ <- {BIN[type(st.op)]} old_ {a} ;; "
                     f"py_setitem c_ {P[-1]} new_)) ;;;")
            return "\n".join([pad + l for l in L] + [cont()])
        if isinstance(st, ast.Delete) and all(isinstance(t, ast.Name) for t in st.targets) and ind == 2:
            # `del name` at the top level of a function: the name is unbound from here on (a later use is rejected)
            for t in st.targets:
                if t.id not in env:
                    die(st, f"del of the unbound name {t.id}")
                env.discard(t.id)
            return cont()
        if isinstance(st, ast.Delete):
            L = []
            for t in st.targets:
                root, path = self.root_of(t)
                if root not in env or not path:
                    die(st, "del of a subscript of a bound local only")
                P = []
                for p in path:
                    Lp, ap = self.ex(p, env, "o")
                    L += Lp
                    P.append(ap)
                L.append(f"{self.v(root)} <~ py_update_path {self.v(root)} [{'; '.join(P[:-1])}] "
                         f"(fun c_ => py_delitem c_ {P[-1]}) ;;;")
            return "\n".join([pad + l for l in L] + [cont()])
        if isinstance(st, ast.Expr):
            v = st.value
            if isinstance(v, ast.Yield):
                if v.value is None:
                    die(st, "bare yield")
                L, a = self.ex(v.value, env, "o")
                L.append(f"acc_ <~ py_append acc_ {a} ;;;")
                return "\n".join([pad + l for l in L] + [cont()])
            if isinstance(v, ast.YieldFrom):
                L, a = self.ex(v.value, env, "o")
                t = self.fresh()
                L.append(f"{t} <~ py_list {a} ;;;")
                L.append(f"acc_ <~ py_add acc_ {t} ;;;")
                return "\n".join([pad + l for l in L] + [cont()])
            if isinstance(v, ast.Call) and isinstance(v.func, ast.Attribute) and v.func.attr == "append" \
                    and len(v.args) == 1 and not v.keywords:
                root, path = self.root_of(v.func.value)
                if root not in env:
                    die(st, f"{root} is not bound")
                L, a = self.ex(v.args[0], env, "o")
                P = []
                for p in path:
                    Lp, ap = self.ex(p, env, "o")
                    L += Lp
                    P.append(ap)
                L.append(f"{self.v(root)} <~ py_update_path {self.v(root)} [{'; '.join(P)}] "
                         f"(fun c_ => py_append c_ {a}) ;;;")
                return "\n".join([pad + l for l in L] + [cont()])
            die(st, "expression statements: docstring, yield, yield from, x[..].append(e)")
        if isinstance(st, ast.Return):
            if self.is_gen:
                if st.value is not None:
                    die(st, "return with a value in a generator")
                return pad + "Rt acc_"
            if st.value is None:
                return pad + self.ret_text("VNone", env)
            L, a = self.ex(st.value, env, "o")
            return "\n".join([pad + l for l in L] + [pad + self.ret_text(a, env)])
        if isinstance(st, ast.Raise):
            e = st.exc
            name = None
            if isinstance(e, ast.Call) and isinstance(e.func, ast.Name):
                name = e.func.id
            elif isinstance(e, ast.Name):
                name = e.id
            if name not in EXN:
                die(st, "raise of a known exception class only")
            return pad + f"Ex {name}"
        if isinstance(st, ast.If):
            L, c = self.ex(st.test, env, "o")
            if self.always_exits(st.body) and not st.orelse:
                thn = self.block(st.body, env, "Ex ModelError", ind + 1)
                return "\n".join([pad + l for l in L] + [pad + f"if py_truth {c} then (", thn, pad + ") else (",
                                                          self.block(rest, env, tail, ind + 1), pad + ")"])
            av = self.assigned(st.body + st.orelse)
            pre = [f"let {self.pat([x])} := VNone in" for x in av if x not in env and x != "acc_"]
            inner_tail = f"Nx {self.pat(av)}"
            thn = self.block(st.body, env, inner_tail, ind + 1)
            els = self.block(st.orelse, env, inner_tail, ind + 1)
            env |= set(x for x in av if x != "acc_")
            return "\n".join([pad + l for l in L + pre] +
                             [pad + f"{self.lam_pat(av)} <~~ (if py_truth {c} then (", thn, pad + ") else (", els,
                              pad + ")) ;;;", cont()])
        if isinstance(st, ast.With) and len(st.body) == 1 and isinstance(st.body[0], ast.For) \
                and len(st.items) == 1 and st.items[0].optional_vars is None \
                and isinstance(st.items[0].context_expr, ast.Call) and isinstance(st.items[0].context_expr.func, ast.Name) \
                and st.items[0].context_expr.func.id == "suppress" and len(st.items[0].context_expr.args) == 1 \
                and isinstance(st.items[0].context_expr.args[0], ast.Name) and st.items[0].context_expr.args[0].id in EXN:
            # `with suppress(E): for x in ITER: BODY` where only the evaluation of ITER can raise E (checked:
            # BODY contains no next(), no raise and no call of a translated function that may raise E): E ends
            # the statement before the first iteration, so the variables are as they were
            exn = st.items[0].context_expr.args[0].id
            loop = st.body[0]
            for n in ast.walk(ast.Module(body=loop.body, type_ignores=[])):
                if isinstance(n, ast.Raise) or (isinstance(n, ast.Call) and isinstance(n.func, ast.Name) and (
                        n.func.id == "next" or n.func.id in self.tr.may_raise.get(exn, set()))):
                    die(st, f"the loop body under `with suppress({exn})` might raise {exn} itself")
            av = self.assigned(loop.body)
            pre = [f"let {self.pat([x])} := VNone in" for x in av if x not in env and x != "acc_"]
            Li, it = self.ex(loop.iter, env, "r")
            env_in = env | set(x for x in av if x != "acc_")
            x = self.fresh()
            env_body = set(env_in)
            unpack = self.unpack_target(loop.target, x, env_body, "o")
            self.loop_tails.append(f"Nx {self.pat(av)}")
            body = self.block(loop.body, env_body, f"Nx {self.pat(av)}", ind + 2)
            self.loop_tails.pop()
            env = env_in
            return "\n".join([pad + l for l in pre] +
                             [pad + f"{self.lam_pat(av)} <~~ py_for_suppressed ({' '.join(Li)} Ok {it}) {exn} (fun {x} {self.lam_pat(av)} =>"] +
                             [pad + "    " + l for l in unpack] +
                             [body, pad + f"  ) {self.pat(av)} ;;;", cont()])
        if isinstance(st, ast.With):
            if len(st.items) != 1 or st.items[0].optional_vars is not None:
                die(st, "with: only `with suppress(E):`")
            ce = st.items[0].context_expr
            if not (isinstance(ce, ast.Call) and isinstance(ce.func, ast.Name) and ce.func.id == "suppress"
                    and 1 <= len(ce.args) <= 3 and not ce.keywords
                    and all(isinstance(a, ast.Name) and a.id in EXN for a in ce.args)):
                die(st, "with: only `with suppress(<known exceptions>):`")
            av = self.assigned(st.body)
            used_after = {n.id for r_ in rest for n in ast.walk(r_) if isinstance(n, ast.Name)}
            if any(x in used_after for x in av if x not in env):
                die(st, "a name first bound inside `with suppress` is read after the block")
            if any(x in env for x in av) or "acc_" in av:
                die(st, "`with suppress` bodies may only bind fresh names")
            body = self.block(st.body, env, "Nx tt", ind + 1)
            if len(ce.args) > 1:
                exl = "[" + "; ".join(a.id for a in ce.args) + "]"
                return "\n".join([pad + f"'tt <~~ py_suppress_l {exl} (", body, pad + ") tt ;;;", cont()])
            return "\n".join([pad + f"'tt <~~ py_suppress {ce.args[0].id} (", body, pad + ") tt ;;;", cont()])
        if isinstance(st, ast.Try):
            # try: BODY except (E1, E2): HANDLER.  The functional state after the handler is the state BEFORE the
            # try updated by the handler; sound when every name the body binds is re-bound by the handler or is
            # not read afterwards (checked), and the body mutates nothing (checked: no mutation roots)
            if st.orelse or st.finalbody or len(st.handlers) != 1 or st.handlers[0].name is not None:
                die(st, "try: one except clause without binding, no else / finally")
            ht = st.handlers[0].type
            names = [ht] if isinstance(ht, ast.Name) else (list(ht.elts) if isinstance(ht, ast.Tuple) else None)
            if not names or not all(isinstance(n, ast.Name) and n.id in EXN for n in names):
                die(st, "except: known exception classes only")
            if self.mutation_roots(st.body):
                die(st, "a try body that mutates a container is not translated")
            av_b, av_h = self.assigned(st.body), self.assigned(st.handlers[0].body)
            if "acc_" in av_b or "acc_" in av_h:
                die(st, "yield inside try")
            used_after = {n.id for r_ in rest for n in ast.walk(r_) if isinstance(n, ast.Name)}
            for x in av_b:
                if x not in av_h and x in used_after:
                    die(st, f"{x} is bound in the try body only and read after the try statement")
            av = sorted(set(av_b) | set(av_h))
            pre = [f"let {self.pat([x])} := VNone in" for x in av if x not in env]
            env_in = env | set(av)
            body = self.block(st.body, set(env_in), f"Nx {self.pat(av)}", ind + 1)
            hnd = self.block(st.handlers[0].body, set(env_in), f"Nx {self.pat(av)}", ind + 1)
            env = env_in
            exl = "[" + "; ".join(n.id for n in names) + "]"
            sty = "unit" if not av else ("pv" if len(av) == 1 else "(" + " * ".join(["pv"] * len(av)) + ")")
            return "\n".join([pad + l for l in pre] +
                             [pad + f"{self.lam_pat(av)} <~~ py_try (S:={sty}) (", body, pad + f") {exl} (", hnd, pad + ") ;;;", cont()])
        if isinstance(st, ast.FunctionDef):
            return cont()          # nested function: lifted to the top level by emit()
        if isinstance(st, ast.While):
            av = self.assigned(st.body)
            pre = [f"let {self.pat([x])} := VNone in" for x in av if x not in env and x != "acc_"]
            env_in = env | set(x for x in av if x != "acc_")
            Lc, c = self.ex(st.test, env_in, "r")
            body = self.block(st.body, env_in, f"Nx {self.pat(av)}", ind + 2)
            env = env_in
            return "\n".join([pad + l for l in pre] +
                             [pad + f"{self.lam_pat(av)} <~~ py_while fuel (fun {self.lam_pat(av)} => {' '.join(Lc)} Ok {c})",
                              pad + f"  (fun {self.lam_pat(av)} =>", body, pad + f"  ) {self.pat(av)} ;;;", cont()])
        if isinstance(st, ast.For):
            av = self.assigned(st.body)
            pre = [f"let {self.pat([x])} := VNone in" for x in av if x not in env and x != "acc_"]
            L, it = self.ex(st.iter, env, "o")
            env_in = env | set(x for x in av if x != "acc_")
            x = self.fresh()
            env_body = set(env_in)
            unpack = self.unpack_target(st.target, x, env_body, "o")
            self.loop_tails.append(f"Nx {self.pat(av)}")
            body = self.block(st.body, env_body, f"Nx {self.pat(av)}", ind + 2)
            self.loop_tails.pop()
            env = env_in
            return "\n".join([pad + l for l in L + pre] +
                             [pad + f"{self.lam_pat(av)} <~~ py_for {it} (fun {x} {self.lam_pat(av)} =>"] +
                             [pad + "    " + l for l in unpack] +
                             [body, pad + f"  ) {self.pat(av)} ;;;", cont()])
        die(st, f"unsupported statement {type(st).__name__}")

    def ret_text(self, atom: str, env) -> str:
        if self.mutated_params:
            return f"Rt (VTuple [{atom}; {'; '.join(self.v(p) for p in self.mutated_params)}])"
        return f"Rt {atom}"

    def emit(self) -> str:
        env = set(self.params)
        body_stmts = list(self.node.body)
        end = "Rt acc_" if self.is_gen else self.ret_text("VNone", env)
        body = self.block(body_stmts, env, end, 2)
        name = mangle(self.qual)
        self.ext_list = sorted(self.externals)
        params = " ".join([f"(ext_{x} : {' -> '.join(['pv'] * EXTERNAL_FN[x])} -> res pv)" for x in self.ext_list] +
                          [f"({self.v(p)} : pv)" for p in self.params])
        head = "(* %s%s%s *)\n" % (self.qual, " [generator: returns the list of yielded items]" if self.is_gen else "",
                                   " [returns (result, %s): the mutated parameter(s) are handed back]" %
                                   ", ".join(self.mutated_params) if self.mutated_params else "")
        acc = "    let acc_ := VList [] in\n" if self.is_gen else ""
        head = "".join(t + "\n" for t in self.inner_text) + head
        if self.recursive:
            return (head + f"Fixpoint {name} (fuel : nat) {params} {{struct fuel}} : res pv :=\n"
                    f"  match fuel with\n  | O => Err ModelError\n  | S fuel' =>\n    fn_result (S:=unit) (\n{acc}{body}\n    )\n  end.\n")
        fuel = "(fuel : nat) " if self.needs_fuel else ""
        return head + f"Definition {name} {fuel}{params} : res pv :=\n  fn_result (S:=unit) (\n{acc}{body}\n  ).\n"


class Translator:
    def __init__(self, repo: Path):
        self.repo = repo
        self.functions = {}       # python name -> True (translated so far)
        self.fuelled = {}         # python-level qualified name -> bool
        self.constants = set()
        self.properties = {}      # attribute name -> qualified name of the property
        self.str_classes = []     # classes with a translated __str__
        self.tags = self.read_tags()
        self.setconsts = set()    # module constants that are sets of enum members (emitted as list pv)
        self.ext_params = {}      # python function name -> externals it needs as leading parameters
        self.defaults = {}        # function name -> (number of parameters, default expressions)
        self.method_arity = {}    # Class.method -> number of parameters (self included)
        self.rejected = []        # "module: function: reason" of every function left out
        self.dataclasses = {}     # class name -> field names (plain dataclasses without defaults or methods)
        self.may_raise = {"StopIteration": set()}   # translated functions that contain next() / raise StopIteration
        self.str_dispatch_fuelled = False
        self.out = []

    def read_tags(self) -> dict:
        p = self.repo / "docx2python" / "attribute_register.py"
        try:
            tree = ast.parse(p.read_text(encoding="utf-8"), filename=str(p))
        except (OSError, SyntaxError) as ex:
            raise Reject(f"cannot parse {p}: {ex}")
        out = {}
        for n in tree.body:
            if isinstance(n, ast.ClassDef) and n.name == "Tags":
                for st in n.body:
                    if isinstance(st, ast.Assign) and len(st.targets) == 1 and isinstance(st.targets[0], ast.Name) \
                            and isinstance(st.value, ast.Constant) and isinstance(st.value.value, str):
                        out[st.targets[0].id] = st.value.value
        if not out:
            raise Reject("attribute_register.Tags not found")
        return out

    def str_fn(self, fn: Fn) -> str:
        if self.str_classes:
            return "S_str fuel" if self.str_dispatch_fuelled else "S_str"
        return "py_str"

    def const(self, name: str, node) -> str:
        def lit(n):
            if isinstance(n, ast.Constant) and isinstance(n.value, str):
                return f"VStr {coq_str(n.value)}"
            if isinstance(n, ast.Constant) and isinstance(n.value, int) and not isinstance(n.value, bool):
                return f"VInt ({n.value})%Z"
            if isinstance(n, (ast.List, ast.Tuple)):
                ctor = "VList" if isinstance(n, ast.List) else "VTuple"
                return f"{ctor} [{'; '.join('(' + lit(x) + ')' for x in n.elts)}]"
            die(n, "module constants: literals of str / int / list / tuple")
        self.constants.add(name)
        return f"Definition {mangle(name)} : pv :=\n  {lit(node)}.\n"

    def run(self) -> str:
        self.out = ["(* GENERATED by tools/gen_source.py from /repo's source text - do not edit *)",
                    "From Coq Require Import List NArith ZArith Bool.",
                    "From D2P Require Import Str Err PyVal.",
                    "Import ListNotations.", "Open Scope py_scope.", ""]
        for mod, names in SPEC:
            p = self.repo / "docx2python" / mod
            try:
                tree = ast.parse(p.read_text(encoding="utf-8"), filename=str(p))
            except (OSError, SyntaxError) as ex:
                raise Reject(f"cannot parse {p}: {ex}")
            self.out.append(f"(* ===== {mod} ===== *)")
            for qual in names:
                # a function outside the fragment is left out (with the reason as a comment): the proofs about it -
                # and the translations of the functions that call it, rejected in turn - fail, and with them exactly
                # the property files that cite them; the other translations stay checked
                try:
                    self.out.append(self.one(tree, mod, qual))
                except Reject as ex:
                    msg = str(ex).replace("*)", "* )").replace("(*", "( *").replace('"', "'")
                    self.rejected.append(f"{mod}: {qual}: {ex}")
                    self.out.append(f"(* REJECTED {qual}: {msg} *)\n")
        return "\n".join(self.out) + "\n"

    def find(self, tree, mod, qual):
        parts = qual.split(".")
        body = tree.body
        if len(parts) == 2:
            cls = [n for n in body if isinstance(n, ast.ClassDef) and n.name == parts[0]]
            if len(cls) != 1:
                raise Reject(f"{mod}: class {parts[0]} not found exactly once")
            body = cls[0].body
        cands = [n for n in body if isinstance(n, ast.FunctionDef) and n.name == parts[-1]
                 and not any(isinstance(d, ast.Name) and d.id == "overload" for d in n.decorator_list)]
        if len(cands) == 1:
            return cands[0]
        asg = [n for n in body if isinstance(n, ast.Assign) and len(n.targets) == 1
               and isinstance(n.targets[0], ast.Name) and n.targets[0].id == parts[-1]]
        if len(asg) == 1 and not cands:
            return asg[0]
        raise Reject(f"{mod}: {qual} not found exactly once")

    def one(self, tree, mod, qual) -> str:
        cls = [n for n in tree.body if isinstance(n, ast.ClassDef) and n.name == qual]
        if len(cls) == 1:
            c = cls[0]
            if [ast.unparse(d) for d in c.decorator_list] != ["dataclasses.dataclass"] or c.bases:
                raise Reject(f"{mod}: {qual} is not a plain @dataclasses.dataclass")
            fields = []
            for st in c.body:
                if isinstance(st, ast.Expr) and isinstance(st.value, ast.Constant) and isinstance(st.value.value, str):
                    continue
                if isinstance(st, ast.AnnAssign) and isinstance(st.target, ast.Name) and st.value is None:
                    fields.append(st.target.id)
                else:
                    raise Reject(f"{mod}: dataclass {qual}: only annotated fields without defaults are translated")
            self.dataclasses[qual] = fields
            return f"(* dataclass {qual}({', '.join(fields)}): objects VObj \"{qual}\" [fields] *)\n"
        node = self.find(tree, mod, qual)
        if isinstance(node, ast.Assign) and not (isinstance(node.value, (ast.List, ast.Tuple, ast.Constant))):
            # a set of Tags members: `{Tags.A, ...}` or `set(Tags) - {...}` (same reader as the table translator)
            import gen_tables
            try:
                vals = [self.tags[n] for n in gen_tables.tags_set(node.value, self.tags)]
            except gen_tables.Reject as ex:
                raise Reject(f"{mod}: {qual}: {ex}")
            self.setconsts.add(qual)
            items = "; ".join(f"VStr {coq_str(v)}" for v in vals)
            return f"Definition {mangle(qual)} : list pv :=\n  [{items}].\n"
        if isinstance(node, ast.Assign):
            return self.const(qual, node.value)
        is_method = "." in qual
        decos = [d.id for d in node.decorator_list if isinstance(d, ast.Name)]
        for d in node.decorator_list:
            if not (isinstance(d, ast.Name) and d.id in ("property", "staticmethod")):
                die(node, f"decorator on {qual} is not translated")
        # defaults are ignored only when they are constants (callers in the translated code pass all arguments)
        for d in node.args.defaults:
            if not isinstance(d, ast.Constant):
                die(node, "non-constant default")
        fn = Fn(self, qual, node, is_method)
        text = fn.emit()
        if any(isinstance(n, ast.Call) and isinstance(n.func, ast.Name) and n.func.id == "next" for n in ast.walk(node)):
            self.may_raise["StopIteration"].add(node.name)
        self.ext_params[qual] = fn.ext_list
        if is_method:
            self.method_arity[qual] = len(node.args.args)
        if not is_method:
            self.ext_params[node.name] = fn.ext_list
            self.defaults[node.name] = (len(node.args.args), list(node.args.defaults))
        self.fuelled[qual] = fn.needs_fuel
        if not is_method:
            self.functions[qual] = True
            self.fuelled[node.name] = fn.needs_fuel
        if "property" in decos:
            self.properties[node.name] = qual
        if is_method and node.name == "__str__":
            cls = qual.split(".")[0]
            self.str_classes.append(cls)
            self.str_dispatch_fuelled = self.str_dispatch_fuelled or fn.needs_fuel
            arms = " else ".join(f"if str_eqb cls {coq_str(c)} then {mangle(c + '.__str__')}"
                                 f"{' fuel' if self.fuelled.get(c + '.__str__') else ''} v"
                                 for c in self.str_classes)
            fuel = "(fuel : nat) " if self.str_dispatch_fuelled else ""
            text += (f"(* str(x): dispatch on the class of x *)\nDefinition S_str_{len(self.str_classes)} {fuel}(v : pv) : res pv :=\n"
                     f"  match v with\n  | VObj cls _ => {arms} else Err TypeError\n  | _ => py_str v\n  end.\n"
                     f"Notation S_str := S_str_{len(self.str_classes)}.\n")
        return text


def write_stub(out: Path, msg: str):
    """The translator rejected the source: leave a file that deliberately does NOT check (so that `make` can
    still compute dependencies and every file that needs the translation fails), and remove the compiled
    form of the previous translation so that nothing stale can be loaded."""
    safe = msg.replace("*)", "* )").replace("(*", "( *").replace('"', "'")
    out.parent.mkdir(parents=True, exist_ok=True)
    out.write_text("(* GENERATED STUB: the source translator REJECTED /repo's source:\n   " + safe + "\n"
                   "   This file deliberately does not check: every proof about the translated code is broken. *)\n"
                   "Definition translator_rejected_the_source : False := I.\n")
    for suf in (".vo", ".vos", ".vok", ".glob"):
        f = out.with_suffix(suf)
        if f.exists():
            f.unlink()


def main():
    if len(sys.argv) != 3:
        print(__doc__, file=sys.stderr)
        sys.exit(64)
    repo, out = Path(sys.argv[1]), Path(sys.argv[2])
    try:
        tr = Translator(repo)
        text = tr.run()
        for r in tr.rejected:
            print(f"gen_source: REJECTED: {r}", file=sys.stderr)
    except Reject as ex:
        print(f"gen_source: REJECTED: {ex}", file=sys.stderr)
        write_stub(out, str(ex))
        sys.exit(2)
    if not out.exists() or out.read_text() != text:
        out.parent.mkdir(parents=True, exist_ok=True)
        out.write_text(text)
    sys.exit(0)


if __name__ == "__main__":
    main()
