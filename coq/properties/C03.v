(* C03 — string, run and record views agree; document and text are
   concatenations.  Statements only; proofs in proofs/ViewFacts.v. *)
From Coq Require Import List NArith.
From D2P Require Import Str Err Collector Iter Output Package Content ShapeFacts ViewFacts PyVal Source SourceBase SourceViews SourceIter SourceOutput.
Import ListNotations.

(* X_runs is get_par_strings of X_pars and X is _join_runs of X_runs, for
   every part type, archive and option setting *)
Theorem C03_runs_of_pars_attr : forall a o ty p,
  pars_of a o ty = Ok p -> runs_of a o ty = get_par_strings (o_html o) p.
Proof. exact runs_of_is_gps. Qed.
Print Assumptions C03_runs_of_pars_attr.

Theorem C03_plain_of_runs_attr : forall a o ty r,
  runs_of a o ty = Ok r -> plain_of a o ty = join_runs r.
Proof. exact plain_of_is_join. Qed.
Print Assumptions C03_plain_of_runs_attr.

(* address by address: the run strings at a paragraph address are the run
   strings of the record at the same address; an address valid in one view is
   valid in the other *)
Theorem C03_runs_of_pars : forall html t r, deep 4%nat t -> get_par_strings html t = Ok r ->
  forall addr, length addr = 4%nat ->
    match index t addr with
    | Some (RA p) => exists ss, par_run_strings html p = Ok ss /\ index r addr = Some (RL (map RA ss))
    | _ => index r addr = None
    end.
Proof. exact gps_index. Qed.
Print Assumptions C03_runs_of_pars.

(* the plain string at an address is the concatenation of the runs there *)
Theorem C03_plain_of_runs : forall r t, deep 5%nat r -> join_runs r = Ok t ->
  forall addr, length addr = 4%nat ->
    match index r addr with
    | Some (RL l) => exists ss, mapM leaf_str l = Ok ss /\ index t addr = Some (RA (concat ss))
    | _ => index t addr = None
    end.
Proof. exact join_runs_index. Qed.
Print Assumptions C03_plain_of_runs.

(* same nesting shape above the paragraphs *)
Theorem C03_same_shape_runs : forall html t r, deep 4%nat t -> get_par_strings html t = Ok r ->
  forall addr, (length addr < 4)%nat ->
    option_map (fun x => match x with RL l => length l | RA _ => 0%nat end) (index t addr)
    = option_map (fun x => match x with RL l => length l | RA _ => 0%nat end) (index r addr).
Proof. exact gps_same_shape. Qed.
Print Assumptions C03_same_shape_runs.

Theorem C03_same_shape_plain : forall r t, deep 5%nat r -> join_runs r = Ok t ->
  forall addr, (length addr < 4)%nat ->
    option_map (fun x => match x with RL l => length l | RA _ => 0%nat end) (index r addr)
    = option_map (fun x => match x with RL l => length l | RA _ => 0%nat end) (index t addr).
Proof. exact join_runs_same_shape. Qed.
Print Assumptions C03_same_shape_plain.

(* the collector's tree is a 4-deep list of records (C01), so the above applies *)
Theorem C03_pars_view_deep : forall s, tree_ok (unrev_list (c_tree s)) -> deep 4%nat (pars_view s).
Proof. exact pars_view_deep. Qed.
Print Assumptions C03_pars_view_deep.

(* document, document_runs, document_pars = header + body + footer +
   footnotes + endnotes, in that order *)
Theorem C03_document_concat : forall a o h b f fn en,
  plain_of a o s_header = Ok (RL h) -> plain_of a o s_officeDocument = Ok (RL b) ->
  plain_of a o s_footer = Ok (RL f) ->
  plain_of a o s_footnotes = Ok (RL fn) -> plain_of a o s_endnotes = Ok (RL en) ->
  document a o = Ok (RL (h ++ b ++ f ++ fn ++ en)).
Proof. exact document_is_concat. Qed.
Print Assumptions C03_document_concat.

Theorem C03_document_runs_concat : forall a o h b f fn en,
  runs_of a o s_header = Ok (RL h) -> runs_of a o s_officeDocument = Ok (RL b) ->
  runs_of a o s_footer = Ok (RL f) ->
  runs_of a o s_footnotes = Ok (RL fn) -> runs_of a o s_endnotes = Ok (RL en) ->
  document_runs a o = Ok (RL (h ++ b ++ f ++ fn ++ en)).
Proof. exact document_runs_is_concat. Qed.
Print Assumptions C03_document_runs_concat.

Theorem C03_document_pars_concat : forall a o h b f fn en,
  pars_of a o s_header = Ok (RL h) -> pars_of a o s_officeDocument = Ok (RL b) ->
  pars_of a o s_footer = Ok (RL f) ->
  pars_of a o s_footnotes = Ok (RL fn) -> pars_of a o s_endnotes = Ok (RL en) ->
  document_pars a o = Ok (RL (h ++ b ++ f ++ fn ++ en)).
Proof. exact document_pars_is_concat. Qed.
Print Assumptions C03_document_pars_concat.

(* the three forms of document agree with each other like those of a part *)
Theorem C03_document_views : forall a o p r,
  document_pars a o = Ok p -> document_runs a o = Ok r -> get_par_strings (o_html o) p = Ok r.
Proof. exact document_runs_of_pars. Qed.
Print Assumptions C03_document_views.

Theorem C03_document_plain : forall a o r t,
  document_runs a o = Ok r -> document a o = Ok t -> join_runs r = Ok t.
Proof. exact document_of_runs. Qed.
Print Assumptions C03_document_plain.

(* text = all paragraphs of document joined by a blank line *)
Theorem C03_text : forall a o r t s,
  document_runs a o = Ok r -> deep 5%nat r -> join_runs r = Ok t -> text a o = Ok s ->
  exists leaves ss, iter_at_depth t 4%nat = Ok leaves /\ mapM leaf_str leaves = Ok ss
                    /\ s = join s_nn ss.
Proof. exact text_is_join. Qed.
Print Assumptions C03_text.

(* TIE TO THE SOURCE TEXT (gen/Source.v is regenerated from /repo by tools/gen_source.py on
   every run): depth_collector.get_par_strings, docx_output._join_runs and
   docx_text.flatten_text AS TRANSLATED FROM THE PYTHON SOURCE (four nested loops appending into
   the last element; "".join; iter_at_depth) equal the model's functions the theorems above are
   about, on every 4-deep list of paragraph records / 5-deep list of run strings *)
Theorem C03_source_get_par_strings : forall html t,
  deep 4 t ->
  S_get_par_strings (enc_rose (enc_par html) t) = lift_rose VStr (get_par_strings html t).
Proof. exact src_get_par_strings. Qed.
Print Assumptions C03_source_get_par_strings.

Theorem C03_source_join_runs : forall t,
  deep 5 t ->
  S__join_runs (enc_rose VStr t) = lift_rose VStr (join_runs t).
Proof. exact src_join_runs. Qed.
Print Assumptions C03_source_join_runs.

Theorem C03_source_flatten_text : forall t fuel,
  deep 5 t -> (5 < fuel)%nat ->
  S_flatten_text fuel (enc_rose VStr t) = lift_str (flatten_text t).
Proof. exact src_flatten_text. Qed.
Print Assumptions C03_source_flatten_text.

(* TIE TO THE SOURCE TEXT, the views themselves: the attributes of docx_output.DocxContent AS TRANSLATED FROM THE
   PYTHON SOURCE (_get_pars and the 21 view properties, text) are the model's pars_of / runs_of / plain_of,
   document_pars / document_runs / document and text, for every archive and option setting - so the theorems
   above (document = header + body + footer + footnotes + endnotes in all three forms, body = officeDocument,
   text = the paragraphs joined) speak about the source.  DocxReader.files_of_type is a parameter assumed to
   return the File objects whose `content` is the collector tree of each part of that type, in path order *)
Theorem C03_source_get_pars : forall a o ext rd cls,
  (forall ty, ext rd (VStr ty)
              = match per_file a o ty with
                | Ok l => Ok (VList (map (fun c => VObj k_File [(k_content, VList (map (enc_rose (enc_par (o_html o))) c))]) l))
                | Err e => Err e
                end) ->
  forall ty, S_DocxContent_get_pars ext (VObj cls [(k_docx_reader, rd)]) (VStr ty)
             = lift_rose (enc_par (o_html o)) (pars_of a o ty).
Proof. exact src_get_pars. Qed.
Print Assumptions C03_source_get_pars.

Theorem C03_source_named_runs : forall a o ext rd cls,
  (forall ty, ext rd (VStr ty)
              = match per_file a o ty with
                | Ok l => Ok (VList (map (fun c => VObj k_File [(k_content, VList (map (enc_rose (enc_par (o_html o))) c))]) l))
                | Err e => Err e
                end) ->
  let self := VObj cls [(k_docx_reader, rd)] in
  S_DocxContent_header_runs ext self = lift_rose VStr (runs_of a o s_header)
  /\ S_DocxContent_footer_runs ext self = lift_rose VStr (runs_of a o s_footer)
  /\ S_DocxContent_officeDocument_runs ext self = lift_rose VStr (runs_of a o s_officeDocument)
  /\ S_DocxContent_body_runs ext self = lift_rose VStr (runs_of a o s_officeDocument)
  /\ S_DocxContent_footnotes_runs ext self = lift_rose VStr (runs_of a o s_footnotes)
  /\ S_DocxContent_endnotes_runs ext self = lift_rose VStr (runs_of a o s_endnotes).
Proof. exact src_named_runs. Qed.
Print Assumptions C03_source_named_runs.

Theorem C03_source_named_plain : forall a o ext rd cls,
  (forall ty, ext rd (VStr ty)
              = match per_file a o ty with
                | Ok l => Ok (VList (map (fun c => VObj k_File [(k_content, VList (map (enc_rose (enc_par (o_html o))) c))]) l))
                | Err e => Err e
                end) ->
  let self := VObj cls [(k_docx_reader, rd)] in
  S_DocxContent_header ext self = lift_rose VStr (plain_of a o s_header)
  /\ S_DocxContent_footer ext self = lift_rose VStr (plain_of a o s_footer)
  /\ S_DocxContent_officeDocument ext self = lift_rose VStr (plain_of a o s_officeDocument)
  /\ S_DocxContent_body ext self = lift_rose VStr (plain_of a o s_officeDocument)
  /\ S_DocxContent_footnotes ext self = lift_rose VStr (plain_of a o s_footnotes)
  /\ S_DocxContent_endnotes ext self = lift_rose VStr (plain_of a o s_endnotes).
Proof. exact src_named_plain. Qed.
Print Assumptions C03_source_named_plain.

Theorem C03_source_document_pars : forall a o ext rd cls,
  (forall ty, ext rd (VStr ty)
              = match per_file a o ty with
                | Ok l => Ok (VList (map (fun c => VObj k_File [(k_content, VList (map (enc_rose (enc_par (o_html o))) c))]) l))
                | Err e => Err e
                end) ->
  S_DocxContent_document_pars ext (VObj cls [(k_docx_reader, rd)]) = lift_rose (enc_par (o_html o)) (document_pars a o).
Proof. exact src_document_pars. Qed.
Print Assumptions C03_source_document_pars.

Theorem C03_source_document_runs : forall a o ext rd cls,
  (forall ty, ext rd (VStr ty)
              = match per_file a o ty with
                | Ok l => Ok (VList (map (fun c => VObj k_File [(k_content, VList (map (enc_rose (enc_par (o_html o))) c))]) l))
                | Err e => Err e
                end) ->
  S_DocxContent_document_runs ext (VObj cls [(k_docx_reader, rd)]) = lift_rose VStr (document_runs a o).
Proof. exact src_document_runs. Qed.
Print Assumptions C03_source_document_runs.

Theorem C03_source_document : forall a o ext rd cls,
  (forall ty, ext rd (VStr ty)
              = match per_file a o ty with
                | Ok l => Ok (VList (map (fun c => VObj k_File [(k_content, VList (map (enc_rose (enc_par (o_html o))) c))]) l))
                | Err e => Err e
                end) ->
  S_DocxContent_document ext (VObj cls [(k_docx_reader, rd)]) = lift_rose VStr (document a o).
Proof. exact src_document. Qed.
Print Assumptions C03_source_document.

Theorem C03_source_text : forall a o ext rd cls,
  (forall ty, ext rd (VStr ty)
              = match per_file a o ty with
                | Ok l => Ok (VList (map (fun c => VObj k_File [(k_content, VList (map (enc_rose (enc_par (o_html o))) c))]) l))
                | Err e => Err e
                end) ->
  forall fuel, (5 < fuel)%nat ->
  S_DocxContent_text fuel ext (VObj cls [(k_docx_reader, rd)]) = lift_str (text a o).
Proof. exact src_text. Qed.
Print Assumptions C03_source_text.
