(* C10 — hyperlinks and note references are rendered as matchable, exact markers.
   Statements only (copied from the lemma libraries); every proof is a bare
   `exact`; see the cited files in coq/proofs for the proofs. *)
From Coq Require Import List NArith ZArith Bool Arith Sorting.Sorted Sorting.Permutation.
From D2P Require Import Str Err Xml TableTypes Tables Fmt Bullets Merge Collector Walk ShapeFacts TokFacts FrameFacts BulletsFacts MarkerFacts Iter Output Paths Package Content Utilities UtilFacts PyVal PyHeap SourceHeap SourceHeapRuns SourceCaret SourceRuns.
Import ListNotations.

(* a hyperlink whose relationship id resolves contributes, with html on or off, the tokens <a href=TARGET> BODY </a> where BODY is what its children contribute *)
Theorem C10_link_resolved :
  forall v path e ks rid link body, e_ptag e = tag_HYPERLINK ->
  attr_r_req e s_id = Ok rid -> dict_get rid (env_rels v) = Some link ->
  attr_w e s_anchor = Ok None ->
  below_loop v path ks 0%nat = Ok body ->
  emit v path (AE e ks) = Ok (link_toks link body).
Proof. exact emit_link_resolved. Qed.
Print Assumptions C10_link_resolved.

(* followed by # and the anchor if one is given *)
Theorem C10_link_with_anchor :
  forall v path e ks rid c l a r body, e_ptag e = tag_HYPERLINK ->
  attr_r_req e s_id = Ok rid -> dict_get rid (env_rels v) = Some (c :: l) ->
  attr_w e s_anchor = Ok (Some (a :: r)) ->
  below_loop v path ks 0%nat = Ok body ->
  emit v path (AE e ks) = Ok (link_toks ((c :: l) ++ 35 :: a :: r) body).
Proof. exact emit_link_anchor. Qed.
Print Assumptions C10_link_with_anchor.

(* a hyperlink with only an anchor or an unresolvable id contributes just its text *)
Theorem C10_link_fallback :
  forall v path e ks body, e_ptag e = tag_HYPERLINK ->
  (attr_r_req e s_id = Err KeyError
   \/ exists rid, attr_r_req e s_id = Ok rid /\ dict_get rid (env_rels v) = None) ->
  below_loop v path ks 0%nat = Ok body ->
  emit v path (AE e ks) = Ok body.
Proof. exact emit_link_fallback. Qed.
Print Assumptions C10_link_fallback.

(* and renders as exactly that string *)
Theorem C10_link_rendering :
  forall html link body,
  render html (link_toks link body)
  = [60;97;32;104;114;101;102;61;34] ++ link ++ [34;62] ++ render html body ++ [60;47;97;62].
Proof. exact link_render. Qed.
Print Assumptions C10_link_rendering.

(* in one piece: it is inserted as ONE run of its own *)
Theorem C10_link_is_one_run :
  forall v path t e ks rid link body s p rest,
  e_ptag e = tag_HYPERLINK -> attr_r_req e s_id = Ok rid ->
  dict_get rid (env_rels v) = Some link -> attr_w e s_anchor = Ok None ->
  c_open s = p :: rest ->
  open_tag v path t e ks body s
  = Ok (set_open
          (with_runs p
             (ensure_run (p_runs p)
              ++ [{| r_style := []; r_toks := link_toks link body |};
                  {| r_style := match last_opt (ensure_run (p_runs p)) with
                                | Some r => r_style r | None => [] end;
                     r_toks := [] |}]) :: rest) s, false).
Proof. exact link_is_one_run. Qed.
Print Assumptions C10_link_is_one_run.

(* a footnote reference appears in place as ----footnoteN---- *)
Theorem C10_footnote_reference :
  forall v path e, e_ptag e = tag_FOOTNOTE_REFERENCE ->
  forall id, attr_w_req e s_id = Ok id ->
  emit v path (AE e []) = Ok (raw (s_dashes ++ s_footnote ++ id ++ s_dashes)).
Proof. exact emit_note_ref. Qed.
Print Assumptions C10_footnote_reference.

(* an endnote reference as ----endnoteN---- *)
Theorem C10_endnote_reference :
  forall v path e, e_ptag e = tag_ENDNOTE_REFERENCE ->
  forall id, attr_w_req e s_id = Ok id ->
  emit v path (AE e []) = Ok (raw (s_dashes ++ s_endnote ++ id ++ s_dashes)).
Proof. exact emit_endnote_ref. Qed.
Print Assumptions C10_endnote_reference.

(* markers are emitted verbatim in both modes *)
Theorem C10_raw_markers_render_verbatim :
  forall html s, render html (raw s) = s.
Proof. exact render_raw. Qed.
Print Assumptions C10_raw_markers_render_verbatim.

(* a non-separator footnote with id N queues the label footnoteN) + tab *)
Theorem C10_note_label_queued :
  forall v path t e ks body s id, e_ptag e = tag_FOOTNOTE ->
  attr_w e s_type = Ok None -> attr_w_req e s_id = Ok id ->
  open_tag v path t e ks body s
  = Ok (queue_run_for_next_paragraph (raw (s_footnote ++ id ++ [41; 9])) s, true).
Proof. exact note_label_queued. Qed.
Print Assumptions C10_note_label_queued.

(* separators are not labelled *)
Theorem C10_separator_not_labelled :
  forall v path t e ks body s ty, e_ptag e = tag_FOOTNOTE ->
  attr_w e s_type = Ok (Some ty) -> contains s_separator (lower ty) = true ->
  open_tag v path t e ks body s = Ok (s, true).
Proof. exact note_separator_not_labelled. Qed.
Print Assumptions C10_separator_not_labelled.

(* the queued label is the first thing in the note's first paragraph, and the queue is emptied *)
Theorem C10_label_prefixes_first_paragraph :
  forall v e ks path s s' ps kind id,
  simple_par (AE e ks) = true -> Inv s -> walk v path (AE e ks) s = Ok s' ->
  pars_at 4%nat (c_tree s) = Ok ps ->
  c_queued s = [{| r_style := []; r_toks := raw (kind ++ id ++ [41; 9]) |}] ->
  exists p rest,
    pars_at 4%nat (c_tree s') = Ok (ps ++ [p]) /\ c_queued s' = []
    /\ p_elem p = Some path
    /\ toks_of (p_runs p) = raw (kind ++ id ++ [41; 9]) ++ rest.
Proof. exact queued_label_prefixes_next_paragraph. Qed.
Print Assumptions C10_label_prefixes_first_paragraph.

(* the link helper's pattern, re-implemented on code points (Utilities.link_match, compared with the re module on every run): it matches exactly the strings <a href=Q h Q> t </a> rest with h non-empty and quote-free, t non-empty and free of < *)
Theorem C10_link_pattern_exact :
  forall run h t,
  link_match run = Some (h, t) <->
  exists rest, run = s_a_open ++ h ++ s_quote_gt ++ t ++ s_a_close ++ rest
               /\ h <> [] /\ ~ In 34 h /\ t <> [] /\ ~ In 60 t.
Proof. exact link_match_spec. Qed.
Print Assumptions C10_link_pattern_exact.

(* END TO END: if a paragraph record of the document holds a link run (the shape C10_link_is_one_run produces) with a non-empty quote-free target and non-empty text free of angle brackets, get_links yields (target, text) *)
Theorem C10_get_links_yields_rendered_link :
  forall a l pars ps p link body,
  get_links a = Ok l ->
  document_pars a default_opts = Ok pars -> iter_at_depth pars 4%nat = Ok (map RA ps) ->
  In p ps ->
  In {| r_style := []; r_toks := link_toks link body |} (p_runs p) ->
  link <> [] -> ~ In 34 link -> render false body <> [] -> ~ In 60 (render false body) ->
  In (link, render false body) l.
Proof. exact get_links_yields_link. Qed.
Print Assumptions C10_get_links_yields_rendered_link.

(* get_links = the matching run strings of document_runs (default options), in order, nothing else *)
Theorem C10_get_links_exactly_the_matches :
  forall a l, get_links a = Ok l <->
  exists ss, run_leaves a = Ok ss /\ l = filter_map link_match ss.
Proof. exact get_links_iff. Qed.
Print Assumptions C10_get_links_exactly_the_matches.

(* document text (escaped) is never mistaken for a link *)
Theorem C10_escaped_text_is_never_a_link :
  forall s,
  link_match (render true (map TTxt s)) = None.
Proof. exact link_match_escaped_text. Qed.
Print Assumptions C10_escaped_text_is_never_a_link.

(* what happens when the text does contain <: the pair is not (target, text); the text is cut at a literal </a> (outside the property's quantifier, stated for completeness) *)
Theorem C10_bracket_text_exact :
  forall html link body t1 t2,
  link <> [] -> ~ In 34 link ->
  render html body = t1 ++ 60 :: t2 -> ~ In 60 t1 ->
  link_match (render html (link_toks link body))
  = match t1, strip_prefix s_a_close_tl (t2 ++ s_a_close) with
    | _ :: _, Some _ => Some (link, t1)
    | _, _ => None
    end.
Proof. exact link_match_bracket_exact. Qed.
Print Assumptions C10_bracket_text_exact.

(* SOURCE TIE: the marker of a link / note reference goes into a run of its own (insert_text_as_new_run as translated from the source), the open style resumes after it *)
Theorem C10_source_insert_text_as_new_run :
  forall (epf : pv -> pv -> hm pv) (eps : pv -> hm pv),
  forall fuel h self pa ra rs item,
    rd_open h self = Some (pa, ra, rs) ->
    exists h', S_H_insert_text_as_new_run epf eps fuel self (VStr item) h = HOk VNone h'
               /\ rd_open h' self
                  = Some (pa, ra, ensure_rv rs ++ [([], item); (last_style (ensure_rv rs), [])])
               /\ frame_runs h h' ra.
Proof. exact src_insert_text_as_new_run. Qed.
Print Assumptions C10_source_insert_text_as_new_run.
