(* C07 — html=True output is balanced and escaped.  Statements only; proofs
   in proofs/TokFacts.v. *)
From Coq Require Import List NArith.
From D2P Require Import Str Err Xml Merge Collector Walk TokFacts.
Import ListNotations.
Open Scope N_scope.

(* every paragraph string of every document (any nesting, nested paragraphs
   and hyperlink bodies included) is tag-balanced: each tag opened is closed
   in the same paragraph in properly nested order *)
Theorem C07_balanced : forall v path t s ps p rs,
  collect_from v path t = Ok s -> pars_at 4%nat (c_tree s) = Ok ps -> In p ps ->
  par_run_toks p = Ok rs -> balanced (concat rs).
Proof. exact balanced_paragraphs. Qed.
Print Assumptions C07_balanced.

(* escaped document text contains no angle bracket ... *)
Theorem C07_escape_no_angle : forall s,
  ~ In 60 (render true (map TTxt s)) /\ ~ In 62 (render true (map TTxt s)).
Proof. exact escape_no_angle. Qed.
Print Assumptions C07_escape_no_angle.

(* ... every ampersand in it starts one of the three entities ... *)
Theorem C07_escape_amp : forall s l1 l2,
  render true (map TTxt s) = l1 ++ 38 :: l2 ->
  starts_with [97;109;112;59] l2 = true \/ starts_with [108;116;59] l2 = true
  \/ starts_with [103;116;59] l2 = true.
Proof. exact escape_amp_entity. Qed.
Print Assumptions C07_escape_amp.

(* ... unescaping gives the text back, which is what html=False emits *)
Theorem C07_unescape : forall s, unescape (render true (map TTxt s)) = s.
Proof. exact unescape_escape. Qed.
Print Assumptions C07_unescape.

Theorem C07_plain_text : forall s, render false (map TTxt s) = s.
Proof. exact render_plain_txt. Qed.
Print Assumptions C07_plain_text.

(* the character-wise escaping of the model is the three str.replace calls of
   the source *)
Theorem C07_escape_is_replace : forall s,
  render true (map TTxt s)
  = replace [62] [38;103;116;59] (replace [60] [38;108;116;59] (replace [38] [38;97;109;112;59] s)).
Proof. exact escape_is_python_replace. Qed.
Print Assumptions C07_escape_is_replace.
