(* C07 — html=True output is balanced, escaped, faithful, and projects onto plain output.
   Statements only (copied from the lemma libraries); every proof is a bare
   `exact`; see the cited files in coq/proofs for the proofs. *)
From Coq Require Import List NArith ZArith Bool Arith Sorting.Sorted Sorting.Permutation.
From D2P Require Import Str Err Xml TableTypes Tables Fmt Merge Collector Walk TokFacts MiscFacts ProjFacts PyVal Source SourceBase ViewFacts SourceViews SourceEscape SourceElem SourceFmt PyHeap SourceHeap SourceHeapRuns SourceCaret SourceFresh SourceRuns SourceFormatters.
Import ListNotations.
Open Scope N_scope.
Import String.StringSyntax.
Delimit Scope string_scope with string.

(* every paragraph string of every document (any nesting, nested paragraphs and hyperlink bodies included) is tag-balanced: each tag opened is closed in the same paragraph in properly nested order *)
Theorem C07_balanced :
  forall v path t s ps p rs,
  collect_from v path t = Ok s -> pars_at 4%nat (c_tree s) = Ok ps -> In p ps ->
  par_run_toks p = Ok rs -> balanced (concat rs).
Proof. exact balanced_paragraphs. Qed.
Print Assumptions C07_balanced.

(* escaped document text contains no angle bracket *)
Theorem C07_escape_no_angle :
  forall s,
  ~ In 60 (render true (map TTxt s)) /\ ~ In 62 (render true (map TTxt s)).
Proof. exact escape_no_angle. Qed.
Print Assumptions C07_escape_no_angle.

(* every ampersand in it starts one of the three entities *)
Theorem C07_escape_amp :
  forall s l1 l2,
  render true (map TTxt s) = l1 ++ 38 :: l2 ->
  starts_with [97;109;112;59] l2 = true \/ starts_with [108;116;59] l2 = true
  \/ starts_with [103;116;59] l2 = true.
Proof. exact escape_amp_entity. Qed.
Print Assumptions C07_escape_amp.

(* unescaping gives the text back *)
Theorem C07_unescape :
  forall s, unescape (render true (map TTxt s)) = s.
Proof. exact unescape_escape. Qed.
Print Assumptions C07_unescape.

(* which is what html=False emits *)
Theorem C07_plain_text :
  forall s, render false (map TTxt s) = s.
Proof. exact render_plain_txt. Qed.
Print Assumptions C07_plain_text.

(* the character-wise escaping of the model is the three str.replace calls of the source *)
Theorem C07_escape_is_replace :
  forall s,
  render true (map TTxt s) =
  replace [62] [38;103;116;59] (replace [60] [38;108;116;59] (replace [38] [38;97;109;112;59] s)).
Proof. exact escape_is_python_replace. Qed.
Print Assumptions C07_escape_is_replace.

(* with the formatter table regenerated from the source: every tag a run's properties produce starts with a word of the documented vocabulary, for vertAlign ranging over its schema enumeration (superscript, subscript, baseline) *)
Theorem C07_vocabulary :
  forall e ks pr st,
  gather_Pr e ks = Ok pr -> vals_ok pr ->
  get_run_formatting e ks xml2html_table = Ok st ->
  Forall (fun x => exists w, first_word x = Ok w /\ in_vocab w = true) st.
Proof. exact run_formatting_vocab. Qed.
Print Assumptions C07_vocabulary.

(* the same for any property list *)
Theorem C07_vocabulary_all_entries :
  forall pr st,
  vals_all pr -> format_Pr_into_html pr xml2html_table = Ok st -> Forall tag_ok st.
Proof. exact format_vocab_all. Qed.
Print Assumptions C07_vocabulary_all_entries.

(* html=False produces no tags at all *)
Theorem C07_no_tags_without_html :
  forall pr, format_Pr_into_html pr [] = Ok [].
Proof. exact format_empty_table. Qed.
Print Assumptions C07_no_tags_without_html.

(* a property explicitly switched off produces no tag (D8, repaired) *)
Theorem C07_switched_off_no_tag :
  forall k v x2h,
  is_off v = true -> format_Pr_into_html [(k, v)] x2h = Ok [].
Proof. exact off_value_no_tag. Qed.
Print Assumptions C07_switched_off_no_tag.

(* the switched-off values, regenerated from the source: 0, false, off, none, baseline *)
Theorem C07_off_values :
  forall s, is_off (Some s) = true <->
  In s [[48] ; s2l "false"%string; s2l "off"%string; s2l "none"%string; s2l "baseline"%string].
Proof. exact off_values_are. Qed.
Print Assumptions C07_off_values.

(* vertAlign=baseline produces no tag (D9, repaired; formerly <bas>) *)
Theorem C07_baseline_no_tag :
  format_Pr_into_html [(s2l "vertAlign"%string, Some (s2l "baseline"%string))] xml2html_table = Ok [].
Proof. exact baseline_no_tag. Qed.
Print Assumptions C07_baseline_no_tag.

(* PROJECTION ONTO PLAIN, for EVERY element tree (tables, merged cells, nested paragraphs, hyperlink bodies, comment ranges): paragraph by paragraph, deleting the formatting tags (each with its matching closing tag: erase) from the html=True tokens yields exactly the html=False tokens of the same paragraph - text tokens are the same in both modes and differ only by the entity escaping applied when rendered (C07_unescape) - and element, style, lineage, list position are equal *)
Theorem C07_projection :
  forall v t path s sp ps, styles_ok v ->
  collect_from v path t = Ok s -> collect_from (plain_env v) path t = Ok sp ->
  pars_at 4 (c_tree s) = Ok ps ->
  exists ps', pars_at 4 (c_tree sp) = Ok ps' /\ length ps' = length ps /\
    forall i p p', nth_error ps i = Some p -> nth_error ps' i = Some p' ->
      p_elem p' = p_elem p /\ p_copy p' = p_copy p /\ p_style p' = p_style p /\
      p_lineage p' = p_lineage p /\ p_listpos p' = p_listpos p /\
      forall rs, par_run_toks p = Ok rs ->
        exists rs', par_run_toks p' = Ok rs' /\ erase [] (concat rs) = concat rs'.
Proof. exact projection_paragraphs. Qed.
Print Assumptions C07_projection.

(* the simulation behind it: whenever the html extraction of a tree succeeds, so does the plain one, and the plain collector state is the projection of the html one *)
Theorem C07_projection_state :
  forall v t path s,
  styles_ok v -> collect_from v path t = Ok s ->
  exists sp, collect_from (plain_env v) path t = Ok sp /\ Rst s sp.
Proof. exact collect_projects. Qed.
Print Assumptions C07_projection_state.

(* with the formatter table regenerated from the source, no style string can be mistaken for a content tag (<a href=, <latex>, the symbol span) *)
Theorem C07_styles_are_formatting :
  forall v, env_x2h v = xml2html_table -> styles_ok v.
Proof. exact styles_ok_table. Qed.
Print Assumptions C07_styles_are_formatting.

(* deleting formatting tags is the identity on html=False output *)
Theorem C07_erase_identity_on_plain :
  forall ts,
  (forall s, In (TOpen s) ts -> content_open s = true) ->
  forall stk, Forall (fun b => b = false) stk -> erase stk ts = ts.
Proof. exact erase_plain_fixed. Qed.
Print Assumptions C07_erase_identity_on_plain.

(* exactly when every style string has a first word (so that its closing tag can be written): every vertAlign entry is switched off or has a non-blank value *)
Theorem C07_style_first_word :
  forall pr st,
  format_Pr_into_html pr xml2html_table = Ok st ->
  (Forall has_word st <-> fw_okb pr = true).
Proof. exact format_words_iff. Qed.
Print Assumptions C07_style_first_word.

(* w:vertAlign without a value yields the empty style string (schema-invalid: w:val is required) *)
Theorem C07_blank_vertalign_refuted :
  exists e ks st x,
    get_run_formatting e ks xml2html_table = Ok st /\ In x st /\ first_word x = Err IndexError.
Proof. exact styles_words_ok_counterexample. Qed.
Print Assumptions C07_blank_vertalign_refuted.

(* TIE TO THE SOURCE TEXT (gen/Source.v is regenerated from /repo by tools/gen_source.py on every run): text_runs.html_open as translated from the Python source equals the model's *)
Theorem C07_source_html_open :
  forall st,
  S_html_open (VList (map VStr st)) = Ok (VStr (html_open st)).
Proof. exact src_html_open. Qed.
Print Assumptions C07_source_html_open.

(* html_close likewise (reversed order, first word of each style; IndexError for a blank style) *)
Theorem C07_source_html_close :
  forall st,
  S_html_close (VList (map VStr st)) = lift_str (html_close st).
Proof. exact src_html_close. Qed.
Print Assumptions C07_source_html_close.

(* depth_collector.Run.__str__ as translated from the source: open tags + text + closing tags, nothing for an empty run - equal to the model's run_toks rendered *)
Theorem C07_source_run_str :
  forall html r,
  S_Run__str_ (enc_run html r) = lift_str (ts <- run_toks r ;; Ok (render html ts)).
Proof. exact src_run_str. Qed.
Print Assumptions C07_source_run_str.

(* Par.run_strings as translated from the source (non-empty run strings, wrapped in the paragraph style's tags) equals the model's par_run_strings: C07_balanced / C07_projection speak about the source *)
Theorem C07_source_par_run_strings :
  forall html p,
  S_Par_run_strings (enc_par html p) = lift_strs (par_run_strings html p).
Proof. exact src_par_run_strings. Qed.
Print Assumptions C07_source_par_run_strings.

(* DepthCollector.escape as translated from the Python source (three str.replace calls guarded by the html flag) is the model's character-wise entity escaping with html on and the identity with html off: C07_escape_no_angle / C07_escape_amp / C07_unescape speak about the source *)
Theorem C07_source_escape :
  forall cls (fmt : pv) (s : str),
  S_DepthCollector_escape (VObj cls [(k_x2h, fmt)]) (VStr s)
  = Ok (VStr (if py_truth fmt then render true (map TTxt s) else render false (map TTxt s))).
Proof. exact src_escape. Qed.
Print Assumptions C07_source_escape.

(* SOURCE TIE: namespace.qn as translated from the source text resolves "w:NAME" to the Clark name under the element's binding of w, KeyError when w is unbound (the model's attr_w) *)
Theorem C07_source_qn :
  forall e ks name, ~ In 58%N name ->
  S_qn (enc_fel (AE e ks)) (VStr ([119; 58]%N ++ name))
  = match e_wuri e with
    | Some u => Ok (VStr (fclark (Some u, name)))
    | None => Err KeyError
    end.
Proof. exact src_qn_w. Qed.
Print Assumptions C07_source_qn.

(* SOURCE TIE: text_runs.gather_Pr / _gather_sub_vals as translated from the source text (iterfind, suppressed StopIteration, comments skipped, insertion-ordered dict) return exactly the model's property dictionary for every element (local names are NCNames: no brace) *)
Theorem C07_source_gather_Pr :
  forall (ext : pv -> pv -> res pv) e ks,
  braceless (e_local e) -> kid_names_ok ks ->
  (forall pe pks, In (AE pe pks) ks -> forall se sks, In (AE se sks) pks -> attr_names_ok se) ->
  S_gather_Pr ext (enc_fel (AE e ks)) VNone = lift_prd (gather_Pr e ks).
Proof. exact src_gather_Pr. Qed.
Print Assumptions C07_source_gather_Pr.

(* SOURCE TIE (heap embedding): DepthCollector.escape leaves the heap alone and returns the model's rendering of text tokens under the html flag *)
Theorem C07_source_heap_escape :
  forall h self fmt s, rd_fmt h self = Some fmt ->
    S_H_escape self (VStr s) h = HOk (VStr (render (py_truth fmt) (map TTxt s))) h.
Proof. exact src_h_escape. Qed.
Print Assumptions C07_source_heap_escape.

(* SOURCE TIE: commence_run(elem) opens a run whose style is exactly what get_run_formatting returned (None / empty = no style), provided that function only allocates; the text starts empty *)
Theorem C07_source_commence_run_style :
  forall (epf erf : pv -> pv -> hm pv) (eps : pv -> hm pv),
  forall fuel h h1 self pa ra rs elem fmt sty ss,
    rd_open h self = Some (pa, ra, rs) -> rd_fmt h self = Some fmt ->
    elem <> VNone ->
    erf elem fmt h = HOk sty h1 -> extends h h1 ->
    (sty = VNone /\ ss = []) \/ rd_strs h1 sty = Some ss ->
    exists h', S_H_commence_run epf erf eps fuel self elem h = HOk VNone h'
               /\ rd_open h' self = Some (pa, ra, rs ++ [(ss, [])])
               /\ frame_runs h h' ra.
Proof. exact src_commence_run_elem. Qed.
Print Assumptions C07_source_commence_run_style.

(* SOURCE TIE, two independent readings agree: attribute_register._format_just_return_tag as translated by the source translator (Python semantics of PyVal.v) computes, for every tag and value, what Fmt.eval_fexpr computes from the formatter expression the TABLE translator reads out of the same function body *)
Theorem C07_source_format_just_return_tag :
  forall tag val,
  S__format_just_return_tag (VStr tag) (VStr val) = lift_str (eval_fexpr fmt_format_just_return_tag tag val).
Proof. exact src_format_just_return_tag. Qed.
Print Assumptions C07_source_format_just_return_tag.

(* SOURCE TIE, two independent readings agree: attribute_register._format_strike as translated by the source translator (Python semantics of PyVal.v) computes, for every tag and value, what Fmt.eval_fexpr computes from the formatter expression the TABLE translator reads out of the same function body *)
Theorem C07_source_format_strike :
  forall tag val,
  S__format_strike (VStr tag) (VStr val) = lift_str (eval_fexpr fmt_format_strike tag val).
Proof. exact src_format_strike. Qed.
Print Assumptions C07_source_format_strike.

(* SOURCE TIE, two independent readings agree: attribute_register._format_vertAlign as translated by the source translator (Python semantics of PyVal.v) computes, for every tag and value, what Fmt.eval_fexpr computes from the formatter expression the TABLE translator reads out of the same function body *)
Theorem C07_source_format_vertAlign :
  forall tag val,
  S__format_vertAlign (VStr tag) (VStr val) = lift_str (eval_fexpr fmt_format_vertAlign tag val).
Proof. exact src_format_vertAlign. Qed.
Print Assumptions C07_source_format_vertAlign.

(* SOURCE TIE, two independent readings agree: attribute_register._format_smallCaps as translated by the source translator (Python semantics of PyVal.v) computes, for every tag and value, what Fmt.eval_fexpr computes from the formatter expression the TABLE translator reads out of the same function body *)
Theorem C07_source_format_smallCaps :
  forall tag val,
  S__format_smallCaps (VStr tag) (VStr val) = lift_str (eval_fexpr fmt_format_smallCaps tag val).
Proof. exact src_format_smallCaps. Qed.
Print Assumptions C07_source_format_smallCaps.

(* SOURCE TIE, two independent readings agree: attribute_register._format_caps as translated by the source translator (Python semantics of PyVal.v) computes, for every tag and value, what Fmt.eval_fexpr computes from the formatter expression the TABLE translator reads out of the same function body *)
Theorem C07_source_format_caps :
  forall tag val,
  S__format_caps (VStr tag) (VStr val) = lift_str (eval_fexpr fmt_format_caps tag val).
Proof. exact src_format_caps. Qed.
Print Assumptions C07_source_format_caps.

(* SOURCE TIE, two independent readings agree: attribute_register._format_highlight as translated by the source translator (Python semantics of PyVal.v) computes, for every tag and value, what Fmt.eval_fexpr computes from the formatter expression the TABLE translator reads out of the same function body *)
Theorem C07_source_format_highlight :
  forall tag val,
  S__format_highlight (VStr tag) (VStr val) = lift_str (eval_fexpr fmt_format_highlight tag val).
Proof. exact src_format_highlight. Qed.
Print Assumptions C07_source_format_highlight.

(* SOURCE TIE, two independent readings agree: attribute_register._format_sz as translated by the source translator (Python semantics of PyVal.v) computes, for every tag and value, what Fmt.eval_fexpr computes from the formatter expression the TABLE translator reads out of the same function body *)
Theorem C07_source_format_sz :
  forall tag val,
  S__format_sz (VStr tag) (VStr val) = lift_str (eval_fexpr fmt_format_sz tag val).
Proof. exact src_format_sz. Qed.
Print Assumptions C07_source_format_sz.

(* SOURCE TIE, two independent readings agree: attribute_register._format_color as translated by the source translator (Python semantics of PyVal.v) computes, for every tag and value, what Fmt.eval_fexpr computes from the formatter expression the TABLE translator reads out of the same function body *)
Theorem C07_source_format_color :
  forall tag val,
  S__format_color (VStr tag) (VStr val) = lift_str (eval_fexpr fmt_format_color tag val).
Proof. exact src_format_color. Qed.
Print Assumptions C07_source_format_color.

(* SOURCE TIE, two independent readings agree: attribute_register._format_heading as translated by the source translator (Python semantics of PyVal.v) computes, for every tag and value, what Fmt.eval_fexpr computes from the formatter expression the TABLE translator reads out of the same function body *)
Theorem C07_source_format_heading :
  forall tag val,
  S__format_heading (VStr tag) (VStr val) = lift_str (eval_fexpr fmt_format_heading tag val).
Proof. exact src_format_heading. Qed.
Print Assumptions C07_source_format_heading.
