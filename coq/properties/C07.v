(* C07 — html=True output is balanced, escaped, faithful, and projects onto plain output.
   Statements only (copied from the lemma libraries); every proof is a bare
   `exact`; see the cited files in coq/proofs for the proofs. *)
From Coq Require Import List NArith ZArith Bool Arith Sorting.Sorted Sorting.Permutation.
From D2P Require Import Str Err Xml TableTypes Tables Fmt Merge Collector Walk TokFacts MiscFacts.
Import ListNotations.
Open Scope N_scope.
Import String.StringSyntax.
Delimit Scope string_scope with string.

(* every paragraph string of every document (any nesting, nested paragraphs and hyperlink bodies included) is tag-balanced: each tag opened is closed in the same paragraph in properly nested order *)
Theorem C07_balanced :
  forall v path t s ps p rs,
  collect_from v path t = Ok s -> pars_at 4%nat (c_tree s) = Ok ps -> In p ps ->
  par_run_toks p = Ok rs -> balanced (concat rs).
Proof. exact balanced_paragraphs. Qed.
Print Assumptions C07_balanced.

(* escaped document text contains no angle bracket *)
Theorem C07_escape_no_angle :
  forall s,
  ~ In 60 (render true (map TTxt s)) /\ ~ In 62 (render true (map TTxt s)).
Proof. exact escape_no_angle. Qed.
Print Assumptions C07_escape_no_angle.

(* every ampersand in it starts one of the three entities *)
Theorem C07_escape_amp :
  forall s l1 l2,
  render true (map TTxt s) = l1 ++ 38 :: l2 ->
  starts_with [97;109;112;59] l2 = true \/ starts_with [108;116;59] l2 = true
  \/ starts_with [103;116;59] l2 = true.
Proof. exact escape_amp_entity. Qed.
Print Assumptions C07_escape_amp.

(* unescaping gives the text back *)
Theorem C07_unescape :
  forall s, unescape (render true (map TTxt s)) = s.
Proof. exact unescape_escape. Qed.
Print Assumptions C07_unescape.

(* which is what html=False emits *)
Theorem C07_plain_text :
  forall s, render false (map TTxt s) = s.
Proof. exact render_plain_txt. Qed.
Print Assumptions C07_plain_text.

(* the character-wise escaping of the model is the three str.replace calls of the source *)
Theorem C07_escape_is_replace :
  forall s,
  render true (map TTxt s) =
  replace [62] [38;103;116;59] (replace [60] [38;108;116;59] (replace [38] [38;97;109;112;59] s)).
Proof. exact escape_is_python_replace. Qed.
Print Assumptions C07_escape_is_replace.

(* with the formatter table regenerated from the source: every tag a run's properties produce starts with a word of the documented vocabulary, for vertAlign ranging over its schema enumeration (superscript, subscript, baseline) *)
Theorem C07_vocabulary :
  forall e ks pr st,
  gather_Pr e ks = Ok pr -> vals_ok pr ->
  get_run_formatting e ks xml2html_table = Ok st ->
  Forall (fun x => exists w, first_word x = Ok w /\ in_vocab w = true) st.
Proof. exact run_formatting_vocab. Qed.
Print Assumptions C07_vocabulary.

(* the same for any property list *)
Theorem C07_vocabulary_all_entries :
  forall pr st,
  vals_all pr -> format_Pr_into_html pr xml2html_table = Ok st -> Forall tag_ok st.
Proof. exact format_vocab_all. Qed.
Print Assumptions C07_vocabulary_all_entries.

(* html=False produces no tags at all *)
Theorem C07_no_tags_without_html :
  forall pr, format_Pr_into_html pr [] = Ok [].
Proof. exact format_empty_table. Qed.
Print Assumptions C07_no_tags_without_html.

(* a property explicitly switched off produces no tag (D8, repaired) *)
Theorem C07_switched_off_no_tag :
  forall k v x2h,
  is_off v = true -> format_Pr_into_html [(k, v)] x2h = Ok [].
Proof. exact off_value_no_tag. Qed.
Print Assumptions C07_switched_off_no_tag.

(* the switched-off values, regenerated from the source: 0, false, off, none, baseline *)
Theorem C07_off_values :
  forall s, is_off (Some s) = true <->
  In s [[48] ; s2l "false"%string; s2l "off"%string; s2l "none"%string; s2l "baseline"%string].
Proof. exact off_values_are. Qed.
Print Assumptions C07_off_values.

(* vertAlign=baseline produces no tag (D9, repaired; formerly <bas>) *)
Theorem C07_baseline_no_tag :
  format_Pr_into_html [(s2l "vertAlign"%string, Some (s2l "baseline"%string))] xml2html_table = Ok [].
Proof. exact baseline_no_tag. Qed.
Print Assumptions C07_baseline_no_tag.
