(* C17 — search-and-replace commutes with extraction, even across split runs.
   Statements only (copied from the lemma libraries); every proof is a bare
   `exact`; see the cited files in coq/proofs for the proofs. *)
From Coq Require Import List NArith ZArith Bool Arith Sorting.Sorted Sorting.Permutation.
From D2P Require Import Str Err Xml TableTypes Tables Merge Package Content Save BulletsFacts MergeFacts SaveFacts Fmt Bullets Collector Walk ShapeFacts TokFacts FrameFacts ReplaceFacts PyVal Source SourceBase SourceMerge.
Import ListNotations.

(* the text carried by the nodes that replace a text node (line breaks counted as newlines) is exactly str.replace of the node's text, provided the result contains no carriage return *)
Theorem C17_text_node :
  forall old new e eks c tx wuri nodes,
  str_eqb (e_local e) s_br = false -> e_text e = Some (c :: tx) ->
  contains old (c :: tx) = true -> is_text_like e = true -> e_wuri e = Some wuri ->
  no_cr (replace old new (c :: tx)) ->
  replace_node old new (AE e eks) = Ok nodes ->
  concat (map node_text nodes) = replace old new (c :: tx).
Proof. exact replace_text_commutes. Qed.
Print Assumptions C17_text_node.

(* without that side condition it is join of re.split(\r\n|\r|\n) of the replaced text *)
Theorem C17_text_node_general :
  forall old new e eks c tx wuri nodes,
  str_eqb (e_local e) s_br = false -> e_text e = Some (c :: tx) ->
  contains old (c :: tx) = true -> is_text_like e = true -> e_wuri e = Some wuri ->
  replace_node old new (AE e eks) = Ok nodes ->
  concat (map node_text nodes) = join [lf] (split_nl (replace old new (c :: tx))).
Proof. exact replace_text_general. Qed.
Print Assumptions C17_text_node_general.

(* formerly finding D19, repaired in 101554e: a replacement ending in a newline keeps that line break *)
Theorem C17_trailing_newline_kept :
  join [lf] (split_nl [120; 10]) = [120; 10].
Proof. exact split_nl_trailing_newline_kept. Qed.
Print Assumptions C17_trailing_newline_kept.

(* \r\n and \r in the replaced text become one line break each; no other character is a line separator *)
Theorem C17_carriage_returns_become_line_breaks :
  join [lf] (split_nl [97; 13; 10; 98; 13; 99]) = [97; 10; 98; 10; 99].
Proof. exact split_nl_cr_becomes_lf. Qed.
Print Assumptions C17_carriage_returns_become_line_breaks.

(* what a hit produces: one copy of the node per line, a w:br between *)
Theorem C17_nodes_produced :
  forall old new e eks c tx wuri,
  e_text e = Some (c :: tx) -> contains old (c :: tx) = true -> is_text_like e = true ->
  e_wuri e = Some wuri ->
  replace_node old new (AE e eks) =
    Ok (interleave (br_of e wuri)
          (map (fun l => AE (with_text e l) eks) (split_nl (replace old new (c :: tx))))).
Proof. exact replace_node_hit. Qed.
Print Assumptions C17_nodes_produced.

(* a subtree without the needle is left exactly as it is *)
Theorem C17_frame_node :
  forall old new k,
  needle_free old k = true -> replace_node old new k = Ok [k].
Proof. exact replace_node_frame. Qed.
Print Assumptions C17_frame_node.

(* a part without the needle is unchanged *)
Theorem C17_frame_part :
  forall old new t,
  needle_free old t = true -> replace_root_text old new t = Ok t.
Proof. exact replace_root_frame. Qed.
Print Assumptions C17_frame_part.

(* no matter how the authoring tool split a stretch into runs: the replacement works on the merged tree, in which equal-key runs and adjacent text nodes are one node (C06) *)
Theorem C17_split_runs_are_one_stretch_partial :
  forall pt v ks ks',
  Forall (fun k => wf_ptag pt k = true) ks ->
  Forall (fun k => wf_text k = true) ks ->
  merge_sibs v ks = Ok ks' -> concat (map atoms ks') = concat (map atoms ks).
Proof. exact merge_sibs_atoms_partial. Qed.
Print Assumptions C17_split_runs_are_one_stretch_partial.

(* PARAGRAPH LEVEL: for every inline subtree without hyperlinks (runs, wrappers, tabs, breaks, note references, pictures, forms, equations), whatever the replaced nodes contribute to the extracted paragraph is what the original contributes with each text node's characters replaced (newlines becoming line breaks) and EVERYTHING ELSE - tabs, markers, order - identical *)
Theorem C17_paragraph_nodewise :
  forall v old new t,
  plain_inline t = true -> no_link t = true -> repl_ok old t = true ->
  forall ns path i, replace_node old new t = Ok ns ->
  emit_kids v path ns i = emit_repl v old new t.
Proof. exact emit_replace_nodewise. Qed.
Print Assumptions C17_paragraph_nodewise.

(* a hit text node: its lines, separated by one line break each; rendered: join of the lines by newline *)
Theorem C17_replaced_text_node_tokens :
  forall v path i old new e c tx wuri,
  is_text_tag e = true -> e_text e = Some (c :: tx) ->
  contains old (c :: tx) = true -> e_wuri e = Some wuri ->
  exists ns, replace_node old new (AE e []) = Ok ns
    /\ emit_kids v path ns i = Ok (repl_toks old new (c :: tx))
    /\ render false (repl_toks old new (c :: tx))
       = join [10] (split_nl (replace old new (c :: tx))).
Proof. exact emit_replaced_text_node. Qed.
Print Assumptions C17_replaced_text_node_tokens.

(* walking the replaced paragraph appends ONE record with the original paragraph's label, list marker, style, counters and list position, and the replaced contributions of its children *)
Theorem C17_replaced_paragraph_walk :
  forall v old new e ks ks' path s s' ps,
  simple_par (AE e ks) = true -> forallb no_link ks = true ->
  hit old e = false -> repl_ok old (AE e ks) = true -> ppr_clean old e ks = true ->
  replace_node old new (AE e ks) = Ok [AE e ks'] ->
  Inv s -> walk v path (AE e ks') s = Ok s' -> pars_at 4%nat (c_tree s) = Ok ps ->
  exists p bl number cs ts,
    pars_at 4%nat (c_tree s') = Ok (ps ++ [p])
    /\ get_pStyle e ks = Ok (p_style p)
    /\ get_par_number (to_numtable v) (c_counters s) (get_bullet_fmt (AE e ks)) = (cs, number)
    /\ get_bullet (to_numtable v) (get_bullet_fmt (AE e ks)) number = Ok bl
    /\ c_counters s' = cs /\ p_listpos p = get_list_position cs (get_bullet_fmt (AE e ks))
    /\ emit_repl_kids v old new ks = Ok ts
    /\ toks_of (p_runs p) = toks_of (c_queued s) ++ raw bl ++ ts.
Proof. exact replaced_par_walk. Qed.
Print Assumptions C17_replaced_paragraph_walk.

(* a paragraph without the needle is left exactly as it is *)
Theorem C17_untouched_paragraph :
  forall old new t,
  simple_par t = true -> needle_free old t = true -> replace_node old new t = Ok [t].
Proof. exact replace_frame_paragraph. Qed.
Print Assumptions C17_untouched_paragraph.

(* several pairs are applied left to right, each to the result of the previous one *)
Theorem C17_pairs_in_order :
  forall p ps root,
  replace_all (p :: ps) root
  = (t <- replace_root_text (fst p) (snd p) root ;; replace_all ps t).
Proof. exact replace_all_fold. Qed.
Print Assumptions C17_pairs_in_order.

(* C17_pairs_compose *)
Theorem C17_pairs_compose :
  forall ps qs root,
  replace_all (ps ++ qs) root = (t <- replace_all ps root ;; replace_all qs t).
Proof. exact replace_all_app. Qed.
Print Assumptions C17_pairs_compose.

(* pairs whose needle occurs nowhere change nothing *)
Theorem C17_absent_needles_are_noops :
  forall pairs root,
  (forall p, In p pairs -> needle_free_below (fst p) root = true) -> replace_all pairs root = Ok root.
Proof. exact replace_all_noop. Qed.
Print Assumptions C17_absent_needles_are_noops.

(* the local-name clause is needed in the model (it holds for every parsed tree): an element tagged w:t but named otherwise *)
Theorem C17_mistagged_text_refuted :
  exists v old new t ns,
    plain_inline t = true /\ no_link t = true /\ text_leaves0 t = true /\ wf_pr t = true
    /\ wuri_at_hits old t = true /\ replace_node old new t = Ok ns
    /\ emit_kids v [] ns 0 <> emit_repl v old new t.
Proof. exact emit_replace_nodewise_counterexample. Qed.
Print Assumptions C17_mistagged_text_refuted.

(* SOURCE TIE: the merge key that decides which runs a saved edit sees as one element is the translated _elem_key *)
Theorem C17_source_elem_key :
  forall (ext : pv -> pv -> res pv) v e ks fmt,
  tag_is_no_ptag e -> e_ruri e <> Some [] -> rid_name_unambiguous e ->
  ext (enc_el (AE e ks)) fmt = lift_strs (get_html_formatting e ks (env_x2h v)) ->
  S__elem_key ext (enc_file v fmt) (enc_el (AE e ks)) = lift_key (elem_key v e ks).
Proof. exact src_elem_key. Qed.
Print Assumptions C17_source_elem_key.

(* after the D33 repair: text the extraction does not show (deleted text, field codes - any element that is not w:t / m:t) is never replaced, only its children are visited *)
Theorem C17_invisible_text_untouched :
  forall old new e eks,
  is_text_like e = false ->
  replace_node old new (AE e eks) = (eks' <- replace_kids old new eks ;; Ok [AE e eks']).
Proof. exact replace_node_skips_invisible. Qed.
Print Assumptions C17_invisible_text_untouched.

(* a childless element that is not w:t / m:t is left exactly as it is, whatever its text *)
Theorem C17_invisible_leaf_untouched :
  forall old new e,
  is_text_like e = false -> replace_node old new (AE e []) = Ok [AE e []].
Proof. exact replace_node_leaf_invisible. Qed.
Print Assumptions C17_invisible_leaf_untouched.

(* the frame extends to needles that occur only in invisible text: such a tree is unchanged *)
Theorem C17_frame_visible :
  forall old new k,
  needle_free_visible old k = true -> replace_node old new k = Ok [k].
Proof. exact replace_node_frame_visible. Qed.
Print Assumptions C17_frame_visible.
