(* C17 — search-and-replace commutes with extraction, even across split runs.
   Statements only (copied from the lemma libraries); every proof is a bare
   `exact`; see the cited files in coq/proofs for the proofs. *)
From Coq Require Import List NArith ZArith Bool Arith Sorting.Sorted Sorting.Permutation.
From D2P Require Import Str Err Xml TableTypes Tables Merge Package Content Save BulletsFacts MergeFacts SaveFacts.
Import ListNotations.

(* the text carried by the nodes that replace a text node (line breaks counted as newlines) is exactly str.replace of the node's text, provided the result has no line separator other than newline and does not end in one (the clause the proof forces) *)
Theorem C17_text_node :
  forall old new e eks c tx wuri nodes,
  str_eqb (e_local e) s_br = false -> e_text e = Some (c :: tx) ->
  contains old (c :: tx) = true -> e_wuri e = Some wuri ->
  only_lf (replace old new (c :: tx)) -> replace old new (c :: tx) <> [] ->
  last (replace old new (c :: tx)) 0 <> lf ->
  replace_node old new (AE e eks) = Ok nodes ->
  concat (map node_text nodes) = replace old new (c :: tx).
Proof. exact replace_text_commutes. Qed.
Print Assumptions C17_text_node.

(* without side conditions it is join of splitlines of the replaced text *)
Theorem C17_text_node_general :
  forall old new e eks c tx wuri nodes,
  str_eqb (e_local e) s_br = false -> e_text e = Some (c :: tx) ->
  contains old (c :: tx) = true -> e_wuri e = Some wuri ->
  replace_node old new (AE e eks) = Ok nodes ->
  concat (map node_text nodes) = join [lf] (splitlines (replace old new (c :: tx))).
Proof. exact replace_text_general. Qed.
Print Assumptions C17_text_node_general.

(* known finding D19: a replacement ending in a newline at the end of a text node loses that newline *)
Theorem C17_trailing_newline_refuted :
  join [lf] (splitlines [120; 10]) = [120].
Proof. exact splitlines_trailing_newline_lost. Qed.
Print Assumptions C17_trailing_newline_refuted.

(* what a hit produces: one copy of the node per line, a w:br between *)
Theorem C17_nodes_produced :
  forall old new e eks c tx wuri,
  e_text e = Some (c :: tx) -> contains old (c :: tx) = true -> e_wuri e = Some wuri ->
  replace_node old new (AE e eks) =
    Ok (interleave (br_of e wuri)
          (map (fun l => AE (with_text e l) eks) (splitlines (replace old new (c :: tx))))).
Proof. exact replace_node_hit. Qed.
Print Assumptions C17_nodes_produced.

(* a subtree without the needle is left exactly as it is *)
Theorem C17_frame_node :
  forall old new k,
  needle_free old k = true -> replace_node old new k = Ok [k].
Proof. exact replace_node_frame. Qed.
Print Assumptions C17_frame_node.

(* a part without the needle is unchanged *)
Theorem C17_frame_part :
  forall old new t,
  needle_free old t = true -> replace_root_text old new t = Ok t.
Proof. exact replace_root_frame. Qed.
Print Assumptions C17_frame_part.

(* no matter how the authoring tool split a stretch into runs: the replacement works on the merged tree, in which equal-key runs and adjacent text nodes are one node (C06) *)
Theorem C17_split_runs_are_one_stretch_partial :
  forall pt v ks ks',
  Forall (fun k => wf_ptag pt k = true) ks ->
  Forall (fun k => wf_text k = true) ks ->
  merge_sibs v ks = Ok ks' -> concat (map atoms ks') = concat (map atoms ks).
Proof. exact merge_sibs_atoms_partial. Qed.
Print Assumptions C17_split_runs_are_one_stretch_partial.
