(* C11 — images are returned byte-identical and referenced in place (partial: the files written to an image folder are observed by the harness only).
   Statements only (copied from the lemma libraries); every proof is a bare
   `exact`; see the cited files in coq/proofs for the proofs. *)
From Coq Require Import List NArith ZArith Bool Arith Sorting.Sorted Sorting.Permutation.
From D2P Require Import Str Err Xml TableTypes Tables Fmt Bullets Merge Collector Walk Paths Package Content ShapeFacts TokFacts FrameFacts BulletsFacts OptionFacts Fmt Bullets Collector Walk ShapeFacts TokFacts FrameFacts MarkerFacts ReplaceFacts StandIns Fs FsFacts.
Import ListNotations.

(* every entry of images is the base name of an image relationship target mapped to the payload of the member that relationship resolves to *)
Theorem C11_images_sound :
  forall a fs r, files a = Ok fs -> images a = Ok r ->
  forall name id, dict_get name r = Some id ->
  exists f, In f (files_of_type fs s_image) /\ name = path_name (f_target f)
            /\ zread a (f_path f) = Some (MRaw id).
Proof. exact images_sound. Qed.
Print Assumptions C11_images_sound.

(* with distinct base names, every image relationship whose member exists is there *)
Theorem C11_images_complete :
  forall a fs r, files a = Ok fs -> images a = Ok r ->
  NoDup (map (fun f => path_name (f_target f)) (files_of_type fs s_image)) ->
  forall f id, In f (files_of_type fs s_image) -> zread a (f_path f) = Some (MRaw id) ->
  dict_get (path_name (f_target f)) r = Some id.
Proof. exact images_complete. Qed.
Print Assumptions C11_images_complete.

(* relationships whose member is missing are skipped without error *)
Theorem C11_missing_skipped :
  forall a fs, files a = Ok fs ->
  images a = foldM (img_step a) (filter (img_present a) (files_of_type fs s_image)) []
  /\ ((forall f x, In f (files_of_type fs s_image) -> zread a (f_path f) <> Some (MXml x)) ->
      exists r, images a = Ok r)
  /\ (forall r name, images a = Ok r ->
        (forall f, In f (files_of_type fs s_image) -> name = path_name (f_target f) ->
                   zread a (f_path f) = None) ->
        dict_get name r = None).
Proof. exact images_skips_missing. Qed.
Print Assumptions C11_missing_skipped.

(* one entry per name *)
Theorem C11_names_distinct :
  forall a r, images a = Ok r -> NoDup (map fst r).
Proof. exact images_keys_distinct. Qed.
Print Assumptions C11_names_distinct.

(* REFERENCED IN PLACE: a picture whose r:embed resolves contributes, at its place in the paragraph, the marker ----TARGET---- naming the relationship target *)
Theorem C11_picture_in_place :
  forall v path e ks rid target, e_ptag e = tag_IMAGE ->
  forallb plain_inline ks = true ->
  attr_r_req e s_embed = Ok rid -> dict_get rid (env_rels v) = Some target ->
  emit v path (AE e ks)
  = (k <- emit_kids v path ks 0%nat ;; Ok (raw (s_dashes ++ target ++ s_dashes) ++ k)).
Proof. exact emit_image. Qed.
Print Assumptions C11_picture_in_place.

(* the same for VML pictures (v:imagedata r:id) *)
Theorem C11_vml_picture_in_place :
  forall v path e ks rid target, e_ptag e = tag_IMAGEDATA ->
  forallb plain_inline ks = true ->
  attr_r_req e s_id = Ok rid -> dict_get rid (env_rels v) = Some target ->
  emit v path (AE e ks)
  = (k <- emit_kids v path ks 0%nat ;; Ok (raw (s_dashes ++ target ++ s_dashes) ++ k)).
Proof. exact emit_imagedata. Qed.
Print Assumptions C11_vml_picture_in_place.

(* a picture whose relationship cannot be resolved (no attribute, r unbound, dangling id) is skipped without error *)
Theorem C11_unresolved_picture_skipped :
  forall v path e ks, e_ptag e = tag_IMAGE ->
  forallb plain_inline ks = true ->
  (attr_r_req e s_embed = Err KeyError
   \/ exists rid, attr_r_req e s_embed = Ok rid /\ dict_get rid (env_rels v) = None) ->
  emit v path (AE e ks) = emit_kids v path ks 0%nat.
Proof. exact emit_image_unresolved. Qed.
Print Assumptions C11_unresolved_picture_skipped.

(* the picture handler itself never raises *)
Theorem C11_picture_cannot_raise :
  forall v path e ks x, e_ptag e = tag_IMAGE ->
  forallb plain_inline ks = true ->
  emit v path (AE e ks) = Err x -> emit_kids v path ks 0%nat = Err x.
Proof. exact emit_image_only_kids_fail. Qed.
Print Assumptions C11_picture_cannot_raise.

(* the alt-text marker ----Image alt text---->DESCRIPTION< (description escaped under html) *)
Theorem C11_alt_text_marker :
  forall v path e ks d, e_ptag e = tag_IMAGE_ALT ->
  forallb plain_inline ks = true -> attr_plain e s_descr = Some d ->
  emit v path (AE e ks)
  = (k <- emit_kids v path ks 0%nat ;;
     Ok ((raw s_alt_prefix ++ map TTxt d ++ [TRaw 60]) ++ k)).
Proof. exact emit_image_alt. Qed.
Print Assumptions C11_alt_text_marker.

(* in a drawing (any inert siblings at every level) the alt-text marker precedes the picture marker *)
Theorem C11_alt_text_precedes_picture :
  forall v path
    drawing inline docPr graphic graphicData pic blipFill blip
    d0 d1 i0 i1 i2 g0 g1 gd0 gd1 p0 p1 bf0 bf1 dk bk d rid target,
  foreign_tag (e_ptag drawing) = true -> foreign_tag (e_ptag inline) = true ->
  foreign_tag (e_ptag graphic) = true -> foreign_tag (e_ptag graphicData) = true ->
  foreign_tag (e_ptag pic) = true -> foreign_tag (e_ptag blipFill) = true ->
  e_ptag docPr = tag_IMAGE_ALT -> attr_plain docPr s_descr = Some d ->
  e_ptag blip = tag_IMAGE -> attr_r_req blip s_embed = Ok rid ->
  dict_get rid (env_rels v) = Some target ->
  forallb (forallb inert) [d0; d1; i0; i1; i2; g0; g1; gd0; gd1; p0; p1; bf0; bf1; dk; bk] = true ->
  emit v path
    (AE drawing
       (d0 ++ AE inline
                (i0 ++ AE docPr dk
                 :: i1 ++ AE graphic
                            (g0 ++ AE graphicData
                                     (gd0 ++ AE pic
                                               (p0 ++ AE blipFill (bf0 ++ AE blip bk :: bf1) :: p1)
                                      :: gd1)
                             :: g1)
                 :: i2)
        :: d1))
  = Ok ((raw s_alt_prefix ++ map TTxt d ++ [TRaw 60]) ++ raw (s_dashes ++ target ++ s_dashes)).
Proof. exact drawing_alt_then_image. Qed.
Print Assumptions C11_alt_text_precedes_picture.

(* rendered identically with html on and off *)
Theorem C11_marker_rendering :
  forall html target,
  render html (image_marker target) = [45;45;45;45] ++ target ++ [45;45;45;45].
Proof. exact image_marker_render. Qed.
Print Assumptions C11_marker_rendering.

(* WRITTEN TO THE IMAGE FOLDER (model/Fs.v: directories + files with content; mkdir(parents, exist_ok) and open(wb).write modelled): after save_images / construction with a folder, every entry of images is a file of that name in the folder with exactly those bytes (names distinct) *)
Theorem C11_folder_written_exactly :
  forall imgs d fs fs',
  NoDup (map fst imgs) -> write_images imgs (Some d) fs = Some fs' ->
  forall n b, In (n, b) imgs -> file_get (d ++ [n]) (fs_files fs') = Some b.
Proof. exact write_images_writes. Qed.
Print Assumptions C11_folder_written_exactly.

(* and NOTHING ELSE is written or changed: every other path of the file system - inside or outside the folder - has the content it had before *)
Theorem C11_nothing_else_written :
  forall imgs d fs fs',
  write_images imgs (Some d) fs = Some fs' ->
  forall p, (forall n, In n (map fst imgs) -> p <> d ++ [n]) ->
  file_get p (fs_files fs') = file_get p (fs_files fs).
Proof. exact write_images_frame. Qed.
Print Assumptions C11_nothing_else_written.

(* the folder exists afterwards (it is created if necessary) *)
Theorem C11_folder_created :
  forall imgs d fs fs',
  write_images imgs (Some d) fs = Some fs' -> is_dir fs' d = true.
Proof. exact write_images_folder_created. Qed.
Print Assumptions C11_folder_created.

(* the only directories created are the folder and its missing ancestors *)
Theorem C11_only_folder_and_ancestors_created :
  forall imgs d fs fs',
  write_images imgs (Some d) fs = Some fs' ->
  forall q, is_dir fs' q = is_dir fs q || existsb (fpath_eqb q) (prefixes d).
Proof. exact write_images_dirs. Qed.
Print Assumptions C11_only_folder_and_ancestors_created.

(* without a folder the file system is untouched *)
Theorem C11_no_folder_no_write :
  forall imgs fs, write_images imgs None fs = Some fs.
Proof. exact write_images_no_folder. Qed.
Print Assumptions C11_no_folder_no_write.

(* writing succeeds whenever no ancestor of the folder is a file and no image name is a directory in it *)
Theorem C11_write_succeeds :
  forall imgs d fs,
  (forall q, In q (prefixes d) -> is_file fs q = false) ->
  (forall n, In n (map fst imgs) -> is_dir fs (d ++ [n]) = false) ->
  exists fs', write_images imgs (Some d) fs = Some fs'.
Proof. exact write_images_succeeds. Qed.
Print Assumptions C11_write_succeeds.

(* machine-checked example: a stale file of the same name is replaced, an unrelated file in the folder stays *)
Theorem C11_stale_file_replaced_example :
  let fs := {| fs_dirs := [[[116]]]; fs_files := [([[116]; [97]], 7%N); ([[116]; [122]], 9%N)] |} in
  write_images [([97], 1%N); ([98], 2%N)] (Some [[116]]) fs
  = Some {| fs_dirs := [[[116]]];
            fs_files := [([[116]; [97]], 1%N); ([[116]; [122]], 9%N); ([[116]; [98]], 2%N)] |}.
Proof. exact write_images_example. Qed.
Print Assumptions C11_stale_file_replaced_example.
