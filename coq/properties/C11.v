(* C11 — images are returned byte-identical and referenced in place (partial: the files written to an image folder are observed by the harness only).
   Statements only (copied from the lemma libraries); every proof is a bare
   `exact`; see the cited files in coq/proofs for the proofs. *)
From Coq Require Import List NArith ZArith Bool Arith Sorting.Sorted Sorting.Permutation.
From D2P Require Import Str Err Xml TableTypes Tables Fmt Bullets Merge Collector Walk Paths Package Content ShapeFacts TokFacts FrameFacts BulletsFacts OptionFacts.
Import ListNotations.

(* every entry of images is the base name of an image relationship target mapped to the payload of the member that relationship resolves to *)
Theorem C11_images_sound :
  forall a fs r, files a = Ok fs -> images a = Ok r ->
  forall name id, dict_get name r = Some id ->
  exists f, In f (files_of_type fs s_image) /\ name = path_name (f_target f)
            /\ zread a (f_path f) = Some (MRaw id).
Proof. exact images_sound. Qed.
Print Assumptions C11_images_sound.

(* with distinct base names, every image relationship whose member exists is there *)
Theorem C11_images_complete :
  forall a fs r, files a = Ok fs -> images a = Ok r ->
  NoDup (map (fun f => path_name (f_target f)) (files_of_type fs s_image)) ->
  forall f id, In f (files_of_type fs s_image) -> zread a (f_path f) = Some (MRaw id) ->
  dict_get (path_name (f_target f)) r = Some id.
Proof. exact images_complete. Qed.
Print Assumptions C11_images_complete.

(* relationships whose member is missing are skipped without error *)
Theorem C11_missing_skipped :
  forall a fs, files a = Ok fs ->
  images a = foldM (img_step a) (filter (img_present a) (files_of_type fs s_image)) []
  /\ ((forall f x, In f (files_of_type fs s_image) -> zread a (f_path f) <> Some (MXml x)) ->
      exists r, images a = Ok r)
  /\ (forall r name, images a = Ok r ->
        (forall f, In f (files_of_type fs s_image) -> name = path_name (f_target f) ->
                   zread a (f_path f) = None) ->
        dict_get name r = None).
Proof. exact images_skips_missing. Qed.
Print Assumptions C11_missing_skipped.

(* one entry per name *)
Theorem C11_names_distinct :
  forall a r, images a = Ok r -> NoDup (map fst r).
Proof. exact images_keys_distinct. Qed.
Print Assumptions C11_names_distinct.
