(* C20 — iterator helpers enumerate every item once, in order, with valid
   addresses.  Statements only; proofs are in proofs/IterProps.v. *)
From Coq Require Import List Arith Sorting.Sorted.
From D2P Require Import Str Err Iter IterFacts IterProps.
Import ListNotations.

(* for every nested list whose items above depth d are lists (any widths,
   empty and ragged included) and every depth 1..5: enum_at_depth succeeds,
   yields exactly the valid addresses of length d, each once, in strictly
   increasing lexicographic order *)
Theorem C20_complete_sorted : forall (A : Type) (t : rose A) (d : nat),
  1 <= d <= 5 -> wf (pred d) t ->
  exists l, enum_at_depth t d = Ok l
    /\ (forall addr x, In (addr, x) l <-> (length addr = d /\ index t addr = Some x))
    /\ StronglySorted (@lex_lt) (map fst l)
    /\ NoDup (map fst l).
Proof. exact c20_complete_sorted. Qed.
Print Assumptions C20_complete_sorted.

(* indexing the input with a yielded address returns the yielded item *)
Theorem C20_index : forall (A : Type) (t : rose A) (d : nat) l,
  1 <= d <= 5 -> wf (pred d) t -> enum_at_depth t d = Ok l ->
  forall addr x, In (addr, x) l -> index t addr = Some x.
Proof. exact c20_index. Qed.
Print Assumptions C20_index.

(* iter_at_depth and the named helpers yield the same items in the same order *)
Theorem C20_iter : forall (A : Type) (t : rose A) (d : nat),
  iter_at_depth t d = (r <- enum_at_depth t d ;; Ok (map snd r)).
Proof. exact c20_iter. Qed.
Print Assumptions C20_iter.

Theorem C20_wrappers : forall (A : Type) (t : rose A),
  iter_tables t = iter_at_depth t 1 /\ iter_rows t = iter_at_depth t 2 /\
  iter_cells t = iter_at_depth t 3 /\ iter_paragraphs t = iter_at_depth t 4 /\
  enum_tables t = enum_at_depth t 1 /\ enum_rows t = enum_at_depth t 2 /\
  enum_cells t = enum_at_depth t 3 /\ enum_paragraphs t = enum_at_depth t 4.
Proof. exact c20_wrappers. Qed.
Print Assumptions C20_wrappers.

(* any other depth raises ValueError *)
Theorem C20_bad_depth : forall (A : Type) (t : rose A) (d : nat),
  d = 0 \/ 5 < d ->
  enum_at_depth t d = Err ValueError /\ iter_at_depth t d = Err ValueError.
Proof. exact c20_bad_depth. Qed.
Print Assumptions C20_bad_depth.
