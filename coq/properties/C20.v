(* C20 — iterator helpers enumerate every item once, in order, with valid addresses.
   Statements only (copied from the lemma libraries); every proof is a bare
   `exact`; see the cited files in coq/proofs for the proofs. *)
From Coq Require Import List NArith ZArith Bool Arith Sorting.Sorted Sorting.Permutation.
From D2P Require Import Str Err Iter IterFacts IterProps MiscFacts PyVal Source SourceBase ViewFacts SourceIter PyHeap SourceHeapViews SourceFresh SourceHtmlMap.
Import ListNotations.
Local Open Scope nat_scope.

(* for every nested list whose items above depth d are lists (any widths, empty and ragged included) and every depth 1..5: enum_at_depth succeeds, yields exactly the valid addresses of length d, each once, in strictly increasing lexicographic order *)
Theorem C20_complete_sorted :
  forall (A : Type) (t : rose A) (d : nat),
  1 <= d <= 5 -> wf (pred d) t ->
  exists l, enum_at_depth t d = Ok l
    /\ (forall addr x, In (addr, x) l <-> (length addr = d /\ index t addr = Some x))
    /\ StronglySorted (@lex_lt) (map fst l)
    /\ NoDup (map fst l).
Proof. exact c20_complete_sorted. Qed.
Print Assumptions C20_complete_sorted.

(* indexing the input with a yielded address returns the yielded item *)
Theorem C20_index :
  forall (A : Type) (t : rose A) (d : nat) l,
  1 <= d <= 5 -> wf (pred d) t -> enum_at_depth t d = Ok l ->
  forall addr x, In (addr, x) l -> index t addr = Some x.
Proof. exact c20_index. Qed.
Print Assumptions C20_index.

(* iter_at_depth yields the same items in the same order *)
Theorem C20_iter :
  forall (A : Type) (t : rose A) (d : nat),
  iter_at_depth t d = (r <- enum_at_depth t d ;; Ok (map snd r)).
Proof. exact c20_iter. Qed.
Print Assumptions C20_iter.

(* the named helpers are the instances for depths 1..4 *)
Theorem C20_wrappers :
  forall (A : Type) (t : rose A),
  iter_tables t = iter_at_depth t 1 /\ iter_rows t = iter_at_depth t 2 /\
  iter_cells t = iter_at_depth t 3 /\ iter_paragraphs t = iter_at_depth t 4 /\
  enum_tables t = enum_at_depth t 1 /\ enum_rows t = enum_at_depth t 2 /\
  enum_cells t = enum_at_depth t 3 /\ enum_paragraphs t = enum_at_depth t 4.
Proof. exact c20_wrappers. Qed.
Print Assumptions C20_wrappers.

(* any other depth raises ValueError *)
Theorem C20_bad_depth :
  forall (A : Type) (t : rose A) (d : nat),
  d = 0 \/ 5 < d ->
  enum_at_depth t d = Err ValueError /\ iter_at_depth t d = Err ValueError.
Proof. exact c20_bad_depth. Qed.
Print Assumptions C20_bad_depth.

(* the html map writes the label of every depth-4 address exactly once, in order, and of nothing else *)
Theorem C20_html_map_each_address_once :
  forall tables s,
  IterFacts.wf 4%nat tables -> get_html_map tables = Ok s ->
  exists addrs,
    woven s (map par_label addrs) /\
    NoDup addrs /\
    Sorted.StronglySorted lex_lt addrs /\
    (forall a, In a addrs <-> (length a = 4%nat /\ exists x, index tables a = Some x)).
Proof. exact html_map_each_address_once. Qed.
Print Assumptions C20_html_map_each_address_once.

(* and succeeds on every 5-deep list of strings *)
Theorem C20_html_map_total :
  forall tables,
  leaves_at 5 tables -> exists s, get_html_map tables = Ok s.
Proof. exact html_map_total_leaves. Qed.
Print Assumptions C20_html_map_total.

(* TIE TO THE SOURCE TEXT (gen/Source.v is regenerated from /repo by tools/gen_source.py on every run): iterators.enum_at_depth as translated from the Python source equals the model's enum_at_depth on EVERY nested list and EVERY depth, error outcomes included (leaves that cannot be iterated) *)
Theorem C20_source_enum_at_depth :
  forall A (f : A -> pv) (t : rose A) (d : nat) fuel,
  atomic_leaves f -> (5 < fuel)%nat ->
  S_enum_at_depth fuel (enc_rose f t) (VInt (Z.of_nat d)) = lift_enum f (enum_at_depth t d).
Proof. exact src_enum_at_depth. Qed.
Print Assumptions C20_source_enum_at_depth.

(* the same for any leaves (strings included) when the items above the requested depth are lists - the lists C20 quantifies over *)
Theorem C20_source_enum_at_depth_deep :
  forall A (f : A -> pv) (t : rose A) (d k : nat) fuel,
  (1 <= d <= 5)%nat -> deep (d + k) t -> (5 < fuel)%nat ->
  S_enum_at_depth fuel (enc_rose f t) (VInt (Z.of_nat d)) = lift_enum f (enum_at_depth t d).
Proof. exact src_enum_at_depth_deep. Qed.
Print Assumptions C20_source_enum_at_depth_deep.

(* the translated source raises ValueError for every other integer depth, whatever the argument *)
Theorem C20_source_bad_depth :
  forall v z fuel,
  (0 < fuel)%nat -> (z < 1 \/ 5 < z)%Z -> S_enum_at_depth fuel v (VInt z) = Err ValueError.
Proof. exact src_enum_at_depth_bad. Qed.
Print Assumptions C20_source_bad_depth.

(* iterators.iter_at_depth as translated from the source equals the model's *)
Theorem C20_source_iter_at_depth :
  forall A (f : A -> pv) (t : rose A) (d : nat) fuel,
  atomic_leaves f -> (5 < fuel)%nat ->
  S_iter_at_depth fuel (enc_rose f t) (VInt (Z.of_nat d)) = lift_items f (iter_at_depth t d).
Proof. exact src_iter_at_depth. Qed.
Print Assumptions C20_source_iter_at_depth.

(* so do iter_tables / iter_rows / iter_cells / iter_paragraphs / enum_tables / enum_rows / enum_cells / enum_paragraphs *)
Theorem C20_source_named_helpers :
  forall A (f : A -> pv) (t : rose A) fuel,
  atomic_leaves f -> (5 < fuel)%nat ->
  S_iter_tables fuel (enc_rose f t) = lift_items f (iter_tables t) /\
  S_iter_rows fuel (enc_rose f t) = lift_items f (iter_rows t) /\
  S_iter_cells fuel (enc_rose f t) = lift_items f (iter_cells t) /\
  S_iter_paragraphs fuel (enc_rose f t) = lift_items f (iter_paragraphs t) /\
  S_enum_tables fuel (enc_rose f t) = lift_enum f (enum_tables t) /\
  S_enum_rows fuel (enc_rose f t) = lift_enum f (enum_rows t) /\
  S_enum_cells fuel (enc_rose f t) = lift_enum f (enum_cells t) /\
  S_enum_paragraphs fuel (enc_rose f t) = lift_enum f (enum_paragraphs t).
Proof. exact src_named_helpers. Qed.
Print Assumptions C20_source_named_helpers.

(* THE HTML MAP IS COMPUTED WITHOUT MODIFYING ITS ARGUMENT - about the source text (gen/SourceHeapViews.v: get_html_map and enum_at_depth translated with the heap embedding; copy.deepcopy modelled by hy_deepcopy): whenever it returns, the heap has only grown - no cell that existed before the call was modified, for ANY argument and heap - and the result is a string *)
Theorem C20_source_html_map_keeps_argument :
  forall fuel x h v h',
  S_HV_get_html_map fuel x h = HOk v h' ->
  extends h h' /\ exists s, v = VStr s.
Proof. exact hv_get_html_map_keeps_argument. Qed.
Print Assumptions C20_source_html_map_keeps_argument.

(* so every cell of the argument reads the same afterwards *)
Theorem C20_source_html_map_argument_unchanged :
  forall fuel x h v h' a,
  S_HV_get_html_map fuel x h = HOk v h' -> (a < length h)%nat -> h_get a h' = h_get a h.
Proof. exact hv_get_html_map_argument_unchanged. Qed.
Print Assumptions C20_source_html_map_argument_unchanged.

(* enum_at_depth only reads: the heap is unchanged *)
Theorem C20_source_enum_only_reads :
  forall fuel x d h v h',
  S_HV_enum_at_depth fuel x d h = HOk v h' -> h' = h.
Proof. exact hv_enum_at_depth_pure. Qed.
Print Assumptions C20_source_enum_only_reads.

(* the modelled copy.deepcopy only allocates *)
Theorem C20_deepcopy_only_allocates :
  forall fuel x h v h',
  hy_deepcopy fuel x h = HOk v h' -> extends h h'.
Proof. exact hy_deepcopy_extends. Qed.
Print Assumptions C20_deepcopy_only_allocates.
