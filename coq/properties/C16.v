(* C16 — saving round-trips: same members, same extraction, edits carried over.
   Statements only (copied from the lemma libraries); every proof is a bare
   `exact`; see the cited files in coq/proofs for the proofs. *)
From Coq Require Import List NArith ZArith Bool Arith Sorting.Sorted Sorting.Permutation.
From D2P Require Import Str Err Xml TableTypes Tables Merge Package Content Save BulletsFacts MergeFacts SaveFacts TablesFacts Walk Collector ReplaceFacts.
Import ListNotations.
Import String.StringSyntax.
Delimit Scope string_scope with string.

(* every member that is neither a content part nor a relationships part is carried over under its own name, as itself (bytes and ZipInfo) *)
Theorem C16_untouched_members_copied :
  forall a fs roots out, save_with a fs roots = Ok out ->
  forall i n m, nth_error a i = Some (n, m) ->
    mem_str n (map f_path (filter (fun f => mem_str (f_type f) save_overwrite_types) fs)) = false ->
    In (n, WCopy i) out.
Proof. exact save_copies_exact. Qed.
Print Assumptions C16_untouched_members_copied.

(* nothing else is copied *)
Theorem C16_nothing_else_copied :
  forall a fs roots out n i,
  save_with a fs roots = Ok out -> In (n, WCopy i) out ->
  exists m, nth_error a i = Some (n, m).
Proof. exact save_copy_sound. Qed.
Print Assumptions C16_nothing_else_copied.

(* the rewritten members are exactly the cached - possibly edited - element trees: one member per distinct path among the rewritten Files, in order of first occurrence, carrying the tree of the last File with that path *)
Theorem C16_edits_are_what_is_saved :
  forall a fs roots out, save_with a fs roots = Ok out ->
  let content := filter (fun f => mem_str (f_type f) save_overwrite_types) fs in
  exists copied written, out = copied ++ written
    /\ Forall (fun nm => exists i, snd nm = WCopy i) copied
    /\ Forall2 (fun p nm => exists f t, last_with_path p content = Some f /\ roots f = Ok t
                                        /\ nm = (p, WXml t))
               (dedup_names (map f_path content) []) written.
Proof. exact save_written_exact. Qed.
Print Assumptions C16_edits_are_what_is_saved.

(* if the rewritten parts are pairwise distinct and each is one input member, the saved archive has exactly the input's member names, each as often as the input *)
Theorem C16_same_member_names :
  forall a fs roots out, save_with a fs roots = Ok out ->
  let content := filter (fun f => mem_str (f_type f) save_overwrite_types) fs in
  NoDup (map f_path content) ->
  (forall p, In p (map f_path content) -> exists! i, exists m, nth_error a i = Some (p, m)) ->
  Permutation (map fst out) (map fst a).
Proof. exact save_names. Qed.
Print Assumptions C16_same_member_names.

(* the former finding D18 (two relationships to one content part wrote that member twice), repaired in afbdcde: the member is written once, the last File wins *)
Theorem C16_duplicate_member_repaired :
  map f_path (filter is_overwritten dup_files) = [dup_path; dup_path]
  /\ save_with dup_archive dup_files dup_roots = Ok dup_out
  /\ count_occ str_eq_dec (map fst dup_out) (dup_path) = 1%nat
  /\ NoDup (map fst dup_out) /\ NoDup (map fst dup_archive).
Proof. exact save_duplicate_repaired. Qed.
Print Assumptions C16_duplicate_member_repaired.

(* saving the saved file again reproduces its content parts: a merged tree is a fixed point of merging (hypotheses as in C06) *)
Theorem C16_second_save_unchanged_partial :
  forall pt v t t',
  rels_ok v -> wf_ptag pt t = true -> wf_pr t = true ->
  merge_elems v t = Ok t' -> merge_elems v t' = Ok t'.
Proof. exact merge_idempotent_partial. Qed.
Print Assumptions C16_second_save_unchanged_partial.

(* tie to the source: save() rewrites exactly the content part types and the relationships parts (its `overwrite` list in /repo today) *)
Theorem C16_what_save_rewrites :
  sort_strs save_overwrite_types = sort_strs (s2l "relationships"%string :: content_file_types).
Proof. exact save_rewrites_content_and_rels. Qed.
Print Assumptions C16_what_save_rewrites.

(* CONTENT_FILE_TYPES is officeDocument, header, footer, footnotes, endnotes *)
Theorem C16_content_types :
  sort_strs content_file_types
  = sort_strs (map s2l ["officeDocument"; "header"; "footer"; "footnotes"; "endnotes"]%string).
Proof. exact content_types_spec. Qed.
Print Assumptions C16_content_types.

(* RE-EXTRACTION: a content part as written by save() is a fixed point of merging, and extracting it again (same options) gives the very collector of the original part - identical output (hypotheses of merge idempotence; the part is not also related under a non-content type; parse o serialise = id is lxml's, observed by the harness) *)
Theorem C16_reextract_partial :
  forall pt a o out fs f r rels,
  save a o = Ok out -> files a = Ok fs -> In f fs ->
  mem_str (f_type f) content_file_types = true ->
  same_kind_as_saved fs f = true ->
  member_xml a (f_path f) = Ok r -> file_rels_or_empty a fs f = Ok rels ->
  rels_ok (merge_env o rels) -> wf_ptag pt (view r) = true -> wf_pr (view r) = true ->
  exists t, In (f_path f, WXml t) out /\ part_root a fs o f = Ok t
    /\ merge_elems (merge_env o rels) t = Ok t
    /\ (forall v, (t' <- merge_elems (merge_env o rels) t ;; collect_from v [] t')
                  = collect_from v [] t)
    /\ reextract a fs o f t = part_collector a fs o f.
Proof. exact C16_reextract_partial. Qed.
Print Assumptions C16_reextract_partial.

(* what save() writes for a content part is its cached root element *)
Theorem C16_written_is_part_root :
  forall a o out n t,
  save a o = Ok out -> In (n, WXml t) out ->
  exists fs f, files a = Ok fs /\ In f fs /\ mem_str (f_type f) save_overwrite_types = true
    /\ n = f_path f /\ part_root a fs o f = Ok t.
Proof. exact save_written_is_part_root. Qed.
Print Assumptions C16_written_is_part_root.

(* EXACTLY THE INPUT'S MEMBER NAMES, EACH ONCE: for every archive with pairwise distinct member names, whenever save() succeeds the saved archive's member names are a permutation of the input's and pairwise distinct - whatever the relationships (several may point at one part) *)
Theorem C16_each_member_name_once :
  forall a o out,
  save a o = Ok out -> NoDup (map fst a) ->
  Permutation (map fst out) (map fst a) /\ NoDup (map fst out).
Proof. exact save_names_once_save. Qed.
Print Assumptions C16_each_member_name_once.

(* the rewritten members have pairwise distinct names, for every archive and file list *)
Theorem C16_written_paths_distinct :
  forall a fs roots out, save_with a fs roots = Ok out ->
  NoDup (map fst (filter is_written_xml out)).
Proof. exact save_written_paths_nodup. Qed.
Print Assumptions C16_written_paths_distinct.

(* the same for replace_docx_text *)
Theorem C16_replace_keeps_member_names :
  forall a o pairs out,
  replace_docx a o pairs = Ok out -> NoDup (map fst a) ->
  Permutation (map fst out) (map fst a) /\ NoDup (map fst out).
Proof. exact replace_docx_names_once. Qed.
Print Assumptions C16_replace_keeps_member_names.

(* the extra clause of the re-extraction theorem is needed: a part related both as officeDocument and under a non-content type is written unmerged *)
Theorem C16_reextract_alias_refuted :
  exists pt a o out fs f r rels,
    save a o = Ok out /\ files a = Ok fs /\ In f fs
    /\ mem_str (f_type f) content_file_types = true
    /\ member_xml a (f_path f) = Ok r /\ file_rels_or_empty a fs f = Ok rels
    /\ rels_ok (merge_env o rels) /\ wf_ptag pt (view r) = true /\ wf_pr (view r) = true
    /\ ~ exists t, In (f_path f, WXml t) out /\ part_root a fs o f = Ok t.
Proof. exact C16_reextract_counterexample. Qed.
Print Assumptions C16_reextract_alias_refuted.
