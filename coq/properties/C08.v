(* C08 — list markers follow Word's counting rules and render numbers correctly.
   Statements only (copied from the lemma libraries); every proof is a bare
   `exact`; see the cited files in coq/proofs for the proofs. *)
From Coq Require Import List NArith ZArith Bool Arith Sorting.Sorted Sorting.Permutation.
From D2P Require Import Str Err Xml TableTypes Tables Fmt NumFmt Bullets Merge Collector Walk NumFmtFacts BulletsFacts PropGlue ShapeFacts FrameFacts SeqFacts PyVal Source SourceBase SourceNum SourceElem SourceForms SourceBullets Paths Package SourceNumbering.
Import ListNotations.
Open Scope N_scope.

(* letters: for EVERY positive ordinal (unbounded) the rendering exists, is made of a..z, and decodes (bijective base 26) to the ordinal ... *)
Theorem C08_letters_correct :
  forall p s, lower_letter (Zpos p) = Ok s ->
  decode26 s = Npos p /\ Forall (fun c => 97 <= c /\ c <= 122) s /\ s <> [].
Proof. exact letters_decode. Qed.
Print Assumptions C08_letters_correct.

(* C08_letters_total *)
Theorem C08_letters_total :
  forall p, exists s, lower_letter (Zpos p) = Ok s.
Proof. exact letters_total. Qed.
Print Assumptions C08_letters_total.

(* ... distinct and order preserving (a < b < ... < z < aa < ab ...) *)
Theorem C08_letters_monotone :
  forall p q s t,
  lower_letter (Zpos p) = Ok s -> lower_letter (Zpos q) = Ok t ->
  (p < q)%positive -> shortlex_lt s t.
Proof. exact letters_monotone. Qed.
Print Assumptions C08_letters_monotone.

(* C08_letters_injective *)
Theorem C08_letters_injective :
  forall p q s,
  lower_letter (Zpos p) = Ok s -> lower_letter (Zpos q) = Ok s -> p = q.
Proof. exact letters_injective. Qed.
Print Assumptions C08_letters_injective.

(* Roman numerals: for all 1 <= n <= 3999 (the bound is part of the statement; finite domain decided by vm_compute) the ROMAN_SUBS rewriting of the source yields the standard numeral, whose value is n *)
Theorem C08_roman_correct :
  forall z, (1 <= z <= 3999)%Z ->
  lower_roman z = Ok (roman_ref (Z.to_N z)) /\
  roman_value (roman_ref (Z.to_N z)) = Z.to_N z.
Proof. exact roman_correct. Qed.
Print Assumptions C08_roman_correct.

(* C08_roman_injective *)
Theorem C08_roman_injective :
  forall a b s,
  (1 <= a <= 3999)%Z -> (1 <= b <= 3999)%Z ->
  lower_roman a = Ok s -> lower_roman b = Ok s -> a = b.
Proof. exact roman_injective. Qed.
Print Assumptions C08_roman_injective.

(* ordinals below one are rejected by all four renderers *)
Theorem C08_reject :
  forall z, (z < 1)%Z ->
  lower_letter z = Err ValueError /\ upper_letter z = Err ValueError /\
  lower_roman z = Err ValueError /\ upper_roman z = Err ValueError.
Proof. exact letters_reject. Qed.
Print Assumptions C08_reject.

(* C08_upper_letter *)
Theorem C08_upper_letter :
  forall z,
  upper_letter z = (s <- lower_letter z ;; Ok (map upper_chr s)).
Proof. exact upper_letter_is_map. Qed.
Print Assumptions C08_upper_letter.

(* C08_upper_roman *)
Theorem C08_upper_roman :
  forall z,
  upper_roman z = (s <- lower_roman z ;; Ok (map upper_chr s)).
Proof. exact upper_roman_is_map. Qed.
Print Assumptions C08_upper_roman.

(* C08_decimal *)
Theorem C08_decimal :
  forall z, decimal z = Ok (str_of_Z z) /\ int_of_str (str_of_Z z) = Some z.
Proof. exact c08_decimal. Qed.
Print Assumptions C08_decimal.

(* counting rule, for EVERY history of list and non-list paragraphs: the counter of (list, level) equals the number of earlier items of the same list and level since the latest item of that list with a smaller level *)
Theorem C08_counter_spec :
  forall tbl h numId ilvl,
  count_of (run_hist tbl h) numId ilvl = spec_rev (items_rev h []) numId ilvl.
Proof. exact counters_spec. Qed.
Print Assumptions C08_counter_spec.

(* the ordinal given to the next item: start - 1 + 1 + that count *)
Theorem C08_ordinal :
  forall tbl h n l cs' num,
  get_par_number tbl (run_hist tbl h) (Some n, Some l) = (cs', num) ->
  num = Some (Z.of_N (1 + spec_rev (items_rev h []) n l) + get_start_value_zero_based tbl n l)%Z
  /\ cs' = run_hist tbl (h ++ [Some (n, l)]).
Proof. exact par_number_spec. Qed.
Print Assumptions C08_ordinal.

(* other lists and non-list paragraphs do not interfere *)
Theorem C08_no_interference :
  forall tbl h1 h2 numId ilvl,
  (forall i, In (Some i) h2 -> fst i <> numId) ->
  count_of (run_hist tbl (h1 ++ h2)) numId ilvl = count_of (run_hist tbl h1) numId ilvl.
Proof. exact non_items_do_not_interfere. Qed.
Print Assumptions C08_no_interference.

(* list_position: the list id with the counters of its open levels in ascending level order (keys stay sorted, counts >= 1) *)
Theorem C08_position_sorted :
  forall tbl h numId d,
  dict_get numId (run_hist tbl h) = Some d ->
  keys_sorted d /\ Forall (fun kv => 1 <= snd kv) d.
Proof. exact keys_sorted_invariant. Qed.
Print Assumptions C08_position_sorted.

(* marker layout: ilvl tabs, then -- or ordinal followed by ), then a tab *)
Theorem C08_marker_layout :
  forall tbl n l num s,
  get_bullet tbl (Some n, Some l) (Some num) = Ok s ->
  exists lvl body, int_of_str l = Some lvl
    /\ s = repeat_str s_tab (Z.to_nat lvl) ++ body ++ s_tab
    /\ (body = bullet_str \/ exists b, body = b ++ [41] /\ b <> bullet_str).
Proof. exact bullet_layout. Qed.
Print Assumptions C08_marker_layout.

(* C08_not_a_list_item *)
Theorem C08_not_a_list_item :
  forall tbl fmt num,
  (fst fmt = None \/ snd fmt = None \/ num = None) -> get_bullet tbl fmt num = Ok [].
Proof. exact bullet_not_list. Qed.
Print Assumptions C08_not_a_list_item.

(* tie to the walk: after any run of paragraphs the collector's list counters are exactly the history fold over their (numId, ilvl) - non-list paragraphs are no-ops *)
Theorem C08_counters_along_the_walk :
  forall v ks path i s s',
  forallb simple_par ks = true -> Inv s -> c_open s = [] ->
  kids_loop v path ks i s = Ok s' ->
  c_counters s' = fold_left (step (to_numtable v)) (map par_fmt ks) (c_counters s).
Proof. exact counters_of_simple_pars. Qed.
Print Assumptions C08_counters_along_the_walk.

(* hence, counted separately per content part (a fresh collector starts from empty counters), the counter of (list, level) after the paragraphs is the counting rule's value *)
Theorem C08_counter_of_item_in_part :
  forall v ks path i s s' numId ilvl,
  forallb simple_par ks = true -> Inv s -> c_open s = [] -> c_counters s = [] ->
  kids_loop v path ks i s = Ok s' ->
  count_of (c_counters s') numId ilvl = spec_rev (items_rev (map par_fmt ks) []) numId ilvl.
Proof. exact counter_of_nth_item. Qed.
Print Assumptions C08_counter_of_item_in_part.

(* TIE TO THE SOURCE TEXT (gen/Source.v is regenerated from /repo by tools/gen_source.py on every run): the ROMAN_SUBS literal *)
Theorem C08_source_roman_subs :
  S_ROMAN_SUBS = VList (map (fun p => VTuple [VStr (fst p); VStr (snd p)]) roman_subs).
Proof. exact src_roman_subs. Qed.
Print Assumptions C08_source_roman_subs.

(* TIE TO THE SOURCE TEXT (gen/Source.v is regenerated from /repo by tools/gen_source.py on every run): numbering_formats.lower_letter as translated from the Python source (while loop with divmod) equals the model's lower_letter for EVERY integer, given fuel above the number of binary digits; so C08_letters_* speak about the source *)
Theorem C08_source_lower_letter :
  forall z fuel,
  (N.size_nat (Z.to_N z) < fuel)%nat ->
  S_lower_letter fuel (VInt z) = lift_str (lower_letter z).
Proof. exact src_lower_letter. Qed.
Print Assumptions C08_source_lower_letter.

(* upper_letter likewise *)
Theorem C08_source_upper_letter :
  forall z fuel,
  (N.size_nat (Z.to_N z) < fuel)%nat ->
  S_upper_letter fuel (VInt z) = lift_str (upper_letter z).
Proof. exact src_upper_letter. Qed.
Print Assumptions C08_source_upper_letter.

(* lower_roman (i * n, then the ROMAN_SUBS replacements in order) likewise, for every integer *)
Theorem C08_source_lower_roman :
  forall z, S_lower_roman (VInt z) = lift_str (lower_roman z).
Proof. exact src_lower_roman. Qed.
Print Assumptions C08_source_lower_roman.

(* upper_roman likewise *)
Theorem C08_source_upper_roman :
  forall z, S_upper_roman (VInt z) = lift_str (upper_roman z).
Proof. exact src_upper_roman. Qed.
Print Assumptions C08_source_upper_roman.

(* decimal likewise *)
Theorem C08_source_decimal :
  forall z, S_decimal (VInt z) = lift_str (decimal z).
Proof. exact src_decimal. Qed.
Print Assumptions C08_source_decimal.

(* bullet likewise *)
Theorem C08_source_bullet :
  forall v z, S_bullet v = lift_str (bullet z).
Proof. exact src_bullet. Qed.
Print Assumptions C08_source_bullet.

(* bullets_and_numbering._increment_list_counter as translated from the source (defaultdict += 1, comprehension over the keys, del in a loop) equals the model's counter step for every counter dictionary and level string: the counting rule C08_counter_spec is about the source *)
Theorem C08_source_increment_list_counter :
  forall d ilvl,
  NoDup (map fst d) ->
  S__increment_list_counter (enc_counts d) (VStr ilvl)
  = Ok (VTuple [VInt (Z.of_N (snd (increment_list_counter d ilvl)));
                enc_counts (fst (increment_list_counter d ilvl))]).
Proof. exact src_increment_list_counter. Qed.
Print Assumptions C08_source_increment_list_counter.

(* SOURCE TIE: BulletGenerator.get_bullet_fmt as translated from the source text (with _get_numPr / _get_numId / _get_ilvl: try / except (StopIteration, KeyError) around next() and the attribute read) returns exactly the model's (numId, ilvl) for every paragraph element - the definition and level every marker and counter theorem of C08 starts from *)
Theorem C08_source_get_bullet_fmt :
  forall self p, tree_names_ok 4 p ->
  S_BulletGenerator_get_bullet_fmt self (enc_fel p)
  = Ok (VTuple [enc_ostr (fst (get_bullet_fmt p)); enc_ostr (snd (get_bullet_fmt p))]).
Proof. exact src_get_bullet_fmt. Qed.
Print Assumptions C08_source_get_bullet_fmt.

(* SOURCE TIE: _get_numPr is the first w:numPr of the first w:pPr, None on any failure *)
Theorem C08_source_get_numPr :
  forall self p, tree_names_ok 2 p ->
  S_BulletGenerator_get_numPr self (enc_fel p)
  = Ok (match first_child_w p s_pPr with
        | Some ppr => match first_child_w ppr s_numPr with Some n => enc_fel n | None => VNone end
        | None => VNone
        end).
Proof. exact src_get_numPr. Qed.
Print Assumptions C08_source_get_numPr.

(* SOURCE TIE: _get_numId reads w:numId/@w:val, None on any failure *)
Theorem C08_source_get_numId :
  forall self n, tree_names_ok 2 n ->
  S_BulletGenerator_get_numId self (enc_fel n) = Ok (enc_ostr (child_val_w n s_numId)).
Proof. exact src_get_numId. Qed.
Print Assumptions C08_source_get_numId.

(* SOURCE TIE: _get_ilvl reads w:ilvl/@w:val, None on any failure *)
Theorem C08_source_get_ilvl :
  forall self n, tree_names_ok 2 n ->
  S_BulletGenerator_get_ilvl self (enc_fel n) = Ok (enc_ostr (child_val_w n s_ilvl)).
Proof. exact src_get_ilvl. Qed.
Print Assumptions C08_source_get_ilvl.

(* SOURCE TIE: docx_context.collect_numAttrs as translated from the source text (two nested loops filling a dict of lists of NumIdAttrs, `continue` for a w:num without abstractNumId, KeyError for a dangling one, int() of w:start) returns exactly the model's numbering table numId -> [format, start per level] for every numbering part: the table every marker theorem of C08 takes as given *)
Theorem C08_source_collect_numAttrs :
  forall e ks, tree_names_ok 4 (AE e ks) ->
  S_collect_numAttrs (enc_fel (AE e ks))
  = match collect_numAttrs (AE e ks) with Ok d => Ok (enc_numtable d) | Err x => Err x end.
Proof. exact src_collect_numAttrs. Qed.
Print Assumptions C08_source_collect_numAttrs.
