(* C13 — every valid docx can be read: optional parts and odd values never raise.
   Statements only (copied from the lemma libraries); every proof is a bare
   `exact`; see the cited files in coq/proofs for the proofs. *)
From Coq Require Import List NArith ZArith Bool Arith Sorting.Sorted Sorting.Permutation.
From D2P Require Import Str Err Xml TableTypes Tables Fmt NumFmt Bullets Merge Collector Walk Iter Output ShapeFacts TokFacts FrameFacts BulletsFacts NumFmtFacts MergeFacts TotalFacts TablesFacts GridFacts TotalTables PyVal Source SourceBase SourceElem SourceForms.
Import ListNotations.

(* for EVERY table-free, comment-range-free element tree: if the evaluation of each single element succeeds (required ids present, numbers parse, check-box and drop-down values known, formatting renders to non-blank tags), the whole walk succeeds - exceptions never emerge from the state machine, whatever the nesting *)
Theorem C13_walk_total :
  forall v path t, all_local_ok' v t = true ->
  exists s, collect_from v path t = Ok s /\ Inv s /\ runs_style_ok s.
Proof. exact collect_total_strong. Qed.
Print Assumptions C13_walk_total.

(* and so does the rendering of all three views *)
Theorem C13_rendering_total :
  forall v path t s, all_local_ok' v t = true ->
  collect_from v path t = Ok s -> exists r, get_par_strings (html_on v) (pars_view s) = Ok r.
Proof. exact rendering_total_strong. Qed.
Print Assumptions C13_rendering_total.

(* from any reachable state *)
Theorem C13_walk_total_from_any_state :
  forall v t path s, all_local_ok' v t = true ->
  Inv s -> runs_style_ok s ->
  exists s', walk v path t s = Ok s' /\ Inv s' /\ runs_style_ok s'.
Proof. exact walk_total_strong. Qed.
Print Assumptions C13_walk_total_from_any_state.

(* the non-blank-tag clause is necessary: a w:vertAlign with a blank value renders an empty tag whose closing raises IndexError (html on) *)
Theorem C13_style_check_needed :
  all_local_ok cx_env cx_doc = true /\ all_local_ok' cx_env cx_doc = false /\
  exists s, collect_from cx_env [] cx_doc = Ok s
            /\ get_par_strings (html_on cx_env) (pars_view s) = Err IndexError.
Proof. exact style_check_needed. Qed.
Print Assumptions C13_style_check_needed.

(* the model's own impossible branches and CaretDepthError are unreachable for every input *)
Theorem C13_no_internal_errors :
  forall v path t,
  collect_from v path t <> Err ModelError /\ collect_from v path t <> Err CaretDepthError.
Proof. exact no_internal_errors. Qed.
Print Assumptions C13_no_internal_errors.

(* list markers never raise once the level parses as an integer, whatever the start value and format *)
Theorem C13_list_markers_total :
  forall tbl fmt number,
  (match fmt with (Some _, Some l) => int_of_str l <> None | _ => True end) ->
  exists bl, get_bullet tbl fmt number = Ok bl.
Proof. exact get_bullet_total_strong. Qed.
Print Assumptions C13_list_markers_total.

(* merging never hits the model's fuel *)
Theorem C13_merge_total :
  forall v t, merge_elems v t <> Err ModelError.
Proof. exact merge_fuel_enough. Qed.
Print Assumptions C13_merge_total.

(* letter rendering is total on positive ordinals of any size *)
Theorem C13_letters_total :
  forall p, exists s, lower_letter (Zpos p) = Ok s.
Proof. exact letters_total. Qed.
Print Assumptions C13_letters_total.

(* tie to the source: the element handlers modelled in Walk.open_tag are exactly the _open_* methods that TagRunner defines in /repo today (list regenerated from the source on every run) *)
Theorem C13_open_handlers_match_source :
  sort_strs modelled_open_methods = sort_strs open_methods.
Proof. exact open_handlers_match_source. Qed.
Print Assumptions C13_open_handlers_match_source.

(* and likewise the _close_* methods *)
Theorem C13_close_handlers_match_source :
  sort_strs modelled_close_methods = sort_strs close_methods.
Proof. exact close_handlers_match_source. Qed.
Print Assumptions C13_close_handlers_match_source.

(* TABLES AND COMMENT RANGES INCLUDED: for every element tree in which each element's local evaluation succeeds (as before; for a table cell: its properties gather, gridSpan parses, and its last paragraph-bearing child is a paragraph or a wrapper chain ending in one - tc_ok), the whole walk succeeds, whatever the nesting, for both settings of duplicate_merged_cells *)
Theorem C13_walk_total_with_tables :
  forall v path t, all_local_ok2 v t = true ->
  exists s, collect_from v path t = Ok s.
Proof. exact collect_total_tables. Qed.
Print Assumptions C13_walk_total_with_tables.

(* and all three views of the result render *)
Theorem C13_rendering_total_with_tables :
  forall v path t, all_local_ok2 v t = true ->
  exists s ps rs r,
    collect_from v path t = Ok s
    /\ pars_at 4 (c_tree s) = Ok ps
    /\ mapM (par_run_strings (html_on v)) ps = Ok rs
    /\ get_par_strings (html_on v) (pars_view s) = Ok r.
Proof. exact rendering_total_tables. Qed.
Print Assumptions C13_rendering_total_with_tables.

(* closing a table cell ALWAYS succeeds once its properties gather and its gridSpan parses (after the repair 3e5b9ea: formerly IndexError when wrappers inside the cell had left no row or cell to merge into), and the invariant is preserved *)
Theorem C13_close_cell_total :
  forall v e ks s pr g,
  J s -> gather_Pr e ks = Ok pr -> span_of pr = Ok g ->
  exists s', close_table_cell v e ks s = Ok s' /\ J s'.
Proof. exact close_table_cell_total_now. Qed.
Print Assumptions C13_close_cell_total.

(* the former finding (a gridSpan cell whose content is a wrapper holding a paragraph and then a nested content control raised IndexError with duplicate_merged_cells=True; found by this proof, replayed on /repo, repaired): it is extracted under both settings *)
Theorem C13_nested_controls_in_merged_cell_repaired :
  exists t, forall html,
    all_local_ok2_weak (tt_env html true) t = true
    /\ (exists s, collect_from (tt_env html true) [] t = Ok s)
    /\ all_local_ok2_weak (tt_env html false) t = true
    /\ exists s, collect_from (tt_env html false) [] t = Ok s.
Proof. exact walk_total_tables_dup_repaired. Qed.
Print Assumptions C13_nested_controls_in_merged_cell_repaired.

(* likewise the cell whose only block is a custom-XML wrapper holding a wrapped paragraph and then a nested table *)
Theorem C13_wrapped_nested_table_repaired :
  exists t, forall html dup,
    all_local_ok2_weak (tt_env html dup) t = true
    /\ exists s, collect_from (tt_env html dup) [] t = Ok s.
Proof. exact walk_total_tables_repaired. Qed.
Print Assumptions C13_wrapped_nested_table_repaired.

(* the table-free hypothesis of C13_walk_total is a special case *)
Theorem C13_earlier_theorem_is_an_instance :
  forall v,
  forall t, all_local_ok' v t = true -> all_local_ok2 v t = true.
Proof. exact all_local_ok'_all_local_ok2. Qed.
Print Assumptions C13_earlier_theorem_is_an_instance.

(* TOTALITY WITHOUT ANY STRUCTURAL HYPOTHESIS: for EVERY element tree - tables, merged cells, nested tables, text boxes, content controls, comment ranges, any nesting - if each single element's local evaluation succeeds (required ids present, numbers parse, check-box and drop-down values known, formatting renders to non-blank tags, cell properties gather and gridSpan parses), the whole walk succeeds, for both settings of duplicate_merged_cells *)
Theorem C13_walk_total_all :
  forall v path t, all_local_ok3 v t = true ->
  exists s, collect_from v path t = Ok s.
Proof. exact collect_total_all. Qed.
Print Assumptions C13_walk_total_all.

(* from any reachable state, preserving the invariant *)
Theorem C13_walk_total_all_from_any_state :
  forall v t path s, all_local_ok3 v t = true -> J s ->
  exists s', walk v path t s = Ok s' /\ J s'.
Proof. exact walk_total_all. Qed.
Print Assumptions C13_walk_total_all_from_any_state.

(* and all three views render *)
Theorem C13_rendering_total_all :
  forall v path t, all_local_ok3 v t = true ->
  exists s ps rs r,
    collect_from v path t = Ok s
    /\ pars_at 4 (c_tree s) = Ok ps
    /\ mapM (par_run_strings (html_on v)) ps = Ok rs
    /\ get_par_strings (html_on v) (pars_view s) = Ok r.
Proof. exact rendering_total_all. Qed.
Print Assumptions C13_rendering_total_all.

(* even a table cell without any paragraph (which ECMA-376 calls corrupt) no longer raises *)
Theorem C13_empty_cell_repaired :
  forall html dup, exists s, collect_from (tt_env html dup) [] (tt_tbl [tt_tr [tt_tc []]]) = Ok s
                             /\ c_tree s = [].
Proof. exact cell_without_paragraph_repaired. Qed.
Print Assumptions C13_empty_cell_repaired.

(* SOURCE TIE: forms.get_checkBox_entry as translated from the source text (nested closure get_wval, suppress(StopIteration) / suppress(StopIteration, KeyError) with returns inside, the value table indexed by the result) is the model's: every on/off spelling of w:checked / w:default, a missing value, a missing w binding - the same string or the same KeyError for every element *)
Theorem C13_source_get_checkBox_entry :
  forall e ks, form_names_ok ks ->
  S_get_checkBox_entry (enc_fel (AE e ks)) = lift_str (get_checkBox_entry e ks).
Proof. exact src_get_checkBox_entry. Qed.
Print Assumptions C13_source_get_checkBox_entry.

(* SOURCE TIE: forms.get_ddList_entry as translated from the source text (comprehension over the list entries, try / except around next() and int(), Python indexing with IndexError -> empty string) is the model's for every element: empty drop-downs, a missing or out-of-range w:result degrade to the documented fallback *)
Theorem C13_source_get_ddList_entry :
  forall e ks, form_names_ok ks ->
  S_get_ddList_entry (enc_fel (AE e ks)) = lift_str (get_ddList_entry e ks).
Proof. exact src_get_ddList_entry. Qed.
Print Assumptions C13_source_get_ddList_entry.

(* SOURCE TIE: namespace.get_attrib_by_qn(elem, "w:NAME") is the model's attr_w_req (KeyError when the attribute or the w binding is missing) *)
Theorem C13_source_get_attrib_by_qn :
  forall e ks name, ~ In 58%N name -> braceless name -> attr_names_ok e ->
  S_get_attrib_by_qn (enc_fel (AE e ks)) (VStr ([119; 58]%N ++ name)) = lift_str (attr_w_req e name).
Proof. exact src_get_attrib_by_qn_w. Qed.
Print Assumptions C13_source_get_attrib_by_qn.

(* SOURCE TIE: namespace.iterfind_by_qn(elem, "w:NAME") yields the model's children_w *)
Theorem C13_source_iterfind_by_qn :
  forall e ks name, ~ In 58%N name -> braceless name -> kid_names_ok ks ->
  S_iterfind_by_qn (enc_fel (AE e ks)) (VStr ([119; 58]%N ++ name))
  = match children_w e ks name with Ok l => Ok (VList (map enc_fel l)) | Err x => Err x end.
Proof. exact src_iterfind_by_qn_w. Qed.
Print Assumptions C13_source_iterfind_by_qn.
