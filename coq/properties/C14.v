(* C14 — extraction is a pure function of archive bytes and options (partial: heap freshness and caller buffers are observed by the harness only).
   Statements only (copied from the lemma libraries); every proof is a bare
   `exact`; see the cited files in coq/proofs for the proofs. *)
From Coq Require Import List NArith ZArith Bool Arith Sorting.Sorted Sorting.Permutation.
From D2P Require Import Str Err Package Content BulletsFacts Lifecycle LifeFacts.
Import ListNotations.

(* for every state reached by any history on an unclosed object, every read returns the value a fresh object returns, whatever was read before *)
Theorem C14_reads_return_the_value :
  forall a o fs st at_ st' out,
  l_closed st = false -> step a o fs st (OpRead at_) = (st', out) -> out = OVal.
Proof. exact open_read_returns. Qed.
Print Assumptions C14_reads_return_the_value.

(* caches only grow *)
Theorem C14_cache_only_grows :
  forall ds st st' e,
  acquire st ds = (st', e) ->
  forall r, cached r (l_cache st) = true -> cached r (l_cache st') = true.
Proof. exact acquire_cache_mono. Qed.
Print Assumptions C14_cache_only_grows.

(* a read all of whose resources are cached changes no state *)
Theorem C14_cached_read_needs_nothing :
  forall ds st,
  (forall r, In r ds -> cached r (l_cache st) = true) -> acquire st ds = (st, None).
Proof. exact acquire_all_cached. Qed.
Print Assumptions C14_cached_read_needs_nothing.

(* whatever was read once can be read again, even after closing *)
Theorem C14_read_twice :
  forall a o fs st at_ st1 out1,
  l_closed st = false -> step a o fs st (OpRead at_) = (st1, out1) ->
  direct_zip fs at_ = false ->
  forall st2 out2, step a o fs (close st1) (OpRead at_) = (st2, out2) -> out2 = OVal.
Proof. exact read_twice. Qed.
Print Assumptions C14_read_twice.
