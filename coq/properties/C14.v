(* C14 — extraction is a pure function of archive bytes and options (partial: heap freshness and caller buffers are observed by the harness only).
   Statements only (copied from the lemma libraries); every proof is a bare
   `exact`; see the cited files in coq/proofs for the proofs. *)
From Coq Require Import List NArith ZArith Bool Arith Sorting.Sorted Sorting.Permutation.
From D2P Require Import Str Err Package Content BulletsFacts Lifecycle LifeFacts Xml Collector PyVal PyHeap SourceHeap SourceHeapViews SourceCaret SourceFresh SourceFresh2.
Import ListNotations.

(* for every state reached by any history on an unclosed object, every read returns the value a fresh object returns, whatever was read before *)
Theorem C14_reads_return_the_value :
  forall a o fs st at_ st' out,
  l_closed st = false -> step a o fs st (OpRead at_) = (st', out) -> out = OVal.
Proof. exact open_read_returns. Qed.
Print Assumptions C14_reads_return_the_value.

(* caches only grow *)
Theorem C14_cache_only_grows :
  forall ds st st' e,
  acquire st ds = (st', e) ->
  forall r, cached r (l_cache st) = true -> cached r (l_cache st') = true.
Proof. exact acquire_cache_mono. Qed.
Print Assumptions C14_cache_only_grows.

(* a read all of whose resources are cached changes no state *)
Theorem C14_cached_read_needs_nothing :
  forall ds st,
  (forall r, In r ds -> cached r (l_cache st) = true) -> acquire st ds = (st, None).
Proof. exact acquire_all_cached. Qed.
Print Assumptions C14_cached_read_needs_nothing.

(* whatever was read once can be read again, even after closing *)
Theorem C14_read_twice :
  forall a o fs st at_ st1 out1,
  l_closed st = false -> step a o fs st (OpRead at_) = (st1, out1) ->
  direct_zip fs at_ = false ->
  forall st2 out2, step a o fs (close st1) (OpRead at_) = (st2, out2) -> out2 = OVal.
Proof. exact read_twice. Qed.
Print Assumptions C14_read_twice.

(* FRESH ON EVERY READ - about the source text (gen/SourceHeapViews.v: the views translated from the Python source with the heap embedding, lists live in a heap): X_runs = get_par_strings(X_pars) returns five levels of lists ALL allocated during the call, with (immutable) strings at the leaves, and modifies no heap cell that existed before the call - in particular not the collector's record tree *)
Theorem C14_views_return_fresh_lists :
  forall x h v h',
  heap_ok h -> okv (length h) x = true ->
  S_HV_get_par_strings x h = HOk v h' ->
  extends h h' /\ fresh 5 (length h) h' v.
Proof. exact hv_get_par_strings_fresh. Qed.
Print Assumptions C14_views_return_fresh_lists.

(* X = _join_runs(X_runs): four levels of new lists, strings at the leaves, nothing old modified *)
Theorem C14_join_runs_returns_fresh_lists :
  forall x h v h',
  heap_ok h -> okv (length h) x = true ->
  S_HV_join_runs x h = HOk v h' ->
  extends h h' /\ fresh 4 (length h) h' v.
Proof. exact hv_join_runs_fresh. Qed.
Print Assumptions C14_join_runs_returns_fresh_lists.

(* Par.run_strings returns a new list of strings on every access *)
Theorem C14_run_strings_fresh :
  forall p h v h',
  S_HV_Par_run_strings p h = HOk v h' ->
  extends h h' /\ fresh 1 (length h) h' v.
Proof. exact hv_par_run_strings_fresh. Qed.
Print Assumptions C14_run_strings_fresh.

(* writing into any cell allocated by the call leaves every older cell as it was *)
Theorem C14_mutating_a_result_is_harmless :
  forall h h' a o b,
  extends h h' -> (length h <= a)%nat -> (b < length h)%nat ->
  h_get b (h_set a o h') = h_get b h.
Proof. exact fresh_mutation_harmless. Qed.
Print Assumptions C14_mutating_a_result_is_harmless.

(* SO MUTATING A RETURNED VALUE NEVER CHANGES A LATER READ: after computing a view, and after ANY mutation of ANY cell the view allocated, the collector still represents exactly the same model state (rep of proofs/SourceCaret.v), from which every later read is computed *)
Theorem C14_view_cannot_disturb_collector :
  forall (leaf_of : pv -> option par) h self k x v h' a o,
  rep leaf_of h self = Some k -> heap_ok h -> okv (length h) x = true ->
  S_HV_get_par_strings x h = HOk v h' -> (length h <= a)%nat ->
  rep leaf_of h' self = Some k /\ rep leaf_of (h_set a o h') self = Some k.
Proof. exact get_par_strings_cannot_disturb_collector. Qed.
Print Assumptions C14_view_cannot_disturb_collector.

(* the same for _join_runs *)
Theorem C14_join_runs_cannot_disturb_collector :
  forall (leaf_of : pv -> option par) h self k x v h' a o,
  rep leaf_of h self = Some k -> heap_ok h -> okv (length h) x = true ->
  S_HV_join_runs x h = HOk v h' -> (length h <= a)%nat ->
  rep leaf_of h' self = Some k /\ rep leaf_of (h_set a o h') self = Some k.
Proof. exact join_runs_cannot_disturb_collector. Qed.
Print Assumptions C14_join_runs_cannot_disturb_collector.

(* the represented collector state depends only on the heap cells that existed when it was built *)
Theorem C14_state_reads_only_its_heap :
  forall (leaf_of : pv -> option par) h h2 self k,
  rep leaf_of h self = Some k ->
  (forall b, (b < length h)%nat -> h_get b h2 = h_get b h) ->
  rep leaf_of h2 self = Some k.
Proof. exact rep_only_reads_its_heap. Qed.
Print Assumptions C14_state_reads_only_its_heap.
