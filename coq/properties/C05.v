(* C05 — table paragraphs are identifiable: lineage, predicates, element and style.
   Statements only (copied from the lemma libraries); every proof is a bare
   `exact`; see the cited files in coq/proofs for the proofs. *)
From Coq Require Import List NArith ZArith Bool Arith Sorting.Sorted Sorting.Permutation.
From D2P Require Import Str Err Xml TableTypes Tables Fmt Bullets Merge Collector Walk ShapeFacts TokFacts FrameFacts BulletsFacts LineageFacts Predicates SeqFacts Iter Output Paths Package Content Utilities UtilFacts PyVal Source SourceBase SourceIter SourcePred SourceElem SourceFmt PyHeap SourceHeap SourceHeapRuns SourceCaret SourceCaret2 SourceFresh SourceRuns SourceParas.
Import ListNotations.

(* for EVERY table written as tbl/tr/tc/p directly nested (any number of rows, cells, paragraphs, any merged cells, any inline content), walked from any reachable state in any part: every paragraph it contributes reports the lineage (tbl, tr, tc, p) - or is the empty fill paragraph of a blanked merged position *)
Theorem C05_cell_lineage :
  forall v t path s s' ps,
  flat_tbl t = true -> Inv s -> walk v path t s = Ok s' ->
  pars_at 4%nat (c_tree s) = Ok ps ->
  (forall e ks, t = AE e ks -> e_local e = [116;98;108]) ->
  names_ok t = true ->
  exists new, pars_at 4%nat (c_tree s') = Ok (ps ++ new) /\ Forall cell_par_ok new.
Proof. exact flat_tbl_lineage. Qed.
Print Assumptions C05_cell_lineage.

(* a paragraph outside every table does not report tbl *)
Theorem C05_free_paragraph :
  forall v e ks path s s' ps,
  simple_par (AE e ks) = true -> Inv s -> walk v path (AE e ks) s = Ok s' ->
  pars_at 4%nat (c_tree s) = Ok ps ->
  slot 1 (c_lineage s) <> Some [116;98;108] ->
  exists p, pars_at 4%nat (c_tree s') = Ok (ps ++ [p]) /\
    slot 1 (p_lineage p) <> Some [116;98;108].
Proof. exact free_par_no_tbl. Qed.
Print Assumptions C05_free_paragraph.

(* in general a paragraph records the three upper slots of the register as they are when it opens, and its own local name *)
Theorem C05_paragraph_lineage :
  forall v e ks path s s' ps,
  simple_par (AE e ks) = true -> Inv s -> walk v path (AE e ks) s = Ok s' ->
  pars_at 4%nat (c_tree s) = Ok ps ->
  exists p, pars_at 4%nat (c_tree s') = Ok (ps ++ [p]) /\
    p_lineage p = (slot 1 (c_lineage s), slot 2 (c_lineage s), slot 3 (c_lineage s),
                   Some (e_local e)).
Proof. exact simple_par_lineage. Qed.
Print Assumptions C05_paragraph_lineage.

(* the record points at the very source element (its path) and reports that element's pStyle *)
Theorem C05_elem_and_style :
  forall v e ks path s s' ps,
  simple_par (AE e ks) = true -> Inv s -> walk v path (AE e ks) s = Ok s' ->
  pars_at 4%nat (c_tree s) = Ok ps ->
  exists p, pars_at 4%nat (c_tree s') = Ok (ps ++ [p])
    /\ c_open s' = c_open s /\ c_queued s' = [] /\ c_ranges s' = c_ranges s /\ c_depth s' = 4%nat
    /\ p_elem p = Some path /\ p_copy p = false
    /\ get_pStyle e ks = Ok (p_style p)
    /\ (exists a b c, p_lineage p = (a, b, c, Some (e_local e)))
    /\ (exists bl number cs,
          get_par_number (to_numtable v) (c_counters s) (get_bullet_fmt (AE e ks)) = (cs, number)
          /\ get_bullet (to_numtable v) (get_bullet_fmt (AE e ks)) number = Ok bl
          /\ c_counters s' = cs /\ p_listpos p = get_list_position cs (get_bullet_fmt (AE e ks))
          /\ exists ems,
               (fix go (l : list anode) (i : nat) : res (list (list tok)) :=
                  match l with
                  | [] => Ok []
                  | k :: r => a <- emit v (i :: path) k ;; b <- go r (S i) ;; Ok (a :: b)
                  end) ks 0%nat = Ok ems
               /\ toks_of (p_runs p) = toks_of (c_queued s) ++ raw bl ++ concat ems).
Proof. exact simple_par_walk. Qed.
Print Assumptions C05_elem_and_style.

(* moving the caret to depth d writes slot d only among the slots 1..d *)
Theorem C05_caret_slots :
  forall d name s s', Inv s -> (1 <= d <= 4)%nat ->
  set_caret (Some d) name s = Ok s' ->
  slot d (c_lineage s') = name /\
  forall i, (1 <= i < d)%nat -> slot i (c_lineage s') = slot i (c_lineage s).
Proof. exact set_caret_slots. Qed.
Print Assumptions C05_caret_slots.

(* a subtree all of whose elements sit at depth >= k leaves the slots above k alone (for k = 4: provided it contains no table cell, see the refutation) *)
Theorem C05_frame_partial :
  forall v t k path s s',
  deep_ge k t = true -> (k = 4%nat -> no_tc t = true) -> (1 <= k <= 4)%nat -> Inv s ->
  walk v path t s = Ok s' ->
  forall i, (1 <= i < k)%nat -> slot i (c_lineage s') = slot i (c_lineage s).
Proof. exact lineage_frame_partial. Qed.
Print Assumptions C05_frame_partial.

(* the unrestricted frame statement is false: a paragraph-free w:tc with a gridSpan clears slot 3 *)
Theorem C05_frame_refuted_for_cells :
  deep_ge 4 cx_tc = true /\ Inv cx_st /\
  exists s', walk cx_env [] cx_tc cx_st = Ok s' /\
             slot 3 (c_lineage s') <> slot 3 (c_lineage cx_st).
Proof. exact lineage_frame_counterexample. Qed.
Print Assumptions C05_frame_refuted_for_cells.

(* cells, rows and tables of that form sit at depths 3, 2, 1 *)
Theorem C05_depths_of_flat_tables :
  forall t,
  (flat_cell t = true -> elem_depth t = Some 3%nat) /\
  (flat_row t = true -> elem_depth t = Some 2%nat) /\
  (flat_tbl t = true -> elem_depth t = Some 1%nat).
Proof. exact flat_depths. Qed.
Print Assumptions C05_depths_of_flat_tables.

(* the hypotheses are satisfiable *)
Theorem C05_non_vacuous :
  flat_tbl ex_tbl = true /\ names_ok ex_tbl = true /\
  exists s' p, walk cx_env [] ex_tbl init_cst = Ok s' /\
               pars_at 4%nat (c_tree s') = Ok [p] /\
               p_lineage p = (Some s_tbl, Some s_tr, Some s_tc, Some [112]).
Proof. exact flat_tbl_example. Qed.
Print Assumptions C05_non_vacuous.

(* is_tbl / is_tr / is_tc are true for a table, row, cell whose first paragraph reports the cell lineage *)
Theorem C05_predicates_true :
  forall p,
  (exists x, p_lineage p = (Some Predicates.s_tbl, Some Predicates.s_tr, Some Predicates.s_tc, Some x)) ->
  is_tc (RL [RA p]) = Ok true /\ is_tr (RL [RL [RA p]]) = Ok true
  /\ is_tbl (RL [RL [RL [RA p]]]) = Ok true.
Proof. exact predicates_true_for_cell_pars. Qed.
Print Assumptions C05_predicates_true.

(* and false when the first paragraph is a free paragraph *)
Theorem C05_predicates_false :
  forall p,
  lin_slot 1%nat (p_lineage p) = None -> lin_slot 2%nat (p_lineage p) = None ->
  lin_slot 3%nat (p_lineage p) = None ->
  is_tc (RL [RA p]) = Ok false /\ is_tr (RL [RL [RA p]]) = Ok false
  /\ is_tbl (RL [RL [RL [RA p]]]) = Ok false.
Proof. exact predicates_false_for_free_pars. Qed.
Print Assumptions C05_predicates_false.

(* and false for empty items *)
Theorem C05_predicates_empty :
  is_tbl (RL []) = Ok false /\ is_tr (RL []) = Ok false /\ is_tc (RL []) = Ok false
  /\ is_tbl (RL [RL []]) = Ok false.
Proof. exact predicates_empty. Qed.
Print Assumptions C05_predicates_empty.

(* a whole part made of paragraphs and directly nested tables, in any order and number: every record is a cell paragraph with lineage (tbl,tr,tc,p) or a free paragraph whose slot 1 is empty - so no paragraph outside every table reports tbl *)
Theorem C05_body_of_blocks :
  forall v e ks path s',
  mem_str (e_ptag e) depth_none_tags = true -> forallb block ks = true ->
  walk v path (AE e ks) init_cst = Ok s' ->
  exists new, pars_at 4%nat (c_tree s') = Ok new /\ Inv s'
    /\ slot 1%nat (c_lineage s') = None /\ Forall free_or_cell new.
Proof. exact body_of_blocks. Qed.
Print Assumptions C05_body_of_blocks.

(* closing a table clears the tbl slot *)
Theorem C05_table_close_clears_tbl :
  forall v t path s s',
  flat_tbl t = true -> Inv s -> walk v path t s = Ok s' -> slot 1%nat (c_lineage s') = None.
Proof. exact tbl_closed_clears_slot1. Qed.
Print Assumptions C05_table_close_clears_tbl.

(* inline content directly under w:tc (outside any paragraph) leaves an implicit paragraph open after the table: the stronger statement with c_open = [] is false *)
Theorem C05_blocks_open_refuted :
  forallb block [cx_tbl2] = true /\ Inv init_cst /\ c_open init_cst = [] /\
  exists s', kids_loop cx_env [] [cx_tbl2] 0%nat init_cst = Ok s' /\ c_open s' <> [].
Proof. exact blocks_walk_counterexample. Qed.
Print Assumptions C05_blocks_open_refuted.

(* the heading helper yields, in order, the run strings (html on) of exactly the paragraph records of document_pars whose style id matches Heading followed by a digit - it selects on the style id C05_elem_and_style says is the source paragraph's pStyle *)
Theorem C05_heading_helper :
  forall a l,
  get_headings a = Ok l <->
  exists pars ps,
    document_pars a heading_opts = Ok pars
    /\ iter_at_depth pars 4%nat = Ok (map RA ps)
    /\ mapM (par_run_strings true) (filter is_heading ps) = Ok l.
Proof. exact get_headings_spec. Qed.
Print Assumptions C05_heading_helper.

(* the pattern: Heading, then a decimal digit (any Unicode Nd digit, as the re module's \d; table compared with re on every run), anything after *)
Theorem C05_heading_pattern :
  forall s,
  heading_match s = true <->
  exists d rest, s = s_Heading ++ d :: rest /\ is_unicode_digit d = true.
Proof. exact heading_match_spec. Qed.
Print Assumptions C05_heading_pattern.

(* TIE TO THE SOURCE TEXT (gen/Source.v is regenerated from /repo by tools/gen_source.py on every run): iterators.is_tbl as translated from the Python source (with suppress(StopIteration): next(iter_at_depth(x, 3)).lineage[1] == 'tbl'; False when there is no paragraph) equals the model's predicate on every nested list of records *)
Theorem C05_source_is_tbl :
  forall (x : rose par) fuel, (5 < fuel)%nat ->
  S_is_tbl fuel (enc_rose enc_par_lin x) = lift_bool (is_tbl x).
Proof. exact src_is_tbl. Qed.
Print Assumptions C05_source_is_tbl.

(* is_tr likewise *)
Theorem C05_source_is_tr :
  forall (x : rose par) fuel, (5 < fuel)%nat ->
  S_is_tr fuel (enc_rose enc_par_lin x) = lift_bool (is_tr x).
Proof. exact src_is_tr. Qed.
Print Assumptions C05_source_is_tr.

(* is_tc likewise *)
Theorem C05_source_is_tc :
  forall (x : rose par) fuel, (5 < fuel)%nat ->
  S_is_tc fuel (enc_rose enc_par_lin x) = lift_bool (is_tc x).
Proof. exact src_is_tc. Qed.
Print Assumptions C05_source_is_tc.

(* SOURCE TIE: text_runs.get_pStyle as translated from the source text is the model's get_pStyle (the style string of every Par) for every paragraph element *)
Theorem C05_source_get_pStyle :
  forall (ext : pv -> pv -> res pv) e ks,
  braceless (e_local e) -> kid_names_ok ks ->
  (forall pe pks, In (AE pe pks) ks -> forall se sks, In (AE se sks) pks -> attr_names_ok se) ->
  S_get_pStyle ext (enc_fel (AE e ks)) = lift_str (get_pStyle e ks).
Proof. exact src_get_pStyle. Qed.
Print Assumptions C05_source_get_pStyle.

(* SOURCE TIE (heap embedding): DepthCollector.commence_paragraph as translated from the source text moves the caret to depth 4 (model's set_caret), allocates a NEW Par object holding the element and the lineage AS IT IS AFTER set_caret (the lineage every record reports: C05), gives it a new list with the queued runs, empties the queue, pushes the paragraph on _open_pars and returns it; the represented collector state is the model's commence_paragraph state *)
Theorem C05_source_commence_paragraph :
  forall (leaf_of : pv -> option par) (epf : pv -> pv -> hm pv) (eps : pv -> hm pv),
  forall h self s s1 name fuel sa c fs rb brs bs op qa ql fmt,
    rep leaf_of h self = Some (core_of s) -> (c_depth s <= 4)%nat -> (8 <= fuel)%nat ->
    set_caret (Some 4%nat) name s = Ok s1 ->
    self = VRef sa -> h_get sa h = Some (HObj c fs) ->
    field_get f_branches fs = Some (VRef rb) -> h_get rb h = Some (HList brs) -> refs_of brs = Some bs ->
    field_get f_open_pars fs = Some (VRef op) ->
    field_get n_queued fs = Some (VRef qa) -> h_get qa h = Some (HList ql) -> ~ In qa (sa :: rb :: op :: bs) ->
    rd_fmt h self = Some fmt ->
    ext_fmt epf -> ext_sty eps ->
    exists h' pa,
      S_H_commence_paragraph epf eps fuel self (enc_elem name) h = HOk (VRef pa) h'
      /\ (length h <= pa)%nat
      /\ (forall p, leaf_of (VRef pa) = Some p ->
            rep leaf_of h' self
            = Some {| k_depth := c_depth s1; k_lineage := c_lineage s1; k_tree := c_tree s1;
                      k_open := p :: c_open s1 |})
      /\ (exists pfs ra lin,
            h_get pa h' = Some (HObj n_Par pfs)
            /\ field_get n_elem pfs = Some (enc_elem name)
            /\ field_get n_lineage pfs = Some lin /\ dec_lineage lin = Some (c_lineage s1)
            /\ field_get n_runs pfs = Some (VRef ra) /\ (length h <= ra)%nat
            /\ h_get ra h' = Some (HList ql))
      /\ (exists c' fs' qa', h_get sa h' = Some (HObj c' fs')
            /\ field_get n_queued fs' = Some (VRef qa') /\ (length h <= qa')%nat
            /\ h_get qa' h' = Some (HList [])).
Proof. exact src_commence_paragraph. Qed.
Print Assumptions C05_source_commence_paragraph.

(* SOURCE TIE: FRAME of set_caret - among the cells that existed it writes only the collector object (fields _lineage and _rightmost_branches), the branch stack and the branches: no paragraph record, run or queued run is touched by moving the caret *)
Theorem C05_source_set_caret_frame :
  forall (leaf_of : pv -> option par),
  forall h self s d name fuel sa c fs rb brs bs v h1,
    rep leaf_of h self = Some (core_of s) -> (c_depth s <= 4)%nat -> (8 <= fuel)%nat ->
    match d with Some n => (1 <= n <= 4)%nat | None => True end ->
    self = VRef sa -> h_get sa h = Some (HObj c fs) ->
    field_get f_branches fs = Some (VRef rb) -> h_get rb h = Some (HList brs) -> refs_of brs = Some bs ->
    S_H_set_caret fuel self (enc_depth_arg d) (enc_elem name) h = HOk v h1 ->
    caret_frame h h1 sa rb bs.
Proof. exact set_caret_frame. Qed.
Print Assumptions C05_source_set_caret_frame.
