(* C18 — equivalent serialisations of the same package extract identically (partial: encoding, XML declaration, compression, timestamps live in lxml/zipfile and are observed by the harness only).
   Statements only (copied from the lemma libraries); every proof is a bare
   `exact`; see the cited files in coq/proofs for the proofs. *)
From Coq Require Import List NArith ZArith Bool Arith Sorting.Sorted Sorting.Permutation.
From D2P Require Import Str Err Xml Fmt Bullets Merge Collector Walk Paths BulletsFacts SerialFacts PathsFacts Package MiscFacts MergeFacts GridFacts TriviaFacts.
Import ListNotations.

(* the whole extraction of a part (merge, then walk) is EQUAL for a document and for the same document with every namespace URI renamed consistently and injectively - transitional vs strict (ISO) URIs are an instance *)
Theorem C18_uri_renaming :
  forall f v path r, injective f ->
  (m <- merge_elems v (view (rename_uris f r)) ;; collect_from v path m)
  = (m <- merge_elems v (view r) ;; collect_from v path m).
Proof. exact extract_rename. Qed.
Print Assumptions C18_uri_renaming.

(* the observed view commutes with the renaming *)
Theorem C18_view_commutes :
  forall f r, view (rename_uris f r) = arename f (view r).
Proof. exact view_rename. Qed.
Print Assumptions C18_view_commutes.

(* the walk does not see URIs at all *)
Theorem C18_walk_invariant :
  forall f v t path s, injective f ->
  walk v path (arename f t) s = walk v path t s.
Proof. exact walk_rename. Qed.
Print Assumptions C18_walk_invariant.

(* merging commutes with the renaming *)
Theorem C18_merge_commutes :
  forall f v t, injective f ->
  merge_elems v (arename f t) = (t' <- merge_elems v t ;; Ok (arename f t')).
Proof. exact merge_rename. Qed.
Print Assumptions C18_merge_commutes.

(* where and how prefixes other than w and r are declared is irrelevant *)
Theorem C18_other_prefixes_irrelevant :
  forall p u l m m' a tx tl ks,
  ns_lookup (Some s_w) m = ns_lookup (Some s_w) m' ->
  ns_lookup (Some s_r) m = ns_lookup (Some s_r) m' ->
  view (RE p u l m a tx tl ks) = view (RE p u l m' a tx tl ks).
Proof. exact view_ignores_other_prefixes. Qed.
Print Assumptions C18_other_prefixes_irrelevant.

(* attributes are read only through lookups, which do not depend on attribute order *)
Theorem C18_attribute_order :
  forall k a a', Permutation a a' -> NoDup (map fst a) -> alookup k a' = alookup k a.
Proof. exact alookup_perm. Qed.
Print Assumptions C18_attribute_order.

(* only the last segment of a relationship Type is read, whatever URI family precedes it *)
Theorem C18_relationship_type :
  forall pre x, seg x -> path_name (pre ++ slash :: x) = x.
Proof. exact path_name_url. Qed.
Print Assumptions C18_relationship_type.

(* reading a member does not depend on the order of the archive's members (distinct names) *)
Theorem C18_member_order :
  forall a a' name,
  Permutation a a' -> NoDup (map fst a) -> zread a' name = zread a name.
Proof. exact zread_perm. Qed.
Print Assumptions C18_member_order.

(* nor on unrelated extra members *)
Theorem C18_unrelated_members :
  forall a name n m, n <> name ->
  zread (a ++ [(n, m)]) name = zread a name /\ zread ((n, m) :: a) name = zread a name.
Proof. exact zread_extra. Qed.
Print Assumptions C18_unrelated_members.

(* the parts of a type come out in path order whatever the order of relationships and of relationship files *)
Theorem C18_relationship_order :
  forall fs fs' ty,
  Permutation fs fs' ->
  NoDup (map f_path (filter (fun f => mem_str (f_type f) [ty]) fs)) ->
  files_of_type fs' ty = files_of_type fs ty.
Proof. exact files_of_type_perm. Qed.
Print Assumptions C18_relationship_order.

(* relationships of other types do not matter *)
Theorem C18_unrelated_relationships :
  forall fs f ty,
  mem_str (f_type f) [ty] = false ->
  files_of_type (f :: fs) ty = files_of_type fs ty /\
  files_of_type (fs ++ [f]) ty = files_of_type fs ty.
Proof. exact files_of_type_unrelated. Qed.
Print Assumptions C18_unrelated_relationships.

(* XML comments, processing instructions and whitespace between elements are invisible: the whole extraction of a part (merge, then walk) is the same - up to the positions recorded in Par.elem, which necessarily shift - for a parsed part and for the same part with every comment/PI removed, every tail and every non-text element's text dropped (outside equation content: math_clean; one prefix per namespace: wf_ptag) *)
Theorem C18_comments_pis_whitespace :
  forall pt v r,
  wf_ptag pt (view r) = true -> math_clean (view r) = true ->
  fr (extract v (view (rstrip_ax (rstrip_ws r)))) = fr (extract v (view r)).
Proof. exact extract_trivia_raw. Qed.
Print Assumptions C18_comments_pis_whitespace.

(* comments and PIs alone, with no hypothesis other than their having no tail text inside an equation *)
Theorem C18_comments_any_tree :
  forall v t,
  math_clean t = true -> fr (extract v t) = fr (extract v (strip_ax t)).
Proof. exact extract_strip_ax_eq. Qed.
Print Assumptions C18_comments_any_tree.

(* merging commutes with comment removal for EVERY tree *)
Theorem C18_merge_commutes_with_comment_removal :
  forall v t,
  merge_elems v (strip_ax t) = res_map strip_ax (merge_elems v t).
Proof. exact merge_strip_ax_eq. Qed.
Print Assumptions C18_merge_commutes_with_comment_removal.

(* whitespace between elements: the walk's result is literally equal *)
Theorem C18_whitespace_literal :
  forall v t path,
  math_clean t = true -> collect_from v path (strip_ws t) = collect_from v path t.
Proof. exact collect_strip_ws. Qed.
Print Assumptions C18_whitespace_literal.

(* the equation clause of the property is necessary: tail text of a comment inside m:oMath is content *)
Theorem C18_comment_in_equation_refuted :
  exists v t, math_clean_ax t = false /\
    fr (collect_from v [] t) <> fr (collect_from v [] (strip_ax t)).
Proof. exact walk_strip_ax_counterexample. Qed.
Print Assumptions C18_comment_in_equation_refuted.

(* and so is one-prefix-per-namespace for whitespace (the text of x:t fused into w:t) *)
Theorem C18_two_prefixes_refuted :
  exists v t, math_clean t = true /\ extract v (strip_ws t) <> extract v t.
Proof. exact extract_strip_ws_counterexample. Qed.
Print Assumptions C18_two_prefixes_refuted.
