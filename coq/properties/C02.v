(* C02 — text is extracted completely, exactly once, and in document order.
   Statements only (copied from the lemma libraries); every proof is a bare
   `exact`; see the cited files in coq/proofs for the proofs. *)
From Coq Require Import List NArith ZArith Bool Arith Sorting.Sorted Sorting.Permutation.
From D2P Require Import Str Err Xml TableTypes Tables Fmt Bullets Merge Collector Walk ShapeFacts TokFacts FrameFacts MergeFacts Predicates SeqFacts LineageFacts BulletsFacts GridFacts LineageFacts GridWalk BlocksSpec MarkerFacts ReplaceFacts StandIns PyVal Source SourceBase SourceMerge PyHeap SourceHeap SourceHeapRuns SourceCaret SourceRuns SourceElem SourceForms SourceCaret2 SourceFresh SourceParas.
Import ListNotations.

(* refinement to the declarative spec: walking a paragraph whose content is inline (any nesting of runs, wrappers, unknown elements, hyperlinks, pictures, forms, equations; no nested paragraph, table cell, note or comment marker) appends exactly ONE record after all earlier ones, pointing at that element, with its style, whose tokens are: queued note label, list marker, then the contributions of its children in document order - nothing else, nothing twice, nothing from elsewhere; the open-paragraph stack and comment ranges are untouched *)
Theorem C02_simple_paragraph :
  forall v e ks path s s' ps,
  simple_par (AE e ks) = true -> Inv s -> walk v path (AE e ks) s = Ok s' ->
  pars_at 4%nat (c_tree s) = Ok ps ->
  exists p, pars_at 4%nat (c_tree s') = Ok (ps ++ [p])
    /\ c_open s' = c_open s /\ c_queued s' = [] /\ c_ranges s' = c_ranges s /\ c_depth s' = 4%nat
    /\ p_elem p = Some path /\ p_copy p = false
    /\ get_pStyle e ks = Ok (p_style p)
    /\ (exists a b c, p_lineage p = (a, b, c, Some (e_local e)))
    /\ (exists bl number cs,
          get_par_number (to_numtable v) (c_counters s) (get_bullet_fmt (AE e ks)) = (cs, number)
          /\ get_bullet (to_numtable v) (get_bullet_fmt (AE e ks)) number = Ok bl
          /\ c_counters s' = cs /\ p_listpos p = get_list_position cs (get_bullet_fmt (AE e ks))
          /\ exists ems,
               (fix go (l : list anode) (i : nat) : res (list (list tok)) :=
                  match l with
                  | [] => Ok []
                  | k :: r => a <- emit v (i :: path) k ;; b <- go r (S i) ;; Ok (a :: b)
                  end) ks 0%nat = Ok ems
               /\ toks_of (p_runs p) = toks_of (c_queued s) ++ raw bl ++ concat ems).
Proof. exact simple_par_walk. Qed.
Print Assumptions C02_simple_paragraph.

(* an inline subtree only appends tokens to the open paragraph, and WHICH tokens does not depend on the state (emit v path t): text never migrates between paragraphs *)
Theorem C02_inline_frame :
  forall v t path s s' p rest,
  plain_inline t = true -> c_open s = p :: rest -> walk v path t s = Ok s' ->
  exists rs' em,
    c_open s' = with_runs p rs' :: rest /\ c_tree s' = c_tree s /\ c_depth s' = c_depth s /\
    c_lineage s' = c_lineage s /\ c_queued s' = c_queued s /\ c_ranges s' = c_ranges s /\
    c_counters s' = c_counters s /\
    emit v path t = Ok em /\ toks_of rs' = toks_of (p_runs p) ++ em.
Proof. exact inline_frame. Qed.
Print Assumptions C02_inline_frame.

(* a text node contributes exactly its characters *)
Theorem C02_text :
  forall v path e, str_eqb (e_ptag e) tag_TEXT = true ->
  emit v path (AE e []) = Ok (map TTxt (ostr (e_text e))).
Proof. exact emit_text. Qed.
Print Assumptions C02_text.

(* a tab contributes one tab character *)
Theorem C02_tab :
  forall v path e, str_eqb (e_ptag e) tag_TAB = true ->
  emit v path (AE e []) = Ok [TRaw 9].
Proof. exact emit_tab. Qed.
Print Assumptions C02_tab.

(* a break contributes one newline *)
Theorem C02_br :
  forall v path e, str_eqb (e_ptag e) tag_BR = true ->
  emit v path (AE e []) = Ok [TRaw 10].
Proof. exact emit_br. Qed.
Print Assumptions C02_br.

(* an element the code does not know contributes exactly what its children contribute, in order *)
Theorem C02_unknown_element :
  forall v path e ks, plain_inline (AE e ks) = true ->
  (forall m, In m tags_table -> str_eqb (e_ptag e) (snd m) = false) ->
  emit v path (AE e ks)
  = (fix go (l : list anode) (i : nat) : res (list tok) :=
       match l with
       | [] => Ok []
       | k :: r => a <- emit v (i :: path) k ;; b <- go r (S i) ;; Ok (a ++ b)
       end) ks 0%nat.
Proof. exact emit_unknown. Qed.
Print Assumptions C02_unknown_element.

(* so does a run *)
Theorem C02_run :
  forall v path e ks st, str_eqb (e_ptag e) tag_RUN = true ->
  forallb plain_inline ks = true ->
  get_run_formatting e ks (env_x2h v) = Ok st ->
  emit v path (AE e ks)
  = (fix go (l : list anode) (i : nat) : res (list tok) :=
       match l with
       | [] => Ok []
       | k :: r => a <- emit v (i :: path) k ;; b <- go r (S i) ;; Ok (a ++ b)
       end) ks 0%nat.
Proof. exact emit_run. Qed.
Print Assumptions C02_run.

(* the pre-merge of runs/links/text keeps the document-order sequence of characters and content marks (partial: under one prefix per namespace, see the counterexample below) *)
Theorem C02_merge_preserves_atoms_partial :
  forall pt v t t',
  wf_ptag pt t = true -> wf_text t = true ->
  merge_elems v t = Ok t' -> atoms t' = atoms t.
Proof. exact merge_atoms_partial. Qed.
Print Assumptions C02_merge_preserves_atoms_partial.

(* without that hypothesis the full statement is false of the faithful model: two prefixes bound to one namespace (w:t next to x:t) are fused across a content child *)
Theorem C02_merge_atoms_refuted_without_hyp :
  exists v t t',
    wf_text t = true /\ merge_elems v t = Ok t' /\ atoms t' <> atoms t /\ wf_text t' = false.
Proof. exact merge_atoms_counterexample. Qed.
Print Assumptions C02_merge_atoms_refuted_without_hyp.

(* a concluded paragraph is placed after all earlier paragraphs in the 4-deep structure *)
Theorem C02_paragraph_order :
  forall l p l', spine_ok 4%nat l -> tree_ok l ->
  spine_app 4%nat (NP p) l = Ok l' ->
  forall ps, pars_at 4%nat l = Ok ps -> pars_at 4%nat l' = Ok (ps ++ [p]).
Proof. exact spine_app_pars. Qed.
Print Assumptions C02_paragraph_order.

(* moving the caret never adds, drops or reorders paragraphs *)
Theorem C02_caret_moves_keep_paragraphs :
  forall d name s s' ps, Inv s -> (1 <= d <= 4)%nat ->
  set_caret (Some d) name s = Ok s' ->
  pars_at 4%nat (c_tree s) = Ok ps -> pars_at 4%nat (c_tree s') = Ok ps.
Proof. exact set_caret_pars. Qed.
Print Assumptions C02_caret_moves_keep_paragraphs.

(* a whole part (w:document/w:body or similar container) of simple paragraphs: the n-th extracted record points at the n-th source paragraph - document order, one record each - and the list counters are the history fold (C08) *)
Theorem C02_whole_part_of_paragraphs :
  forall v e ks path s',
  mem_str (e_ptag e) depth_none_tags = true -> forallb simple_par ks = true ->
  collect_from v path (AE e ks) = Ok s' ->
  exists new, pars_at 4%nat (c_tree s') = Ok new
    /\ map p_elem new = map (fun n => Some (n :: path)) (seq 0%nat (length ks))
    /\ forall numId ilvl,
         count_of (c_counters s') numId ilvl
         = spec_rev (items_rev (map par_fmt ks) []) numId ilvl.
Proof. exact collect_body_of_simple_pars. Qed.
Print Assumptions C02_whole_part_of_paragraphs.

(* any run of sibling paragraphs, from any state: records appended in order, one per paragraph *)
Theorem C02_paragraph_sequence_partial :
  forall v ks path i s s' ps,
  forallb simple_par ks = true -> Inv s -> c_open s = [] ->
  kids_loop v path ks i s = Ok s' ->
  pars_at 4%nat (c_tree s) = Ok ps ->
  exists new, pars_at 4%nat (c_tree s') = Ok (ps ++ new)
    /\ length new = length ks
    /\ Forall2 (fun k p => exists e eks j, k = AE e eks /\ p_elem p = Some (j :: path)
                                          /\ get_pStyle e eks = Ok (p_style p)) ks new
    /\ (forall n, (n < length ks)%nat ->
                  nth_error (map p_elem new) n = Some (Some ((i + n)%nat :: path)))
    /\ c_open s' = [] /\ Inv s'.
Proof. exact kids_of_simple_pars_partial. Qed.
Print Assumptions C02_paragraph_sequence_partial.

(* A WHOLE PART of paragraphs AND tables (any number, any order, inert elements such as sectPr and bookmarks between them): the extracted structure is, block by block in document order, one [[[records]]] group per maximal run of free paragraphs and the grid table (C04) per table, each record tied to its own source paragraph: element path, style, lineage, and tokens = list marker followed by what its children contribute *)
Theorem C02_whole_part_with_tables :
  forall v e ks path s,
  mem_str (e_ptag e) depth_none_tags = true -> forallb root_ok ks = true ->
  collect_from v path (AE e ks) = Ok s ->
  exists brs,
    Forall2 (brel v path) (sel is_blk ks 0) brs /\
    unrev_list (c_tree s) = spec_blocks (env_dup v) brs [].
Proof. exact blocks_tree_spec. Qed.
Print Assumptions C02_whole_part_with_tables.

(* hence, without merged cells: the records point at ALL w:p elements of the part - free ones and those in cells - in document order, each exactly once: nothing lost, duplicated or reordered *)
Theorem C02_every_paragraph_once :
  forall v e ks path s,
  mem_str (e_ptag e) depth_none_tags = true -> forallb root_ok ks = true ->
  forallb blk_unmerged ks = true ->
  collect_from v path (AE e ks) = Ok s ->
  exists ps, pars_at 4 (c_tree s) = Ok ps /\
    map p_elem ps = map Some (wp_paths path (AE e ks)).
Proof. exact blocks_every_paragraph_once. Qed.
Print Assumptions C02_every_paragraph_once.

(* with merged cells: the same for the records that are not copies or fills, provided duplication is off or no cell is a vertical continuation (documented merged-cell duplication aside) *)
Theorem C02_every_paragraph_once_merged_partial :
  forall v e ks path s,
  mem_str (e_ptag e) depth_none_tags = true -> forallb root_ok ks = true ->
  forallb (blk_mergeable (env_dup v)) ks = true ->
  collect_from v path (AE e ks) = Ok s ->
  exists ps, pars_at 4 (c_tree s) = Ok ps /\
    map p_elem (filter is_own ps) = map Some (wp_paths path (AE e ks)).
Proof. exact blocks_every_paragraph_once_partial. Qed.
Print Assumptions C02_every_paragraph_once_merged_partial.

(* the clause is needed: with duplication on, the own paragraphs of a vMerge continuation cell are overwritten by the copy of the cell above (Word writes an empty paragraph there) *)
Theorem C02_continuation_content_refuted :
  exists v e ks path s ps,
    mem_str (e_ptag e) depth_none_tags = true /\ forallb root_ok ks = true /\
    collect_from v path (AE e ks) = Ok s /\ pars_at 4 (c_tree s) = Ok ps /\
    In [1;0;1;0;9]%nat (wp_paths path (AE e ks)) /\
    ~ In (Some [1;0;1;0;9]%nat) (map p_elem ps) /\
    map p_elem (filter is_own ps) <> map Some (wp_paths path (AE e ks)).
Proof. exact blocks_every_paragraph_once_counterexample. Qed.
Print Assumptions C02_continuation_content_refuted.

(* every record of the part - copies included - carries exactly the marker and the contributions of the paragraph it points at; a record pointing nowhere (blank fill) has no text: text never migrates between paragraphs and nothing is emitted that does not derive from the part *)
Theorem C02_text_never_migrates :
  forall v e ks path s ps,
  mem_str (e_ptag e) depth_none_tags = true -> forallb root_ok ks = true ->
  collect_from v path (AE e ks) = Ok s -> pars_at 4 (c_tree s) = Ok ps ->
  Forall (rec_ok v path (AE e ks)) ps.
Proof. exact blocks_text_of_paragraph. Qed.
Print Assumptions C02_text_never_migrates.

(* THE COMPLETE CASE ANALYSIS of what an inline element contributes: for each of the 14 handled tags its documented stand-in (text, tab, break, note reference marker, picture marker, alt-text marker, symbol span, check box, drop-down entry, equation, link), and for EVERY other tag exactly what its children contribute - nothing else can be emitted *)
Theorem C02_stand_ins_complete :
  forall v path e ks, plain_inline (AE e ks) = true ->
  (e_ptag e = tag_RUN ->
     emit v path (AE e ks)
     = (st <- get_run_formatting e ks (env_x2h v) ;; emit_kids v path ks 0%nat))
  /\ (e_ptag e = tag_TEXT \/ e_ptag e = tag_TEXT_MATH ->
     emit v path (AE e ks) = then_kids v path ks (map TTxt (ostr (e_text e))))
  /\ (e_ptag e = tag_MATH ->
     emit v path (AE e ks)
     = Ok (TOpen s_latex :: map TTxt (itertext (AE e ks)) ++ [TClose s_latex]))
  /\ (e_ptag e = tag_BR -> emit v path (AE e ks) = then_kids v path ks [TRaw 10])
  /\ (e_ptag e = tag_TAB -> emit v path (AE e ks) = then_kids v path ks [TRaw 9])
  /\ (e_ptag e = tag_SYM ->
     emit v path (AE e ks)
     = (font <- attr_w e s_font ;; chr <- attr_w e s_char ;;
        then_kids v path ks
          (match ostr chr with
           | [] => []
           | _ :: tl => TOpen (s_span_font ++ ostr_or_None font)
                        :: raw ([38; 35; 120; 48] ++ tl ++ [59]) ++ [TClose s_span]
           end)))
  /\ (e_ptag e = tag_HYPERLINK ->
     emit v path (AE e ks)
     = (body <- below_loop v path ks 0%nat ;; Ok (link_contrib v e body)))
  /\ (e_ptag e = tag_FORM_CHECKBOX ->
     emit v path (AE e ks) = (x <- get_checkBox_entry e ks ;; then_kids v path ks (raw x)))
  /\ (e_ptag e = tag_FORM_DDLIST ->
     emit v path (AE e ks) = (x <- get_ddList_entry e ks ;; then_kids v path ks (map TTxt x)))
  /\ (e_ptag e = tag_FOOTNOTE_REFERENCE ->
     emit v path (AE e ks)
     = (id <- attr_w_req e s_id ;;
        then_kids v path ks (raw (s_dashes ++ s_footnote ++ id ++ s_dashes))))
  /\ (e_ptag e = tag_ENDNOTE_REFERENCE ->
     emit v path (AE e ks)
     = (id <- attr_w_req e s_id ;;
        then_kids v path ks (raw (s_dashes ++ s_endnote ++ id ++ s_dashes))))
  /\ (e_ptag e = tag_IMAGE ->
     emit v path (AE e ks) = then_kids v path ks (image_toks v (attr_r_req e s_embed)))
  /\ (e_ptag e = tag_IMAGEDATA ->
     emit v path (AE e ks) = then_kids v path ks (image_toks v (attr_r_req e s_id)))
  /\ (e_ptag e = tag_IMAGE_ALT ->
     emit v path (AE e ks)
     = then_kids v path ks
         (match attr_plain e s_descr with
          | Some d => raw s_alt_prefix ++ map TTxt d ++ [TRaw 60]
          | None => []
          end))
  /\ (~ In (e_ptag e) handled_tags -> emit v path (AE e ks) = emit_kids v path ks 0%nat).
Proof. exact emit_handled_tags. Qed.
Print Assumptions C02_stand_ins_complete.

(* an equation: <latex> its text </latex>, children not walked *)
Theorem C02_equation :
  forall v path e ks, e_ptag e = tag_MATH ->
  emit v path (AE e ks)
  = Ok (TOpen s_latex :: map TTxt (itertext (AE e ks)) ++ [TClose s_latex]).
Proof. exact emit_math. Qed.
Print Assumptions C02_equation.

(* a symbol: the font span with the character reference, added into the open run *)
Theorem C02_symbol :
  forall v path e ks font c tl, e_ptag e = tag_SYM ->
  forallb plain_inline ks = true ->
  attr_w e s_font = Ok font -> attr_w e s_char = Ok (Some (c :: tl)) ->
  emit v path (AE e ks)
  = (k <- emit_kids v path ks 0%nat ;;
     Ok ((TOpen (s_span_font ++ ostr_or_None font)
          :: raw ([38; 35; 120; 48] ++ tl ++ [59]) ++ [TClose s_span]) ++ k)).
Proof. exact emit_sym. Qed.
Print Assumptions C02_symbol.

(* a check box: the box chosen by w:checked (absent value = checked) or else w:default, over the ST_OnOff spellings *)
Theorem C02_check_box_value :
  forall e ks, get_checkBox_entry e ks = checkbox_spec e ks.
Proof. exact checkbox_values. Qed.
Print Assumptions C02_check_box_value.

(* a drop-down: the entry selected by w:result (first entry when absent), empty when out of range *)
Theorem C02_drop_down_value :
  forall e ks, get_ddList_entry e ks = ddlist_spec e ks.
Proof. exact ddlist_value. Qed.
Print Assumptions C02_drop_down_value.

(* SOURCE TIE: the _CONTENT_TAGS set as read by the source translator is the model's list *)
Theorem C02_source_content_tags :
  S__CONTENT_TAGS = map VStr content_tags.
Proof. exact src_content_tags. Qed.
Print Assumptions C02_source_content_tags.

(* SOURCE TIE: attribute_register._is_content as translated from the source text is the model's is_content *)
Theorem C02_source_is_content :
  forall t, S__is_content (enc_el t) = Ok (VBool (is_content t)).
Proof. exact src_is_content. Qed.
Print Assumptions C02_source_is_content.

(* SOURCE TIE: attribute_register.has_content as translated from the source text (recursive generator, first content tag in document order or None) is truthy exactly when the model's has_content is, for every tree (given fuel above its height) *)
Theorem C02_source_has_content :
  forall t fuel,
  (el_height t < fuel)%nat -> named t ->
  exists v, S_has_content fuel (enc_el t) = Ok v /\ py_truth v = has_content t.
Proof. exact src_has_content. Qed.
Print Assumptions C02_source_has_content.

(* SOURCE TIE (heap embedding of the run methods of DepthCollector): add_text_into_open_run appends the (escaped) text to the LAST run of the open paragraph - creating a run when there is none - and changes nothing else: every other run, paragraph and list cell that existed reads the same (frame_runs) *)
Theorem C02_source_add_text :
  forall (epf : pv -> pv -> hm pv) (eps : pv -> hm pv),
  forall fuel h self pa ra rs fmt item,
    rd_open h self = Some (pa, ra, rs) -> rd_fmt h self = Some fmt ->
    exists h', S_H_add_text_into_open_run epf eps fuel self (VStr item) h = HOk VNone h'
               /\ rd_open h' self
                  = Some (pa, ra, upd_last (fun r : rv => (fst r, snd r ++ render (py_truth fmt) (map TTxt item)))
                                           (ensure_rv rs))
               /\ frame_runs h h' ra.
Proof. exact src_add_text. Qed.
Print Assumptions C02_source_add_text.

(* SOURCE TIE: add_code_into_open_run appends verbatim *)
Theorem C02_source_add_code :
  forall (epf : pv -> pv -> hm pv) (eps : pv -> hm pv),
  forall fuel h self pa ra rs item,
    rd_open h self = Some (pa, ra, rs) ->
    exists h', S_H_add_code_into_open_run epf eps fuel self (VStr item) h = HOk VNone h'
               /\ rd_open h' self
                  = Some (pa, ra, upd_last (fun r : rv => (fst r, snd r ++ item)) (ensure_rv rs))
               /\ frame_runs h h' ra.
Proof. exact src_add_code. Qed.
Print Assumptions C02_source_add_code.

(* SOURCE TIE: commence_run() appends one empty unstyled run to the open paragraph and changes nothing else *)
Theorem C02_source_commence_run :
  forall (epf erf : pv -> pv -> hm pv) (eps : pv -> hm pv),
  forall fuel h self pa ra rs,
    rd_open h self = Some (pa, ra, rs) ->
    exists h', S_H_commence_run epf erf eps fuel self VNone h = HOk VNone h'
               /\ rd_open h' self = Some (pa, ra, rs ++ [([], [])])
               /\ frame_runs h h' ra.
Proof. exact src_commence_run_none. Qed.
Print Assumptions C02_source_commence_run.

(* SOURCE TIE: conclude_run() likewise *)
Theorem C02_source_conclude_run :
  forall (epf erf : pv -> pv -> hm pv) (eps : pv -> hm pv),
  forall fuel h self pa ra rs,
    rd_open h self = Some (pa, ra, rs) ->
    exists h', S_H_conclude_run epf erf eps fuel self h = HOk VNone h'
               /\ rd_open h' self = Some (pa, ra, rs ++ [([], [])])
               /\ frame_runs h h' ra.
Proof. exact src_conclude_run. Qed.
Print Assumptions C02_source_conclude_run.

(* SOURCE TIE: insert_text_as_new_run puts the item in an unstyled run of its own and reopens a run in the style that was open; nothing else changes *)
Theorem C02_source_insert_text_as_new_run :
  forall (epf : pv -> pv -> hm pv) (eps : pv -> hm pv),
  forall fuel h self pa ra rs item,
    rd_open h self = Some (pa, ra, rs) ->
    exists h', S_H_insert_text_as_new_run epf eps fuel self (VStr item) h = HOk VNone h'
               /\ rd_open h' self
                  = Some (pa, ra, ensure_rv rs ++ [([], item); (last_style (ensure_rv rs), [])])
               /\ frame_runs h h' ra.
Proof. exact src_insert_text_as_new_run. Qed.
Print Assumptions C02_source_insert_text_as_new_run.

(* SOURCE TIE: queue_run_for_next_paragraph appends one unstyled run to the queued runs *)
Theorem C02_source_queue_run :
  forall h self qa qs text,
    rd_queued h self = Some (qa, qs) ->
    exists h', S_H_queue_run_for_next_paragraph self (VStr text) h = HOk VNone h'
               /\ rd_queued h' self = Some (qa, qs ++ [([], text)])
               /\ frame_runs h h' qa.
Proof. exact src_queue_run. Qed.
Print Assumptions C02_source_queue_run.

(* bridge: the model's add_toks (tokens, rendered on demand) seen through run_view IS the operation proved of the source (strings, escaped on entry) *)
Theorem C02_model_add_toks_view :
  forall b rs ts,
  map (run_view b)
      (upd_last (fun r => {| r_style := r_style r; r_toks := r_toks r ++ ts |}) (ensure_run rs))
  = upd_last (fun r : rv => (fst r, snd r ++ render b ts)) (ensure_rv (map (run_view b) rs)).
Proof. exact model_add_toks_view. Qed.
Print Assumptions C02_model_add_toks_view.

(* bridge: the model's insert_text_as_new_run seen through run_view *)
Theorem C02_model_insert_view :
  forall b rs ts,
  map (run_view b)
      (let rs' := ensure_run rs in
       let st := match last_opt rs' with Some r => r_style r | None => [] end in
       rs' ++ [{| r_style := []; r_toks := ts |}; {| r_style := st; r_toks := [] |}])
  = ensure_rv (map (run_view b) rs)
    ++ [([], render b ts); (last_style (ensure_rv (map (run_view b) rs)), [])].
Proof. exact model_insert_view. Qed.
Print Assumptions C02_model_insert_view.

(* bridge: the model's commence_run seen through run_view *)
Theorem C02_model_commence_run_view :
  forall b rs style,
  map (run_view b) (rs ++ [{| r_style := style; r_toks := [] |}]) = map (run_view b) rs ++ [(style, [])].
Proof. exact model_commence_run_view. Qed.
Print Assumptions C02_model_commence_run_view.

(* bridge: the model's queue_run_for_next_paragraph seen through run_view *)
Theorem C02_model_queue_view :
  forall b qs ts,
  map (run_view b) (qs ++ [{| r_style := []; r_toks := ts |}]) = map (run_view b) qs ++ [([], render b ts)].
Proof. exact model_queue_view. Qed.
Print Assumptions C02_model_queue_view.

(* SOURCE TIE: the text a check box contributes is computed by the translated get_checkBox_entry *)
Theorem C02_source_get_checkBox_entry :
  forall e ks, form_names_ok ks ->
  S_get_checkBox_entry (enc_fel (AE e ks)) = lift_str (get_checkBox_entry e ks).
Proof. exact src_get_checkBox_entry. Qed.
Print Assumptions C02_source_get_checkBox_entry.

(* SOURCE TIE: the text a drop-down contributes is computed by the translated get_ddList_entry *)
Theorem C02_source_get_ddList_entry :
  forall e ks, form_names_ok ks ->
  S_get_ddList_entry (enc_fel (AE e ks)) = lift_str (get_ddList_entry e ks).
Proof. exact src_get_ddList_entry. Qed.
Print Assumptions C02_source_get_ddList_entry.

(* SOURCE TIE: with no open paragraph, self._open_par commences one (elem=None): text found outside any w:p goes into a paragraph of its own (the model's ensure_par); with C02_source_add_text etc. this covers the run methods in every state *)
Theorem C02_source_open_par_empty :
  forall (epf : pv -> pv -> hm pv) (eps : pv -> hm pv),
  forall h fuel sa c fs op,
    h_get sa h = Some (HObj c fs) -> field_get f_open_pars fs = Some (VRef op) ->
    h_get op h = Some (HList []) ->
    S_H_open_par epf eps fuel (VRef sa) h = S_H_commence_paragraph epf eps fuel (VRef sa) VNone h.
Proof. exact src_open_par_empty. Qed.
Print Assumptions C02_source_open_par_empty.

(* SOURCE TIE: the queued runs (note labels, list markers queued for the next paragraph) become the first runs of the paragraph that is commenced, the queue is emptied: nothing queued is lost or repeated *)
Theorem C02_source_commence_paragraph :
  forall (leaf_of : pv -> option par) (epf : pv -> pv -> hm pv) (eps : pv -> hm pv),
  forall h self s s1 name fuel sa c fs rb brs bs op qa ql fmt,
    rep leaf_of h self = Some (core_of s) -> (c_depth s <= 4)%nat -> (8 <= fuel)%nat ->
    set_caret (Some 4%nat) name s = Ok s1 ->
    self = VRef sa -> h_get sa h = Some (HObj c fs) ->
    field_get f_branches fs = Some (VRef rb) -> h_get rb h = Some (HList brs) -> refs_of brs = Some bs ->
    field_get f_open_pars fs = Some (VRef op) ->
    field_get n_queued fs = Some (VRef qa) -> h_get qa h = Some (HList ql) -> ~ In qa (sa :: rb :: op :: bs) ->
    rd_fmt h self = Some fmt ->
    ext_fmt epf -> ext_sty eps ->
    exists h' pa,
      S_H_commence_paragraph epf eps fuel self (enc_elem name) h = HOk (VRef pa) h'
      /\ (length h <= pa)%nat
      /\ (forall p, leaf_of (VRef pa) = Some p ->
            rep leaf_of h' self
            = Some {| k_depth := c_depth s1; k_lineage := c_lineage s1; k_tree := c_tree s1;
                      k_open := p :: c_open s1 |})
      /\ (exists pfs ra lin,
            h_get pa h' = Some (HObj n_Par pfs)
            /\ field_get n_elem pfs = Some (enc_elem name)
            /\ field_get n_lineage pfs = Some lin /\ dec_lineage lin = Some (c_lineage s1)
            /\ field_get n_runs pfs = Some (VRef ra) /\ (length h <= ra)%nat
            /\ h_get ra h' = Some (HList ql))
      /\ (exists c' fs' qa', h_get sa h' = Some (HObj c' fs')
            /\ field_get n_queued fs' = Some (VRef qa') /\ (length h <= qa')%nat
            /\ h_get qa' h' = Some (HList [])).
Proof. exact src_commence_paragraph. Qed.
Print Assumptions C02_source_commence_paragraph.
