(* C09 — parts are found through package relationships, not file names.
   Statements only (copied from the lemma libraries); every proof is a bare
   `exact`; see the cited files in coq/proofs for the proofs. *)
From Coq Require Import List NArith ZArith Bool Arith Sorting.Sorted Sorting.Permutation.
From D2P Require Import Str Err Paths PathsFacts.
Import ListNotations.
Import String.StringSyntax.

(* a relative target T (no parent-directory segments) declared in D/_rels/X.rels resolves to D/T, for every directory D below the root whose first segment does not start with '.', provided T does not itself start with the segments of D (the two clauses the proof forces; see the refutations) *)
Theorem C09_relative_target :
  forall ds ts, segs ds -> ds <> [] -> segs ts -> ts <> [] ->
  strs_prefix ds ts = None ->
  (forall d r, ds = d :: r -> forall c r', d = c :: r' -> c <> dot) ->
  file_path (pjoin (ds ++ [s__rels])) (pjoin ts) = pjoin (ds ++ ts).
Proof. exact path_relative. Qed.
Print Assumptions C09_relative_target.

(* a package-absolute target /D/T resolves to D/T *)
Theorem C09_absolute_target :
  forall ds ts, segs ds -> ds <> [] -> segs ts ->
  (forall d r, ds ++ ts = d :: r -> forall c r', d = c :: r' -> c <> dot) ->
  file_path (pjoin (ds ++ [s__rels])) (slash :: pjoin (ds ++ ts)) = pjoin (ds ++ ts).
Proof. exact path_absolute. Qed.
Print Assumptions C09_absolute_target.

(* indeed any absolute target resolves to itself whatever the referring directory *)
Theorem C09_absolute_target_any_dir :
  forall dir ts, segs ts -> ts <> [] ->
  (forall d r, ts = d :: r -> forall c r', d = c :: r' -> c <> dot) ->
  file_path dir (slash :: pjoin ts) = pjoin ts.
Proof. exact path_absolute_any. Qed.
Print Assumptions C09_absolute_target_any_dir.

(* targets of _rels/.rels resolve to themselves *)
Theorem C09_root_relationships :
  forall ts, segs ts -> ts <> [] ->
  (forall d r, ts = d :: r -> forall c r', d = c :: r' -> c <> dot) ->
  file_path s__rels (pjoin ts) = pjoin ts.
Proof. exact path_from_root. Qed.
Print Assumptions C09_root_relationships.

(* the directory recorded for a relationships member D/_rels/X.rels is D/_rels *)
Theorem C09_rels_member_dir :
  forall ds x, segs ds -> seg x ->
  dir_of_member (pjoin (ds ++ [s__rels; x])) = pjoin (ds ++ [s__rels]).
Proof. exact dir_of_rels_member. Qed.
Print Assumptions C09_rels_member_dir.

(* the relationships used for ids inside a part D/x are those of D/_rels/x.rels *)
Theorem C09_own_rels :
  forall ds x, segs ds -> ds <> [] -> seg x ->
  rels_path (pjoin (ds ++ [x])) = pjoin (ds ++ [s__rels; x ++ s_dot_rels]).
Proof. exact rels_path_spec. Qed.
Print Assumptions C09_own_rels.

(* for a part at the archive root the inferred name is never a member name (the archive root is excepted in the property) *)
Theorem C09_root_part_has_no_rels :
  forall x l, seg x -> segs l -> rels_path x <> pjoin l.
Proof. exact rels_path_root_not_member. Qed.
Print Assumptions C09_root_part_has_no_rels.

(* only the last segment of a relationship Type is read *)
Theorem C09_type_is_last_segment :
  forall pre x, seg x -> path_name (pre ++ slash :: x) = x.
Proof. exact path_name_url. Qed.
Print Assumptions C09_type_is_last_segment.

(* known finding D14: a part at word/word/x.xml referenced relatively as word/x.xml is resolved to word/x.xml *)
Theorem C09_samedir_refuted :
  exists dir target,
  file_path dir target <> pjoin [s2l "word"%string; s2l "word"%string; s2l "x.xml"%string]
  /\ dir = s2l "word/_rels"%string /\ target = s2l "word/x.xml"%string.
Proof. exact path_samedir_refuted. Qed.
Print Assumptions C09_samedir_refuted.

(* known finding D14: a top-level directory starting with '.' loses the dot *)
Theorem C09_dotdir_refuted :
  file_path (s2l ".hidden/_rels"%string) (s2l "x.xml"%string) = s2l "hidden/x.xml"%string.
Proof. exact path_dotdir_refuted. Qed.
Print Assumptions C09_dotdir_refuted.
