(* C12 — each comment is returned with its exact anchored text, author, date and body.
   Statements only (copied from the lemma libraries); every proof is a bare
   `exact`; see the cited files in coq/proofs for the proofs. *)
From Coq Require Import List NArith ZArith Bool Arith Sorting.Sorted Sorting.Permutation.
From D2P Require Import Str Err Xml TableTypes Tables Fmt Bullets Merge Collector Walk Paths Package Content ShapeFacts TokFacts FrameFacts BulletsFacts CommentFacts.
Import ListNotations.

(* what a marker records is the length of the list of run strings seen so far *)
Theorem C12_marker_counts_are_positions :
  forall v s n,
  count_runs v s = Ok n -> exists l, runs_so_far v s = Ok l /\ length l = n.
Proof. exact count_runs_is_length. Qed.
Print Assumptions C12_marker_counts_are_positions.

(* in a paragraph made of runs and comment markers, the run strings seen at a marker are a PREFIX of those of every later state: so the two recorded positions cut exactly the run strings emitted between the two markers out of the final list *)
Theorem C12_snapshot_is_prefix :
  forall v path ks1 ks2 i j st st1 st2 q l1 l2,
  forallb run_or_marker ks1 = true -> forallb marker_or_inline ks2 = true ->
  c_open st = [q] -> settled q ->
  kids_loop v path ks1 i st = Ok st1 -> kids_loop v path ks2 j st1 = Ok st2 ->
  runs_so_far v st1 = Ok l1 -> runs_so_far v st2 = Ok l2 -> exists x, l2 = l1 ++ x.
Proof. exact marker_snapshot_is_prefix. Qed.
Print Assumptions C12_snapshot_is_prefix.

(* for a paragraph of inline content and markers walked with no other paragraph open: the final run strings extend the earlier ones, and every range recorded lies within them, start <= end *)
Theorem C12_paragraph_bounds :
  forall v e ks path s s' l l',
  str_eqb (e_ptag e) tag_PARAGRAPH = true -> forallb marker_or_inline ks = true ->
  c_open s = [] -> Inv s -> walk v path (AE e ks) s = Ok s' ->
  runs_so_far v s = Ok l -> runs_so_far v s' = Ok l' ->
  c_open s' = [] /\ c_queued s' = []
  /\ exists x, l' = l ++ x
     /\ forall id b en, dict_get id (c_ranges s') = Some (b, en) -> dict_get id (c_ranges s) = None ->
          (length l <= b /\ b <= en /\ en <= length l')%nat.
Proof. exact par_with_markers_bounds. Qed.
Print Assumptions C12_paragraph_bounds.

(* concluding the paragraph keeps everything before it in place *)
Theorem C12_conclude_keeps_prefix :
  forall v s s' l l' p,
  c_open s = [p] -> Inv s -> conclude_paragraph s = Ok s' ->
  runs_so_far v s = Ok l -> runs_so_far v s' = Ok l' -> exists x, l' = l ++ x.
Proof. exact conclude_prefix. Qed.
Print Assumptions C12_conclude_keeps_prefix.

(* inserting a run never disturbs the strings before it *)
Theorem C12_new_run_keeps_prefix :
  forall v ts s s' l l' p,
  c_open s = [p] -> insert_text_as_new_run v ts s = Ok s' ->
  runs_so_far v s = Ok l -> runs_so_far v s' = Ok l' -> exists x, l' = l ++ x.
Proof. exact prefix_insert_run. Qed.
Print Assumptions C12_new_run_keeps_prefix.

(* the side condition (last run empty) cannot be dropped *)
Theorem C12_unsettled_refuted :
  forall v,
  exists s s' p l l',
    c_open s = [p] /\ add_toks v [TRaw 98] s = Ok s'
    /\ runs_so_far v s = Ok l /\ runs_so_far v s' = Ok l' /\ ~ exists x, l' = l ++ x.
Proof. exact add_toks_unsettled_not_prefix. Qed.
Print Assumptions C12_unsettled_refuted.

(* nor the hypothesis that the strings render *)
Theorem C12_render_failure_refuted :
  exists s',
    str_eqb (e_ptag cx_par) tag_PARAGRAPH = true /\ forallb marker_or_inline [] = true
    /\ c_open cx_st = [] /\ Inv cx_st /\ walk cx_env [] (AE cx_par []) cx_st = Ok s'
    /\ runs_so_far cx_env cx_st = Ok [] /\ runs_so_far cx_env s' = Err IndexError.
Proof. exact par_with_markers_prefix_counterexample. Qed.
Print Assumptions C12_render_failure_refuted.

(* a document without a comments part and without ranges yields [] *)
Theorem C12_no_comments_part :
  forall a o fs od rest dc,
  files a = Ok fs -> files_of_type fs s_officeDocument = od :: rest ->
  part_collector a fs o od = Ok dc ->
  files_of_type fs s_comments = [] -> c_ranges dc = [] ->
  comments a o = Ok (Some []).
Proof. exact comments_none_without_part. Qed.
Print Assumptions C12_no_comments_part.

(* a mismatch between ranges and entries yields [] (with the warning outcome), not wrong pairings *)
Theorem C12_mismatch :
  forall a o fs od rest dc,
  files a = Ok fs -> files_of_type fs s_officeDocument = od :: rest ->
  part_collector a fs o od = Ok dc ->
  files_of_type fs s_comments = [] -> c_ranges dc <> [] ->
  comments a o = Ok None.
Proof. exact comments_mismatch_without_part. Qed.
Print Assumptions C12_mismatch.
