(* C12 — each comment is returned with its exact anchored text, author, date and body.
   Statements only (copied from the lemma libraries); every proof is a bare
   `exact`; see the cited files in coq/proofs for the proofs. *)
From Coq Require Import List NArith ZArith Bool Arith Sorting.Sorted Sorting.Permutation.
From D2P Require Import Str Err Xml TableTypes Tables Fmt Bullets Merge Collector Walk Iter Output Paths Package Content ShapeFacts TokFacts FrameFacts BulletsFacts LineageFacts SeqFacts CommentFacts CommentSpan.
Import ListNotations.

(* what a marker records is the length of the list of run strings seen so far *)
Theorem C12_marker_counts_are_positions :
  forall v s n,
  count_runs v s = Ok n -> exists l, runs_so_far v s = Ok l /\ length l = n.
Proof. exact count_runs_is_length. Qed.
Print Assumptions C12_marker_counts_are_positions.

(* in a paragraph made of runs and comment markers, the run strings seen at a marker are a PREFIX of those of every later state: so the two recorded positions cut exactly the run strings emitted between the two markers out of the final list *)
Theorem C12_snapshot_is_prefix :
  forall v path ks1 ks2 i j st st1 st2 q l1 l2,
  forallb run_or_marker ks1 = true -> forallb marker_or_inline ks2 = true ->
  c_open st = [q] -> settled q ->
  kids_loop v path ks1 i st = Ok st1 -> kids_loop v path ks2 j st1 = Ok st2 ->
  runs_so_far v st1 = Ok l1 -> runs_so_far v st2 = Ok l2 -> exists x, l2 = l1 ++ x.
Proof. exact marker_snapshot_is_prefix. Qed.
Print Assumptions C12_snapshot_is_prefix.

(* for a paragraph of inline content and markers walked with no other paragraph open: the final run strings extend the earlier ones, and every range recorded lies within them, start <= end *)
Theorem C12_paragraph_bounds :
  forall v e ks path s s' l l',
  str_eqb (e_ptag e) tag_PARAGRAPH = true -> forallb marker_or_inline ks = true ->
  c_open s = [] -> Inv s -> walk v path (AE e ks) s = Ok s' ->
  runs_so_far v s = Ok l -> runs_so_far v s' = Ok l' ->
  c_open s' = [] /\ c_queued s' = []
  /\ exists x, l' = l ++ x
     /\ forall id b en, dict_get id (c_ranges s') = Some (b, en) -> dict_get id (c_ranges s) = None ->
          (length l <= b /\ b <= en /\ en <= length l')%nat.
Proof. exact par_with_markers_bounds. Qed.
Print Assumptions C12_paragraph_bounds.

(* concluding the paragraph keeps everything before it in place *)
Theorem C12_conclude_keeps_prefix :
  forall v s s' l l' p,
  c_open s = [p] -> Inv s -> conclude_paragraph s = Ok s' ->
  runs_so_far v s = Ok l -> runs_so_far v s' = Ok l' -> exists x, l' = l ++ x.
Proof. exact conclude_prefix. Qed.
Print Assumptions C12_conclude_keeps_prefix.

(* inserting a run never disturbs the strings before it *)
Theorem C12_new_run_keeps_prefix :
  forall v ts s s' l l' p,
  c_open s = [p] -> insert_text_as_new_run v ts s = Ok s' ->
  runs_so_far v s = Ok l -> runs_so_far v s' = Ok l' -> exists x, l' = l ++ x.
Proof. exact prefix_insert_run. Qed.
Print Assumptions C12_new_run_keeps_prefix.

(* the side condition (last run empty) cannot be dropped *)
Theorem C12_unsettled_refuted :
  forall v,
  exists s s' p l l',
    c_open s = [p] /\ add_toks v [TRaw 98] s = Ok s'
    /\ runs_so_far v s = Ok l /\ runs_so_far v s' = Ok l' /\ ~ exists x, l' = l ++ x.
Proof. exact add_toks_unsettled_not_prefix. Qed.
Print Assumptions C12_unsettled_refuted.

(* nor the hypothesis that the strings render *)
Theorem C12_render_failure_refuted :
  exists s',
    str_eqb (e_ptag cx_par) tag_PARAGRAPH = true /\ forallb marker_or_inline [] = true
    /\ c_open cx_st = [] /\ Inv cx_st /\ walk cx_env [] (AE cx_par []) cx_st = Ok s'
    /\ runs_so_far cx_env cx_st = Ok [] /\ runs_so_far cx_env s' = Err IndexError.
Proof. exact par_with_markers_prefix_counterexample. Qed.
Print Assumptions C12_render_failure_refuted.

(* a document without a comments part and without ranges yields [] *)
Theorem C12_no_comments_part :
  forall a o fs od rest dc,
  files a = Ok fs -> files_of_type fs s_officeDocument = od :: rest ->
  part_collector a fs o od = Ok dc ->
  files_of_type fs s_comments = [] -> c_ranges dc = [] ->
  comments a o = Ok (Some []).
Proof. exact comments_none_without_part. Qed.
Print Assumptions C12_no_comments_part.

(* a mismatch between ranges and entries yields [] (with the warning outcome), not wrong pairings *)
Theorem C12_mismatch :
  forall a o fs od rest dc,
  files a = Ok fs -> files_of_type fs s_officeDocument = od :: rest ->
  part_collector a fs o od = Ok dc ->
  files_of_type fs s_comments = [] -> c_ranges dc <> [] ->
  comments a o = Ok None.
Proof. exact comments_mismatch_without_part. Qed.
Print Assumptions C12_mismatch.

(* PACKAGE LEVEL: when the main document is a body of paragraphs of runs and range markers (markers also between paragraphs; inert elements; flat tables between paragraphs), each tuple's reference text is the concatenation of exactly the run strings emitted between that comment's range start and range end - across paragraph and table boundaries *)
Theorem C12_reference_text :
  forall a o cs fs od rest m v celems,
  comments a o = Ok (Some cs) ->
  files a = Ok fs -> files_of_type fs s_officeDocument = od :: rest ->
  part_root a fs o od = Ok m -> part_env a fs o od = Ok v -> span_doc m = true ->
  comment_entries a fs o = Ok celems ->
  exists tr dc,
    body_points v [0%nat] (doc_body m) 0%nat init_cst = Ok (tr, dc)
    /\ part_collector a fs o od = Ok dc
    /\ forall i e ks id,
         nth_error celems i = Some (AE e ks) -> attr_w_req e s_id = Ok id ->
         exists l1 l2 l3 author date body,
           nth_error cs i = Some (concat l2, author, date, body)
           /\ final_runs (o_html o) dc = Ok (l1 ++ l2 ++ l3)
           /\ dict_get id (c_ranges dc) = Some (length l1, length (l1 ++ l2))
           /\ between (events v tr) id l1 l2.
Proof. exact comment_reference_text. Qed.
Print Assumptions C12_reference_text.

(* one tuple per entry of the comments part, in comments-part order: (slice of body_runs, author, date or empty string, paragraphs joined by a blank line) *)
Theorem C12_tuples :
  forall a o cs,
  comments a o = Ok (Some cs) ->
  exists fs od rest dc celems,
    files a = Ok fs /\ files_of_type fs s_officeDocument = od :: rest
    /\ part_collector a fs o od = Ok dc /\ comment_entries a fs o = Ok celems
    /\ length (c_ranges dc) = length celems /\ length cs = length celems
    /\ (celems <> [] ->
        exists cf crest cenv all_runs,
          files_of_type fs s_comments = cf :: crest /\ part_env a fs o cf = Ok cenv
          /\ final_runs (o_html o) dc = Ok all_runs
          /\ forall i c, nth_error celems i = Some c ->
               exists tup, nth_error cs i = Some tup
                           /\ tuple_of o cenv all_runs (c_ranges dc) i c tup).
Proof. exact comments_tuple_spec. Qed.
Print Assumptions C12_tuples.

(* the order is the comments part's, not that of the range starts *)
Theorem C12_comments_part_order :
  forall a o cs fs celems,
  comments a o = Ok (Some cs) -> files a = Ok fs -> comment_entries a fs o = Ok celems ->
  Forall2 (fun c tup => exists e ks, c = AE e ks
                                     /\ attr_w_req e s_author = Ok (snd (fst (fst tup)))) celems cs.
Proof. exact comments_order. Qed.
Print Assumptions C12_comments_part_order.

(* machine-checked example: two overlapping comments spanning two paragraphs and a table, entries in the opposite order of their ranges *)
Theorem C12_comments_part_order_example :
  exists fs od rest m v dc,
    files ex_archive = Ok fs /\ files_of_type fs s_officeDocument = od :: rest
    /\ part_root ex_archive fs ex_opts od = Ok m /\ part_env ex_archive fs ex_opts od = Ok v
    /\ span_doc m = true
    /\ part_collector ex_archive fs ex_opts od = Ok dc /\ c_ranges dc = ex_ranges
    /\ comments ex_archive ex_opts = Ok (Some ex_result).
Proof. exact comments_order_example. Qed.
Print Assumptions C12_comments_part_order_example.

(* the run strings seen at any marker are a prefix of those seen at every later point and of the final flattened run strings - across paragraph and table boundaries *)
Theorem C12_prefix_across_paragraphs :
  forall v path ks i s tr s',
  forallb span_child ks = true -> c_open s = [] -> Inv s ->
  body_points v path ks i s = Ok (tr, s') ->
  c_open s' = [] /\
  forall pre x st post l, tr = pre ++ (x, st) :: post -> runs_so_far v st = Ok l ->
    (forall y st2 l2, In (y, st2) post -> runs_so_far v st2 = Ok l2 -> exists z, l2 = l ++ z)
    /\ (forall lf, final_runs (html_on v) s' = Ok lf -> exists z, lf = l ++ z).
Proof. exact body_markers_prefix. Qed.
Print Assumptions C12_prefix_across_paragraphs.

(* every recorded range satisfies start <= end <= number of run strings; a start without end is empty *)
Theorem C12_range_bounds :
  forall v path ks i s tr s' lf id b e,
  forallb span_child ks = true -> c_open s = [] -> Inv s -> c_ranges s = [] ->
  body_points v path ks i s = Ok (tr, s') ->
  final_runs (html_on v) s' = Ok lf ->
  dict_get id (c_ranges s') = Some (b, e) ->
  (b <= e <= length lf)%nat
  /\ ((forall ev, In ev (events v tr) -> ev_id ev = id -> ev_start ev = true) -> e = b).
Proof. exact body_ranges_bounds. Qed.
Print Assumptions C12_range_bounds.

(* the recorded positions cut exactly the run strings emitted between the two markers *)
Theorem C12_range_is_slice :
  forall v path ks i s tr s' lf id b e,
  forallb span_child ks = true -> c_open s = [] -> Inv s -> c_ranges s = [] ->
  body_points v path ks i s = Ok (tr, s') ->
  final_runs (html_on v) s' = Ok lf ->
  dict_get id (c_ranges s') = Some (b, e) ->
  exists l1 l2 l3, lf = l1 ++ l2 ++ l3 /\ b = length l1 /\ e = length (l1 ++ l2)
    /\ between (events v tr) id l1 l2
    /\ firstn (e - b) (skipn b lf) = l2.
Proof. exact body_range_is_slice. Qed.
Print Assumptions C12_range_is_slice.

(* different numbers of ranges and entries: the empty-list-with-warning outcome, never wrong pairings *)
Theorem C12_count_mismatch :
  forall a o fs od rest dc celems,
  files a = Ok fs -> files_of_type fs s_officeDocument = od :: rest ->
  part_collector a fs o od = Ok dc -> comment_entries a fs o = Ok celems ->
  length (c_ranges dc) <> length celems ->
  comments a o = Ok None.
Proof. exact comments_count_mismatch. Qed.
Print Assumptions C12_count_mismatch.
