(* C04 — tables come out n x m; merged cells are duplicated or blanked as configured.
   Statements only (copied from the lemma libraries); every proof is a bare
   `exact`; see the cited files in coq/proofs for the proofs. *)
From Coq Require Import List NArith ZArith Bool Arith Sorting.Sorted Sorting.Permutation.
From D2P Require Import Str Err Xml TableTypes Tables Fmt Bullets Merge Collector Walk ShapeFacts BulletsFacts GridFacts LineageFacts FrameFacts GridWalk.
Import ListNotations.
Local Open Scope nat_scope.

(* for EVERY table whose rows all span W grid columns (any number of rows, any tiling by spans, any continuation flags): one extracted row per source row, one cell per grid column, under both settings *)
Theorem C04_n_by_m :
  forall dup rows W,
  Forall (fun r => Forall (fun c => 1 <= cs_span c) r /\ row_width r = W) rows ->
  length (grid dup None rows) = length rows
  /\ Forall (fun out => length out = W) (grid dup None rows).
Proof. exact grid_n_by_m. Qed.
Print Assumptions C04_n_by_m.

(* duplicate_merged_cells=True: every position covered by a horizontally merged cell repeats that cell's content; a vertical continuation repeats the cell above it *)
Theorem C04_duplicate :
  forall prev cells j c,
  Forall (fun c => 1 <= cs_span c) cells ->
  In (j, c) (start_cols cells 0) ->
  (cs_cont c = false ->
     nth_error (grid_row true prev cells []) j = Some (cs_own c)
     /\ forall k, 1 <= k < cs_span c ->
          nth_error (grid_row true prev cells []) (j + k) = Some (copy_node (cs_own c)))
  /\ (cs_cont c = true -> forall p src, prev = Some p -> nth_error p j = Some src ->
        forall k, k < cs_span c ->
          nth_error (grid_row true prev cells []) (j + k) = Some (copy_node src)).
Proof. exact grid_true_duplicates. Qed.
Print Assumptions C04_duplicate.

(* duplicate_merged_cells=False: content only at the cell's first position, a single empty paragraph at the other covered positions *)
Theorem C04_blank :
  forall prev cells j c,
  Forall (fun c => 1 <= cs_span c) cells ->
  In (j, c) (start_cols cells 0) ->
  nth_error (grid_row false prev cells []) j = Some (cs_own c)
  /\ forall k, 1 <= k < cs_span c ->
       nth_error (grid_row false prev cells []) (j + k) = Some blank_cell.
Proof. exact grid_false_blanks. Qed.
Print Assumptions C04_blank.

(* positions that start a non-continuation cell are identical under both settings *)
Theorem C04_agree_off_merge :
  forall prev cells j c,
  Forall (fun c => 1 <= cs_span c) cells ->
  In (j, c) (start_cols cells 0) -> cs_cont c = false ->
  nth_error (grid_row true prev cells []) j = Some (cs_own c)
  /\ nth_error (grid_row false prev cells []) j = Some (cs_own c).
Proof. exact grid_unmerged_agree. Qed.
Print Assumptions C04_agree_off_merge.

(* a row without merged cells is the list of its cells *)
Theorem C04_unmerged_row :
  forall dup prev cells,
  Forall (fun c => cs_span c = 1 /\ cs_cont c = false) cells ->
  grid_row dup prev cells [] = map cs_own cells.
Proof. exact grid_unmerged_row. Qed.
Print Assumptions C04_unmerged_row.

(* the tie to the walk: closing a table cell in the collector performs exactly one step of the grid function (resolved content, then span-1 copies or blanks), touching nothing else *)
Theorem C04_close_cell_step :
  forall v e ks s pr g c cells prev_rows old,
  Inv s -> gather_Pr e ks = Ok pr -> span_of pr = Ok g ->
  c_tree s = NL (NL (c :: cells) :: prev_rows) :: old -> 3 <= c_depth s ->
  exists s', close_table_cell v e ks s = Ok s' /\
    let c' := resolved (env_dup v) (is_continuation pr) c cells prev_rows in
    let extra := repeat (if env_dup v then copy_node c' else blank_cell) (Z.to_nat (g - 1)) in
    c_tree s' = NL (NL (extra ++ c' :: cells) :: prev_rows) :: old
    /\ c_open s' = c_open s /\ c_queued s' = c_queued s /\ c_ranges s' = c_ranges s
    /\ c_counters s' = c_counters s.
Proof. exact close_cell_step. Qed.
Print Assumptions C04_close_cell_step.

(* folding that step over the cells of a row yields the grid function's row *)
Theorem C04_row_refines :
  forall v prev_rows old srcs cells,
  Forall2 src_matches srcs cells ->
  forall s acc_nf,
  Inv s -> 3 <= c_depth s -> c_tree s = NL (NL acc_nf :: prev_rows) :: old ->
  exists s', foldM (close_pushed v) srcs s = Ok s'
    /\ c_tree s' = NL (NL (rev (grid_row (env_dup v) (prev_doc prev_rows) cells (rev acc_nf)))
                          :: prev_rows) :: old
    /\ Inv s' /\ 3 <= c_depth s' /\ same_side s s'.
Proof. exact row_refines. Qed.
Print Assumptions C04_row_refines.

(* a cell with span g widens the row by g *)
Theorem C04_row_width :
  forall v e ks s pr g c cells prev_rows old,
  Inv s -> gather_Pr e ks = Ok pr -> span_of pr = Ok g -> (1 <= g)%Z ->
  c_tree s = NL (NL (c :: cells) :: prev_rows) :: old -> 3 <= c_depth s ->
  exists s' row, close_table_cell v e ks s = Ok s'
    /\ c_tree s' = NL (NL row :: prev_rows) :: old
    /\ Z.of_nat (length row) = (Z.of_nat (length cells) + g)%Z.
Proof. exact close_cell_width_pos. Qed.
Print Assumptions C04_row_width.

(* a continuation with nothing above it keeps its own content (no exception) *)
Theorem C04_continuation_without_cell_above :
  forall prev cells j c,
  Forall (fun c => 1 <= cs_span c) cells ->
  In (j, c) (start_cols cells 0) ->
  (prev = None \/ exists p, prev = Some p /\ nth_error p j = None) ->
  nth_error (grid_row true prev cells []) j = Some (cs_own c).
Proof. exact grid_true_cont_fallback. Qed.
Print Assumptions C04_continuation_without_cell_above.

(* END TO END: walking a whole table written as tbl/tr/tc/p (any number of rows and cells, any spans and continuation flags, from any reachable state) appends exactly ONE table to the extracted structure, and that table is the grid function applied to the source: one cellspec per w:tc with its span, continuation flag, and as own content exactly one record per w:p of that cell, pointing at that very paragraph (partial: children of tbl/tr/tc other than rows, cells, paragraphs must be inert - tblPr, tblGrid, trPr, tcPr are - or a paragraph is open; see the counterexample) *)
Theorem C04_whole_table_walk :
  forall v t path s s',
  flat_tbl t = true -> tbl_fill (nonempty (c_open s)) t = true ->
  Inv s -> walk v path t s = Ok s' ->
  exists rows : list (list cellspec),
    table_spec path t rows /\
    c_tree s' = NL (rev (map (fun r => NL (rev r)) (grid (env_dup v) None rows))) :: c_tree s.
Proof. exact flat_tbl_walk_is_grid_partial. Qed.
Print Assumptions C04_whole_table_walk.

(* hence, when every row spans W columns: one extracted row per source row, W cells per row *)
Theorem C04_whole_table_n_by_m :
  forall v t path s s',
  flat_tbl t = true -> tbl_fill (nonempty (c_open s)) t = true ->
  Inv s -> walk v path t s = Ok s' ->
  exists (rows : list (list cellspec)) (tbl : list node),
    table_spec path t rows /\ c_tree s' = NL tbl :: c_tree s /\
    Forall (Forall (fun c => 1 <= cs_span c)) rows /\
    forall W, Forall (fun r => row_width r = W) rows ->
      length tbl = length rows /\
      Forall (fun r => exists cells, r = NL cells /\ length cells = W) tbl.
Proof. exact flat_tbl_n_by_m. Qed.
Print Assumptions C04_whole_table_n_by_m.

(* and the content of every grid position: own content then blanks (False); own content then copies (True); a continuation repeats the extracted cell above *)
Theorem C04_whole_table_positions :
  forall v t path s s',
  flat_tbl t = true -> tbl_fill (nonempty (c_open s)) t = true ->
  Inv s -> walk v path t s = Ok s' ->
  exists (rows : list (list cellspec)) (G : list (list node)),
    table_spec path t rows /\ G = grid (env_dup v) None rows /\
    c_tree s' = NL (rev (map (fun r => NL (rev r)) G)) :: c_tree s /\
    forall i r j c, nth_error rows i = Some r -> In (j, c) (start_cols r 0) ->
      exists out, nth_error G i = Some out /\
        (env_dup v = false ->
           nth_error out j = Some (cs_own c)
           /\ forall k, 1 <= k < cs_span c -> nth_error out (j + k) = Some blank_cell) /\
        (env_dup v = true -> cs_cont c = false ->
           nth_error out j = Some (cs_own c)
           /\ forall k, 1 <= k < cs_span c ->
                nth_error out (j + k) = Some (copy_node (cs_own c))) /\
        (env_dup v = true -> cs_cont c = true ->
           forall i' above src, i = S i' -> nth_error G i' = Some above ->
             nth_error above j = Some src ->
             forall k, k < cs_span c -> nth_error out (j + k) = Some (copy_node src)).
Proof. exact flat_tbl_positions. Qed.
Print Assumptions C04_whole_table_positions.

(* the same in document order (what the caller sees) *)
Theorem C04_whole_table_document_order :
  forall v t path s s',
  flat_tbl t = true -> tbl_fill (nonempty (c_open s)) t = true ->
  Inv s -> walk v path t s = Ok s' ->
  exists rows : list (list cellspec),
    table_spec path t rows /\
    unrev_list (c_tree s')
    = unrev_list (c_tree s)
      ++ [NL (map NL (grid (env_dup v) None (map (map unrev_spec) rows)))].
Proof. exact flat_tbl_walk_is_grid_doc. Qed.
Print Assumptions C04_whole_table_document_order.

(* the side condition is needed: a stray w:r directly under w:tbl opens an implicit paragraph and adds a row *)
Theorem C04_stray_run_refuted :
  exists v t path s s',
    flat_tbl t = true /\ Inv s /\ walk v path t s = Ok s' /\
    ~ (exists rows : list (list cellspec),
         table_spec path t rows /\
         c_tree s' = NL (rev (map (fun r => NL (rev r)) (grid (env_dup v) None rows)))
                     :: c_tree s).
Proof. exact flat_tbl_walk_is_grid_counterexample. Qed.
Print Assumptions C04_stray_run_refuted.
