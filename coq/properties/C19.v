(* C19 — options change only what they document.
   Statements only (copied from the lemma libraries); every proof is a bare
   `exact`; see the cited files in coq/proofs for the proofs. *)
From Coq Require Import List NArith ZArith Bool Arith Sorting.Sorted Sorting.Permutation.
From D2P Require Import Str Err Xml TableTypes Tables Fmt Bullets Merge Collector Walk Paths Package Content ShapeFacts TokFacts FrameFacts BulletsFacts GridFacts OptionFacts.
Import ListNotations.
Local Open Scope nat_scope.

(* the structural fields of a paragraph (element, style, lineage, list position, counters, caret, place in the 4-deep structure) do not depend on the html setting nor on how its inline content was merged: only on its properties and the state *)
Theorem C19_paragraph_structure :
  forall v1 v2 e ks1 ks2 path s s1 s2 ps,
  env_numtbl v1 = env_numtbl v2 ->
  simple_par (AE e ks1) = true -> simple_par (AE e ks2) = true ->
  get_pStyle e ks1 = get_pStyle e ks2 -> get_bullet_fmt (AE e ks1) = get_bullet_fmt (AE e ks2) ->
  Inv s -> pars_at 4%nat (c_tree s) = Ok ps ->
  walk v1 path (AE e ks1) s = Ok s1 -> walk v2 path (AE e ks2) s = Ok s2 ->
  exists p1 p2, pars_at 4%nat (c_tree s1) = Ok (ps ++ [p1]) /\ pars_at 4%nat (c_tree s2) = Ok (ps ++ [p2])
    /\ p_elem p1 = p_elem p2 /\ p_style p1 = p_style p2 /\ p_lineage p1 = p_lineage p2
    /\ p_listpos p1 = p_listpos p2
    /\ c_counters s1 = c_counters s2 /\ c_depth s1 = c_depth s2 /\ c_open s1 = c_open s2.
Proof. exact par_structure_independent. Qed.
Print Assumptions C19_paragraph_structure.

(* the html setting reaches the walk only through the formatter table: relationships, numbering and duplicate_merged_cells are the same *)
Theorem C19_environment :
  forall a fs o1 o2 f, o_dup o1 = o_dup o2 ->
  forall v1 v2, part_env a fs o1 f = Ok v1 -> part_env a fs o2 f = Ok v2 ->
  env_rels v1 = env_rels v2 /\ env_numtbl v1 = env_numtbl v2 /\ env_dup v1 = env_dup v2.
Proof. exact html_flag_only_in_x2h. Qed.
Print Assumptions C19_environment.

(* duplicate_merged_cells changes only positions covered by a merged cell *)
Theorem C19_dup_local :
  forall prev cells j c,
  Forall (fun c => 1 <= cs_span c) cells ->
  In (j, c) (start_cols cells 0) -> cs_cont c = false ->
  nth_error (grid_row true prev cells []) j = Some (cs_own c)
  /\ nth_error (grid_row false prev cells []) j = Some (cs_own c).
Proof. exact grid_unmerged_agree. Qed.
Print Assumptions C19_dup_local.

(* images (like core_properties) is a function of the archive alone: it takes no option at all *)
Theorem C19_images_option_free :
  forall a fs r, files a = Ok fs -> images a = Ok r ->
  forall name id, dict_get name r = Some id ->
  exists f, In f (files_of_type fs s_image) /\ name = path_name (f_target f)
            /\ zread a (f_path f) = Some (MRaw id).
Proof. exact images_sound. Qed.
Print Assumptions C19_images_option_free.
