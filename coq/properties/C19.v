(* C19 — options change only what they document.
   Statements only (copied from the lemma libraries); every proof is a bare
   `exact`; see the cited files in coq/proofs for the proofs. *)
From Coq Require Import List NArith ZArith Bool Arith Sorting.Sorted Sorting.Permutation.
From D2P Require Import Str Err Xml TableTypes Tables Fmt Bullets Merge Collector Walk Paths Package Content ShapeFacts TokFacts FrameFacts BulletsFacts GridFacts OptionFacts ProjFacts Fs FsFacts.
Import ListNotations.
Local Open Scope nat_scope.

(* the structural fields of a paragraph (element, style, lineage, list position, counters, caret, place in the 4-deep structure) do not depend on the html setting nor on how its inline content was merged: only on its properties and the state *)
Theorem C19_paragraph_structure :
  forall v1 v2 e ks1 ks2 path s s1 s2 ps,
  env_numtbl v1 = env_numtbl v2 ->
  simple_par (AE e ks1) = true -> simple_par (AE e ks2) = true ->
  get_pStyle e ks1 = get_pStyle e ks2 -> get_bullet_fmt (AE e ks1) = get_bullet_fmt (AE e ks2) ->
  Inv s -> pars_at 4%nat (c_tree s) = Ok ps ->
  walk v1 path (AE e ks1) s = Ok s1 -> walk v2 path (AE e ks2) s = Ok s2 ->
  exists p1 p2, pars_at 4%nat (c_tree s1) = Ok (ps ++ [p1]) /\ pars_at 4%nat (c_tree s2) = Ok (ps ++ [p2])
    /\ p_elem p1 = p_elem p2 /\ p_style p1 = p_style p2 /\ p_lineage p1 = p_lineage p2
    /\ p_listpos p1 = p_listpos p2
    /\ c_counters s1 = c_counters s2 /\ c_depth s1 = c_depth s2 /\ c_open s1 = c_open s2.
Proof. exact par_structure_independent. Qed.
Print Assumptions C19_paragraph_structure.

(* the html setting reaches the walk only through the formatter table: relationships, numbering and duplicate_merged_cells are the same *)
Theorem C19_environment :
  forall a fs o1 o2 f, o_dup o1 = o_dup o2 ->
  forall v1 v2, part_env a fs o1 f = Ok v1 -> part_env a fs o2 f = Ok v2 ->
  env_rels v1 = env_rels v2 /\ env_numtbl v1 = env_numtbl v2 /\ env_dup v1 = env_dup v2.
Proof. exact html_flag_only_in_x2h. Qed.
Print Assumptions C19_environment.

(* duplicate_merged_cells changes only positions covered by a merged cell *)
Theorem C19_dup_local :
  forall prev cells j c,
  Forall (fun c => 1 <= cs_span c) cells ->
  In (j, c) (start_cols cells 0) -> cs_cont c = false ->
  nth_error (grid_row true prev cells []) j = Some (cs_own c)
  /\ nth_error (grid_row false prev cells []) j = Some (cs_own c).
Proof. exact grid_unmerged_agree. Qed.
Print Assumptions C19_dup_local.

(* images (like core_properties) is a function of the archive alone: it takes no option at all *)
Theorem C19_images_option_free :
  forall a fs r, files a = Ok fs -> images a = Ok r ->
  forall name id, dict_get name r = Some id ->
  exists f, In f (files_of_type fs s_image) /\ name = path_name (f_target f)
            /\ zread a (f_path f) = Some (MRaw id).
Proof. exact images_sound. Qed.
Print Assumptions C19_images_option_free.

(* for EVERY element tree: the html=True and html=False extractions of it have the same nesting shape (hence paragraph count), the same list counters, caret and lineage register, and the same comment-range ids *)
Theorem C19_html_changes_only_strings :
  forall v t path s sp, styles_ok v ->
  collect_from v path t = Ok s -> collect_from (plain_env v) path t = Ok sp ->
  map shape_of (c_tree sp) = map shape_of (c_tree s) /\
  c_counters sp = c_counters s /\ c_depth sp = c_depth s /\ c_lineage sp = c_lineage s /\
  map fst (c_ranges sp) = map fst (c_ranges s) /\
  length (c_open sp) = length (c_open s) /\ length (c_queued sp) = length (c_queued s).
Proof. exact projection_shape. Qed.
Print Assumptions C19_html_changes_only_strings.

(* and, paragraph by paragraph, the same element, style, lineage and list position; the strings differ only by formatting tags (and the escapes applied when rendering) *)
Theorem C19_html_paragraph_fields :
  forall v t path s sp ps, styles_ok v ->
  collect_from v path t = Ok s -> collect_from (plain_env v) path t = Ok sp ->
  pars_at 4 (c_tree s) = Ok ps ->
  exists ps', pars_at 4 (c_tree sp) = Ok ps' /\ length ps' = length ps /\
    forall i p p', nth_error ps i = Some p -> nth_error ps' i = Some p' ->
      p_elem p' = p_elem p /\ p_copy p' = p_copy p /\ p_style p' = p_style p /\
      p_lineage p' = p_lineage p /\ p_listpos p' = p_listpos p /\
      forall rs, par_run_toks p = Ok rs ->
        exists rs', par_run_toks p' = Ok rs' /\ erase [] (concat rs) = concat rs'.
Proof. exact projection_paragraphs. Qed.
Print Assumptions C19_html_paragraph_fields.

(* switching html off never turns a successful extraction into a failing one *)
Theorem C19_plain_succeeds_when_html_does :
  forall v t path s, styles_ok v ->
  collect_from v path t = Ok s -> exists sp, collect_from (plain_env v) path t = Ok sp.
Proof. exact plain_succeeds. Qed.
Print Assumptions C19_plain_succeeds_when_html_does.

(* PASSING AN IMAGE FOLDER CHANGES NOTHING IN THE RETURNED VALUES: the mapping returned by save_images / pull_image_files is Content.images of the archive, whatever the folder and whatever the file system holds *)
Theorem C19_image_folder_changes_nothing :
  forall images folder fs r fs',
  pull_image_files images folder fs = Ok (r, fs') -> images = Ok r.
Proof. exact pull_returns_images. Qed.
Print Assumptions C19_image_folder_changes_nothing.

(* stated as an equation between any two folders and file systems *)
Theorem C19_image_folder_irrelevant :
  forall images f1 f2 fs1 fs2,
  (r <- pull_image_files images f1 fs1 ;; Ok (fst r)) = (r <- pull_image_files images f2 fs2 ;; Ok (fst r)).
Proof. exact pull_folder_irrelevant. Qed.
Print Assumptions C19_image_folder_irrelevant.
