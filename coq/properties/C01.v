(* C01 — paragraphs sit at depth 4 in every view, for every document.
   Statements only; proofs in proofs/ShapeFacts.v. *)
From Coq Require Import List Arith.
From D2P Require Import Str Err Xml Merge Collector Walk Iter Output Paths Package Content ShapeFacts ViewFacts PkgShape PyVal Source SourceBase SourceViews.
Import ListNotations.

(* for EVERY element tree (any nesting of paragraphs, tables, wrappers,
   unknown elements), every environment (html on/off, duplicate_merged_cells
   on/off, any relationships, any numbering table): if the collector finishes,
   its tree has lists at depths 1..3 and paragraph records exactly at depth 4 *)
Theorem C01_shape : forall v path t s,
  collect_from v path t = Ok s -> tree_ok (unrev_list (c_tree s)).
Proof. exact collect_unrev_shape. Qed.
Print Assumptions C01_shape.

(* the invariant behind it: the caret stays within 1..4 on the rightmost
   spine through every step of the walk *)
Theorem C01_walk_invariant : forall v t path s s',
  Inv s -> walk v path t s = Ok s' -> Inv s'.
Proof. exact walk_inv. Qed.
Print Assumptions C01_walk_invariant.

(* the walk never raises CaretDepthError *)
Theorem C01_no_caret_error : forall v path t,
  collect_from v path t <> Err CaretDepthError.
Proof. exact collect_no_caret_error. Qed.
Print Assumptions C01_no_caret_error.

(* element depths handed to the caret are always within 1..4 *)
Theorem C01_elem_depth_range : forall t d,
  elem_depth t = Some d -> (1 <= d <= 4)%nat.
Proof. exact elem_depth_range. Qed.
Print Assumptions C01_elem_depth_range.

(* PACKAGE LEVEL: for every archive, every option combination and each of
   header, officeDocument (body), footer, footnotes, endnotes: the *_pars value
   is nested exactly four deep with paragraph records as leaves ... *)
Theorem C01_pars_depth : forall a o ty p, pars_of a o ty = Ok p -> deep 4 p.
Proof. exact pars_of_deep. Qed.
Print Assumptions C01_pars_depth.

(* ... the *_runs value exactly five deep with string leaves ... *)
Theorem C01_runs_depth : forall a o ty r, runs_of a o ty = Ok r -> deep 5 r.
Proof. exact runs_of_deep. Qed.
Print Assumptions C01_runs_depth.

(* ... and the plain value exactly four deep with string leaves *)
Theorem C01_plain_depth : forall a o ty t, plain_of a o ty = Ok t -> deep 4 t.
Proof. exact plain_of_deep. Qed.
Print Assumptions C01_plain_depth.

(* the three forms of one attribute have the same nesting shape: an index
   address valid in one is valid in the others *)
Theorem C01_forms_same_shape : forall a o ty p r t,
  pars_of a o ty = Ok p -> runs_of a o ty = Ok r -> plain_of a o ty = Ok t ->
  forall addr, (length addr < 4)%nat ->
    option_map rlen' (index p addr) = option_map rlen' (index r addr)
    /\ option_map rlen' (index r addr) = option_map rlen' (index t addr).
Proof. exact attribute_forms_same_shape. Qed.
Print Assumptions C01_forms_same_shape.

(* document, document_runs, document_pars likewise *)
Theorem C01_document_pars_depth : forall a o z, document_pars a o = Ok z -> deep 4 z.
Proof. exact document_pars_deep. Qed.
Print Assumptions C01_document_pars_depth.
Theorem C01_document_runs_depth : forall a o z, document_runs a o = Ok z -> deep 5 z.
Proof. exact document_runs_deep. Qed.
Print Assumptions C01_document_runs_depth.
Theorem C01_document_depth : forall a o z, document a o = Ok z -> deep 4 z.
Proof. exact document_deep. Qed.
Print Assumptions C01_document_depth.

(* TIE TO THE SOURCE TEXT (gen/Source.v is regenerated from /repo by tools/gen_source.py on
   every run): the two functions that rebuild the string views level by level from the record
   view, AS TRANSLATED FROM THE PYTHON SOURCE, equal the model's get_par_strings / join_runs
   whose shape preservation is proved above *)
Theorem C01_source_get_par_strings : forall html t,
  deep 4 t ->
  S_get_par_strings (enc_rose (enc_par html) t) = lift_rose VStr (get_par_strings html t).
Proof. exact src_get_par_strings. Qed.
Print Assumptions C01_source_get_par_strings.

Theorem C01_source_join_runs : forall t,
  deep 5 t ->
  S__join_runs (enc_rose VStr t) = lift_rose VStr (join_runs t).
Proof. exact src_join_runs. Qed.
Print Assumptions C01_source_join_runs.
