(* C01 — paragraphs sit at depth 4 in every view, for every document.
   Statements only; proofs in proofs/ShapeFacts.v. *)
From Coq Require Import List Arith ZArith.
From D2P Require Import Str Err Xml Merge Collector Walk Iter Output Paths Package Content ShapeFacts ViewFacts PkgShape PyVal Source SourceBase SourceViews SourceDepth PyHeap SourceHeap SourceCaret SourceCaret2.
Import ListNotations.

(* for EVERY element tree (any nesting of paragraphs, tables, wrappers,
   unknown elements), every environment (html on/off, duplicate_merged_cells
   on/off, any relationships, any numbering table): if the collector finishes,
   its tree has lists at depths 1..3 and paragraph records exactly at depth 4 *)
Theorem C01_shape : forall v path t s,
  collect_from v path t = Ok s -> tree_ok (unrev_list (c_tree s)).
Proof. exact collect_unrev_shape. Qed.
Print Assumptions C01_shape.

(* the invariant behind it: the caret stays within 1..4 on the rightmost
   spine through every step of the walk *)
Theorem C01_walk_invariant : forall v t path s s',
  Inv s -> walk v path t s = Ok s' -> Inv s'.
Proof. exact walk_inv. Qed.
Print Assumptions C01_walk_invariant.

(* the walk never raises CaretDepthError *)
Theorem C01_no_caret_error : forall v path t,
  collect_from v path t <> Err CaretDepthError.
Proof. exact collect_no_caret_error. Qed.
Print Assumptions C01_no_caret_error.

(* element depths handed to the caret are always within 1..4 *)
Theorem C01_elem_depth_range : forall t d,
  elem_depth t = Some d -> (1 <= d <= 4)%nat.
Proof. exact elem_depth_range. Qed.
Print Assumptions C01_elem_depth_range.

(* PACKAGE LEVEL: for every archive, every option combination and each of
   header, officeDocument (body), footer, footnotes, endnotes: the *_pars value
   is nested exactly four deep with paragraph records as leaves ... *)
Theorem C01_pars_depth : forall a o ty p, pars_of a o ty = Ok p -> deep 4 p.
Proof. exact pars_of_deep. Qed.
Print Assumptions C01_pars_depth.

(* ... the *_runs value exactly five deep with string leaves ... *)
Theorem C01_runs_depth : forall a o ty r, runs_of a o ty = Ok r -> deep 5 r.
Proof. exact runs_of_deep. Qed.
Print Assumptions C01_runs_depth.

(* ... and the plain value exactly four deep with string leaves *)
Theorem C01_plain_depth : forall a o ty t, plain_of a o ty = Ok t -> deep 4 t.
Proof. exact plain_of_deep. Qed.
Print Assumptions C01_plain_depth.

(* the three forms of one attribute have the same nesting shape: an index
   address valid in one is valid in the others *)
Theorem C01_forms_same_shape : forall a o ty p r t,
  pars_of a o ty = Ok p -> runs_of a o ty = Ok r -> plain_of a o ty = Ok t ->
  forall addr, (length addr < 4)%nat ->
    option_map rlen' (index p addr) = option_map rlen' (index r addr)
    /\ option_map rlen' (index r addr) = option_map rlen' (index t addr).
Proof. exact attribute_forms_same_shape. Qed.
Print Assumptions C01_forms_same_shape.

(* document, document_runs, document_pars likewise *)
Theorem C01_document_pars_depth : forall a o z, document_pars a o = Ok z -> deep 4 z.
Proof. exact document_pars_deep. Qed.
Print Assumptions C01_document_pars_depth.
Theorem C01_document_runs_depth : forall a o z, document_runs a o = Ok z -> deep 5 z.
Proof. exact document_runs_deep. Qed.
Print Assumptions C01_document_runs_depth.
Theorem C01_document_depth : forall a o z, document a o = Ok z -> deep 4 z.
Proof. exact document_deep. Qed.
Print Assumptions C01_document_depth.

(* TIE TO THE SOURCE TEXT (gen/Source.v is regenerated from /repo by tools/gen_source.py on
   every run): the two functions that rebuild the string views level by level from the record
   view, AS TRANSLATED FROM THE PYTHON SOURCE, equal the model's get_par_strings / join_runs
   whose shape preservation is proved above *)
Theorem C01_source_get_par_strings : forall html t,
  deep 4 t ->
  S_get_par_strings (enc_rose (enc_par html) t) = lift_rose VStr (get_par_strings html t).
Proof. exact src_get_par_strings. Qed.
Print Assumptions C01_source_get_par_strings.

Theorem C01_source_join_runs : forall t,
  deep 5 t ->
  S__join_runs (enc_rose VStr t) = lift_rose VStr (join_runs t).
Proof. exact src_join_runs. Qed.
Print Assumptions C01_source_join_runs.

(* docx_text._get_elem_depth AS TRANSLATED FROM THE PYTHON SOURCE - the level-by-level
   (breadth-first) search for the nearest w:p, `max(4 - depth, 1)`, None for w:document / w:body -
   equals the model's elem_depth (minimum distance to a descendant paragraph), for EVERY element
   tree, given fuel above its height *)
Theorem C01_source_get_elem_depth : forall t fuel,
  (height t + 2 <= fuel)%nat ->
  S__get_elem_depth fuel (enc_anode t) = Ok (enc_depth (elem_depth t)).
Proof. exact src_get_elem_depth. Qed.
Print Assumptions C01_source_get_elem_depth.

(* hence the depth the SOURCE computes is None or within 1..4: the caret is never asked to go
   anywhere else *)
Theorem C01_source_elem_depth_range : forall t fuel v,
  (height t + 2 <= fuel)%nat ->
  S__get_elem_depth fuel (enc_anode t) = Ok v ->
  v = VNone \/ exists n, v = VInt (Z.of_nat n) /\ (1 <= n <= 4)%nat.
Proof. exact src_get_elem_depth_range. Qed.
Print Assumptions C01_source_elem_depth_range.

(* THE ALIAS STACK IS THE RIGHTMOST SPINE - about the source text.  The caret methods of
   depth_collector.DepthCollector are translated from the Python source with a HEAP embedding
   (gen/SourceHeap.v, model/PyHeap.v: lists and objects live in a heap, `_rightmost_branches`
   holds references into the nested list `tree`).  [rep] (proofs/SourceCaret.v) is the
   abstraction function from heap states onto the model's collector state, defined exactly on
   the heaps where branch k+1 is the last item of branch k's list; [refines] says: the method
   returns, the new heap is again represented, by the model function's result (same exception
   otherwise). *)
(* DepthCollector.__init__ AS TRANSLATED FROM THE SOURCE with the heap embedding: a fresh collector represents the model's initial state (caret depth 1, empty tree) *)
Theorem C01_source_init : forall (leaf_of : pv -> option par), forall h a cls fs c1 c2 fmt,
    h_get a h = Some (HObj cls fs) ->
    let file := VObj c1 [([99;111;110;116;101;120;116]%N,
                          VObj c2 [([120;109;108;50;104;116;109;108;95;102;111;114;109;97;116]%N, fmt)])] in
    exists h', S_H_init (VRef a) file h = HOk VNone h'
               /\ rep leaf_of h' (VRef a) = Some (core_of init_cst).
Proof. exact src_init. Qed.
Print Assumptions C01_source_init.

(* caret_depth = len(_rightmost_branches) is the model's caret depth *)
Theorem C01_source_caret_depth : forall (leaf_of : pv -> option par), forall h self k,
    rep leaf_of h self = Some k ->
    S_H_caret_depth self h = HOk (VInt (Z.of_nat (k_depth k))) h.
Proof. exact src_caret_depth. Qed.
Print Assumptions C01_source_caret_depth.

(* _drop_caret: appending a new list to the innermost branch and pushing THAT VERY LIST on the alias stack is the model's spine_app at the caret depth; CaretDepthError at paragraph depth - the alias stack stays the rightmost spine *)
Theorem C01_source_drop_caret : forall (leaf_of : pv -> option par), forall h self s,
    rep leaf_of h self = Some (core_of s) ->
    refines leaf_of (S_H_drop_caret self) self h (drop_caret s).
Proof. exact src_drop_caret. Qed.
Print Assumptions C01_source_drop_caret.

(* _raise_caret: dropping the last alias (the slice makes a new stack list) *)
Theorem C01_source_raise_caret : forall (leaf_of : pv -> option par), forall h self s,
    rep leaf_of h self = Some (core_of s) ->
    refines leaf_of (S_H_raise_caret self) self h (raise_caret s).
Proof. exact src_raise_caret. Qed.
Print Assumptions C01_source_raise_caret.

(* _set_in_lineage(index, value): slot index of the lineage register, nothing else (tuple slices + itertools.chain) *)
Theorem C01_source_set_in_lineage : forall (leaf_of : pv -> option par), forall h self s idx v l,
    rep leaf_of h self = Some (core_of s) -> (1 <= idx <= 4)%nat ->
    set_in_lineage idx v (c_lineage s) = Ok l ->
    exists h', S_H_set_in_lineage self (VInt (Z.of_nat idx)) (enc_ostr v) h = HOk VNone h'
               /\ rep leaf_of h' self = Some (core_of (set_lin l s)) /\ objs_kept h h'.
Proof. exact src_set_in_lineage. Qed.
Print Assumptions C01_source_set_in_lineage.

(* set_caret(depth, elem), the recursion of the source (one level per call), refines the model's set_caret for every represented state and every target depth 1..4 *)
Theorem C01_source_set_caret : forall (leaf_of : pv -> option par) h self s d name fuel,
  rep leaf_of h self = Some (core_of s) -> (c_depth s <= 4)%nat -> (8 <= fuel)%nat ->
  match d with Some n => (1 <= n <= 4)%nat | None => True end ->
  refines leaf_of (S_H_set_caret fuel self (enc_depth_arg d) (enc_elem name)) self h
          (set_caret d name s).
Proof. exact src_set_caret. Qed.
Print Assumptions C01_source_set_caret.

(* conclude_paragraph: pop the open paragraph, caret to paragraph depth, append the record to the innermost branch = the model's spine_app at depth 4: PARAGRAPHS ARE APPENDED ONLY AT DEPTH 4, through the alias *)
Theorem C01_source_conclude_paragraph : forall (leaf_of : pv -> option par) h self s fuel,
  rep leaf_of h self = Some (core_of s) -> (c_depth s <= 4)%nat -> (8 <= fuel)%nat ->
  refines leaf_of (S_H_conclude_paragraph fuel self) self h (conclude_paragraph s).
Proof. exact src_conclude_paragraph. Qed.
Print Assumptions C01_source_conclude_paragraph.

(* the caret never leaves 1..4 *)
Theorem C01_source_caret_depth_bounded : forall s d name s',
    (1 <= c_depth s <= 4)%nat -> match d with Some n => (1 <= n <= 4)%nat | None => True end ->
    set_caret d name s = Ok s' -> (1 <= c_depth s' <= 4)%nat.
Proof. exact caret_depth_bounded. Qed.
Print Assumptions C01_source_caret_depth_bounded.

(* a represented state always has a spine as deep as the caret: the alias stack IS the rightmost spine of the tree *)
Theorem C01_source_spine_ok : forall (leaf_of : pv -> option par), forall h self s x,
    rep leaf_of h self = Some (core_of s) ->
    exists t, spine_app (c_depth s) x (c_tree s) = Ok t.
Proof. exact src_spine_ok. Qed.
Print Assumptions C01_source_spine_ok.

