(* C01 — paragraphs sit at depth 4 in every view, for every document.
   Statements only; proofs in proofs/ShapeFacts.v. *)
From Coq Require Import List Arith.
From D2P Require Import Str Err Xml Merge Collector Walk ShapeFacts.
Import ListNotations.

(* for EVERY element tree (any nesting of paragraphs, tables, wrappers,
   unknown elements), every environment (html on/off, duplicate_merged_cells
   on/off, any relationships, any numbering table): if the collector finishes,
   its tree has lists at depths 1..3 and paragraph records exactly at depth 4 *)
Theorem C01_shape : forall v path t s,
  collect_from v path t = Ok s -> tree_ok (unrev_list (c_tree s)).
Proof. exact collect_unrev_shape. Qed.
Print Assumptions C01_shape.

(* the invariant behind it: the caret stays within 1..4 on the rightmost
   spine through every step of the walk *)
Theorem C01_walk_invariant : forall v t path s s',
  Inv s -> walk v path t s = Ok s' -> Inv s'.
Proof. exact walk_inv. Qed.
Print Assumptions C01_walk_invariant.

(* the walk never raises CaretDepthError *)
Theorem C01_no_caret_error : forall v path t,
  collect_from v path t <> Err CaretDepthError.
Proof. exact collect_no_caret_error. Qed.
Print Assumptions C01_no_caret_error.

(* element depths handed to the caret are always within 1..4 *)
Theorem C01_elem_depth_range : forall t d,
  elem_depth t = Some d -> (1 <= d <= 4)%nat.
Proof. exact elem_depth_range. Qed.
Print Assumptions C01_elem_depth_range.
