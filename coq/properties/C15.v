(* C15 — close() and with-blocks release the archive for every usage history (partial: OS descriptors are observed by the harness only).
   Statements only (copied from the lemma libraries); every proof is a bare
   `exact`; see the cited files in coq/proofs for the proofs. *)
From Coq Require Import List NArith ZArith Bool Arith Sorting.Sorted Sorting.Permutation.
From D2P Require Import Str Err Xml TableTypes Tables Package Content Save BulletsFacts SaveFacts Lifecycle LifeFacts.
Import ListNotations.

(* for EVERY history of reads, image saves, archive saves, close and with-exits: each operation returns the value, or raises ValueError, or (close/exit) returns nothing - never anything else *)
Theorem C15_history_outcomes :
  forall a o fs xs st' outs,
  run_ops a o fs l_init xs = (st', outs) ->
  Forall (fun out => out = OVal \/ out = OErr ValueError \/ out = ONone) outs.
Proof. exact history_outcomes. Qed.
Print Assumptions C15_history_outcomes.

(* before closing every read returns the value *)
Theorem C15_before_close :
  forall a o fs st at_ st' out,
  l_closed st = false -> step a o fs st (OpRead at_) = (st', out) -> out = OVal.
Proof. exact open_read_returns. Qed.
Print Assumptions C15_before_close.

(* so does save *)
Theorem C15_save_before_close :
  forall a o fs st st' out,
  l_closed st = false -> step a o fs st OpSave = (st', out) -> out = OVal.
Proof. exact open_save_returns. Qed.
Print Assumptions C15_save_before_close.

(* after closing: the value or ValueError *)
Theorem C15_after_close :
  forall a o fs st x st' out,
  l_closed st = true -> step a o fs st x = (st', out) ->
  out = OVal \/ out = OErr ValueError \/ out = ONone.
Proof. exact closed_read_outcome. Qed.
Print Assumptions C15_after_close.

(* once closed, the archive is never reopened, whatever follows *)
Theorem C15_never_reopened :
  forall a o fs xs st st' outs,
  ok_state st -> l_closed st = true -> run_ops a o fs st xs = (st', outs) ->
  l_zip st' <> ZOpen /\ l_closed st' = true.
Proof. exact never_reopened. Qed.
Print Assumptions C15_never_reopened.

(* invariant behind it: closed implies the handle is not open *)
Theorem C15_invariant :
  forall a o fs xs st st' outs,
  ok_state st -> run_ops a o fs st xs = (st', outs) -> ok_state st'.
Proof. exact run_ok. Qed.
Print Assumptions C15_invariant.

(* closing again is harmless *)
Theorem C15_close_idempotent :
  forall st, close (close st) = close st.
Proof. exact close_idempotent. Qed.
Print Assumptions C15_close_idempotent.

(* leaving a with block (normally or by an exception) is close() *)
Theorem C15_exit_is_close :
  forall a o fs st b,
  step a o fs st (OpExit b) = step a o fs st OpClose.
Proof. exact exit_is_close. Qed.
Print Assumptions C15_exit_is_close.

(* and returns nothing truthy, so an exception propagates *)
Theorem C15_close_returns_nothing :
  forall a o fs st, snd (step a o fs st OpClose) = ONone.
Proof. exact close_outcome. Qed.
Print Assumptions C15_close_returns_nothing.

(* a read after close succeeds exactly when everything it needs from the archive is cached ... *)
Theorem C15_cached_reads_after_close :
  forall a o fs st at_,
  l_closed st = true ->
  (forall r, In r (attr_demands a o fs at_) -> needs_zip r = true -> cached r (l_cache st) = true) ->
  direct_zip fs at_ = false ->
  snd (step a o fs st (OpRead at_)) = OVal.
Proof. exact read_after_close_cached. Qed.
Print Assumptions C15_cached_reads_after_close.

(* ... and raises otherwise *)
Theorem C15_uncached_reads_after_close :
  forall a o fs st at_,
  l_closed st = true ->
  snd (step a o fs st (OpRead at_)) = OVal ->
  forall r, In r (attr_demands a o fs at_) -> needs_zip r = true -> cached r (l_cache st) = true.
Proof. exact read_after_close_needs. Qed.
Print Assumptions C15_uncached_reads_after_close.

(* caches are per File object (one per relationship), not per path - machine-checked example: a header part related twice; save, close, read header: ValueError (save parsed only the last File of that path); read header, save, close, read header: the value *)
Theorem C15_caches_are_per_file_object :
  exists fs,
    files sp_archive = Ok fs
    /\ map fst (filter (fun x => str_eqb (f_path (snd x)) sp_header_path) (indexed fs)) = [2; 3]%nat
    /\ map fst (ifiles_of_type fs s_header) = [2; 3]%nat
    /\ map fst (save_files fs) = [0; 1; 3; 4]%nat
    /\ snd (run_ops sp_archive sp_opts fs l_init [OpSave; OpClose; OpRead (ARuns s_header)])
       = [OVal; ONone; OErr ValueError]
    /\ snd (run_ops sp_archive sp_opts fs l_init
              [OpRead (ARuns s_header); OpSave; OpClose; OpRead (ARuns s_header)])
       = [OVal; OVal; ONone; OVal].
Proof. exact shared_part_save_then_closed_read. Qed.
Print Assumptions C15_caches_are_per_file_object.

(* which Files save() parses: the last one of each distinct path among the rewritten types *)
Theorem C15_save_reads_last_file_of_each_path :
  forall fs i f,
  In (i, f) (save_files fs) ->
  nth_error fs i = Some f /\ is_overwritten f = true
  /\ forall j g, nth_error fs j = Some g -> is_overwritten g = true ->
                 f_path g = f_path f -> (j <= i)%nat.
Proof. exact save_files_last. Qed.
Print Assumptions C15_save_reads_last_file_of_each_path.
