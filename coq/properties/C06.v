(* C06 — arbitrary run and link splitting by the authoring tool is invisible.
   Statements only (copied from the lemma libraries); every proof is a bare
   `exact`; see the cited files in coq/proofs for the proofs. *)
From Coq Require Import List NArith ZArith Bool Arith Sorting.Sorted Sorting.Permutation.
From D2P Require Import Str Err Xml TableTypes Tables Fmt Merge MergeFacts TablesFacts Walk Collector.
Import ListNotations.

(* the element tree exposed for editing carries the same characters and content marks, in the same order, as the original part (under: text elements have no content children, one prefix per namespace) *)
Theorem C06_atoms_preserved_partial :
  forall pt v t t',
  wf_ptag pt t = true -> wf_text t = true ->
  merge_elems v t = Ok t' -> atoms t' = atoms t.
Proof. exact merge_atoms_partial. Qed.
Print Assumptions C06_atoms_preserved_partial.

(* one level: fusing equal-key siblings (runs with equal recognised formatting, links with one target, adjacent text nodes) with non-content siblings in between keeps the atoms *)
Theorem C06_sibling_merge_atoms_partial :
  forall pt v ks ks',
  Forall (fun k => wf_ptag pt k = true) ks ->
  Forall (fun k => wf_text k = true) ks ->
  merge_sibs v ks = Ok ks' -> concat (map atoms ks') = concat (map atoms ks).
Proof. exact merge_sibs_atoms_partial. Qed.
Print Assumptions C06_sibling_merge_atoms_partial.

(* merging is idempotent: a merged tree is a fixed point (under: no empty relationship target, one prefix per namespace, property elements hold no content) *)
Theorem C06_idempotent_partial :
  forall pt v t t',
  rels_ok v -> wf_ptag pt t = true -> wf_pr t = true ->
  merge_elems v t = Ok t' -> merge_elems v t' = Ok t'.
Proof. exact merge_idempotent_partial. Qed.
Print Assumptions C06_idempotent_partial.

(* each hypothesis is necessary: an empty relationship Target makes an r:id-carrying element share a key with an unformatted one *)
Theorem C06_idempotent_refuted_empty_target :
  exists v t t',
    wf_text t = true /\ wf_ptag (cx_pt [119]) t = true /\ wf_pr t = true /\
    merge_elems v t = Ok t' /\ merge_elems v t' <> Ok t'.
Proof. exact merge_idempotent_counterexample. Qed.
Print Assumptions C06_idempotent_refuted_empty_target.

(* merging never turns content into non-content or back *)
Theorem C06_content_flag_preserved :
  forall v t t',
  merge_elems v t = Ok t' -> has_content t' = has_content t.
Proof. exact merge_has_content. Qed.
Print Assumptions C06_content_flag_preserved.

(* the root element, its tag, attributes and text are untouched *)
Theorem C06_root_untouched :
  forall v e ks t',
  merge_elems v (AE e ks) = Ok t' -> exists ks', t' = AE e ks'.
Proof. exact merge_root_tag. Qed.
Print Assumptions C06_root_untouched.

(* the fuel of the model's recursion is never exhausted *)
Theorem C06_merge_total :
  forall v t, merge_elems v t <> Err ModelError.
Proof. exact merge_fuel_enough. Qed.
Print Assumptions C06_merge_total.

(* merged trees still have simple-content text elements *)
Theorem C06_wf_preserved_partial :
  forall pt v t t',
  wf_ptag pt t = true -> wf_text t = true ->
  merge_elems v t = Ok t' -> wf_text t' = true /\ wf_ptag pt t' = true.
Proof. exact merge_wf_partial. Qed.
Print Assumptions C06_wf_preserved_partial.

(* tie to the source: _MERGEABLE_TAGS, as it is in /repo today, is exactly run, hyperlink, text, math text *)
Theorem C06_only_runs_links_text_merge :
  sort_strs mergeable_tags = sort_strs [tag_RUN; tag_HYPERLINK; tag_TEXT; tag_TEXT_MATH].
Proof. exact mergeable_is_run_link_text. Qed.
Print Assumptions C06_only_runs_links_text_merge.

(* paragraphs, tables, rows and cells are never fused *)
Theorem C06_blocks_never_merge :
  mem_str tag_PARAGRAPH mergeable_tags = false /\ mem_str tag_TABLE mergeable_tags = false
  /\ mem_str tag_TABLE_ROW mergeable_tags = false /\ mem_str tag_TABLE_CELL mergeable_tags = false.
Proof. exact blocks_are_never_merged. Qed.
Print Assumptions C06_blocks_never_merge.

(* rPr / pPr / sdtPr are not content, so they never separate two pieces of one run *)
Theorem C06_properties_not_content :
  mem_str tag_RUN_PROPERTIES content_tags = false /\ mem_str tag_PAR_PROPERTIES content_tags = false
  /\ mem_str tag_SDT_PROPERTIES content_tags = false.
Proof. exact properties_are_not_content. Qed.
Print Assumptions C06_properties_not_content.
