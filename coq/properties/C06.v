(* C06 — arbitrary run and link splitting by the authoring tool is invisible.
   Statements only (copied from the lemma libraries); every proof is a bare
   `exact`; see the cited files in coq/proofs for the proofs. *)
From Coq Require Import List NArith ZArith Bool Arith Sorting.Sorted Sorting.Permutation.
From D2P Require Import Str Err Xml TableTypes Tables Fmt Bullets Merge Collector Walk ShapeFacts TokFacts FrameFacts BulletsFacts MergeFacts TablesFacts SerialFacts GridFacts TriviaFacts SplitFacts PyVal Source SourceBase SourceMerge.
Import ListNotations.

(* the element tree exposed for editing carries the same characters and content marks, in the same order, as the original part (under: text elements have no content children, one prefix per namespace) *)
Theorem C06_atoms_preserved_partial :
  forall pt v t t',
  wf_ptag pt t = true -> wf_text t = true ->
  merge_elems v t = Ok t' -> atoms t' = atoms t.
Proof. exact merge_atoms_partial. Qed.
Print Assumptions C06_atoms_preserved_partial.

(* one level: fusing equal-key siblings (runs with equal recognised formatting, links with one target, adjacent text nodes) with non-content siblings in between keeps the atoms *)
Theorem C06_sibling_merge_atoms_partial :
  forall pt v ks ks',
  Forall (fun k => wf_ptag pt k = true) ks ->
  Forall (fun k => wf_text k = true) ks ->
  merge_sibs v ks = Ok ks' -> concat (map atoms ks') = concat (map atoms ks).
Proof. exact merge_sibs_atoms_partial. Qed.
Print Assumptions C06_sibling_merge_atoms_partial.

(* merging is idempotent: a merged tree is a fixed point (under: no empty relationship target, one prefix per namespace, property elements hold no content) *)
Theorem C06_idempotent_partial :
  forall pt v t t',
  rels_ok v -> wf_ptag pt t = true -> wf_pr t = true ->
  merge_elems v t = Ok t' -> merge_elems v t' = Ok t'.
Proof. exact merge_idempotent_partial. Qed.
Print Assumptions C06_idempotent_partial.

(* each hypothesis is necessary: an empty relationship Target makes an r:id-carrying element share a key with an unformatted one *)
Theorem C06_idempotent_refuted_empty_target :
  exists v t t',
    wf_text t = true /\ wf_ptag (cx_pt [119]) t = true /\ wf_pr t = true /\
    merge_elems v t = Ok t' /\ merge_elems v t' <> Ok t'.
Proof. exact merge_idempotent_counterexample. Qed.
Print Assumptions C06_idempotent_refuted_empty_target.

(* merging never turns content into non-content or back *)
Theorem C06_content_flag_preserved :
  forall v t t',
  merge_elems v t = Ok t' -> has_content t' = has_content t.
Proof. exact merge_has_content. Qed.
Print Assumptions C06_content_flag_preserved.

(* the root element, its tag, attributes and text are untouched *)
Theorem C06_root_untouched :
  forall v e ks t',
  merge_elems v (AE e ks) = Ok t' -> exists ks', t' = AE e ks'.
Proof. exact merge_root_tag. Qed.
Print Assumptions C06_root_untouched.

(* the fuel of the model's recursion is never exhausted *)
Theorem C06_merge_total :
  forall v t, merge_elems v t <> Err ModelError.
Proof. exact merge_fuel_enough. Qed.
Print Assumptions C06_merge_total.

(* merged trees still have simple-content text elements *)
Theorem C06_wf_preserved_partial :
  forall pt v t t',
  wf_ptag pt t = true -> wf_text t = true ->
  merge_elems v t = Ok t' -> wf_text t' = true /\ wf_ptag pt t' = true.
Proof. exact merge_wf_partial. Qed.
Print Assumptions C06_wf_preserved_partial.

(* tie to the source: _MERGEABLE_TAGS, as it is in /repo today, is exactly run, hyperlink, text, math text *)
Theorem C06_only_runs_links_text_merge :
  sort_strs mergeable_tags = sort_strs [tag_RUN; tag_HYPERLINK; tag_TEXT; tag_TEXT_MATH].
Proof. exact mergeable_is_run_link_text. Qed.
Print Assumptions C06_only_runs_links_text_merge.

(* paragraphs, tables, rows and cells are never fused *)
Theorem C06_blocks_never_merge :
  mem_str tag_PARAGRAPH mergeable_tags = false /\ mem_str tag_TABLE mergeable_tags = false
  /\ mem_str tag_TABLE_ROW mergeable_tags = false /\ mem_str tag_TABLE_CELL mergeable_tags = false.
Proof. exact blocks_are_never_merged. Qed.
Print Assumptions C06_blocks_never_merge.

(* rPr / pPr / sdtPr are not content, so they never separate two pieces of one run *)
Theorem C06_properties_not_content :
  mem_str tag_RUN_PROPERTIES content_tags = false /\ mem_str tag_PAR_PROPERTIES content_tags = false
  /\ mem_str tag_SDT_PROPERTIES content_tags = false.
Proof. exact properties_are_not_content. Qed.
Print Assumptions C06_properties_not_content.

(* THE HEADLINE, at the level of the EXTRACTION (merge, then walk): a paragraph in which one run is cut into two runs with the same recognised formatting (other attributes, e.g. revision ids, and unrecognised properties free), with non-content markup (proofing marks, bookmarks) between them, extracts identically - same run strings (one run string for the whole stretch), style, lineage, list position - as the uncut paragraph *)
Theorem C06_split_run_invisible :
  forall pt v, rels_ok v ->
  forall ep A B e e1 e2 pr pr1 pr2 k1 k2 mid f,
  simple_par (AE ep (A ++ AE e (pr :: k1 ++ k2) :: B)) = true ->
  ppr_ok ep (A ++ B) = true -> not_ppr ep (AE e []) = true -> forallb (not_ppr ep) mid = true ->
  run_plain v e = true -> run_plain v e1 = true -> run_plain v e2 = true ->
  e_uri e1 = e_uri e -> e_local e1 = e_local e -> e_uri e2 = e_uri e -> e_local e2 = e_local e ->
  is_pr_of e pr = true -> is_pr_of e1 pr1 = true -> is_pr_of e2 pr2 = true ->
  junkb pr = true -> junkb pr1 = true -> junkb pr2 = true ->
  get_run_formatting e [pr] (env_x2h v) = Ok f ->
  get_run_formatting e1 [pr1] (env_x2h v) = Ok f ->
  get_run_formatting e2 [pr2] (env_x2h v) = Ok f ->
  forallb junkb mid = true ->
  wf_ptag pt (AE ep (A ++ AE e1 (pr1 :: k1) :: mid ++ AE e2 (pr2 :: k2) :: B)) = true ->
  wf_pr (AE ep (A ++ AE e1 (pr1 :: k1) :: mid ++ AE e2 (pr2 :: k2) :: B)) = true ->
  wf_ptag pt (AE ep (A ++ AE e (pr :: k1 ++ k2) :: B)) = true ->
  wf_pr (AE ep (A ++ AE e (pr :: k1 ++ k2) :: B)) = true ->
  fr (extract v (AE ep (A ++ AE e1 (pr1 :: k1) :: mid ++ AE e2 (pr2 :: k2) :: B)))
  = fr (extract v (AE ep (A ++ AE e (pr :: k1 ++ k2) :: B)))
  /\ (s <- extract v (AE ep (A ++ AE e1 (pr1 :: k1) :: mid ++ AE e2 (pr2 :: k2) :: B)) ;;
      tree_par_toks (c_tree s))
     = (s <- extract v (AE ep (A ++ AE e (pr :: k1 ++ k2) :: B)) ;; tree_par_toks (c_tree s)).
Proof. exact split_run_invisible_simple_par. Qed.
Print Assumptions C06_split_run_invisible.

(* with html off every run property is unrecognised: any two runs may be the pieces *)
Theorem C06_split_run_invisible_html_off :
  forall pt v, rels_ok v -> env_x2h v = [] ->
  forall ep A B e e1 e2 pr pr1 pr2 k1 k2 mid d d1 d2,
  kids_tag (e_ptag ep) = true ->
  ppr_ok ep (A ++ B) = true -> not_ppr ep (AE e []) = true -> forallb (not_ppr ep) mid = true ->
  run_plain v e = true -> run_plain v e1 = true -> run_plain v e2 = true ->
  e_uri e1 = e_uri e -> e_local e1 = e_local e -> e_uri e2 = e_uri e -> e_local e2 = e_local e ->
  is_pr_of e pr = true -> is_pr_of e1 pr1 = true -> is_pr_of e2 pr2 = true ->
  junkb pr = true -> junkb pr1 = true -> junkb pr2 = true ->
  gather_Pr e [pr] = Ok d -> gather_Pr e1 [pr1] = Ok d1 -> gather_Pr e2 [pr2] = Ok d2 ->
  forallb junkb mid = true ->
  wf_ptag pt (AE ep (A ++ AE e1 (pr1 :: k1) :: mid ++ AE e2 (pr2 :: k2) :: B)) = true ->
  wf_pr (AE ep (A ++ AE e1 (pr1 :: k1) :: mid ++ AE e2 (pr2 :: k2) :: B)) = true ->
  wf_ptag pt (AE ep (A ++ AE e (pr :: k1 ++ k2) :: B)) = true ->
  wf_pr (AE ep (A ++ AE e (pr :: k1 ++ k2) :: B)) = true ->
  fr (extract v (AE ep (A ++ AE e1 (pr1 :: k1) :: mid ++ AE e2 (pr2 :: k2) :: B)))
  = fr (extract v (AE ep (A ++ AE e (pr :: k1 ++ k2) :: B))).
Proof. exact split_run_invisible_html_off. Qed.
Print Assumptions C06_split_run_invisible_html_off.

(* GENERAL FORM: any number of run or hyperlink splits, text-node fusions, inserted inert siblings and run-element replacements with equal recognised formatting, anywhere below runs, paragraphs, cells (relation msim): the extraction is the same *)
Theorem C06_split_anywhere_invisible :
  forall pt v t t',
  rels_ok v -> msim v t t' ->
  wf_ptag pt t = true -> wf_pr t = true -> wf_ptag pt t' = true -> wf_pr t' = true ->
  fr (extract v t) = fr (extract v t').
Proof. exact split_anywhere_invisible. Qed.
Print Assumptions C06_split_anywhere_invisible.

(* a hyperlink cut into consecutive hyperlinks with the same target *)
Theorem C06_split_link_invisible :
  forall pt v, rels_ok v ->
  forall ep A B h h2 c1 c2 mid K,
  kids_tag (e_ptag ep) = true -> ppr_ok ep (A ++ B) = true ->
  not_ppr ep (AE h []) = true -> forallb (not_ppr ep) mid = true ->
  e_ptag h = tag_HYPERLINK -> e_ptag h2 = tag_HYPERLINK ->
  elem_key v h [] = Ok K -> elem_key v h2 [] = Ok K ->
  forallb junkb mid = true ->
  wf_ptag pt (AE ep (A ++ AE h c1 :: mid ++ AE h2 c2 :: B)) = true ->
  wf_pr (AE ep (A ++ AE h c1 :: mid ++ AE h2 c2 :: B)) = true ->
  wf_ptag pt (AE ep (A ++ AE h (c1 ++ c2) :: B)) = true ->
  wf_pr (AE ep (A ++ AE h (c1 ++ c2) :: B)) = true ->
  fr (extract v (AE ep (A ++ AE h c1 :: mid ++ AE h2 c2 :: B)))
  = fr (extract v (AE ep (A ++ AE h (c1 ++ c2) :: B))).
Proof. exact split_link_invisible. Qed.
Print Assumptions C06_split_link_invisible.

(* adjacent text nodes and the fused node extract alike *)
Theorem C06_text_fusion_invisible :
  forall pt v, rels_ok v ->
  forall ep A B e a b t1 d1 t2 d2 mid K,
  kids_tag (e_ptag ep) = true -> ppr_ok ep (A ++ B) = true -> not_ppr ep (AE e []) = true ->
  run_plain v e = true ->
  (pr_child e a <> None \/
   (is_pr_of e (AE t1 []) = false /\ forallb (fun k => negb (is_pr_of e k)) mid = true)) ->
  is_text_like t1 = true -> has_content (AE t2 d2) = true ->
  elem_key v t1 d1 = Ok K -> elem_key v t2 d2 = Ok K ->
  forallb junkb mid = true ->
  wf_ptag pt (AE ep (A ++ AE e (a ++ AE t1 d1 :: mid ++ AE t2 d2 :: b) :: B)) = true ->
  wf_pr (AE ep (A ++ AE e (a ++ AE t1 d1 :: mid ++ AE t2 d2 :: b) :: B)) = true ->
  wf_ptag pt (AE ep (A ++ AE e (a ++ AE (fused t1 t2) (d1 ++ d2) :: b) :: B)) = true ->
  wf_pr (AE ep (A ++ AE e (a ++ AE (fused t1 t2) (d1 ++ d2) :: b) :: B)) = true ->
  fr (extract v (AE ep (A ++ AE e (a ++ AE t1 d1 :: mid ++ AE t2 d2 :: b) :: B)))
  = fr (extract v (AE ep (A ++ AE e (a ++ AE (fused t1 t2) (d1 ++ d2) :: b) :: B))).
Proof. exact text_fuse_invisible. Qed.
Print Assumptions C06_text_fusion_invisible.

(* what merging does to two equal-key runs with non-content siblings between them, inside any sibling list: one run with the children of both; the siblings in between follow it *)
Theorem C06_merge_two_runs :
  forall v pre e1 k1 mid e2 k2 post key,
  is_mergeable e1 = true -> is_text_like e1 = false ->
  has_content (AE e2 k2) = true ->
  elem_key v e1 k1 = Ok key -> elem_key v e2 k2 = Ok key ->
  elem_key v e1 (k1 ++ k2) = Ok key ->
  Forall (fun k => has_content k = false) mid ->
  no_text_clash pre e1 ->
  merge_sibs v (pre ++ AE e1 k1 :: mid ++ AE e2 k2 :: post)
  = merge_sibs v (pre ++ AE e1 (k1 ++ k2) :: mid ++ post).
Proof. exact merge_two_runs. Qed.
Print Assumptions C06_merge_two_runs.

(* the second run's w:rPr, carried into the merged run, and any other inert child, do not change what walking the run does *)
Theorem C06_extra_properties_invisible :
  forall v e a x b path path' s s',
  e_ptag e = tag_RUN -> inert x = true ->
  (pr_child e a <> None \/ is_elem_named (e_uri e) (e_local e ++ s_Pr) x = false) ->
  forget_elem_st s = forget_elem_st s' ->
  fr (walk v path (AE e (a ++ x :: b)) s) = fr (walk v path' (AE e (a ++ b)) s').
Proof. exact extra_rPr_invisible. Qed.
Print Assumptions C06_extra_properties_invisible.

(* machine-checked example: {{name}} broken as {{ , na , me}} over three runs with proofErr between and differing rsid: ONE run string, html off *)
Theorem C06_placeholder_example_plain :
  fr (extract sx_plain (ex_split3 false)) = fr (extract sx_plain (ex_unsplit false))
  /\ run_strings sx_plain (ex_split3 false) = Ok [[s_name]]
  /\ run_strings sx_plain (ex_unsplit false) = Ok [[s_name]].
Proof. exact split3_computed_plain. Qed.
Print Assumptions C06_placeholder_example_plain.

(* and html on with a bold run: <b>{{name}}</b> *)
Theorem C06_placeholder_example_html :
  fr (extract sx_html (ex_split3 true)) = fr (extract sx_html (ex_unsplit true))
  /\ run_strings sx_html (ex_split3 true) = Ok [[[60; 98; 62] ++ s_name ++ [60; 47; 98; 62]]]
  /\ run_strings sx_html (ex_unsplit true) = Ok [[[60; 98; 62] ++ s_name ++ [60; 47; 98; 62]]].
Proof. exact split3_computed_html. Qed.
Print Assumptions C06_placeholder_example_html.

(* the clause 'the run carries no resolving r:id' of the general form is needed (runs keyed by target) *)
Theorem C06_rid_run_refuted :
  exists v ep e ks ks' rest,
    e_ptag e = tag_RUN /\ tgt_of v e <> None /\
    get_run_formatting e ks (env_x2h v) = get_run_formatting e ks' (env_x2h v) /\
    lsim junk eq ks ks' /\
    fr (extract v (AE ep (AE e ks :: rest))) <> fr (extract v (AE ep (AE e ks' :: rest))).
Proof. exact rid_run_counterexample. Qed.
Print Assumptions C06_rid_run_refuted.

(* SOURCE TIE: the _MERGEABLE_TAGS set as read by the source translator is the model's (table translator's) list *)
Theorem C06_source_mergeable_tags :
  S__MERGEABLE_TAGS = map VStr mergeable_tags.
Proof. exact src_mergeable_tags. Qed.
Print Assumptions C06_source_mergeable_tags.

(* SOURCE TIE: merge_runs._is_mergeable as translated from the source text decides exactly the model's is_mergeable *)
Theorem C06_source_is_mergeable :
  forall e ks, tag_is_no_ptag e ->
  S__is_mergeable (enc_el (AE e ks)) = Ok (VBool (is_mergeable e)).
Proof. exact src_is_mergeable. Qed.
Print Assumptions C06_source_is_mergeable.

(* SOURCE TIE: merge_runs._is_text_or_text_math as translated from the source text is the model's is_text_like *)
Theorem C06_source_is_text_or_text_math :
  forall e ks, tag_is_no_ptag e ->
  S__is_text_or_text_math (enc_el (AE e ks)) = Ok (VBool (is_text_like e)).
Proof. exact src_is_text_or_text_math. Qed.
Print Assumptions C06_source_is_text_or_text_math.

(* SOURCE TIE: merge_runs._elem_key as translated from the source text computes the model's merge key (tag, link target, formatting) for every element and relationship table; get_html_formatting is a parameter assumed to agree with the model's (tied by correspondence) *)
Theorem C06_source_elem_key :
  forall (ext : pv -> pv -> res pv) v e ks fmt,
  tag_is_no_ptag e -> e_ruri e <> Some [] -> rid_name_unambiguous e ->
  ext (enc_el (AE e ks)) fmt = lift_strs (get_html_formatting e ks (env_x2h v)) ->
  S__elem_key ext (enc_file v fmt) (enc_el (AE e ks)) = lift_key (elem_key v e ks).
Proof. exact src_elem_key. Qed.
Print Assumptions C06_source_elem_key.
