(* driver.ml — one JSON case per input line, one JSON observation per output
   line.  All logic (parsing, model, printing) is extracted Gallina; this file
   only converts between OCaml chars and the extracted N. *)
let rec pos_of_int (i : int) : D2p.positive =
  if i = 1 then D2p.XH
  else if i land 1 = 0 then D2p.XO (pos_of_int (i lsr 1))
  else D2p.XI (pos_of_int (i lsr 1))
let n_of_int i = if i = 0 then D2p.N0 else D2p.Npos (pos_of_int i)
let rec int_of_pos = function
  | D2p.XH -> 1
  | D2p.XO p -> 2 * int_of_pos p
  | D2p.XI p -> 2 * int_of_pos p + 1
let int_of_n = function D2p.N0 -> 0 | D2p.Npos p -> int_of_pos p

let () =
  let buf = Buffer.create 65536 in
  (try
     while true do
       let line = input_line stdin in
       let n = String.length line in
       let rec build i acc =
         if i < 0 then acc else build (i - 1) (n_of_int (Char.code line.[i]) :: acc) in
       let out = D2p.run_line (build (n - 1) []) in
       Buffer.clear buf;
       Stdlib.List.iter (fun c -> Buffer.add_char buf (Char.chr (int_of_n c))) out;
       print_string (Buffer.contents buf);
       print_newline ()
     done
   with End_of_file -> ())
