(* Extraction of the model's entry point.  Directives: those of
   ExtrOcamlBasic only (bool, option, unit, list, prod, sumbool, sumor as
   OCaml types; andb/orb inlined).  N, positive, Z, nat stay inductive. *)
Require Extraction.
Require Import ExtrOcamlBasic.
From D2P Require Import Driver.
Extraction "d2p.ml" run_line.
