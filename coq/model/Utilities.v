(* Utilities.v — utilities.get_links and utilities.get_headings, with the two
   regular expressions re-implemented on code-point strings *)
From Coq Require Import List NArith ZArith Bool Arith.
From D2P Require Import Str Err Xml TableTypes Tables Fmt Bullets Merge Collector Walk Iter
     Output Paths Package Content.
Import ListNotations.
Open Scope N_scope.

(* ---------- re.match(link_pattern, run): the pattern is
   <a href=Q(?P<href>[^Q]+)Q>(?P<text>[^<]+)</a>   with Q the double quote ---------- *)
(* the longest prefix of characters different from c, and what follows it
   (a greedy negated character class never needs to give characters back:
   what must follow it starts with the excluded character) *)
Fixpoint span_not (c : N) (s : str) : str * str :=
  match s with
  | [] => ([], [])
  | x :: r => if x =? c then ([], s)
              else let '(a, b) := span_not c r in (x :: a, b)
  end.

Fixpoint strip_prefix (p s : str) : option str :=
  match p, s with
  | [], _ => Some s
  | x :: p', y :: s' => if x =? y then strip_prefix p' s' else None
  | _ :: _, [] => None
  end.

Definition s_a_open : str := [60; 97; 32; 104; 114; 101; 102; 61; 34].   (* <a href=Q *)
Definition s_quote_gt : str := [34; 62].                                   (* Q> *)
Definition s_a_close : str := [60; 47; 97; 62].                            (* </a> *)

Definition link_match (run : str) : option (str * str) :=
  match strip_prefix s_a_open run with
  | None => None
  | Some r1 =>
      let '(href, r2) := span_not 34 r1 in
      match href, strip_prefix s_quote_gt r2 with
      | _ :: _, Some r3 =>
          let '(txt, r4) := span_not 60 r3 in
          match txt, strip_prefix s_a_close r4 with
          | _ :: _, Some _ => Some (href, txt)
          | _, _ => None
          end
      | _, _ => None
      end
  end.

(* ---------- re.match(heading_pattern, style): the pattern is  Heading\d ---------- *)
(* \d on str patterns = Unicode category Nd (CPython 3.12, Unicode 15.0): the
   ranges below; compared with the `re` module over all code points on every run *)
Definition nd_ranges : list (N * N) :=
  [(48, 57); (1632, 1641); (1776, 1785); (1984, 1993); (2406, 2415); (2534, 2543); (2662, 2671);
   (2790, 2799); (2918, 2927); (3046, 3055); (3174, 3183); (3302, 3311); (3430, 3439); (3558, 3567);
   (3664, 3673); (3792, 3801); (3872, 3881); (4160, 4169); (4240, 4249); (6112, 6121); (6160, 6169);
   (6470, 6479); (6608, 6617); (6784, 6793); (6800, 6809); (6992, 7001); (7088, 7097); (7232, 7241);
   (7248, 7257); (42528, 42537); (43216, 43225); (43264, 43273); (43472, 43481); (43504, 43513);
   (43600, 43609); (44016, 44025); (65296, 65305); (66720, 66729); (68912, 68921); (69734, 69743);
   (69872, 69881); (69942, 69951); (70096, 70105); (70384, 70393); (70736, 70745); (70864, 70873);
   (71248, 71257); (71360, 71369); (71472, 71481); (71904, 71913); (72016, 72025); (72784, 72793);
   (73040, 73049); (73120, 73129); (73552, 73561); (92768, 92777); (92864, 92873); (93008, 93017);
   (120782, 120831); (123200, 123209); (123632, 123641); (124144, 124153); (125264, 125273);
   (130032, 130041)].
Definition is_unicode_digit (c : N) : bool :=
  existsb (fun ab => (fst ab <=? c) && (c <=? snd ab)) nd_ranges.

Definition s_Heading : str := [72; 101; 97; 100; 105; 110; 103].
Definition heading_match (style : str) : bool :=
  match strip_prefix s_Heading style with
  | Some (d :: _) => is_unicode_digit d
  | _ => false
  end.

(* ---------- the two helpers ---------- *)
(* get_links(path): docx2python(path) with the default options (html off,
   duplicate_merged_cells on); every run string of document_runs that matches *)
Definition default_opts : opts := {| o_html := false; o_dup := true |}.

Fixpoint filter_map {A B} (f : A -> option B) (l : list A) : list B :=
  match l with
  | [] => []
  | x :: r => match f x with Some y => y :: filter_map f r | None => filter_map f r end
  end.

Definition get_links (a : archive) : res (list (str * str)) :=
  runs <- document_runs a default_opts ;;
  items <- iter_at_depth runs 5%nat ;;
  ss <- mapM leaf_str items ;;
  Ok (filter_map link_match ss).

(* get_headings(path): html on; the run strings of every paragraph record of
   document_pars whose style matches *)
Definition get_headings (a : archive) : res (list (list str)) :=
  pars <- document_pars a {| o_html := true; o_dup := true |} ;;
  items <- iter_at_depth pars 4%nat ;;
  foldM (fun acc it =>
           match it with
           | RA p => if heading_match (p_style p)
                     then rs <- par_run_strings true p ;; Ok (acc ++ [rs])
                     else Ok acc
           | RL _ => Err AttributeError          (* list has no attribute style *)
           end) items [].
