(* NumFmt.v — numbering_formats.py *)
From Coq Require Import List NArith ZArith Bool.
From D2P Require Import Str Err TableTypes Tables.
Import ListNotations.
Open Scope N_scope.

(* lower_letter: bijective base 26.  fuel = number of binary digits of n
   (each step divides by 26 > 2); the out-of-fuel branch is proved
   unreachable in proofs/NumFmtFacts.v *)
Fixpoint letters_go (fuel : nat) (n : N) (acc : str) : option str :=
  if n =? 0 then Some acc else
  match fuel with
  | O => None
  | S f => letters_go f ((n - 1) / 26) ((97 + (n - 1) mod 26) :: acc)
  end.

Definition lower_letter (z : Z) : res str :=
  match z with
  | Zpos p => of_opt ModelError (letters_go (S (N.size_nat (Npos p))) (Npos p) [])
  | _ => Err ValueError
  end.
Definition upper_letter (z : Z) : res str := s <- lower_letter z ;; Ok (upper s).

Definition chr_i : N := 105.
Definition lower_roman (z : Z) : res str :=
  match z with
  | Zpos p =>
      Ok (fold_left (fun s pr => replace (fst pr) (snd pr) s) roman_subs
                    (repeat chr_i (Pos.to_nat p)))
  | _ => Err ValueError
  end.
Definition upper_roman (z : Z) : res str := s <- lower_roman z ;; Ok (upper s).

Definition decimal (z : Z) : res str := Ok (str_of_Z z).
Definition bullet_str : str := [45; 45].
Definition bullet (_ : Z) : res str := Ok bullet_str.

Definition apply_numfn (f : numfn) (z : Z) : res str :=
  match f with
  | NFDecimal => decimal z
  | NFLowerLetter => lower_letter z
  | NFUpperLetter => upper_letter z
  | NFLowerRoman => lower_roman z
  | NFUpperRoman => upper_roman z
  | NFBullet => bullet z
  end.
