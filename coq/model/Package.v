(* Package.v — docx_context.collect_rels / collect_numAttrs / collect_docProps,
   docx_reader.File and DocxReader (pure part), docx_output.DocxContent *)
From Coq Require Import List NArith ZArith Bool Arith.
From D2P Require Import Str Err Xml TableTypes Tables Fmt Bullets Merge Collector Walk Iter
     Output Paths.
Import ListNotations.
Open Scope N_scope.

(* an archive: member names in zip order with parsed XML or an opaque payload *)
Inductive member := MXml (r : rnode) | MRaw (id : N).
Definition archive := list (str * member).

(* zipf.read(name): the last member of that name; KeyError when absent *)
Fixpoint zread (a : archive) (name : str) : option member :=
  match a with
  | [] => None
  | (n, m) :: r =>
      match zread r name with
      | Some m' => Some m'
      | None => if str_eqb n name then Some m else None
      end
  end.

Definition member_xml (a : archive) (name : str) : res rnode :=
  match zread a name with
  | None => Err KeyError
  | Some (MXml r) => Ok r
  | Some (MRaw _) => Err ModelError     (* XMLSyntaxError: outside the model *)
  end.

Record frec := { f_id : str; f_type : str; f_target : str; f_dir : str }.

Definition s_Id : str := [73; 100].
Definition s_Type : str := [84; 121; 112; 101].
Definition s_Target : str := [84; 97; 114; 103; 101; 116].
Definition s_none : str := [110; 111; 110; 101].

Definition rel_row (dir : str) (k : rnode) : res frec :=
  match k with
  | RX _ => Err KeyError                     (* {}["Id"] *)
  | RE _ _ _ _ attrs _ _ _ =>
      id <- of_opt KeyError (alookup (None, s_Id) attrs) ;;
      ty <- of_opt KeyError (alookup (None, s_Type) attrs) ;;
      tg <- of_opt KeyError (alookup (None, s_Target) attrs) ;;
      Ok {| f_id := id; f_type := path_name ty; f_target := tg; f_dir := dir |}
  end.

Fixpoint dedup_names (l : list str) (seen : list str) : list str :=
  match l with
  | [] => []
  | x :: r => if mem_str x seen then dedup_names r seen else x :: dedup_names r (x :: seen)
  end.

(* DocxReader.files *)
Definition files (a : archive) : res (list frec) :=
  let names := dedup_names (filter (ends_with s_dot_rels) (map fst a)) [] in
  (* collect_rels parses every rels member first *)
  parsed <- mapM (fun n => r <- member_xml a n ;; Ok (n, r)) names ;;
  rows <- mapM (fun nr =>
                  let '(n, r) := nr in
                  let dir := dir_of_member n in
                  match r with
                  | RX _ => Err ModelError
                  | RE _ uri _ _ _ _ _ kids =>
                      xs <- mapM (rel_row dir)
                              (filter (fun k => match k with RE _ _ _ _ _ _ _ _ => true | RX _ => false end) kids) ;;
                      Ok (xs ++ [{| f_id := s_none; f_type := path_name (ostr uri);
                                    f_target := n; f_dir := dir |}])
                  end) parsed ;;
  Ok (concat rows).

Definition f_path (f : frec) : str := file_path (f_dir f) (f_target f).

Definition files_of_types (fs : list frec) (tys : list str) : list frec :=
  sort_by (fun x y => str_leb (f_path x) (f_path y))
          (filter (fun f => mem_str (f_type f) tys) fs).
Definition files_of_type (fs : list frec) (ty : str) : list frec := files_of_types fs [ty].

(* File.rels ; a KeyError while evaluating it is indistinguishable, at every
   use site, from an empty mapping (see DESIGN) *)
Definition file_rels (a : archive) (fs : list frec) (f : frec) : res (list (str * str)) :=
  let rp := rels_path (f_path f) in
  match filter (fun x => str_eqb (f_target x) rp) fs with
  | [rf] =>
      r <- member_xml a (f_path rf) ;;
      match r with
      | RX _ => Err ModelError
      | RE _ _ _ _ _ _ _ kids =>
          foldM (fun d k =>
                   match k with
                   | RX _ => Ok d                    (* comment or PI: skipped *)
                   | RE _ _ _ _ attrs _ _ _ =>
                       id <- of_opt KeyError (alookup (None, s_Id) attrs) ;;
                       tg <- of_opt KeyError (alookup (None, s_Target) attrs) ;;
                       Ok (dict_set id tg d)
                   end) kids []
      end
  | _ => Ok []
  end.

Definition file_rels_or_empty (a : archive) (fs : list frec) (f : frec) : res (list (str * str)) :=
  match file_rels a fs f with
  | Err KeyError => Ok []
  | x => x
  end.

(* ---------- numbering ---------- *)
Definition s_numbering_xml : str :=
  [119;111;114;100;47;110;117;109;98;101;114;105;110;103;46;120;109;108].
Definition s_abstractNum : str := [97;98;115;116;114;97;99;116;78;117;109].
Definition s_abstractNumId : str := [97;98;115;116;114;97;99;116;78;117;109;73;100].
Definition s_lvl : str := [108;118;108].
Definition s_numFmt : str := [110;117;109;70;109;116].
Definition s_start : str := [115;116;97;114;116].
Definition s_num : str := [110;117;109].

Definition einfo_of (t : anode) : res einfo :=
  match t with AE e _ => Ok e | AX _ => Err ModelError end.

Definition collect_lvl (lvl : anode) : res (option str * option Z) :=
  e <- einfo_of lvl ;;
  nf <- children_w e (kids_of lvl) s_numFmt ;;
  fmt <- match nf with
         | [] => Ok None
         | x :: _ => xe <- einfo_of x ;; v <- attr_w_req xe s_val ;; Ok (Some v)
         end ;;
  st <- children_w e (kids_of lvl) s_start ;;
  start <- match st with
           | [] => Ok None
           | x :: _ => xe <- einfo_of x ;; v <- attr_w_req xe s_val ;;
                       z <- of_opt ValueError (int_of_str v) ;; Ok (Some z)
           end ;;
  Ok (fmt, start).

Definition collect_numAttrs (root : anode) : res (list (str * list (option str * option Z))) :=
  e <- einfo_of root ;;
  ans <- children_w e (kids_of root) s_abstractNum ;;
  abs <- foldM (fun d an =>
                  ae <- einfo_of an ;;
                  id <- attr_w_req ae s_abstractNumId ;;
                  lvls <- children_w ae (kids_of an) s_lvl ;;
                  attrs <- mapM collect_lvl lvls ;;
                  Ok (dict_set id attrs d)) ans [] ;;
  nums <- children_w e (kids_of root) s_num ;;
  foldM (fun d num =>
           ne <- einfo_of num ;;
           numId <- attr_w_req ne s_numId ;;
           an <- children_w ne (kids_of num) s_abstractNumId ;;
           match an with
           | [] => Ok d
           | x :: _ =>
               xe <- einfo_of x ;;
               v <- attr_w_req xe s_val ;;
               attrs <- of_opt KeyError (dict_get v abs) ;;
               Ok (dict_set numId attrs d)
           end) nums [].

(* DocxReader.numId2Attrs *)
Definition numId2Attrs (a : archive) : res (list (str * list (option str * option Z))) :=
  match member_xml a s_numbering_xml with
  | Err KeyError => Ok []
  | Err x => Err x
  | Ok r =>
      match collect_numAttrs (view r) with
      | Err KeyError => Ok []
      | x => x
      end
  end.

(* ---------- options and per-part extraction ---------- *)
Record opts := { o_html : bool; o_dup : bool }.

Definition part_env (a : archive) (fs : list frec) (o : opts) (f : frec) : res env :=
  rels <- file_rels_or_empty a fs f ;;
  nt <- numId2Attrs a ;;
  Ok {| env_x2h := if o_html o then xml2html_table else [];
        env_rels := rels; env_dup := o_dup o; env_numtbl := nt |}.

(* File.root_element of a content part *)
Definition part_root (a : archive) (fs : list frec) (o : opts) (f : frec) : res anode :=
  r <- member_xml a (f_path f) ;;
  if mem_str (f_type f) content_file_types then
    (* numId2Attrs is not needed for merging, only rels and the html table *)
    rels <- file_rels_or_empty a fs f ;;
    merge_elems {| env_x2h := if o_html o then xml2html_table else [];
                   env_rels := rels; env_dup := o_dup o; env_numtbl := [] |} (view r)
  else Ok (view r).

(* File.depth_collector *)
Definition part_collector (a : archive) (fs : list frec) (o : opts) (f : frec) : res cst :=
  m <- part_root a fs o f ;;
  v <- part_env a fs o f ;;
  collect_from v [] m.
