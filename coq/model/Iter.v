(* Iter.v — iterators.py *)
From Coq Require Import List NArith Bool Arith.
From D2P Require Import Str Err.
Import ListNotations.

(* an arbitrary nested Python list with leaves of type A *)
Inductive rose (A : Type) := RL (l : list (rose A)) | RA (a : A).
Arguments RL {A}.
Arguments RA {A}.

Section Enum.
  Context {A : Type}.

  (* enumerate(nested) with the index prepended to what `inner` yields *)
  Fixpoint enum_from (inner : rose A -> res (list (list nat * rose A)))
           (i : nat) (l : list (rose A)) : res (list (list nat * rose A)) :=
    match l with
    | [] => Ok []
    | x :: r =>
        ys <- inner x ;;
        rest <- enum_from inner (S i) r ;;
        Ok (map (fun jy => (i :: fst jy, snd jy)) ys ++ rest)
    end.

  (* enum_at_depth for depth = S k, 0 <= k <= 4 *)
  Fixpoint enum_depth (k : nat) (t : rose A) : res (list (list nat * rose A)) :=
    match t with
    | RA _ => Err TypeError                     (* not iterable *)
    | RL l =>
        match k with
        | O => Ok (map (fun ix => ([fst ix], snd ix)) (combine (seq 0%nat (length l)) l))
        | S k' => enum_from (enum_depth k') 0%nat l
        end
    end.

  Definition enum_at_depth (nested : rose A) (depth : nat)
    : res (list (list nat * rose A)) :=
    match depth with
    | 1%nat | 2%nat | 3%nat | 4%nat | 5%nat => enum_depth (pred depth) nested
    | _ => Err ValueError
    end.

  Definition iter_at_depth (nested : rose A) (depth : nat) : res (list (rose A)) :=
    r <- enum_at_depth nested depth ;; Ok (map snd r).

  (* nested[i][j]... *)
  Fixpoint index (t : rose A) (addr : list nat) : option (rose A) :=
    match addr with
    | [] => Some t
    | i :: r =>
        match t with
        | RL l => match nth_error l i with Some x => index x r | None => None end
        | RA _ => None
        end
    end.
End Enum.

Definition iter_tables {A} (t : rose A) := iter_at_depth t 1%nat.
Definition iter_rows {A} (t : rose A) := iter_at_depth t 2%nat.
Definition iter_cells {A} (t : rose A) := iter_at_depth t 3%nat.
Definition iter_paragraphs {A} (t : rose A) := iter_at_depth t 4%nat.
Definition enum_tables {A} (t : rose A) := enum_at_depth t 1%nat.
Definition enum_rows {A} (t : rose A) := enum_at_depth t 2%nat.
Definition enum_cells {A} (t : rose A) := enum_at_depth t 3%nat.
Definition enum_paragraphs {A} (t : rose A) := enum_at_depth t 4%nat.

(* ---------- get_html_map on a 5-deep list of run strings ---------- *)
Open Scope N_scope.
Definition str_of_nat (n : nat) : str := str_of_N (N.of_nat n).
(* str((i, j, k, m)) *)
Definition str_of_addr (a : list nat) : str :=
  40 :: join [44; 32] (map str_of_nat a) ++ [41].

Definition wrap (o c : str) (s : str) : str := o ++ s ++ c.
Definition s_pre_o : str := [60;112;114;101;62].
Definition s_pre_c : str := [60;47;112;114;101;62].
Definition s_td_o : str := [60;116;100;62].
Definition s_td_c : str := [60;47;116;100;62].
Definition s_tr_o : str := [60;116;114;62].
Definition s_tr_c : str := [60;47;116;114;62].
Definition s_table_o : str := [60;116;97;98;108;101;32;98;111;114;100;101;114;61;34;49;34;62].
Definition s_table_c : str := [60;47;116;97;98;108;101;62].
Definition s_html_o : str := [60;104;116;109;108;62;60;98;111;100;121;62].
Definition s_html_c : str := [60;47;98;111;100;121;62;60;47;104;116;109;108;62].

Definition leaf_str (t : rose str) : res str :=
  match t with RA s => Ok s | RL _ => Err TypeError end.
Definition as_rl {A} (t : rose A) : res (list (rose A)) :=
  match t with RL l => Ok l | RA _ => Err TypeError end.

(* generic: map with index *)
Fixpoint mapi_go {A B} (f : nat -> A -> res B) (i : nat) (l : list A) : res (list B) :=
  match l with
  | [] => Ok []
  | x :: r => y <- f i x ;; ys <- mapi_go f (S i) r ;; Ok (y :: ys)
  end.
Definition mapiM {A B} (f : nat -> A -> res B) (l : list A) : res (list B) := mapi_go f 0%nat l.

Definition html_map_par (addr : list nat) (p : rose str) : res str :=
  runs <- as_rl p ;; ss <- mapM leaf_str runs ;;
  Ok (wrap s_pre_o s_pre_c (str_of_addr addr ++ 32 :: concat ss)).
Definition html_map_cell (addr : list nat) (c : rose str) : res str :=
  ps <- as_rl c ;; xs <- mapiM (fun m p => html_map_par (addr ++ [m]) p) ps ;;
  Ok (wrap s_td_o s_td_c (concat xs)).
Definition html_map_row (addr : list nat) (r : rose str) : res str :=
  cs <- as_rl r ;; xs <- mapiM (fun k c => html_map_cell (addr ++ [k]) c) cs ;;
  Ok (wrap s_tr_o s_tr_c (concat xs)).
Definition html_map_table (i : nat) (t : rose str) : res str :=
  rs <- as_rl t ;; xs <- mapiM (fun j r => html_map_row [i; j] r) rs ;;
  Ok (wrap s_table_o s_table_c (concat xs)).
Definition get_html_map (tables : rose str) : res str :=
  ts <- as_rl tables ;; xs <- mapiM html_map_table ts ;;
  Ok (s_html_o ++ concat xs ++ s_html_c).
