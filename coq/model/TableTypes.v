(* TableTypes.v — types of the data tables that tools/gen_tables.py
   regenerates from /repo's source into gen/Tables.v *)
From Coq Require Import List NArith.
From D2P Require Import Str.
Import ListNotations.

(* body of a one-line _format_* helper, as a concatenation of parts *)
Inductive fpart :=
| FLit (s : str)          (* string constant *)
| FTag                    (* the tag parameter *)
| FVal                    (* the val parameter *)
| FValPrefix (n : nat)    (* val[:n] *)
| FTagLast.               (* tag[-1] *)
Definition fexpr := list fpart.

Record hformatter := {
  hf_expr : fexpr;
  hf_container : option str;
  hf_property : option str }.

Inductive numfn :=
| NFDecimal | NFLowerLetter | NFUpperLetter | NFLowerRoman | NFUpperRoman | NFBullet.
