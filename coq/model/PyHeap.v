(* PyHeap.v — run-time library of the source translator's HEAP embedding
   (tools/gen_source.py, classes listed in HEAP_SPEC).

   The methods of depth_collector.DepthCollector that move the caret work on ALIASES:
   `_rightmost_branches` is a stack of references into the nested list `tree`.  To translate
   them faithfully, mutable Python objects (lists, class instances) live in a heap and are
   denoted by references [VRef a]; every translated method is a function
        heap -> outcome (value, heap)
   Strings, numbers, None, booleans and tuples are immutable values as in PyVal.v.
   proofs/SourceCaret.v proves that the translated methods refine the functional model
   (model/Collector.v: caret depth + rightmost spine), i.e. that the alias stack is always the
   rightmost spine of the tree. *)
From Coq Require Import List NArith ZArith Bool Arith.
From D2P Require Import Str Err PyVal.
Import ListNotations.

Inductive hobj :=
| HList (l : list pv)
| HObj (cls : str) (fields : list (str * pv)).

Definition heap := list hobj.            (* address = position; allocation appends *)

Definition h_get (a : nat) (h : heap) : option hobj := nth_error h a.
Fixpoint h_set (a : nat) (o : hobj) (h : heap) : heap :=
  match h, a with
  | [], _ => []
  | _ :: r, O => o :: r
  | x :: r, S k => x :: h_set k o r
  end.
Definition h_alloc (o : hobj) (h : heap) : pv * heap := (VRef (length h), h ++ [o]).

(* ---------- the monad: value or exception, heap threaded through both ---------- *)
Inductive hres (A : Type) := HOk (a : A) (h : heap) | HErr (e : exn) (h : heap).
Arguments HOk {A}.
Arguments HErr {A}.
Definition hm (A : Type) := heap -> hres A.
Definition hret {A} (a : A) : hm A := fun h => HOk a h.
Definition hraise {A} (e : exn) : hm A := fun h => HErr e h.
Definition hbind {A B} (m : hm A) (k : A -> hm B) : hm B :=
  fun h => match m h with HOk a h' => k a h' | HErr e h' => HErr e h' end.
Definition hlift {A} (r : res A) : hm A :=
  fun h => match r with Ok a => HOk a h | Err e => HErr e h end.

(* outcome of a block of statements *)
Inductive hout (S : Type) := HNx (s : S) (h : heap) | HRt (v : pv) (h : heap) | HEx (e : exn) (h : heap).
Arguments HNx {S}.
Arguments HRt {S}.
Arguments HEx {S}.
Definition hb (S : Type) := heap -> hout S.
Definition hnx {S} (s : S) : hb S := fun h => HNx s h.
Definition hrt {S} (v : pv) : hb S := fun h => HRt v h.
Definition hex {S} (e : exn) : hb S := fun h => HEx e h.
Definition hbinde {A S} (m : hm A) (k : A -> hb S) : hb S :=
  fun h => match m h with HOk a h' => k a h' | HErr e h' => HEx e h' end.
Definition hbindo {S T} (b : hb S) (k : S -> hb T) : hb T :=
  fun h => match b h with HNx s h' => k s h' | HRt v h' => HRt v h' | HEx e h' => HEx e h' end.
(* try: body  except E: handler   (the handler runs in the heap reached at the raise) *)
Definition htry {S} (body : hb S) (e : exn) (handler : hb S) : hb S :=
  fun h => match body h with
           | HEx e' h' => if exn_eqb e e' then handler h' else HEx e' h'
           | o => o
           end.
(* result of a method body *)
Definition hfn_result {S} (b : hb S) : hm pv :=
  fun h => match b h with HNx _ h' => HOk VNone h' | HRt v h' => HOk v h' | HEx e h' => HErr e h' end.

Declare Scope pyh_scope.
Notation "x <~ m ;;; k" := (hbinde m (fun x => k))
  (at level 61, m at next level, right associativity) : pyh_scope.
Notation "' pat <~ m ;;; k" := (hbinde m (fun x => match x with pat => k end))
  (at level 61, pat pattern, m at next level, right associativity) : pyh_scope.
Notation "x <~h m ;;; k" := (hbind m (fun x => k))
  (at level 61, m at next level, right associativity) : pyh_scope.
Notation "' pat <~h m ;;; k" := (hbind m (fun x => match x with pat => k end))
  (at level 61, pat pattern, m at next level, right associativity) : pyh_scope.
Notation "x <~~ b ;;; k" := (hbindo b (fun x => k))
  (at level 61, b at next level, right associativity) : pyh_scope.
Notation "' pat <~~ b ;;; k" := (hbindo b (fun x => match x with pat => k end))
  (at level 61, pat pattern, b at next level, right associativity) : pyh_scope.

(* ---------- objects ---------- *)
Fixpoint field_set (k : str) (v : pv) (l : list (str * pv)) : list (str * pv) :=
  match l with
  | [] => [(k, v)]
  | (k', v') :: r => if str_eqb k k' then (k', v) :: r else (k', v') :: field_set k v r
  end.

Definition hy_getattr (o : pv) (name : str) : hm pv := fun h =>
  match o with
  | VRef a => match h_get a h with
              | Some (HObj _ fs) => match field_get name fs with
                                    | Some v => HOk v h
                                    | None => HErr AttributeError h
                                    end
              | _ => HErr AttributeError h
              end
  | VObj _ fs => match field_get name fs with Some v => HOk v h | None => HErr AttributeError h end
  | _ => HErr AttributeError h
  end.
Definition hy_setattr (o : pv) (name : str) (v : pv) : hm unit := fun h =>
  match o with
  | VRef a => match h_get a h with
              | Some (HObj c fs) => HOk tt (h_set a (HObj c (field_set name v fs)) h)
              | _ => HErr AttributeError h
              end
  | _ => HErr AttributeError h
  end.
Definition hy_new_list (items : list pv) : hm pv := fun h =>
  let '(r, h') := h_alloc (HList items) h in HOk r h'.
Definition hy_new_obj (cls : str) (fields : list (str * pv)) : hm pv := fun h =>
  let '(r, h') := h_alloc (HObj cls fields) h in HOk r h'.

(* ---------- lists (by reference) and tuples (by value) ---------- *)
Definition hy_items (x : pv) : hm (list pv) := fun h =>
  match x with
  | VRef a => match h_get a h with Some (HList l) => HOk l h | _ => HErr TypeError h end
  | VTuple l => HOk l h
  | VList l => HOk l h          (* a list VALUE produced by a pure operator of PyVal (e.g. str.split) *)
  | _ => HErr TypeError h
  end.
Definition hy_len (x : pv) : hm pv :=
  hbind (hy_items x) (fun l => hret (VInt (Z.of_nat (length l)))).
Definition hy_index (x i : pv) : hm pv :=
  hbind (hy_items x) (fun l =>
    match int_like i with
    | Some z => match norm_index (length l) z with
                | Some n => match nth_error l n with Some v => hret v | None => hraise IndexError end
                | None => hraise IndexError
                end
    | None => hraise TypeError
    end).
Definition hy_append (x v : pv) : hm unit := fun h =>
  match x with
  | VRef a => match h_get a h with
              | Some (HList l) => HOk tt (h_set a (HList (l ++ [v])) h)
              | _ => HErr AttributeError h
              end
  | _ => HErr AttributeError h
  end.
(* list.pop(): remove and return the last item *)
Definition hy_pop (x : pv) : hm pv := fun h =>
  match x with
  | VRef a => match h_get a h with
              | Some (HList l) =>
                  match rev l with
                  | [] => HErr IndexError h
                  | v :: r => HOk v (h_set a (HList (rev r)) h)
                  end
              | _ => HErr AttributeError h
              end
  | _ => HErr AttributeError h
  end.
(* x[lo:hi] with optional bounds; a slice of a list is a NEW list, of a tuple a tuple *)
Definition clamp (len : nat) (o : option Z) (dflt : nat) : nat :=
  match o with
  | None => dflt
  | Some z => if (z <? 0)%Z then Z.to_nat (Z.max 0 (Z.of_nat len + z)) else Nat.min len (Z.to_nat z)
  end.
Definition slice_of {A} (l : list A) (lo hi : option Z) : list A :=
  let a := clamp (length l) lo 0 in
  let b := clamp (length l) hi (length l) in
  firstn (b - a) (skipn a l).
Definition opt_int (v : pv) : option (option Z) :=
  match v with VNone => Some None | _ => match int_like v with Some z => Some (Some z) | None => None end end.
Definition hy_slice (x lo hi : pv) : hm pv :=
  match opt_int lo, opt_int hi with
  | Some a, Some b =>
      match x with
      | VTuple l => hret (VTuple (slice_of l a b))
      | _ => hbind (hy_items x) (fun l => hy_new_list (slice_of l a b))
      end
  | _, _ => hraise TypeError
  end.
(* itertools.chain(a, b, c) consumed at once *)
Fixpoint hy_chain (parts : list pv) : hm (list pv) :=
  match parts with
  | [] => hret []
  | p :: r => hbind (hy_items p) (fun l => hbind (hy_chain r) (fun l' => hret (l ++ l')))
  end.
Definition hy_unpack4 (l : list pv) : hm (pv * pv * pv * pv) :=
  match l with [a; b; c; d] => hret (a, b, c, d) | _ => hraise ValueError end.
Definition hy_truth (x : pv) : hm bool := fun h =>
  match x with
  | VRef a => match h_get a h with
              | Some (HList l) => HOk (match l with [] => false | _ => true end) h
              | Some (HObj _ _) => HOk true h
              | None => HErr TypeError h
              end
  | v => HOk (py_truth v) h
  end.
(* x is None *)
Definition hy_is_none (x : pv) : hm pv := hlift (py_is_none x).

(* ---------- loops, comprehensions, strings (views in heap mode) ---------- *)
(* for x in items: body   (the items are those present when the loop starts) *)
Fixpoint hfor_go {S} (body : pv -> S -> hb S) (l : list pv) (s : S) : hb S :=
  match l with
  | [] => hnx s
  | x :: r => hbindo (body x s) (hfor_go body r)
  end.
Definition hy_for {S} (it : pv) (body : pv -> S -> hb S) (s : S) : hb S :=
  hbinde (hy_items it) (fun l => hfor_go body l s).
(* [body x for x in it if cond x] as a Coq list of items *)
Fixpoint hcomp_go (cond : pv -> hm bool) (body : pv -> hm (list pv)) (l : list pv) : hm (list pv) :=
  match l with
  | [] => hret []
  | x :: r =>
      hbind (cond x) (fun c =>
        if c then hbind (body x) (fun ys => hbind (hcomp_go cond body r) (fun rest => hret (ys ++ rest)))
        else hcomp_go cond body r)
  end.
Definition hy_comp (it : pv) (cond : pv -> hm bool) (body : pv -> hm (list pv)) : hm (list pv) :=
  hbind (hy_items it) (hcomp_go cond body).
Definition halways (_ : pv) : hm bool := hret true.
Definition hy_join (sep it : pv) : hm pv :=
  match sep with
  | VStr s => hbind (hy_items it) (fun l => hlift (ss <- strs_of l ;; Ok (VStr (join s ss))))
  | _ => hraise TypeError
  end.
Definition hy_reversed (x : pv) : hm pv := hbind (hy_items x) (fun l => hret (VTuple (rev l))).

(* ---------- enumerate, unpacking, item assignment, deepcopy, str of a tuple (get_html_map) ---------- *)
Definition hy_enumerate (x : pv) : hm pv :=
  hbind (hy_items x) (fun l => hret (VTuple (enum_go 0 l))).
Definition hy_unpack2 (v : pv) : hm (pv * pv) :=
  hbind (hy_items v) (fun l => match l with [a; b] => hret (a, b) | _ => hraise ValueError end).
Definition hy_unpack1 (v : pv) : hm pv :=
  hbind (hy_items v) (fun l => match l with [a] => hret a | _ => hraise ValueError end).
Definition hy_unpack3 (v : pv) : hm (pv * pv * pv) :=
  hbind (hy_items v) (fun l => match l with [a; b; c] => hret (a, b, c) | _ => hraise ValueError end).
Definition hy_unpack4v (v : pv) : hm (pv * pv * pv * pv) :=
  hbind (hy_items v) hy_unpack4.
(* x[i] = v on a list *)
Definition hy_setitem (x i v : pv) : hm unit := fun h =>
  match x with
  | VRef a =>
      match h_get a h with
      | Some (HList l) =>
          match int_like i with
          | Some z => match norm_index (length l) z with
                      | Some n => match list_set l n v with
                                  | Some l' => HOk tt (h_set a (HList l') h)
                                  | None => HErr IndexError h
                                  end
                      | None => HErr IndexError h
                      end
          | None => HErr TypeError h
          end
      | _ => HErr TypeError h
      end
  | _ => HErr TypeError h
  end.
(* copy.deepcopy of a nested list: every list level is allocated anew, immutable values are shared;
   sharing INSIDE the argument (one list object referenced twice) is not reproduced (the values
   this is applied to are trees) *)
Fixpoint hy_deepcopy (fuel : nat) (v : pv) {struct fuel} : hm pv :=
  match fuel with
  | O => hraise ModelError
  | S f =>
      match v with
      | VRef a => fun h =>
          match h_get a h with
          | Some (HList l) =>
              (hbind ((fix go (l : list pv) : hm (list pv) :=
                         match l with
                         | [] => hret []
                         | x :: r => hbind (hy_deepcopy f x) (fun x' => hbind (go r) (fun r' => hret (x' :: r')))
                         end) l)
                     hy_new_list) h
          | _ => HErr TypeError h
          end
      | _ => hret v
      end
  end.
(* str(x): a str, an int, or a tuple of ints as Python prints it: "(0, 1, 2, 3)", "(0,)" *)
Fixpoint ints_of (l : list pv) : option (list Z) :=
  match l with
  | [] => Some []
  | VInt z :: r => match ints_of r with Some zs => Some (z :: zs) | None => None end
  | _ :: _ => None
  end.
Definition hy_str (v : pv) : hm pv :=
  match v with
  | VTuple l =>
      match ints_of l with
      | Some [z] => hret (VStr (40 :: str_of_Z z ++ [44; 41])%N)
      | Some zs => hret (VStr (40 :: join [44; 32]%N (map str_of_Z zs) ++ [41])%N)
      | None => hraise TypeError
      end
  | _ => hlift (py_str v)
  end.
