(* Err.v — Python exceptions as values *)
From Coq Require Import List.
Import ListNotations.

Inductive exn :=
| KeyError | IndexError | ValueError | TypeError | AttributeError
| CaretDepthError | StopIteration | ModelError (* impossible-by-invariant branch *).

Inductive res (A : Type) := Ok (a : A) | Err (e : exn).
Arguments Ok {A}.
Arguments Err {A}.

Definition bind {A B} (r : res A) (f : A -> res B) : res B :=
  match r with Ok a => f a | Err e => Err e end.

Declare Scope res_scope.
Notation "x <- r ;; k" := (bind r (fun x => k))
  (at level 61, r at next level, right associativity) : res_scope.
Notation "' pat <- r ;; k" := (bind r (fun x => match x with pat => k end))
  (at level 61, pat pattern, r at next level, right associativity) : res_scope.
Open Scope res_scope.

Fixpoint mapM {A B} (f : A -> res B) (l : list A) : res (list B) :=
  match l with
  | [] => Ok []
  | x :: r => y <- f x ;; ys <- mapM f r ;; Ok (y :: ys)
  end.

Fixpoint foldM {A S} (f : S -> A -> res S) (l : list A) (s : S) : res S :=
  match l with
  | [] => Ok s
  | x :: r => s' <- f s x ;; foldM f r s'
  end.

Definition of_opt {A} (e : exn) (o : option A) : res A :=
  match o with Some a => Ok a | None => Err e end.

Definition exn_code (e : exn) : nat :=
  match e with
  | KeyError => 1 | IndexError => 2 | ValueError => 3 | TypeError => 4
  | AttributeError => 5 | CaretDepthError => 6 | StopIteration => 7
  | ModelError => 99
  end.
