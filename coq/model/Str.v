(* Str.v — Python str as a list of Unicode code points, with the str
   operations docx2python uses.  Total, executable, stdlib only. *)
From Coq Require Import List NArith ZArith Bool Ascii.
From Coq Require String.
Import ListNotations.
Open Scope N_scope.

Definition str := list N.

Fixpoint s2l (s : String.string) : str :=
  match s with
  | String.EmptyString => []
  | String.String a r => N_of_ascii a :: s2l r
  end.

Fixpoint str_eqb (a b : str) : bool :=
  match a, b with
  | [], [] => true
  | x :: a', y :: b' => N.eqb x y && str_eqb a' b'
  | _, _ => false
  end.

(* lexicographic order on code points = Python's str ordering *)
Fixpoint str_ltb (a b : str) : bool :=
  match a, b with
  | [], [] => false
  | [], _ :: _ => true
  | _ :: _, [] => false
  | x :: a', y :: b' =>
      if N.ltb x y then true else if N.ltb y x then false else str_ltb a' b'
  end.
Definition str_leb (a b : str) : bool := negb (str_ltb b a).

Fixpoint starts_with (p s : str) : bool :=
  match p, s with
  | [], _ => true
  | _ :: _, [] => false
  | x :: p', y :: s' => N.eqb x y && starts_with p' s'
  end.

(* Python: needle in hay *)
Fixpoint contains (needle hay : str) : bool :=
  if starts_with needle hay then true else
  match hay with
  | [] => false
  | _ :: h' => contains needle h'
  end.

(* Python str.replace(old, new) for non-empty old: leftmost, non-overlapping.
   skip = characters of a match still to be dropped. *)
Fixpoint replace_go (old new s : str) (skip : nat) : str :=
  match skip with
  | S k => match s with [] => [] | _ :: s' => replace_go old new s' k end
  | O =>
    match s with
    | [] => []
    | c :: s' =>
        if starts_with old s
        then new ++ replace_go old new s' (pred (length old))
        else c :: replace_go old new s' O
    end
  end.

(* Python: "abc".replace("", "-") = "-a-b-c-" *)
Fixpoint intersperse_all (new s : str) : str :=
  match s with
  | [] => new
  | c :: s' => new ++ c :: intersperse_all new s'
  end.

Definition replace (old new s : str) : str :=
  match old with
  | [] => intersperse_all new s
  | _ => replace_go old new s O
  end.

Fixpoint join (sep : str) (l : list str) : str :=
  match l with
  | [] => []
  | [x] => x
  | x :: r => x ++ sep ++ join sep r
  end.

(* split on a single character; Python "a,b".split(",") semantics: always
   at least one piece *)
Fixpoint split_chr (c : N) (s : str) : list str :=
  match s with
  | [] => [[]]
  | x :: s' =>
      if N.eqb x c then [] :: split_chr c s'
      else match split_chr c s' with
           | [] => [[x]]
           | p :: ps => (x :: p) :: ps
           end
  end.

(* Python str.splitlines(): boundaries \n \r \r\n \v \f \x1c \x1d \x1e \x85
   U+2028 U+2029; no trailing empty piece; "" -> [].
   acc = current line reversed; after_cr = previous char was a \r that just
   closed a line (so an immediately following \n belongs to it). *)
Definition is_linebreak (c : N) : bool :=
  (N.eqb c 10) || (N.eqb c 13) || (N.eqb c 11) || (N.eqb c 12) || (N.eqb c 28)
  || (N.eqb c 29) || (N.eqb c 30) || (N.eqb c 133) || (N.eqb c 8232)
  || (N.eqb c 8233).

Fixpoint splitlines_go (s : str) (acc : str) (after_cr : bool) : list str :=
  match s with
  | [] => match acc with [] => [] | _ => [rev acc] end
  | c :: s' =>
      if after_cr && N.eqb c 10 then splitlines_go s' [] false
      else if is_linebreak c then rev acc :: splitlines_go s' [] (N.eqb c 13)
      else splitlines_go s' (c :: acc) false
  end.
Definition splitlines (s : str) : list str := splitlines_go s [] false.

(* Python re.split(r"\r\n|\r|\n", s): the only separators are \r\n, \r and \n;
   always at least one piece ("" -> [""]); a trailing separator yields a final
   empty piece ("x\n" -> ["x"; ""]).  acc / after_cr as in splitlines_go. *)
Fixpoint split_nl_go (s : str) (acc : str) (after_cr : bool) : list str :=
  match s with
  | [] => [rev acc]
  | c :: s' =>
      if after_cr && N.eqb c 10 then split_nl_go s' [] false
      else if N.eqb c 10 || N.eqb c 13 then rev acc :: split_nl_go s' [] (N.eqb c 13)
      else split_nl_go s' (c :: acc) false
  end.
Definition split_nl (s : str) : list str := split_nl_go s [] false.

Fixpoint mem_chr (c : N) (cs : str) : bool :=
  match cs with [] => false | x :: r => N.eqb c x || mem_chr c r end.

Fixpoint lstrip (chars s : str) : str :=
  match s with
  | [] => []
  | c :: s' => if mem_chr c chars then lstrip chars s' else s
  end.

(* ASCII-only case mapping (the code applies lower()/upper() to values whose
   relevant alphabet is ASCII; the harness keeps those values ASCII) *)
Definition lower_chr (c : N) : N := if (65 <=? c) && (c <=? 90) then c + 32 else c.
Definition upper_chr (c : N) : N := if (97 <=? c) && (c <=? 122) then c - 32 else c.
Definition lower (s : str) : str := map lower_chr s.
Definition upper (s : str) : str := map upper_chr s.

(* Python str.split() with no argument: split on runs of whitespace.  ASCII
   whitespace plus the Unicode spaces str.isspace() accepts. *)
Definition is_space (c : N) : bool :=
  ((9 <=? c) && (c <=? 13)) || ((28 <=? c) && (c <=? 32)) || (N.eqb c 133)
  || (N.eqb c 160) || (N.eqb c 5760) || ((8192 <=? c) && (c <=? 8202))
  || (N.eqb c 8232) || (N.eqb c 8233) || (N.eqb c 8239) || (N.eqb c 8287)
  || (N.eqb c 12288).

Fixpoint words_go (s : str) (acc : str) : list str :=
  match s with
  | [] => match acc with [] => [] | _ => [rev acc] end
  | c :: s' =>
      if is_space c
      then match acc with [] => words_go s' [] | _ => rev acc :: words_go s' [] end
      else words_go s' (c :: acc)
  end.
Definition words (s : str) : list str := words_go s [].

(* decimal rendering: str(n) *)
Definition digit_chr (d : N) : N := 48 + d.

Fixpoint dec_go (fuel : nat) (n : N) (acc : str) : str :=
  match fuel with
  | O => acc
  | S f =>
      let acc' := digit_chr (n mod 10) :: acc in
      if n / 10 =? 0 then acc' else dec_go f (n / 10) acc'
  end.
Definition str_of_N (n : N) : str := dec_go (S (N.size_nat n)) n [].
Definition str_of_Z (z : Z) : str :=
  match z with
  | Z0 => [48]
  | Zpos p => str_of_N (Npos p)
  | Zneg p => 45 :: str_of_N (Npos p)
  end.

(* Python int(s) on the fragment: optional ASCII/Unicode whitespace around,
   optional sign, ASCII digits with single underscores between digits. *)
Definition is_digit (c : N) : bool := (48 <=? c) && (c <=? 57).

Fixpoint rstrip_space_rev (r : str) : str :=
  match r with
  | [] => []
  | c :: r' => if is_space c then rstrip_space_rev r' else r
  end.
Fixpoint lstrip_space (s : str) : str :=
  match s with
  | [] => []
  | c :: s' => if is_space c then lstrip_space s' else s
  end.
Definition strip_space (s : str) : str :=
  rev (rstrip_space_rev (rev (lstrip_space s))).

(* digits with single '_' between digits; prev_digit says whether the
   previous char was a digit *)
Fixpoint digits_go (s : str) (acc : N) (prev_digit : bool) : option N :=
  match s with
  | [] => if prev_digit then Some acc else None
  | c :: s' =>
      if is_digit c then digits_go s' (acc * 10 + (c - 48)) true
      else if N.eqb c 95 && prev_digit then
             match s' with
             | d :: _ => if is_digit d then digits_go s' acc false else None
             | [] => None
             end
      else None
  end.

Definition int_of_str (s : str) : option Z :=
  match strip_space s with
  | [] => None
  | 45 :: r => match digits_go r 0 false with Some n => Some (- Z.of_N n)%Z | None => None end
  | 43 :: r => match digits_go r 0 false with Some n => Some (Z.of_N n) | None => None end
  | r => match digits_go r 0 false with Some n => Some (Z.of_N n) | None => None end
  end.

(* stable insertion sort = Python sorted() on a total preorder *)
Section Sort.
  Variable A : Type.
  Variable leb : A -> A -> bool.
  Fixpoint insert_sorted (x : A) (l : list A) : list A :=
    match l with
    | [] => [x]
    | y :: r => if leb x y then x :: l else y :: insert_sorted x r
    end.
  (* stable: later equal elements stay after earlier ones, so insert from
     the right end using a strict comparison on the way *)
  Fixpoint sort_by (l : list A) : list A :=
    match l with
    | [] => []
    | x :: r => insert_sorted x (sort_by r)
    end.
End Sort.
Arguments insert_sorted {A}.
Arguments sort_by {A}.

Definition sort_strs (l : list str) : list str := sort_by str_leb l.

Fixpoint repeat_str (s : str) (n : nat) : str :=
  match n with O => [] | S k => s ++ repeat_str s k end.

Fixpoint last_opt {A} (l : list A) : option A :=
  match l with
  | [] => None
  | [x] => Some x
  | _ :: r => last_opt r
  end.
