(* PyVal.v — run-time library of the SOURCE TRANSLATOR (tools/gen_source.py).

   gen/Source.v is regenerated from /repo's Python source on every run: every
   translated function becomes a Gallina function over the dynamically typed
   universe [pv] below, written with the combinators of this file and nothing
   else.  proofs/SourceFacts.v proves each generated function equal, for ALL
   arguments, to the corresponding function of the hand-written model — so the
   theorems about the model are re-checked against what the source says now.

   Everything is total and executable; Python exceptions are [Err], a Python
   operation applied to operands of the wrong type is [Err TypeError].  The
   fragment of Python's semantics that is encoded here (and therefore trusted)
   is listed in DESIGN.md section 4.4. *)
From Coq Require Import List NArith ZArith Bool.
From D2P Require Import Str Err.
Import ListNotations.

Inductive pv :=
| VNone
| VBool (b : bool)
| VInt (z : Z)
| VStr (s : str)
| VList (l : list pv)
| VTuple (l : list pv)
| VDict (dflt : option pv) (items : list (pv * pv))   (* insertion-ordered; dflt = defaultdict factory value *)
| VObj (cls : str) (fields : list (str * pv))           (* dataclass instance (functional embedding) *)
| VRef (a : nat).                                       (* address of a mutable object (heap embedding, PyHeap.v) *)

(* ---------- outcome of a block of statements ---------- *)
Inductive out (S : Type) := Nx (s : S) | Rt (v : pv) | Ex (e : exn).
Arguments Nx {S}.
Arguments Rt {S}.
Arguments Ex {S}.

Definition bindo {S T} (o : out S) (k : S -> out T) : out T :=
  match o with Nx s => k s | Rt v => Rt v | Ex e => Ex e end.
Definition binde {A T} (r : res A) (k : A -> out T) : out T :=
  match r with Ok a => k a | Err e => Ex e end.

Declare Scope py_scope.
Notation "x <~ r ;;; k" := (binde r (fun x => k))
  (at level 61, r at next level, right associativity) : py_scope.
Notation "' pat <~ r ;;; k" := (binde r (fun x => match x with pat => k end))
  (at level 61, pat pattern, r at next level, right associativity) : py_scope.
Notation "' pat <~~ o ;;; k" := (bindo o (fun x => match x with pat => k end))
  (at level 61, pat pattern, o at next level, right associativity) : py_scope.
Notation "x <~~ o ;;; k" := (bindo o (fun x => k))
  (at level 61, o at next level, right associativity) : py_scope.
Open Scope py_scope.

(* result of a function body *)
Definition fn_result {S} (o : out S) : res pv :=
  match o with Nx _ => Ok VNone | Rt v => Ok v | Ex e => Err e end.
(* result of a generator body: the yielded items (the hidden accumulator) *)
Definition gen_result {S} (proj : S -> pv) (o : out S) (acc_if_return : pv) : res pv :=
  match o with Nx s => Ok (proj s) | Rt _ => Ok acc_if_return | Ex e => Err e end.

(* ---------- truth, equality, order ---------- *)
Definition py_truth (v : pv) : bool :=
  match v with
  | VNone => false
  | VBool b => b
  | VInt z => negb (Z.eqb z 0)
  | VStr s => match s with [] => false | _ => true end
  | VList l | VTuple l => match l with [] => false | _ => true end
  | VDict _ l => match l with [] => false | _ => true end
  | VObj _ _ => true
  | VRef _ => true        (* not used: the heap embedding tests truth through the heap *)
  end.

Definition int_like (v : pv) : option Z :=
  match v with VInt z => Some z | VBool b => Some (if b then 1%Z else 0%Z) | _ => None end.

Fixpoint pv_eqb (a b : pv) {struct a} : bool :=
  let fix list_eqb (l1 l2 : list pv) {struct l1} : bool :=
    match l1, l2 with
    | [], [] => true
    | x :: r1, y :: r2 => pv_eqb x y && list_eqb r1 r2
    | _, _ => false
    end in
  match a, b with
  | VNone, VNone => true
  | VStr s, VStr t => str_eqb s t
  | VList l1, VList l2 => list_eqb l1 l2
  | VTuple l1, VTuple l2 => list_eqb l1 l2
  | VInt _, _ | VBool _, _ =>
      match int_like a, int_like b with
      | Some x, Some y => Z.eqb x y
      | _, _ => false
      end
  | _, _ => false       (* dicts / objects are never compared in the translated code: translator rejects *)
  end.

Definition py_eq (a b : pv) : res pv := Ok (VBool (pv_eqb a b)).
Definition py_ne (a b : pv) : res pv := Ok (VBool (negb (pv_eqb a b))).

Definition py_lt (a b : pv) : res pv :=
  match a, b with
  | VStr s, VStr t => Ok (VBool (str_ltb s t))
  | _, _ =>
      match int_like a, int_like b with
      | Some x, Some y => Ok (VBool (Z.ltb x y))
      | _, _ => Err TypeError
      end
  end.
Definition py_gt (a b : pv) : res pv := py_lt b a.
Definition py_le (a b : pv) : res pv :=
  match py_lt b a with Ok (VBool c) => Ok (VBool (negb c)) | Ok _ => Err TypeError | Err e => Err e end.
Definition py_ge (a b : pv) : res pv := py_le b a.
Definition py_not (a : pv) : res pv := Ok (VBool (negb (py_truth a))).
Definition py_is_none (a : pv) : res pv :=
  Ok (VBool match a with VNone => true | _ => false end).

(* ---------- arithmetic ---------- *)
Definition py_add (a b : pv) : res pv :=
  match a, b with
  | VStr s, VStr t => Ok (VStr (s ++ t))
  | VList s, VList t => Ok (VList (s ++ t))
  | VTuple s, VTuple t => Ok (VTuple (s ++ t))
  | _, _ =>
      match int_like a, int_like b with
      | Some x, Some y => Ok (VInt (x + y))
      | _, _ => Err TypeError
      end
  end.
Definition py_sub (a b : pv) : res pv :=
  match int_like a, int_like b with
  | Some x, Some y => Ok (VInt (x - y))
  | _, _ => Err TypeError
  end.
Fixpoint rep_list {A} (l : list A) (n : nat) : list A :=
  match n with O => [] | S k => l ++ rep_list l k end.
Definition py_mul (a b : pv) : res pv :=
  match a, b with
  | VStr s, VInt n | VInt n, VStr s => Ok (VStr (rep_list s (Z.to_nat n)))
  | VList s, VInt n | VInt n, VList s => Ok (VList (rep_list s (Z.to_nat n)))
  | _, _ =>
      match int_like a, int_like b with
      | Some x, Some y => Ok (VInt (x * y))
      | _, _ => Err TypeError
      end
  end.
(* Python's // and % are floored: Z.div / Z.modulo *)
Definition py_divmod (a b : pv) : res pv :=
  match int_like a, int_like b with
  | Some x, Some y =>
      if Z.eqb y 0 then Err ValueError (* ZeroDivisionError: not in the enum; never reached by translated code *)
      else Ok (VTuple [VInt (x / y); VInt (x mod y)])
  | _, _ => Err TypeError
  end.

(* ---------- sequences ---------- *)
Definition norm_index (len : nat) (i : Z) : option nat :=
  if (0 <=? i)%Z then (if (i <? Z.of_nat len)%Z then Some (Z.to_nat i) else None)
  else (if (0 <=? Z.of_nat len + i)%Z then Some (Z.to_nat (Z.of_nat len + i)) else None).

Fixpoint assoc (k : pv) (l : list (pv * pv)) : option pv :=
  match l with
  | [] => None
  | (k', v) :: r => if pv_eqb k k' then Some v else assoc k r
  end.
Fixpoint assoc_set (k v : pv) (l : list (pv * pv)) : list (pv * pv) :=
  match l with
  | [] => [(k, v)]
  | (k', v') :: r => if pv_eqb k k' then (k', v) :: r else (k', v') :: assoc_set k v r
  end.
Fixpoint assoc_del (k : pv) (l : list (pv * pv)) : option (list (pv * pv)) :=
  match l with
  | [] => None
  | (k', v') :: r =>
      if pv_eqb k k' then Some r
      else match assoc_del k r with Some r' => Some ((k', v') :: r') | None => None end
  end.

Definition py_index (c i : pv) : res pv :=
  match c with
  | VList l | VTuple l =>
      match int_like i with
      | Some z => match norm_index (length l) z with
                  | Some n => of_opt IndexError (nth_error l n)
                  | None => Err IndexError
                  end
      | None => Err TypeError
      end
  | VStr s =>
      match int_like i with
      | Some z => match norm_index (length s) z with
                  | Some n => match nth_error s n with Some ch => Ok (VStr [ch]) | None => Err IndexError end
                  | None => Err IndexError
                  end
      | None => Err TypeError
      end
  | VDict d l =>
      match assoc i l with
      | Some v => Ok v
      | None => match d with Some v => Ok v | None => Err KeyError end
      end
  | _ => Err TypeError
  end.

(* c[i] = v, functional *)
Fixpoint list_set {A} (l : list A) (n : nat) (v : A) : option (list A) :=
  match l, n with
  | [], _ => None
  | _ :: r, O => Some (v :: r)
  | x :: r, S k => match list_set r k v with Some r' => Some (x :: r') | None => None end
  end.
Definition py_setitem (c i v : pv) : res pv :=
  match c with
  | VList l =>
      match int_like i with
      | Some z => match norm_index (length l) z with
                  | Some n => match list_set l n v with Some l' => Ok (VList l') | None => Err IndexError end
                  | None => Err IndexError
                  end
      | None => Err TypeError
      end
  | VDict d l => Ok (VDict d (assoc_set i v l))
  | _ => Err TypeError
  end.
Definition py_delitem (c i : pv) : res pv :=
  match c with
  | VDict d l => match assoc_del i l with Some l' => Ok (VDict d l') | None => Err KeyError end
  | _ => Err TypeError
  end.
(* x[i0][i1]...[ik] := f (x[i0]...[ik]) *)
Fixpoint py_update_path (c : pv) (path : list pv) (f : pv -> res pv) : res pv :=
  match path with
  | [] => f c
  | i :: r =>
      sub <- py_index c i ;;
      sub' <- py_update_path sub r f ;;
      py_setitem c i sub'
  end.
Definition py_append (c v : pv) : res pv :=
  match c with VList l => Ok (VList (l ++ [v])) | _ => Err AttributeError end.

Definition k_iter : str := [95;95;105;116;101;114;95;95]%N.   (* "__iter__" *)
(* what iterating over a value yields *)
Definition py_iter (v : pv) : res (list pv) :=
  match v with
  | VList l | VTuple l => Ok l
  | VStr s => Ok (map (fun c => VStr [c]) s)
  | VDict _ l => Ok (map fst l)
  | VObj _ fs =>
      (* an object is iterable when it carries the list of what iterating it yields (an lxml
         element yields its children): field "__iter__" *)
      match (fix get (l : list (str * pv)) : option pv :=
               match l with
               | [] => None
               | (k, v) :: r => if str_eqb k k_iter then Some v else get r
               end) fs with
      | Some (VList l) => Ok l
      | _ => Err TypeError
      end
  | _ => Err TypeError
  end.
Definition py_list (v : pv) : res pv := l <- py_iter v ;; Ok (VList l).
Definition py_tuple (v : pv) : res pv := l <- py_iter v ;; Ok (VTuple l).
Definition py_len (v : pv) : res pv :=
  match v with
  | VList l | VTuple l => Ok (VInt (Z.of_nat (length l)))
  | VStr s => Ok (VInt (Z.of_nat (length s)))
  | VDict _ l => Ok (VInt (Z.of_nat (length l)))
  | _ => Err TypeError
  end.
Fixpoint enum_go (i : Z) (l : list pv) : list pv :=
  match l with [] => [] | x :: r => VTuple [VInt i; x] :: enum_go (i + 1) r end.
Definition py_enumerate (v : pv) : res pv := l <- py_iter v ;; Ok (VList (enum_go 0 l)).
Definition py_reversed (v : pv) : res pv :=
  match v with
  | VList l | VTuple l => Ok (VList (rev l))
  | VStr s => Ok (VList (rev (map (fun c => VStr [c]) s)))
  | _ => Err TypeError
  end.
Definition py_unpack2 (v : pv) : res (pv * pv) :=
  l <- py_iter v ;;
  match l with [a; b] => Ok (a, b) | _ => Err ValueError end.
(* [a, *b, c]: the translator emits a list of parts, each a single item or a starred iterable *)
Definition py_star (v : pv) : res (list pv) := py_iter v.

(* ---------- str ---------- *)
Definition py_str (v : pv) : res pv :=
  match v with
  | VStr s => Ok (VStr s)
  | VInt z => Ok (VStr (str_of_Z z))
  | _ => Err TypeError       (* str() of other values does not occur in the translated fragment *)
  end.
Fixpoint strs_of (l : list pv) : res (list str) :=
  match l with
  | [] => Ok []
  | VStr s :: r => ss <- strs_of r ;; Ok (s :: ss)
  | _ :: _ => Err TypeError
  end.
Definition py_join (sep it : pv) : res pv :=
  match sep with
  | VStr s => l <- py_iter it ;; ss <- strs_of l ;; Ok (VStr (join s ss))
  | _ => Err TypeError
  end.
Definition py_replace (s a b : pv) : res pv :=
  match s, a, b with
  | VStr s, VStr a, VStr b => Ok (VStr (replace a b s))
  | _, _, _ => Err TypeError
  end.
Definition py_upper (s : pv) : res pv :=
  match s with VStr s => Ok (VStr (upper s)) | _ => Err AttributeError end.
Definition py_split_ws (s : pv) : res pv :=
  match s with VStr s => Ok (VList (map VStr (words s))) | _ => Err AttributeError end.

(* ---------- objects ---------- *)
Fixpoint field_get (k : str) (l : list (str * pv)) : option pv :=
  match l with
  | [] => None
  | (k', v) :: r => if str_eqb k k' then Some v else field_get k r
  end.
Definition py_attr (o : pv) (name : str) : res pv :=
  match o with
  | VObj _ fs => of_opt AttributeError (field_get name fs)
  | _ => Err AttributeError
  end.

(* ---------- loops ---------- *)
Section Loops.
  Context {S : Type}.
  Fixpoint for_go (body : pv -> S -> out S) (l : list pv) (s : S) : out S :=
    match l with
    | [] => Nx s
    | x :: r => bindo (body x s) (for_go body r)
    end.
  Definition py_for (it : pv) (body : pv -> S -> out S) (s : S) : out S :=
    binde (py_iter it) (fun l => for_go body l s).

  (* while: explicit fuel; exhaustion is the model error, excluded by the
     equality lemma of every translated function that loops *)
  Fixpoint py_while (fuel : nat) (cond : S -> res pv) (body : S -> out S) (s : S) : out S :=
    binde (cond s) (fun c =>
      if py_truth c then
        match fuel with
        | O => Ex ModelError
        | Datatypes.S f => bindo (body s) (py_while f cond body)
        end
      else Nx s).
End Loops.

(* comprehension  [body x  for x in it  if cond x] *)
Fixpoint comp_go (cond : pv -> res pv) (body : pv -> res (list pv)) (l : list pv) : res (list pv) :=
  match l with
  | [] => Ok []
  | x :: r =>
      c <- cond x ;;
      if py_truth c then (ys <- body x ;; rest <- comp_go cond body r ;; Ok (ys ++ rest))
      else comp_go cond body r
  end.
Definition py_comp (it : pv) (cond : pv -> res pv) (body : pv -> res (list pv)) : res (list pv) :=
  l <- py_iter it ;; comp_go cond body l.
Definition always (_ : pv) : res pv := Ok (VBool true).
Definition one (r : res pv) : res (list pv) := v <- r ;; Ok [v].

(* constants of the standard library the translated code mentions *)
Definition ascii_lowercase : pv :=
  VStr [97;98;99;100;101;102;103;104;105;106;107;108;109;110;111;112;113;114;115;116;117;118;119;120;121;122]%N.

(* ---------- any / max / in / next / with suppress (batch 2) ---------- *)
(* any(f(x) for x in it): short-circuit at the first true item *)
Fixpoint any_go (f : pv -> res pv) (l : list pv) : res pv :=
  match l with
  | [] => Ok (VBool false)
  | x :: r => c <- f x ;; if py_truth c then Ok (VBool true) else any_go f r
  end.
Definition py_any (it : pv) (f : pv -> res pv) : res pv := l <- py_iter it ;; any_go f l.
Definition py_max2 (a b : pv) : res pv :=
  match int_like a, int_like b with
  | Some x, Some y => Ok (VInt (Z.max x y))
  | _, _ => Err TypeError
  end.
(* x in {c1, c2, ...} for a set display of constants *)
Definition py_in_consts (x : pv) (cs : list pv) : res pv := Ok (VBool (existsb (pv_eqb x) cs)).
(* next(it) on the (eagerly evaluated) items *)
Definition py_next (it : pv) : res pv :=
  l <- py_iter it ;; match l with x :: _ => Ok x | [] => Err StopIteration end.
Definition exn_eqb (a b : exn) : bool := Nat.eqb (exn_code a) (exn_code b).
(* with suppress(E): body  -- the exception E raised in the body ends the body; the variables
   assigned in the body are not read afterwards (checked by the translator), so the state
   before the block is handed on *)
Definition py_suppress {S} (e : exn) (body : out S) (before : S) : out S :=
  match body with
  | Ex e' => if exn_eqb e e' then Nx before else Ex e'
  | o => o
  end.

(* ---------- dict.get(k), next(it, default) (merge keys, has_content) ---------- *)
(* d.get(k): the value or None; no default factory is consulted *)
Definition py_dict_get (d k : pv) : res pv :=
  match d with
  | VDict _ l => Ok (match assoc k l with Some v => v | None => VNone end)
  | _ => Err AttributeError
  end.
Definition py_next_default (it dflt : pv) : res pv :=
  l <- py_iter it ;; match l with x :: _ => Ok x | [] => Ok dflt end.

(* ---------- isinstance(x, str), dict.get(k, d), str.split(sep), element.iterfind, suppressed loop (gather_Pr) ---------- *)
Definition py_is_str (v : pv) : res pv := Ok (VBool match v with VStr _ => true | _ => false end).
Definition py_dict_get2 (d k dflt : pv) : res pv :=
  match d with
  | VDict _ l => Ok (match assoc k l with Some v => v | None => dflt end)
  | _ => Err AttributeError
  end.
(* s.split(sep) for a one-character separator *)
Definition py_split_on (s sep : pv) : res pv :=
  match s, sep with
  | VStr s, VStr [c] => Ok (VList (map VStr (split_chr c s)))
  | VStr _, VStr _ => Err ValueError      (* other separators do not occur in the translated code *)
  | _, _ => Err AttributeError
  end.
(* element.iterfind("{uri}local"): the children whose tag is that Clark name, in document order
   (an lxml element as an object: field "tag", children in field "__iter__") *)
Definition k_tag_field : str := [116;97;103]%N.
Definition py_iterfind (el q : pv) : res pv :=
  kids <- py_iter el ;;
  Ok (VList (filter (fun k => match k with
                              | VObj _ fs => match field_get k_tag_field fs with
                                             | Some t => pv_eqb t q
                                             | None => false
                                             end
                              | _ => false
                              end) kids)).
(* with suppress(E): for x in ITER: BODY   where only ITER can raise E *)
Definition py_for_suppressed {S} (it : res pv) (e : exn) (body : pv -> S -> out S) (s : S) : out S :=
  match it with
  | Ok v => py_for v body s
  | Err e' => if exn_eqb e e' then Nx s else Ex e'
  end.

(* ---------- suppress(E1, E2), try / except (E1, E2), int(x) (forms.py) ---------- *)
Definition py_suppress_l {S} (es : list exn) (body : out S) (before : S) : out S :=
  match body with
  | Ex e' => if existsb (exn_eqb e') es then Nx before else Ex e'
  | o => o
  end.
Definition py_try {S} (body : out S) (es : list exn) (handler : out S) : out S :=
  match body with
  | Ex e' => if existsb (exn_eqb e') es then handler else Ex e'
  | o => o
  end.
(* int(x) of a str (optional sign, digits with single underscores, surrounding white space) or an int *)
Definition py_int (v : pv) : res pv :=
  match v with
  | VStr s => match int_of_str s with Some z => Ok (VInt z) | None => Err ValueError end
  | VInt z => Ok (VInt z)
  | VBool b => Ok (VInt (if b then 1 else 0)%Z)
  | _ => Err TypeError
  end.

(* ---------- element.find(q) / element.findall(q): first child / all children with that Clark name ---------- *)
Definition py_findall (el q : pv) : res pv := py_iterfind el q.
Definition py_find (el q : pv) : res pv :=
  l <- py_iterfind el q ;;
  match l with
  | VList (x :: _) => Ok x
  | VList [] => Ok VNone
  | _ => Err TypeError
  end.

(* ---------- x[lo:hi] on a str / list / tuple (no step): Python's clamping of the bounds ---------- *)
Definition slice_bound (len : nat) (b : pv) (dflt : nat) : res nat :=
  match b with
  | VNone => Ok dflt
  | _ => match int_like b with
         | Some i =>
             let i' := if (i <? 0)%Z then (Z.of_nat len + i)%Z else i in
             Ok (if (i' <? 0)%Z then O else if (Z.of_nat len <? i')%Z then len else Z.to_nat i')
         | None => Err TypeError
         end
  end.
Definition slice_list {A} (l : list A) (lo hi : nat) : list A := firstn (hi - lo) (skipn lo l).
Definition py_slice (x lo hi : pv) : res pv :=
  match x with
  | VStr s => a <- slice_bound (length s) lo O ;; b <- slice_bound (length s) hi (length s) ;; Ok (VStr (slice_list s a b))
  | VList l => a <- slice_bound (length l) lo O ;; b <- slice_bound (length l) hi (length l) ;; Ok (VList (slice_list l a b))
  | VTuple l => a <- slice_bound (length l) lo O ;; b <- slice_bound (length l) hi (length l) ;; Ok (VTuple (slice_list l a b))
  | _ => Err TypeError
  end.
