(* Lifecycle.v — DocxReader / DocxContent as a state machine: closed flag,
   lazily opened zip handle, caches (file list, numbering table, parsed roots,
   collectors).  A read demands resources in a fixed order; a cached resource
   needs nothing, an uncached one needs the archive, which is refused with
   ValueError once the reader is closed.

   The parsed root and the collector are cached PER File OBJECT
   (File.__root_element, File.__depth_collector), and DocxReader.files holds
   one File per relationship: two relationships pointing at one part give two
   File objects with equal paths and separate caches.  A File object is named
   here by its index in DocxReader.files. *)
From Coq Require Import List NArith ZArith Bool Arith.
From D2P Require Import Str Err Xml TableTypes Tables Fmt Bullets Merge Collector Walk Iter
     Output Paths Package Content.
Import ListNotations.
Open Scope N_scope.

Inductive zipstate := ZNone | ZOpen | ZClosed.

Inductive resource :=
| RFiles                    (* DocxReader.__files *)
| RNum                      (* DocxReader.__numId2Attrs *)
| RRoot (i : nat)           (* File.__root_element of DocxReader.files[i] *)
| RColl (i : nat).          (* File.__depth_collector of DocxReader.files[i]
                               (needs no archive access itself) *)

Definition resource_eqb (a b : resource) : bool :=
  match a, b with
  | RFiles, RFiles => true
  | RNum, RNum => true
  | RRoot x, RRoot y => Nat.eqb x y
  | RColl x, RColl y => Nat.eqb x y
  | _, _ => false
  end.
Fixpoint cached (r : resource) (l : list resource) : bool :=
  match l with [] => false | x :: t => resource_eqb r x || cached r t end.
Definition needs_zip (r : resource) : bool :=
  match r with RColl _ => false | _ => true end.

Record lstate := { l_closed : bool; l_zip : zipstate; l_cache : list resource }.
Definition l_init : lstate := {| l_closed := false; l_zip := ZNone; l_cache := [] |}.

Inductive attr :=
| APars (ty : str) | ARuns (ty : str) | APlain (ty : str)
| ADocPars | ADocRuns | ADoc | AText | AHtmlMap
| AImages | ACore | AComments.

Inductive op :=
| OpRead (a : attr)
| OpSaveImages
| OpSave
| OpClose
| OpExit (exceptional : bool).       (* leaving a with block *)

Inductive outcome :=
| OVal                      (* returned the value a fresh object returns *)
| OErr (e : exn)            (* raised *)
| ONone.                    (* close / exit: returns nothing *)

(* ---------- File objects: frecs with their index in DocxReader.files ---------- *)
Definition indexed (fs : list frec) : list (nat * frec) :=
  combine (seq 0 (length fs)) fs.

(* DocxReader.files_of_type, keeping the identity of each File:
   sorted(..., key=attrgetter("path")) is stable, and so is sort_by, so Files
   with equal paths stay in DocxReader.files order *)
Definition ifiles_of_types (fs : list frec) (tys : list str) : list (nat * frec) :=
  sort_by (fun x y => str_leb (f_path (snd x)) (f_path (snd y)))
          (filter (fun x => mem_str (f_type (snd x)) tys) (indexed fs)).
Definition ifiles_of_type (fs : list frec) (ty : str) : list (nat * frec) :=
  ifiles_of_types fs [ty].

(* DocxReader.save: by_path = {x.path: x for x in content_files} — one entry
   per path, at the position of its first File, holding its LAST File (as
   Save.save_with); save evaluates root_element of these Files only *)
Definition isave_by_path (fs : list frec) : list (str * (nat * frec)) :=
  fold_left (fun d x => dict_set (f_path (snd x)) x d)
            (filter (fun x => mem_str (f_type (snd x)) save_overwrite_types) (indexed fs)) [].
Definition save_files (fs : list frec) : list (nat * frec) := map snd (isave_by_path fs).

(* ---------- which resources a read touches, in order ---------- *)
Section Demands.
  Variable a : archive.
  Variable o : opts.
  Variable fs : list frec.         (* DocxReader.files, when it can be computed *)

  (* File.rels_element:
       rels_files = [x for x in self.context.files if x.Target == self._rels_path]
       if len(rels_files) == 1: return rels_files[0].root_element
       return None
     the File objects of DocxReader.files whose raw Target (not path) equals the
     rels path of f; its root is demanded only when there is exactly one *)
  Definition rels_file_of (f : frec) : list (nat * frec) :=
    filter (fun x => str_eqb (f_target (snd x)) (rels_path (f_path f))) (indexed fs).

  (* does evaluating the part touch file.rels?  (lazily: only when some
     element carries a relationship id) *)
  Fixpoint uses_rid_merge (t : anode) : bool :=
    match t with
    | AX _ => false
    | AE e ks =>
        (is_mergeable e
         && match attr_r e s_id with Ok (Some (_ :: _)) => true | _ => false end)
        || existsb uses_rid_merge ks
    end.
  Fixpoint uses_rid_walk (t : anode) : bool :=
    match t with
    | AX _ => false
    | AE e ks =>
        let has r n := match attr_r_req e n with Ok _ => r | Err _ => false end in
        has (str_eqb (e_ptag e) tag_HYPERLINK) s_id
        || has (str_eqb (e_ptag e) tag_IMAGE) s_embed
        || has (str_eqb (e_ptag e) tag_IMAGEDATA) s_id
        || existsb uses_rid_walk ks
    end.

  Definition rels_demand (f : frec) (needed : bool) : list resource :=
    if needed then
      match rels_file_of f with
      | [rf] => [RRoot (fst rf)]
      | _ => []
      end
    else [].

  Definition raw_of (f : frec) : anode :=
    match member_xml a (f_path f) with Ok r => view r | Err _ => AX None end.

  (* File.root_element of files[i]: the part is parsed, then (content types)
     merge_elems runs, which looks at file.rels lazily *)
  Definition root_demands (x : nat * frec) : list resource :=
    let f := snd x in
    [RRoot (fst x)]
      ++ rels_demand f (mem_str (f_type f) content_file_types && uses_rid_merge (raw_of f)).

  (* File.depth_collector of a content part *)
  Definition coll_demands (x : nat * frec) : list resource :=
    let f := snd x in
    let merged := match part_root a fs o f with Ok m => m | Err _ => raw_of f end in
    root_demands x
      ++ [RNum]
      ++ rels_demand f (uses_rid_walk merged)
      ++ [RColl (fst x)].

  Definition type_demands (ty : str) : list resource :=
    concat (map coll_demands (ifiles_of_type fs ty)).

  Definition attr_demands (x : attr) : list resource :=
    RFiles ::
    match x with
    | APars ty | ARuns ty | APlain ty => type_demands ty
    | ADocPars | ADocRuns | ADoc | AText | AHtmlMap => concat (map type_demands part_order)
    | AImages => []                (* the archive itself is read for every image: see step *)
    | ACore =>
        match ifiles_of_type fs s_core_properties with
        | f :: _ => [RRoot (fst f)]
        | [] => []
        end
    | AComments =>
        match ifiles_of_type fs s_officeDocument with
        | od :: _ =>
            coll_demands od ++
            match ifiles_of_type fs s_comments with
            | cf :: _ =>
                [RRoot (fst cf); RNum] ++ rels_demand (snd cf) (uses_rid_walk (raw_of (snd cf)))
            | [] => []
            end
        | [] => []
        end
    end.

  (* DocxReader.save: file.root_element for the LAST File of each path among
     the content and relationships parts, in order of first occurrence *)
  Definition save_demands : list resource :=
    concat (map root_demands (save_files fs)).
End Demands.

(* does this read go to the archive directly, whatever is cached? *)
Definition direct_zip (fs : list frec) (x : attr) : bool :=
  match x with
  | AImages => match files_of_type fs s_image with [] => false | _ => true end
  | _ => false
  end.

(* acquire the demanded resources in order *)
Fixpoint acquire (st : lstate) (ds : list resource) : lstate * option exn :=
  match ds with
  | [] => (st, None)
  | r :: rest =>
      if cached r (l_cache st) then acquire st rest
      else if needs_zip r then
        if l_closed st then (st, Some ValueError)
        else acquire {| l_closed := false; l_zip := ZOpen; l_cache := r :: l_cache st |} rest
      else acquire {| l_closed := l_closed st; l_zip := l_zip st; l_cache := r :: l_cache st |} rest
  end.

Definition close (st : lstate) : lstate :=
  {| l_closed := true;
     l_zip := match l_zip st with ZOpen => ZClosed | z => z end;
     l_cache := l_cache st |}.

Definition touch_zip (st : lstate) : lstate * option exn :=
  if l_closed st then (st, Some ValueError)
  else ({| l_closed := false; l_zip := ZOpen; l_cache := l_cache st |}, None).

(* one operation.  `fs` = the file list of the archive (the model is used on
   packages every attribute of which can be read on a fresh object) *)
Definition step (a : archive) (o : opts) (fs : list frec) (st : lstate) (x : op)
  : lstate * outcome :=
  match x with
  | OpRead at_ =>
      let '(st1, e) := acquire st (attr_demands a o fs at_) in
      match e with
      | Some ex => (st1, OErr ex)
      | None =>
          if direct_zip fs at_ then
            let '(st2, e2) := touch_zip st1 in
            (st2, match e2 with Some ex => OErr ex | None => OVal end)
          else (st1, OVal)
      end
  | OpSaveImages =>
      let '(st1, e) := acquire st [RFiles] in
      match e with
      | Some ex => (st1, OErr ex)
      | None =>
          if direct_zip fs AImages then
            let '(st2, e2) := touch_zip st1 in
            (st2, match e2 with Some ex => OErr ex | None => OVal end)
          else (st1, OVal)
      end
  | OpSave =>
      (* self.files, then _copy_but(self.zipf, ...) *)
      let '(st1, e) := acquire st [RFiles] in
      match e with
      | Some ex => (st1, OErr ex)
      | None =>
          let '(st2, e2) := touch_zip st1 in
          match e2 with
          | Some ex => (st2, OErr ex)
          | None =>
              (* root_element of the last File of every content and relationships part *)
              let '(st3, e3) := acquire st2 (save_demands a fs) in
              (st3, match e3 with Some ex => OErr ex | None => OVal end)
          end
      end
  | OpClose => (close st, ONone)
  | OpExit _ => (close st, ONone)
  end.

Fixpoint run_ops (a : archive) (o : opts) (fs : list frec) (st : lstate) (xs : list op)
  : lstate * list outcome :=
  match xs with
  | [] => (st, [])
  | x :: r =>
      let '(st1, out) := step a o fs st x in
      let '(st2, outs) := run_ops a o fs st1 r in
      (st2, out :: outs)
  end.
