(* Walk.v — docx_text.py (TagRunner, new_depth_collector) and forms.py *)
From Coq Require Import List NArith ZArith Bool Arith.
From D2P Require Import Str Err Xml TableTypes Tables Fmt NumFmt Bullets Merge Collector.
Import ListNotations.
Open Scope N_scope.

(* ---------- _get_elem_depth ---------- *)
Definition omin (a b : option nat) : option nat :=
  match a, b with
  | None, x => x
  | x, None => x
  | Some x, Some y => Some (Nat.min x y)
  end.

(* distance to the nearest w:p at or below t (breadth-first search finds the
   shallowest one) *)
Fixpoint min_par_depth (t : anode) : option nat :=
  match t with
  | AX _ => None
  | AE e ks =>
      if str_eqb (e_ptag e) tag_PARAGRAPH then Some O
      else option_map S
             ((fix go (l : list anode) : option nat :=
                 match l with [] => None | k :: r => omin (min_par_depth k) (go r) end) ks)
  end.

Definition elem_depth (t : anode) : option nat :=
  match t with
  | AX _ => None
  | AE e _ =>
      if mem_str (e_ptag e) depth_none_tags then None
      else option_map (fun k => Nat.max (4 - k)%nat 1%nat) (min_par_depth t)
  end.

(* ---------- forms.py ---------- *)
Definition s_checked : str := [99; 104; 101; 99; 107; 101; 100].
Definition s_default : str := [100; 101; 102; 97; 117; 108; 116].
Definition s_listEntry : str := [108; 105; 115; 116; 69; 110; 116; 114; 121].
Definition s_result : str := [114; 101; 115; 117; 108; 116].

Definition get_checkBox_entry (e : einfo) (ks : list anode) : res str :=
  chk <- children_w e ks s_checked ;;
  wval <- match chk with
          | AE ce _ :: _ =>
              v <- attr_w ce s_val ;;
              Ok (Some (match v with Some (c :: r) => c :: r | _ => [49] end))
          | _ =>
              (* with suppress(StopIteration, KeyError) *)
              Ok (match children_w e ks s_default with
                  | Ok (AE de _ :: _) =>
                      match attr_w_req de s_val with Ok x => Some x | Err _ => None end
                  | _ => None
                  end)
          end ;;
  match wval with
  | None => Ok checkbox_none
  | Some w => of_opt KeyError (dict_get w checkbox_table)
  end.

Definition get_ddList_entry (e : einfo) (ks : list anode) : res str :=
  entries <- children_w e ks s_listEntry ;;
  vals <- mapM (fun k => match k with
                         | AE ke _ => attr_w_req ke s_val
                         | AX _ => Err ModelError
                         end) entries ;;
  idx <- match children_w e ks s_result with
         | Err _ => Ok 0%Z                        (* unreachable: qn succeeded above *)
         | Ok [] => Ok 0%Z
         | Ok (AE re _ :: _) =>
             match attr_w_req re s_val with
             | Err _ => Ok 0%Z
             | Ok sv => of_opt ValueError (int_of_str sv)
             end
         | Ok (AX _ :: _) => Err ModelError
         end ;;
  (* try: list_entries[list_index] except IndexError: "" *)
  Ok (match py_nth vals idx with Some x => x | None => [] end).

(* ---------- string constants of the handlers ---------- *)
Definition raw (s : str) : list tok := map TRaw s.
Definition s_dashes : str := [45; 45; 45; 45].
Definition s_footnote : str := [102; 111; 111; 116; 110; 111; 116; 101].
Definition s_endnote : str := [101; 110; 100; 110; 111; 116; 101].
Definition s_separator : str := [115; 101; 112; 97; 114; 97; 116; 111; 114].
Definition s_type : str := [116; 121; 112; 101].
Definition s_font : str := [102; 111; 110; 116].
Definition s_char : str := [99; 104; 97; 114].
Definition s_anchor : str := [97; 110; 99; 104; 111; 114].
Definition s_embed : str := [101; 109; 98; 101; 100].
Definition s_descr : str := [100; 101; 115; 99; 114].
Definition s_latex : str := [108; 97; 116; 101; 120].
Definition s_span : str := [115; 112; 97; 110].
Definition s_a : str := [97].
(* "----Image alt text---->" *)
Definition s_alt_prefix : str :=
  [45;45;45;45;73;109;97;103;101;32;97;108;116;32;116;101;120;116;45;45;45;45;62].
(* "span style=font-family:" *)
Definition s_span_font : str :=
  [115;112;97;110;32;115;116;121;108;101;61;102;111;110;116;45;102;97;109;105;108;121;58].
(* a href=QUOTE *)
Definition s_a_href : str := [97; 32; 104; 114; 101; 102; 61; 34].

Definition ostr_or_None (o : option str) : str :=
  match o with Some s => s | None => s_None end.

(* the (href, text) link run and the plain fallback *)
Definition link_toks (link : str) (body : list tok) : list tok :=
  TOpen (s_a_href ++ link ++ [34]) :: body ++ [TClose s_a].

(* flatten_text of a list of paragraph token lists *)
Fixpoint join_toks (sep : list tok) (l : list (list tok)) : list tok :=
  match l with
  | [] => []
  | [x] => x
  | x :: r => x ++ sep ++ join_toks sep r
  end.
Definition par_sep : list tok := [TRaw 10; TRaw 10].

(* ---------- TagRunner.open handlers ----------
   `body` is _get_text_below for a hyperlink (computed by the caller, which
   owns the recursion); result: new state and "recurse into children". *)
Definition note_label (v : env) (kind : str) (e : einfo) (s : cst) : res (cst * bool) :=
  ty <- attr_w e s_type ;;
  if contains s_separator (lower (ostr ty)) then Ok (s, true)
  else
    id <- attr_w_req e s_id ;;
    Ok (queue_run_for_next_paragraph (raw (kind ++ id ++ [41; 9])) s, true).

Definition note_ref (v : env) (kind : str) (e : einfo) (s : cst) : res (cst * bool) :=
  id <- attr_w_req e s_id ;;
  s' <- insert_text_as_new_run v (raw (s_dashes ++ kind ++ id ++ s_dashes)) s ;;
  Ok (s', true).

Definition image_ref (v : env) (rid : res str) (s : cst) : res (cst * bool) :=
  match rid with
  | Err KeyError => Ok (s, true)
  | Err x => Err x
  | Ok id =>
      match dict_get id (env_rels v) with
      | None => Ok (s, true)
      | Some img =>
          s' <- insert_text_as_new_run v (raw (s_dashes ++ img ++ s_dashes)) s ;;
          Ok (s', true)
      end
  end.

Definition to_numtable (v : env) : numtable :=
  map (fun kv => (fst kv, map (fun a => {| na_fmt := fst a; na_start := snd a |}) (snd kv)))
      (env_numtbl v).

Definition open_tag (v : env) (path : list nat) (t : anode) (e : einfo) (ks : list anode)
           (body : list tok) (s : cst) : res (cst * bool) :=
  let tg := e_ptag e in
  if str_eqb tg tag_PARAGRAPH then
    s1 <- commence_paragraph v (Some (e, ks, path)) s ;;
    let fmt := get_bullet_fmt t in
    let '(cs, number) := get_par_number (to_numtable v) (c_counters s1) fmt in
    bl <- get_bullet (to_numtable v) fmt number ;;
    let pos := get_list_position cs fmt in
    s2 <- insert_text_as_new_run v (raw bl) (set_counters cs s1) ;;
    match c_open s2 with
    | p :: rest => Ok (set_open (with_listpos p pos :: rest) s2, true)
    | [] => Err ModelError
    end
  else if str_eqb tg tag_RUN then
    st <- get_run_formatting e ks (env_x2h v) ;;
    s' <- commence_run v st s ;; Ok (s', true)
  else if str_eqb tg tag_COMMENT_RANGE_END then
    id <- attr_w_req e s_id ;; s' <- end_comment_range v id s ;; Ok (s', false)
  else if str_eqb tg tag_COMMENT_RANGE_START then
    id <- attr_w_req e s_id ;; s' <- start_comment_range v id s ;; Ok (s', false)
  else if (str_eqb tg tag_TEXT || str_eqb tg tag_TEXT_MATH)%bool then
    s' <- add_text_into_open_run v (ostr (e_text e)) s ;; Ok (s', true)
  else if str_eqb tg tag_MATH then
    s' <- insert_text_as_new_run v
            (TOpen s_latex :: map TTxt (itertext t) ++ [TClose s_latex]) s ;;
    Ok (s', false)
  else if str_eqb tg tag_BR then
    s' <- add_code_into_open_run v [TRaw 10] s ;; Ok (s', true)
  else if str_eqb tg tag_SYM then
    font <- attr_w e s_font ;;
    chr <- attr_w e s_char ;;
    let chr := ostr chr in
    match chr with
    | [] => Ok (s, true)
    | _ :: tl =>
        s' <- add_code_into_open_run v
                (TOpen (s_span_font ++ ostr_or_None font)
                 :: raw ([38; 35; 120; 48] ++ tl ++ [59]) ++ [TClose s_span]) s ;;
        Ok (s', true)
    end
  else if str_eqb tg tag_FOOTNOTE then note_label v s_footnote e s
  else if str_eqb tg tag_ENDNOTE then note_label v s_endnote e s
  else if str_eqb tg tag_HYPERLINK then
    let plain := (s' <- insert_text_as_new_run v body s ;; Ok (s', false)) in
    match attr_r_req e s_id with
    | Err KeyError => plain
    | Err x => Err x
    | Ok rid =>
        match dict_get rid (env_rels v) with
        | None => plain
        | Some link =>
            match attr_w e s_anchor with
            | Err KeyError => plain
            | Err x => Err x
            | Ok anchor =>
                let link' := match link, anchor with
                             | _ :: _, Some (a :: r) => link ++ 35 :: a :: r
                             | _, _ => link
                             end in
                s' <- insert_text_as_new_run v (link_toks link' body) s ;; Ok (s', false)
            end
        end
    end
  else if str_eqb tg tag_FORM_CHECKBOX then
    x <- get_checkBox_entry e ks ;;
    s' <- insert_text_as_new_run v (raw x) s ;; Ok (s', true)
  else if str_eqb tg tag_FORM_DDLIST then
    x <- get_ddList_entry e ks ;;
    s' <- insert_text_as_new_run v (map TTxt x) s ;; Ok (s', true)
  else if str_eqb tg tag_FOOTNOTE_REFERENCE then note_ref v s_footnote e s
  else if str_eqb tg tag_ENDNOTE_REFERENCE then note_ref v s_endnote e s
  else if str_eqb tg tag_IMAGE then image_ref v (attr_r_req e s_embed) s
  else if str_eqb tg tag_IMAGE_ALT then
    match attr_plain e s_descr with
    | None => Ok (s, true)
    | Some d =>
        s' <- insert_text_as_new_run v (raw s_alt_prefix ++ map TTxt d ++ [TRaw 60]) s ;; Ok (s', true)
    end
  else if str_eqb tg tag_IMAGEDATA then image_ref v (attr_r_req e s_id) s
  else if str_eqb tg tag_TAB then
    s' <- insert_text_as_new_run v [TRaw 9] s ;; Ok (s', true)
  else Ok (s, true).

Definition close_tag (v : env) (e : einfo) (ks : list anode) (s : cst) : res cst :=
  let tg := e_ptag e in
  if str_eqb tg tag_PARAGRAPH then conclude_paragraph s
  else if str_eqb tg tag_RUN then commence_run v [] s
  else if str_eqb tg tag_TABLE_CELL then close_table_cell v e ks s
  else Ok s.

(* the handlers above must be exactly the methods TagRunner defines *)
Definition modelled_open_methods : list str :=
  map (fun t => match find (fun kv => str_eqb (snd kv) t) tags_table with
                | Some (n, _) => n | None => [] end)
    [tag_BR; tag_COMMENT_RANGE_END; tag_COMMENT_RANGE_START; tag_ENDNOTE;
     tag_ENDNOTE_REFERENCE; tag_FOOTNOTE; tag_FOOTNOTE_REFERENCE; tag_FORM_CHECKBOX;
     tag_FORM_DDLIST; tag_HYPERLINK; tag_IMAGE; tag_IMAGEDATA; tag_IMAGE_ALT; tag_MATH;
     tag_PARAGRAPH; tag_RUN; tag_SYM; tag_TAB; tag_TEXT; tag_TEXT_MATH].
Definition modelled_close_methods : list str :=
  map (fun t => match find (fun kv => str_eqb (snd kv) t) tags_table with
                | Some (n, _) => n | None => [] end)
    [tag_PARAGRAPH; tag_RUN; tag_TABLE_CELL].

(* ---------- new_depth_collector ---------- *)
Definition finish (v : env) (s : cst) : res cst :=
  s1 <- match c_queued s with
        | [] => Ok s
        | _ => commence_paragraph v None s
        end ;;
  conclude_paragraph s1.

Definition tree_par_toks (l : list node) : res (list (list tok)) :=
  ps <- pars_at 4%nat l ;;
  rs <- mapM par_run_toks ps ;;
  Ok (map (@concat tok) rs).

Fixpoint walk (v : env) (path : list nat) (t : anode) (s : cst) {struct t} : res cst :=
  match t with
  | AX _ => Ok s
  | AE e ks =>
      let d := elem_depth t in
      s1 <- set_caret d (Some (e_local e)) s ;;
      (* _get_text_below: one fresh collector per child of a hyperlink; the
         flattened texts of the children are concatenated *)
      body <- (if str_eqb (e_ptag e) tag_HYPERLINK then
                 (fix below (l : list anode) (i : nat) : res (list tok) :=
                    match l with
                    | [] => Ok []
                    | k :: r =>
                        sk <- walk v (i :: path) k init_cst ;;
                        sk' <- finish v sk ;;
                        ps <- tree_par_toks (c_tree sk') ;;
                        rest <- below r (S i) ;;
                        Ok (join_toks par_sep ps ++ rest)
                    end) ks O
               else Ok []) ;;
      '(s2, recurse) <- open_tag v path t e ks body s1 ;;
      s3 <- (if recurse : bool then
               (fix kids (l : list anode) (i : nat) (s : cst) : res cst :=
                  match l with
                  | [] => Ok s
                  | k :: r => s' <- walk v (i :: path) k s ;; kids r (S i) s'
                  end) ks O s2
             else Ok s2) ;;
      s4 <- close_tag v e ks s3 ;;
      set_caret d None s4
  end.

(* new_depth_collector(file, root) *)
Definition collect_from (v : env) (path : list nat) (t : anode) : res cst :=
  s <- walk v path t init_cst ;; finish v s.
