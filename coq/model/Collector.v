(* Collector.v — depth_collector.py: Run, Par, DepthCollector *)
From Coq Require Import List NArith ZArith Bool Arith.
From D2P Require Import Str Err Xml TableTypes Tables Fmt Bullets Merge.
Import ListNotations.
Open Scope N_scope.

(* Run.text is kept as tokens; `render` gives the Python string *)
Inductive tok :=
| TTxt (c : N)        (* character of document text: escaped when html *)
| TRaw (c : N)        (* character emitted verbatim *)
| TOpen (s : str)     (* "<s>" *)
| TClose (s : str).   (* "</s>" *)

Record run := { r_style : list str; r_toks : list tok }.

Definition lineage := (option str * option str * option str * option str)%type.

Record par := {
  p_elem : option (list nat);      (* path of the source element from the part root *)
  p_copy : bool;                   (* made by copy.deepcopy for a merged cell *)
  p_hstyle : list str;
  p_style : str;
  p_lineage : lineage;
  p_runs : list run;
  p_listpos : option str * list N }.

Inductive node := NL (l : list node) | NP (p : par).

Record cst := {
  c_tree : list node;              (* root list; EVERY list is newest-first *)
  c_depth : nat;                   (* len(_rightmost_branches) *)
  c_lineage : lineage;
  c_open : list par;               (* _open_pars, top first *)
  c_queued : list run;
  c_ranges : list (str * (nat * nat));
  c_counters : counters }.

Definition init_cst : cst :=
  {| c_tree := []; c_depth := 1%nat; c_lineage := (None, None, None, None);
     c_open := []; c_queued := []; c_ranges := []; c_counters := [] |}.

Definition set_tree t s := {| c_tree := t; c_depth := c_depth s; c_lineage := c_lineage s;
  c_open := c_open s; c_queued := c_queued s; c_ranges := c_ranges s; c_counters := c_counters s |}.
Definition set_depth d s := {| c_tree := c_tree s; c_depth := d; c_lineage := c_lineage s;
  c_open := c_open s; c_queued := c_queued s; c_ranges := c_ranges s; c_counters := c_counters s |}.
Definition set_lin l s := {| c_tree := c_tree s; c_depth := c_depth s; c_lineage := l;
  c_open := c_open s; c_queued := c_queued s; c_ranges := c_ranges s; c_counters := c_counters s |}.
Definition set_open o s := {| c_tree := c_tree s; c_depth := c_depth s; c_lineage := c_lineage s;
  c_open := o; c_queued := c_queued s; c_ranges := c_ranges s; c_counters := c_counters s |}.
Definition set_queued q s := {| c_tree := c_tree s; c_depth := c_depth s; c_lineage := c_lineage s;
  c_open := c_open s; c_queued := q; c_ranges := c_ranges s; c_counters := c_counters s |}.
Definition set_ranges r s := {| c_tree := c_tree s; c_depth := c_depth s; c_lineage := c_lineage s;
  c_open := c_open s; c_queued := c_queued s; c_ranges := r; c_counters := c_counters s |}.
Definition set_counters c s := {| c_tree := c_tree s; c_depth := c_depth s; c_lineage := c_lineage s;
  c_open := c_open s; c_queued := c_queued s; c_ranges := c_ranges s; c_counters := c |}.

(* ---------- caret ---------- *)
Definition set_in_lineage (idx : nat) (v : option str) (l : lineage) : res lineage :=
  match l with
  | (a, b, c, d) =>
      match idx with
      | 1%nat => Ok (v, b, c, d)
      | 2%nat => Ok (a, v, c, d)
      | 3%nat => Ok (a, b, v, d)
      | 4%nat => Ok (a, b, c, v)
      | _ => Err ValueError
      end
  end.

(* append x at depth d along the rightmost spine (lists are newest-first) *)
Fixpoint spine_app (d : nat) (x : node) (l : list node) : res (list node) :=
  match d with
  | O => Err ModelError
  | S O => Ok (x :: l)
  | S d' =>
      match l with
      | NL l' :: rest => l'' <- spine_app d' x l' ;; Ok (NL l'' :: rest)
      | _ => Err ModelError
      end
  end.

Definition par_depth : nat := 4%nat.

Definition drop_caret (s : cst) : res cst :=
  if Nat.leb par_depth (c_depth s) then Err CaretDepthError
  else t <- spine_app (c_depth s) (NL []) (c_tree s) ;;
       Ok (set_depth (S (c_depth s)) (set_tree t s)).

Definition raise_caret (s : cst) : res cst :=
  if Nat.leb (c_depth s) 1%nat then Err CaretDepthError
  else Ok (set_depth (pred (c_depth s)) s).

Fixpoint set_caret_go (fuel : nat) (d : nat) (name : option str) (s : cst) : res cst :=
  match fuel with
  | O => Err ModelError
  | S f =>
      if Nat.eqb (c_depth s) d then
        l <- set_in_lineage d name (c_lineage s) ;; Ok (set_lin l s)
      else if Nat.ltb (c_depth s) d then
        s' <- drop_caret s ;; set_caret_go f d name s'
      else
        l <- set_in_lineage d None (c_lineage s) ;;
        s' <- raise_caret (set_lin l s) ;; set_caret_go f d name s'
  end.

Definition set_caret (d : option nat) (name : option str) (s : cst) : res cst :=
  match d with
  | None => Ok s
  | Some d => set_caret_go 8%nat d name s
  end.

(* ---------- paragraphs and runs ---------- *)
Definition html_on (v : env) : bool :=
  match env_x2h v with [] => false | _ => true end.

Definition empty_run : run := {| r_style := []; r_toks := [] |}.

Definition commence_paragraph (v : env) (elem : option (einfo * list anode * list nat))
           (s : cst) : res cst :=
  s1 <- set_caret (Some par_depth)
          (match elem with Some (e, _, _) => Some (e_local e) | None => None end) s ;;
  hs <- match elem with
        | Some (e, ks, _) => get_paragraph_formatting e ks (env_x2h v)
        | None => Ok []
        end ;;
  ps <- match elem with
        | Some (e, ks, _) => get_pStyle e ks
        | None => Ok []
        end ;;
  let p := {| p_elem := match elem with Some (_, _, path) => Some path | None => None end;
              p_copy := false; p_hstyle := hs; p_style := ps;
              p_lineage := c_lineage s1; p_runs := c_queued s1;
              p_listpos := (None, []) |} in
  Ok (set_open (p :: c_open s1) (set_queued [] s1)).

Definition conclude_paragraph (s : cst) : res cst :=
  match c_open s with
  | [] => Ok s
  | p :: rest =>
      s1 <- set_caret (Some par_depth) None (set_open rest s) ;;
      t <- spine_app par_depth (NP p) (c_tree s1) ;;
      Ok (set_tree t s1)
  end.

(* self._open_par : commence a paragraph when none is open *)
Definition ensure_par (v : env) (s : cst) : res cst :=
  match c_open s with
  | [] => commence_paragraph v None s
  | _ => Ok s
  end.

Definition with_runs (p : par) (rs : list run) : par :=
  {| p_elem := p_elem p; p_copy := p_copy p; p_hstyle := p_hstyle p; p_style := p_style p;
     p_lineage := p_lineage p; p_runs := rs; p_listpos := p_listpos p |}.
Definition with_listpos (p : par) (lp : option str * list N) : par :=
  {| p_elem := p_elem p; p_copy := p_copy p; p_hstyle := p_hstyle p; p_style := p_style p;
     p_lineage := p_lineage p; p_runs := p_runs p; p_listpos := lp |}.

Definition upd_open_runs (v : env) (f : list run -> list run) (s : cst) : res cst :=
  s1 <- ensure_par v s ;;
  match c_open s1 with
  | [] => Err ModelError
  | p :: rest => Ok (set_open (with_runs p (f (p_runs p)) :: rest) s1)
  end.

(* self._open_run : the last run, created when there is none *)
Definition ensure_run (rs : list run) : list run :=
  match rs with [] => [empty_run] | _ => rs end.

Fixpoint upd_last {A} (f : A -> A) (l : list A) : list A :=
  match l with
  | [] => []
  | [x] => [f x]
  | x :: r => x :: upd_last f r
  end.

Definition commence_run (v : env) (style : list str) (s : cst) : res cst :=
  upd_open_runs v (fun rs => rs ++ [{| r_style := style; r_toks := [] |}]) s.

Definition add_toks (v : env) (ts : list tok) (s : cst) : res cst :=
  upd_open_runs v
    (fun rs => upd_last (fun r => {| r_style := r_style r; r_toks := r_toks r ++ ts |})
                        (ensure_run rs)) s.

Definition add_text_into_open_run (v : env) (txt : str) (s : cst) : res cst :=
  add_toks v (map TTxt txt) s.
Definition add_code_into_open_run (v : env) (ts : list tok) (s : cst) : res cst :=
  add_toks v ts s.

Definition insert_text_as_new_run (v : env) (ts : list tok) (s : cst) : res cst :=
  upd_open_runs v
    (fun rs =>
       let rs' := ensure_run rs in
       let st := match last_opt rs' with Some r => r_style r | None => [] end in
       rs' ++ [{| r_style := []; r_toks := ts |}; {| r_style := st; r_toks := [] |}]) s.

Definition queue_run_for_next_paragraph (ts : list tok) (s : cst) : cst :=
  set_queued (c_queued s ++ [{| r_style := []; r_toks := ts |}]) s.

(* ---------- rendering ---------- *)
Definition escape_chr (c : N) : str :=
  if c =? 38 then [38; 97; 109; 112; 59]          (* &amp; *)
  else if c =? 60 then [38; 108; 116; 59]         (* &lt; *)
  else if c =? 62 then [38; 103; 116; 59]         (* &gt; *)
  else [c].

Definition render_tok (html : bool) (t : tok) : str :=
  match t with
  | TTxt c => if html then escape_chr c else [c]
  | TRaw c => [c]
  | TOpen s => 60 :: s ++ [62]
  | TClose s => 60 :: 47 :: s ++ [62]
  end.
Definition render (html : bool) (ts : list tok) : str := concat (map (render_tok html) ts).

Definition close_toks (style : list str) : res (list tok) :=
  ws <- mapM first_word (rev style) ;; Ok (map TClose ws).

(* str(run) as tokens *)
Definition run_toks (r : run) : res (list tok) :=
  match r_toks r with
  | [] => Ok []
  | ts => cl <- close_toks (r_style r) ;; Ok (map TOpen (r_style r) ++ ts ++ cl)
  end.

Definition nonempty {A} (l : list A) : bool := match l with [] => false | _ => true end.

(* Par.run_strings as token lists, one per run string *)
Definition par_run_toks (p : par) : res (list (list tok)) :=
  rs <- mapM run_toks (p_runs p) ;;
  let rs' := filter nonempty rs in
  match p_hstyle p with
  | [] => Ok rs'
  | hs => cl <- close_toks hs ;; Ok (map TOpen hs :: rs' ++ [cl])
  end.

Definition par_run_strings (html : bool) (p : par) : res (list str) :=
  rs <- par_run_toks p ;; Ok (map (render html) rs).

(* all paragraphs of a (newest-first) tree at depth 4, oldest first; items at
   other depths that are not of the expected kind are a TypeError/Attribute
   error in Python (never reached when the shape invariant holds) *)
Fixpoint pars_at (d : nat) (l : list node) : res (list par) :=
  match d with
  | O => Err ModelError
  | S O =>
      mapM (fun n => match n with NP p => Ok p | NL _ => Err AttributeError end) (rev l)
  | S d' =>
      xs <- mapM (fun n => match n with NL l' => pars_at d' l' | NP _ => Err TypeError end) (rev l) ;;
      Ok (concat xs)
  end.

Definition count_runs (v : env) (s : cst) : res nat :=
  ps <- pars_at 4%nat (c_tree s) ;;
  a <- mapM (par_run_strings (html_on v)) ps ;;
  (* the closing tag of an open html-styled paragraph is not due yet *)
  b <- mapM (fun p => rs <- par_run_strings (html_on v) p ;;
                      Ok (match p_hstyle p with [] => rs | _ => removelast rs end))
            (rev (c_open s)) ;;
  Ok (length (concat a) + length (concat b))%nat.

Fixpoint ranges_set (k : str) (v : nat * nat) (d : list (str * (nat * nat))) :=
  match d with
  | [] => [(k, v)]
  | (k', v') :: r => if str_eqb k k' then (k, v) :: r else (k', v') :: ranges_set k v r
  end.

Definition start_comment_range (v : env) (id : str) (s : cst) : res cst :=
  n <- count_runs v s ;; Ok (set_ranges (ranges_set id (n, n) (c_ranges s)) s).
Definition end_comment_range (v : env) (id : str) (s : cst) : res cst :=
  match dict_get id (c_ranges s) with
  | None => Ok s                     (* end marker without a start in this collector *)
  | Some (b, _) =>
      n <- count_runs v s ;;
      Ok (set_ranges (ranges_set id (b, n) (c_ranges s)) s)
  end.

(* ---------- table cells ---------- *)
Definition new_empty_par : par :=
  {| p_elem := None; p_copy := false; p_hstyle := []; p_style := [];
     p_lineage := (Some [], Some [], Some [], Some []); p_runs := [];
     p_listpos := (None, []) |}.

Fixpoint copy_node (n : node) : node :=
  match n with
  | NP p => NP {| p_elem := p_elem p; p_copy := true; p_hstyle := p_hstyle p;
                  p_style := p_style p; p_lineage := p_lineage p; p_runs := p_runs p;
                  p_listpos := p_listpos p |}
  | NL l => NL (map copy_node l)
  end.

(* element with Python index i of a newest-first list *)
Definition py_get {A} (l : list A) (i : nat) : option A :=
  if Nat.leb (length l) i then None else nth_error l (length l - 1 - i)%nat.
Fixpoint upd_nth {A} (n : nat) (f : A -> res A) (l : list A) : res (list A) :=
  match l, n with
  | [], _ => Err IndexError
  | x :: r, O => y <- f x ;; Ok (y :: r)
  | x :: r, S k => r' <- upd_nth k f r ;; Ok (x :: r')
  end.
Definition py_upd {A} (l : list A) (i : nat) (f : A -> res A) : res (list A) :=
  if Nat.leb (length l) i then Err IndexError else upd_nth (length l - 1 - i)%nat f l.

Definition as_list (n : node) : res (list node) :=
  match n with NL l => Ok l | NP _ => Err TypeError end.

(* the row object captured as this_tr, addressed by Python indexes *)
Definition get_row (root : list node) (ti ri : nat) : res (list node) :=
  t <- of_opt IndexError (py_get root ti) ;; rows <- as_list t ;;
  r <- of_opt IndexError (py_get rows ri) ;; as_list r.
Definition upd_row (root : list node) (ti ri : nat) (f : list node -> res (list node))
  : res (list node) :=
  py_upd root ti (fun t => rows <- as_list t ;;
    rows' <- py_upd rows ri (fun r => cells <- as_list r ;; c' <- f cells ;; Ok (NL c')) ;;
    Ok (NL rows')).

Definition s_vMerge : str := [118; 77; 101; 114; 103; 101].
Definition s_gridSpan : str := [103; 114; 105; 100; 83; 112; 97; 110].
Definition s_continue : str := [99; 111; 110; 116; 105; 110; 117; 101].
(* pr.get("vMerge", "Not None") in (None, "continue") *)
Definition is_continuation (pr : list (str * option str)) : bool :=
  match dict_get s_vMerge pr with
  | Some None => true
  | Some (Some x) => str_eqb x s_continue
  | None => false
  end.

Definition close_table_cell (v : env) (e : einfo) (ks : list anode) (s : cst) : res cst :=
  pr <- gather_Pr e ks ;;
  let root := c_tree s in
  (* if not self.tables.tree or not self.tables.tree[-1]: return *)
  match root with
  | [] => Ok s
  | t0 :: _ =>
  rows0 <- as_list t0 ;;
  match rows0 with
  | [] => Ok s
  | r0 :: _ =>
  _ <- as_list r0 ;;
  let ti := (length root - 1)%nat in
  let ri := (length rows0 - 1)%nat in
  (* vertical merge *)
  s1 <- (if (env_dup v && is_continuation pr && Nat.ltb 1%nat (length rows0))%bool
         then
           sa <- set_caret (Some 3%nat) None s ;;
           t <- of_opt IndexError (py_get (c_tree sa) ti) ;;
           rows <- as_list t ;;
           prev <- match rows with
                   | _ :: p :: _ => as_list p
                   | _ => Err IndexError
                   end ;;
           cells <- get_row (c_tree sa) ti ri ;;
           let tc_idx := (Z.of_nat (length cells) - 1)%Z in
           (* if 0 <= tc_idx < len(prev_tr): this_tr[-1] = deepcopy(prev_tr[tc_idx]) *)
           match cells, py_nth (rev prev) tc_idx with
           | _ :: _, Some src =>
               root' <- upd_row (c_tree sa) ti ri
                          (fun cs => match cs with
                                     | [] => Err IndexError
                                     | _ :: r => Ok (copy_node src :: r)
                                     end) ;;
               Ok (set_tree root' sa)
           | _, _ => Ok sa
           end
         else Ok s) ;;
  (* horizontal merge *)
  span <- match dict_get s_gridSpan pr with
          | Some (Some g) => of_opt ValueError (int_of_str g)
          | _ => Ok 1%Z
          end ;;
  let n := Z.to_nat (span - 1) in
  (fix loop (n : nat) (s : cst) : res cst :=
     match n with
     | O => Ok s
     | S k =>
         sa <- set_caret (Some 3%nat) None s ;;
         root' <- upd_row (c_tree sa) ti ri
                    (fun cs =>
                       (* if do_merge and this_tr: copy the cell to the left; else a blank cell *)
                       if env_dup v then
                         match cs with
                         | [] => Ok (NL [NP new_empty_par] :: cs)
                         | c :: _ => Ok (copy_node c :: cs)
                         end
                       else Ok (NL [NP new_empty_par] :: cs)) ;;
         loop k (set_tree root' sa)
     end) n s1
  end end.

(* ---------- final tree in natural (oldest-first) order ---------- *)
Fixpoint unrev (n : node) : node :=
  match n with
  | NP p => NP p
  | NL l => NL (rev (map unrev l))
  end.
Definition unrev_list (l : list node) : list node := rev (map unrev l).
