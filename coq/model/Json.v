(* Json.v — the interchange format between harness and model: JSON arrays of
   non-negative integers, nested.  Parser and printer are Gallina so that the
   extracted driver and `Eval vm_compute` evaluate exactly the same glue. *)
From Coq Require Import List NArith Bool.
From D2P Require Import Str.
Import ListNotations.
Open Scope N_scope.

Inductive jt := JN (n : N) | JL (l : list jt).

(* ---- printer ---- *)
Fixpoint print_jt (t : jt) : str :=
  match t with
  | JN n => str_of_N n
  | JL l =>
      let fix go (l : list jt) : str :=
        match l with
        | [] => []
        | [x] => print_jt x
        | x :: r => print_jt x ++ 44 :: go r
        end in
      91 :: go l ++ [93]
  end.

(* ---- parser: stack machine over characters, structural on the input ----
   stack = list of partially built arrays (reversed), innermost first.
   num = digits seen so far for a pending number. *)
Definition push_item (x : jt) (stack : list (list jt)) : option (list (list jt)) :=
  match stack with
  | [] => None
  | top :: rest => Some ((x :: top) :: rest)
  end.

Definition flush_num (num : option N) (stack : list (list jt))
  : option (list (list jt)) :=
  match num with
  | None => Some stack
  | Some n => push_item (JN n) stack
  end.

(* result: when the outermost array closes we put it in `done` *)
Fixpoint parse_go (s : str) (num : option N) (stack : list (list jt))
         (done : option jt) : option jt :=
  match s with
  | [] => match num, stack with None, [] => done | _, _ => None end
  | c :: s' =>
      if is_digit c then
        match done with
        | Some _ => None
        | None =>
          parse_go s' (Some (match num with None => c - 48 | Some n => n * 10 + (c - 48) end))
                   stack done
        end
      else if N.eqb c 91 (* [ *) then
        match num, done with
        | None, None => parse_go s' None ([] :: stack) None
        | _, _ => None
        end
      else if N.eqb c 93 (* ] *) then
        match flush_num num stack with
        | Some (top :: rest) =>
            let arr := JL (rev top) in
            match rest with
            | [] => parse_go s' None [] (Some arr)
            | _ => match push_item arr rest with
                   | Some st' => parse_go s' None st' None
                   | None => None
                   end
            end
        | _ => None
        end
      else if N.eqb c 44 (* , *) then
        match flush_num num stack with
        | Some st' => parse_go s' None st' done
        | None => None
        end
      else if is_space c then
        match flush_num num stack with
        | Some st' => parse_go s' None st' done
        | None => None
        end
      else None
  end.

Definition parse_jt (s : str) : option jt := parse_go s None [] None.

(* ---- helpers to build / take apart jt values ---- *)
Definition jstr (s : str) : jt := JL (map JN s).
Definition jnat (n : nat) : jt := JN (N.of_nat n).
Definition jbool (b : bool) : jt := JN (if b then 1 else 0).
Definition jlist {A} (f : A -> jt) (l : list A) : jt := JL (map f l).
Definition jopt {A} (f : A -> jt) (o : option A) : jt :=
  match o with None => JL [] | Some a => JL [f a] end.

Fixpoint all_nums (l : list jt) : option (list N) :=
  match l with
  | [] => Some []
  | JN n :: r => match all_nums r with Some ns => Some (n :: ns) | None => None end
  | _ => None
  end.
Definition get_str (t : jt) : option str :=
  match t with JL l => all_nums l | JN _ => None end.
Definition get_N (t : jt) : option N := match t with JN n => Some n | _ => None end.
Definition get_bool (t : jt) : option bool :=
  match t with JN 0 => Some false | JN 1 => Some true | _ => None end.
Definition get_list (t : jt) : option (list jt) :=
  match t with JL l => Some l | _ => None end.
Definition get_opt {A} (f : jt -> option A) (t : jt) : option (option A) :=
  match t with
  | JL [] => Some None
  | JL [x] => match f x with Some a => Some (Some a) | None => None end
  | _ => None
  end.
Fixpoint map_opt {A B} (f : A -> option B) (l : list A) : option (list B) :=
  match l with
  | [] => Some []
  | x :: r => match f x, map_opt f r with
              | Some y, Some ys => Some (y :: ys)
              | _, _ => None
              end
  end.
