(* Fmt.v — text_runs.py: gather_Pr, _format_Pr_into_html, html_open/close,
   run / paragraph formatting *)
From Coq Require Import List NArith Bool.
From D2P Require Import Str Err Xml TableTypes Tables.
Import ListNotations.
Open Scope N_scope.

(* insertion-ordered dict with str keys *)
Fixpoint dict_set {V} (k : str) (v : V) (d : list (str * V)) : list (str * V) :=
  match d with
  | [] => [(k, v)]
  | (k', v') :: r => if str_eqb k k' then (k, v) :: r else (k', v') :: dict_set k v r
  end.
Fixpoint dict_get {V} (k : str) (d : list (str * V)) : option V :=
  match d with
  | [] => None
  | (k', v) :: r => if str_eqb k k' then Some v else dict_get k r
  end.
Fixpoint dict_del {V} (k : str) (d : list (str * V)) : list (str * V) :=
  match d with
  | [] => []
  | (k', v) :: r => if str_eqb k k' then r else (k', v) :: dict_del k r
  end.

Definition s_val : str := [118; 97; 108].          (* "val" *)
Definition s_Pr : str := [80; 114].                (* "Pr" *)
Definition s_pStyle : str := [112; 83; 116; 121; 108; 101].

(* _gather_sub_vals(element, str(element.tag) + "Pr") *)
Definition sub_val_of (t : anode) : res (str * option str) :=
  match t with
  | AX _ => Err KeyError                           (* comment.nsmap['w'] *)
  | AE e _ =>
      v <- attr_w e s_val ;;
      Ok (e_local e,
          match v with
          | Some (c :: s) => Some (c :: s)
          | _ => None
          end)
  end.

Definition gather_Pr (e : einfo) (ks : list anode) : res (list (str * option str)) :=
  match find_child (e_uri e) (e_local e ++ s_Pr) ks with
  | None => Ok []
  | Some pr =>
      foldM (fun d k =>
               match k with
               | AX _ => Ok d                       (* comment or PI: skipped *)
               | AE _ _ => '(n, v) <- sub_val_of k ;; Ok (dict_set n v d)
               end) (kids_of pr) []
  end.

Definition get_pStyle (e : einfo) (ks : list anode) : res str :=
  d <- gather_Pr e ks ;;
  Ok (match dict_get s_pStyle d with
      | Some (Some s) => s
      | _ => []
      end).

(* one-line formatter bodies *)
Definition eval_fpart (tag val : str) (p : fpart) : res str :=
  match p with
  | FLit s => Ok s
  | FTag => Ok tag
  | FVal => Ok val
  | FValPrefix n => Ok (firstn n val)
  | FTagLast => match last_opt tag with Some c => Ok [c] | None => Err IndexError end
  end.
Definition eval_fexpr (f : fexpr) (tag val : str) : res str :=
  parts <- mapM (eval_fpart tag val) f ;; Ok (concat parts).

Definition xml2html := list (str * hformatter).

(* group formatted strings by (container, property), first-seen order *)
Definition cp_key := (option str * option str)%type.
Definition cp_eqb (a b : cp_key) : bool :=
  ostr_eqb (fst a) (fst b) && ostr_eqb (snd a) (snd b).
Fixpoint cp_add (k : cp_key) (v : str) (d : list (cp_key * list str))
  : list (cp_key * list str) :=
  match d with
  | [] => [(k, [v])]
  | (k', vs) :: r => if cp_eqb k k' then (k', vs ++ [v]) :: r else (k', vs) :: cp_add k v r
  end.

Definition ostr_leb (a b : option str) : bool :=
  match a, b with
  | None, _ => true
  | Some _, None => false
  | Some x, Some y => str_leb x y
  end.
Definition cp_leb (a b : cp_key * list str) : bool :=
  match fst a, fst b with
  | (c1, p1), (c2, p2) =>
      if ostr_eqb c1 c2 then ostr_leb p1 p2 else ostr_leb c1 c2
  end.

(* second grouping: container -> list of  prop="v1;v2"  *)
Definition s_semicolon : str := [59].
Definition s_space : str := [32].
Definition prop_string (p : str) (vs : list str) : str :=
  p ++ [61; 34] ++ join s_semicolon (sort_strs vs) ++ [34].

(* `val in _OFF_VALUES`: the property is explicitly switched off *)
Definition is_off (val : option str) : bool :=
  match val with
  | Some s => existsb (str_eqb s) off_values
  | None => false
  end.

Definition format_Pr_into_html (pr : list (str * option str)) (x2h : xml2html)
  : res (list str) :=
  cp <- foldM (fun d kv =>
                 match dict_get (fst kv) x2h with
                 | None => Ok d
                 | Some hf =>
                     if is_off (snd kv) then Ok d else
                     s <- eval_fexpr (hf_expr hf) (fst kv) (ostr (snd kv)) ;;
                     Ok (cp_add (hf_container hf, hf_property hf) s d)
                 end) pr [] ;;
  let with_prop := sort_by cp_leb
                     (filter (fun kv => match snd (fst kv) with Some _ => true | None => false end) cp) in
  let con2 := fold_left
                (fun d kv =>
                   match fst kv with
                   | (c, Some p) =>
                       let ck := ostr c in
                       let item := prop_string p (snd kv) in
                       match dict_get ck d with
                       | Some items => dict_set ck (items ++ [item]) d
                       | None => dict_set ck [item] d
                       end
                   | _ => d
                   end) with_prop [] in
  let con2s := sort_by (fun a b => str_leb (fst a) (fst b))
                 (filter (fun kv => match fst kv with [] => false | _ => true end) con2) in
  let spans := map (fun kv => fst kv ++ s_space ++ join s_space (snd kv)) con2s in
  let bare := match find (fun kv => cp_eqb (fst kv) (None, None)) cp with
              | Some (_, vs) => sort_strs vs
              | None => []
              end in
  Ok (spans ++ bare).

Definition get_run_formatting (e : einfo) (ks : list anode) (x2h : xml2html)
  : res (list str) :=
  pr <- gather_Pr e ks ;; format_Pr_into_html pr x2h.

Definition get_paragraph_formatting (e : einfo) (ks : list anode) (x2h : xml2html)
  : res (list str) :=
  ps <- get_pStyle e ks ;; format_Pr_into_html [(ps, None)] x2h.

Definition get_html_formatting (e : einfo) (ks : list anode) (x2h : xml2html)
  : res (list str) :=
  if str_eqb (e_ptag e) tag_RUN then get_run_formatting e ks x2h
  else if str_eqb (e_ptag e) tag_PARAGRAPH then get_paragraph_formatting e ks x2h
  else Ok [].

(* html_open / html_close *)
Definition html_open (style : list str) : str :=
  concat (map (fun x => 60 :: x ++ [62]) style).
Definition first_word (s : str) : res str :=
  match words s with w :: _ => Ok w | [] => Err IndexError end.
Definition html_close (style : list str) : res str :=
  ws <- mapM first_word (rev style) ;;
  Ok (concat (map (fun w => 60 :: 47 :: w ++ [62]) ws)).
