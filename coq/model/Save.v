(* Save.v — DocxReader.save / _copy_but, and utilities.replace_root_text *)
From Coq Require Import List NArith ZArith Bool Arith.
From D2P Require Import Str Err Xml TableTypes Tables Fmt Bullets Merge Collector Walk Iter
     Output Paths Package Content.
Import ListNotations.
Open Scope N_scope.

(* a member of the written archive *)
Inductive wmember :=
| WCopy (idx : nat)          (* the idx-th member of the input, bytes and ZipInfo unchanged *)
| WXml (t : anode).          (* etree.tostring(file.root_element) *)

Fixpoint index_members (a : archive) (i : nat) : list (nat * str) :=
  match a with
  | [] => []
  | (n, _) :: r => (i, n) :: index_members r (S i)
  end.

(* `roots f` = the cached (possibly edited) root_element of a rewritten part *)
Definition save_with (a : archive) (fs : list frec) (roots : frec -> res anode)
  : res (list (str * wmember)) :=
  let content := filter (fun f => mem_str (f_type f) save_overwrite_types) fs in
  (* by_path = {x.path: x for x in content_files}: one entry per path, at the
     position of its first File, holding its LAST File *)
  let by_path := fold_left (fun d f => dict_set (f_path f) f d) content [] in
  let excl := map fst by_path in
  let copied := map (fun ix => (snd ix, WCopy (fst ix)))
                    (filter (fun ix => negb (mem_str (snd ix) excl)) (index_members a 0%nat)) in
  written <- mapM (fun pf => t <- roots (snd pf) ;; Ok (fst pf, WXml t)) by_path ;;
  Ok (copied ++ written).

Definition save (a : archive) (o : opts) : res (list (str * wmember)) :=
  fs <- files a ;;
  save_with a fs (part_root a fs o).

(* ---------- utilities.replace_root_text ---------- *)
Fixpoint interleave {A} (sep : A) (l : list A) : list A :=
  match l with
  | [] => []
  | [x] => [x]
  | x :: r => x :: sep :: interleave sep r
  end.

Definition s_br : str := [98; 114].
Definition br_of (e : einfo) (wuri : str) : anode :=
  AE {| e_ptag := prefixed (Some s_w) s_br; e_uri := Some wuri; e_local := s_br;
        e_wuri := Some wuri; e_ruri := e_ruri e; e_attrs := []; e_text := None; e_tail := None |} [].

Definition with_text (e : einfo) (tx : str) : einfo :=
  {| e_ptag := e_ptag e; e_uri := e_uri e; e_local := e_local e; e_wuri := e_wuri e;
     e_ruri := e_ruri e; e_attrs := e_attrs e; e_text := Some tx; e_tail := e_tail e |}.

(* the nodes that take the place of one child after replacement *)
Fixpoint replace_node (old new : str) (k : anode) : res (list anode) :=
  match k with
  | AX tl => Ok [AX tl]
  | AE e eks =>
      let kids' :=
        (fix go (l : list anode) : res (list anode) :=
           match l with
           | [] => Ok []
           | x :: r => a <- replace_node old new x ;; b <- go r ;; Ok (a ++ b)
           end) eks in
      match e_text e with
      | Some (c :: tx) =>
          (* only text the extraction shows (w:t, m:t) is replaced (fix D33): a break beside deleted text or a
             field code would be extracted as a newline *)
          if (contains old (c :: tx) && is_text_like e)%bool then
            wuri <- of_opt KeyError (e_wuri e) ;;
            let lines := split_nl (replace old new (c :: tx)) in
            Ok (interleave (br_of e wuri) (map (fun l => AE (with_text e l) eks) lines))
          else eks' <- kids' ;; Ok [AE e eks']
      | _ => eks' <- kids' ;; Ok [AE e eks']
      end
  end.

Definition replace_kids (old new : str) (ks : list anode) : res (list anode) :=
  xs <- mapM (replace_node old new) ks ;; Ok (concat xs).

Definition replace_root_text (old new : str) (root : anode) : res anode :=
  match root with
  | AX tl => Ok (AX tl)
  | AE e ks => ks' <- replace_kids old new ks ;; Ok (AE e ks')
  end.

(* replace_docx_text: every content part's merged root, the pairs applied in order *)
Definition replace_all (pairs : list (str * str)) (root : anode) : res anode :=
  foldM (fun t p => replace_root_text (fst p) (snd p) t) pairs root.

Definition replace_docx (a : archive) (o : opts) (pairs : list (str * str))
  : res (list (str * wmember)) :=
  fs <- files a ;;
  save_with a fs (fun f =>
    t <- part_root a fs o f ;;
    if mem_str (f_type f) content_file_types then replace_all pairs t else Ok t).
