(* Driver.v — entry point evaluated by the extracted driver and by
   vm_compute: one JSON case in, one JSON observation out *)
From Coq Require Import List NArith ZArith Bool.
From D2P Require Import Str Err Json Xml TableTypes Tables Fmt NumFmt Bullets Merge
     Collector Walk Iter Output Codec Paths Package Content Lifecycle Save Utilities Fs.
Import ListNotations.
Open Scope N_scope.

Fixpoint enc_anode (t : anode) : jt :=
  match t with
  | AX tl => JL [JN 0; enc_ostr tl]
  | AE e ks =>
      JL [JN 1; enc_ostr (e_uri e); jstr (e_local e);
          jlist (fun kv => JL [enc_ostr (fst (fst kv)); jstr (snd (fst kv)); jstr (snd kv)])
                (e_attrs e);
          enc_ostr (e_text e); enc_ostr (e_tail e); JL (map enc_anode ks)]
  end.

(* observation of one content part: merged tree, three views, comment ranges *)
Definition observe_part (v : env) (root : rnode) : res jt :=
  m <- merge_elems v (view root) ;;
  s <- collect_from v [] m ;;
  let html := html_on v in
  let pv := pars_view s in
  pj <- enc_rose (enc_par html) pv ;;
  rv <- get_par_strings html pv ;;
  rj <- enc_rose (fun s => Ok (jstr s)) rv ;;
  tv <- join_runs rv ;;
  tj <- enc_rose (fun s => Ok (jstr s)) tv ;;
  Ok (JL [enc_anode m; pj; rj; tj; enc_ranges (c_ranges s)]).

(* File.get_content(root) / get_text(root) with a given element of the (merged) tree:
   new_depth_collector(file, root) -- a fresh collector walked from that element *)
Fixpoint subtree (t : anode) (p : list nat) : option anode :=
  match p with
  | [] => Some t
  | i :: r =>
      match t with
      | AE _ ks => match nth_error ks i with Some k => subtree k r | None => None end
      | AX _ => None
      end
  end.

Definition observe_part_at (v : env) (root : rnode) (path : list nat) : res jt :=
  m <- merge_elems v (view root) ;;
  sub <- of_opt IndexError (subtree m path) ;;
  s <- collect_from v (rev path) sub ;;
  let html := html_on v in
  let pv := pars_view s in
  pj <- enc_rose (enc_par html) pv ;;
  rv <- get_par_strings html pv ;;
  rj <- enc_rose (fun s => Ok (jstr s)) rv ;;
  Ok (JL [pj; rj]).

Definition enc_enum (l : list (list nat * rose N)) : jt :=
  jlist (fun ax => JL [jlist jnat (fst ax); enc_rose_plain (snd ax)]) l.

Definition numfn_of_N (n : N) : option numfn :=
  match n with
  | 0 => Some NFDecimal | 1 => Some NFLowerLetter | 2 => Some NFUpperLetter
  | 3 => Some NFLowerRoman | 4 => Some NFUpperRoman | 5 => Some NFBullet
  | _ => None
  end.

Definition bad_case : jt := JL [JN 2].

(* ---------- whole packages ---------- *)
Definition dec_member (t : jt) : option (str * member) :=
  match t with
  | JL [n; JL [JN 0; r]] => n' <~ get_str n ;; r' <~ dec_rnode r ;; Some (n', MXml r')
  | JL [n; JL [JN 1; JN id]] => n' <~ get_str n ;; Some (n', MRaw id)
  | _ => None
  end.
Definition dec_archive (t : jt) : option archive :=
  obind (get_list t) (map_opt dec_member).

Definition enc_frec (f : frec) : jt :=
  JL [jstr (f_id f); jstr (f_type f); jstr (f_target f); jstr (f_dir f); jstr (f_path f)].

Definition enc_str_rose (t : rose str) : res jt := enc_rose (fun s => Ok (jstr s)) t.

Definition observe_type (a : archive) (o : opts) (ty : str) : jt :=
  enc_res (p <- pars_of a o ty ;;
           pj <- enc_rose (enc_par (o_html o)) p ;;
           r <- get_par_strings (o_html o) p ;;
           rj <- enc_str_rose r ;;
           t <- join_runs r ;;
           tj <- enc_str_rose t ;;
           Ok (JL [pj; rj; tj])).

Definition observe_package (a : archive) (o : opts) : jt :=
  JL [enc_res (fs <- files a ;; Ok (jlist enc_frec fs));
      jlist (observe_type a o) part_order;
      enc_res (s <- text a o ;; Ok (jstr s));
      enc_res (c <- core_properties a ;;
               Ok (jopt (jlist (fun kv => JL [jstr (fst kv); enc_ostr (snd kv)])) c));
      enc_res (i <- images a ;; Ok (jlist (fun kv => JL [jstr (fst kv); JN (snd kv)]) i));
      enc_res (c <- comments a o ;;
               Ok (jopt (jlist (fun q => match q with (r, au, d, t) =>
                                           JL [jstr r; jstr au; jstr d; jstr t] end)) c))].

(* ---------- lifecycle, save, replace ---------- *)
Definition dec_attr (t : jt) : option attr :=
  match t with
  | JL [JN 0; ty] => ty' <~ get_str ty ;; Some (APars ty')
  | JL [JN 1; ty] => ty' <~ get_str ty ;; Some (ARuns ty')
  | JL [JN 2; ty] => ty' <~ get_str ty ;; Some (APlain ty')
  | JL [JN 3] => Some ADocPars | JL [JN 4] => Some ADocRuns | JL [JN 5] => Some ADoc
  | JL [JN 6] => Some AText | JL [JN 7] => Some AHtmlMap | JL [JN 8] => Some AImages
  | JL [JN 9] => Some ACore | JL [JN 10] => Some AComments
  | _ => None
  end.
Definition dec_op (t : jt) : option op :=
  match t with
  | JL [JN 0; a] => a' <~ dec_attr a ;; Some (OpRead a')
  | JL [JN 1] => Some OpSaveImages
  | JL [JN 2] => Some OpSave
  | JL [JN 3] => Some OpClose
  | JL [JN 4; b] => b' <~ get_bool b ;; Some (OpExit b')
  | _ => None
  end.
Definition enc_outcome (x : outcome) : jt :=
  match x with
  | OVal => JL [JN 0]
  | OErr e => JL [JN 1; jnat (exn_code e)]
  | ONone => JL [JN 2]
  end.
Definition enc_zip (z : zipstate) : jt :=
  JN (match z with ZNone => 0 | ZOpen => 1 | ZClosed => 2 end).

Definition enc_wmembers (l : list (str * wmember)) : jt :=
  jlist (fun nm => JL [jstr (fst nm);
                       match snd nm with
                       | WCopy i => JL [JN 0; jnat i]
                       | WXml t => JL [JN 1; enc_anode t]
                       end]) l.

Definition run_case (c : jt) : jt :=
  match c with
  | JL [JN 1; html; dup; rels; numtbl; root] =>
      match dec_env html dup rels numtbl, dec_rnode root with
      | Some v, Some r => enc_res (observe_part v r)
      | _, _ => bad_case
      end
  | JL [JN 12; html; dup; rels; numtbl; root; JL path] =>
      match dec_env html dup rels numtbl, dec_rnode root, all_nums path with
      | Some v, Some r, Some p => enc_res (observe_part_at v r (map N.to_nat p))
      | _, _, _ => bad_case
      end
  | JL [JN 2; JN depth; nested] =>
      let t := dec_rose nested in
      JL [enc_res (r <- enum_at_depth t (N.to_nat depth) ;; Ok (enc_enum r));
          enc_res (r <- iter_at_depth t (N.to_nat depth) ;; Ok (jlist enc_rose_plain r))]
  | JL [JN 3; JN fn; z] =>
      match numfn_of_N fn, dec_Z z with
      | Some f, Some z => enc_res (s <- apply_numfn f z ;; Ok (jstr s))
      | _, _ => bad_case
      end
  | JL [JN 5; html; dup; arch] =>
      match get_bool html, get_bool dup, dec_archive arch with
      | Some h, Some d, Some a => observe_package a {| o_html := h; o_dup := d |}
      | _, _, _ => bad_case
      end
  | JL [JN 7; html; dup; arch; JL ops] =>
      match get_bool html, get_bool dup, dec_archive arch, map_opt dec_op ops with
      | Some h, Some d, Some a, Some xs =>
          let o := {| o_html := h; o_dup := d |} in
          match files a with
          | Ok fs =>
              let '(st, outs) := run_ops a o fs l_init xs in
              JL [JN 0; jlist enc_outcome outs; enc_zip (l_zip st); jbool (l_closed st)]
          | Err e => enc_exn e
          end
      | _, _, _, _ => bad_case
      end
  | JL [JN 8; html; dup; arch] =>
      match get_bool html, get_bool dup, dec_archive arch with
      | Some h, Some d, Some a =>
          enc_res (l <- save a {| o_html := h; o_dup := d |} ;; Ok (enc_wmembers l))
      | _, _, _ => bad_case
      end
  | JL [JN 9; html; arch; JL pairs] =>
      match get_bool html, dec_archive arch, map_opt dec_pair_str pairs with
      | Some h, Some a, Some ps =>
          enc_res (l <- replace_docx a {| o_html := h; o_dup := true |} ps ;; Ok (enc_wmembers l))
      | _, _, _ => bad_case
      end
  | JL [JN 6; dir; target] =>
      match get_str dir, get_str target with
      | Some d, Some t => JL [jstr (file_path d t); jstr (rels_path (file_path d t));
                              jstr (path_name t); jstr (dir_of_member t)]
      | _, _ => bad_case
      end
  | JL [JN 10; arch] =>
      match dec_archive arch with
      | Some a =>
          JL [enc_res (l <- get_links a ;;
                       Ok (jlist (fun ht => JL [jstr (fst ht); jstr (snd ht)]) l));
              enc_res (l <- get_headings a ;; Ok (jlist (jlist jstr) l))]
      | None => bad_case
      end
  | JL [JN 11; s] =>
      match get_str s with
      | Some s' => JL [jopt (fun ht => JL [jstr (fst ht); jstr (snd ht)]) (link_match s');
                       jbool (heading_match s')]
      | None => bad_case
      end
  | JL [JN 13; arch; folder; JL dirs; JL files] =>
      (* save_images / image folder: the file system afterwards (model/Fs.v) *)
      let dec_path t := match t with JL segs => map_opt get_str segs | _ => None end in
      let dec_file t := match t with
                        | JL [pth; JN b] => match dec_path pth with Some q => Some (q, b) | None => None end
                        | _ => None
                        end in
      match dec_archive arch, get_opt dec_path folder, map_opt dec_path dirs, map_opt dec_file files with
      | Some a, Some fo, Some ds, Some fl =>
          let enc_path q := jlist jstr q in
          enc_res (r <- pull_image_files (images a) fo {| fs_dirs := ds; fs_files := fl |} ;;
                   Ok (JL [jlist (fun kv => JL [jstr (fst kv); JN (snd kv)]) (fst r);
                           jopt (fun fs' => JL [jlist enc_path (fs_dirs fs');
                                                jlist (fun pb => JL [enc_path (fst pb); JN (snd pb)]) (fs_files fs')])
                                (snd r)]))
      | _, _, _, _ => bad_case
      end
  | JL [JN 4; nested] =>
      match dec_rose_str nested with
      | Some t => enc_res (s <- get_html_map t ;; Ok (jstr s))
      | None => bad_case
      end
  | _ => bad_case
  end.

Definition run_line (line : str) : str :=
  match parse_jt line with
  | Some c => print_jt (run_case c)
  | None => print_jt bad_case
  end.
