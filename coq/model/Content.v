(* Content.v — docx_output.DocxContent: the public attributes as functions of
   (archive, options) *)
From Coq Require Import List NArith ZArith Bool Arith.
From D2P Require Import Str Err Xml TableTypes Tables Fmt Bullets Merge Collector Walk Iter
     Output Paths Package.
Import ListNotations.
Open Scope N_scope.

Definition s_header : str := [104;101;97;100;101;114].
Definition s_footer : str := [102;111;111;116;101;114].
Definition s_officeDocument : str := [111;102;102;105;99;101;68;111;99;117;109;101;110;116].
Definition s_footnotes : str := [102;111;111;116;110;111;116;101;115].
Definition s_endnotes : str := [101;110;100;110;111;116;101;115].
Definition s_comments : str := [99;111;109;109;101;110;116;115].
Definition s_core_properties : str := [99;111;114;101;45;112;114;111;112;101;114;116;105;101;115].
Definition s_image : str := [105;109;97;103;101].
Definition s_author : str := [97;117;116;104;111;114].
Definition s_date : str := [100;97;116;101].

Section Content.
  Variable a : archive.
  Variable o : opts.

  (* _get_pars(type_): concatenation, over the files of that type in path
     order, of the top-level lists of their collectors *)
  Definition get_pars (ty : str) : res (list (rose par)) :=
    fs <- files a ;;
    xs <- mapM (fun f => s <- part_collector a fs o f ;;
                         Ok (map rose_of_node (unrev_list (c_tree s))))
               (files_of_type fs ty) ;;
    Ok (concat xs).

  Definition pars_of (ty : str) : res (rose par) := l <- get_pars ty ;; Ok (RL l).
  Definition runs_of (ty : str) : res (rose str) :=
    p <- pars_of ty ;; get_par_strings (o_html o) p.
  Definition plain_of (ty : str) : res (rose str) :=
    r <- runs_of ty ;; join_runs r.

  Definition part_order : list str :=
    [s_header; s_officeDocument; s_footer; s_footnotes; s_endnotes].

  Definition app_rose {A} (x y : rose A) : res (rose A) :=
    match x, y with
    | RL l1, RL l2 => Ok (RL (l1 ++ l2))
    | _, _ => Err TypeError
    end.

  (* document_pars / document_runs / document: each is the concatenation of
     the five attributes of the same form, evaluated in that order *)
  Definition document_of {A} (attr : str -> res (rose A)) : res (rose A) :=
    foldM (fun acc ty => x <- attr ty ;; app_rose acc x) part_order (RL []).

  Definition document_pars := document_of pars_of.
  Definition document_runs := document_of runs_of.
  Definition document := document_of plain_of.

  Definition text : res str := r <- document_runs ;; flatten_text r.

  (* core_properties: {localname(x): x.text for x in root}; None = warning + {} *)
  Definition core_properties : res (option (list (str * option str))) :=
    fs <- files a ;;
    match files_of_type fs s_core_properties with
    | [] => Ok None
    | f :: _ =>
        r <- member_xml a (f_path f) ;;
        match r with
        | RX _ => Err ModelError
        | RE _ _ _ _ _ _ _ kids =>
            d <- foldM (fun d k =>
                          match k with
                          | RE _ _ l _ _ tx _ _ => Ok (dict_set l tx d)
                          | RX _ => Err ModelError        (* random FAILED-uuid key *)
                          end) kids [] ;;
            Ok (Some d)
        end
    end.

  (* images: {Path(Target).name: payload id} over image relationships whose
     member exists *)
  Definition images : res (list (str * N)) :=
    fs <- files a ;;
    foldM (fun d f =>
             match zread a (f_path f) with
             | None => Ok d
             | Some (MRaw id) => Ok (dict_set (path_name (f_target f)) id d)
             | Some (MXml _) => Err ModelError     (* harness sends images as raw *)
             end) (files_of_type fs s_image) [].

  (* comments *)
  Definition comments : res (option (list (str * str * str * str))) :=
    (* Some l = value; None = [] with the length-mismatch warning *)
    fs <- files a ;;
    match files_of_type fs s_officeDocument with
    | [] => Err KeyError
    | od :: _ =>
        dc <- part_collector a fs o od ;;
        let ranges := c_ranges dc in
        (* docx_reader.comments: [] when there is no comments part *)
        celems <- match files_of_type fs s_comments with
                  | [] => Ok []
                  | cf :: _ =>
                      r <- part_root a fs o cf ;;
                      (* XML comments / PIs between the entries are skipped *)
                      Ok (filter (fun k => match k with AE _ _ => true | AX _ => false end) (kids_of r))
                  end ;;
        if negb (Nat.eqb (length ranges) (length celems)) then Ok None
        else
          match celems, files_of_type fs s_comments with
          | [], _ => Ok (Some [])
          | _, [] => Ok (Some [])
          | _, cf :: _ =>
              all_pars <- pars_at 4%nat (c_tree dc) ;;
              all_runs <- mapM (par_run_strings (o_html o)) all_pars ;;
              let all_runs := concat all_runs in
              cenv <- part_env a fs o cf ;;
              cs <- mapiM (fun i c =>
                      match c with
                      | AX _ => Err KeyError            (* comment.nsmap['w'] *)
                      | AE e ks =>
                          id <- attr_w_req e s_id ;;
                          author <- attr_w_req e s_author ;;
                          date <- attr_w e s_date ;;
                          sc <- collect_from cenv [i] c ;;
                          ps <- pars_at 4%nat (c_tree sc) ;;
                          pss <- mapM (par_run_strings (o_html o)) ps ;;
                          let ctext := join s_nn (map (@concat N) pss) in
                          '(b, e') <- of_opt KeyError (dict_get id ranges) ;;
                          let ref := concat (firstn (e' - b) (skipn b all_runs)) in
                          Ok (ref, author, ostr date, ctext)
                      end) celems ;;
              Ok (Some cs)
          end
    end.
End Content.
