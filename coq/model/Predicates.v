(* Predicates.v — iterators.is_tbl / is_tr / is_tc on the record view *)
From Coq Require Import List NArith Bool.
From D2P Require Import Str Err Xml Merge Collector Iter Output.
Import ListNotations.
Open Scope N_scope.

Definition s_tbl : str := [116; 98; 108].
Definition s_tr : str := [116; 114].
Definition s_tc : str := [116; 99].

Definition lin_slot (i : nat) (l : lineage) : option str :=
  match l with
  | (a, b, c, d) =>
      match i with 1%nat => a | 2%nat => b | 3%nat => c | 4%nat => d | _ => None end
  end.

(* next(iter_at_depth(x, d)).lineage[i] == name ; StopIteration -> False *)
Definition first_par_has (x : rose par) (depth : nat) (i : nat) (name : str) : res bool :=
  ps <- iter_at_depth x depth ;;
  match ps with
  | [] => Ok false
  | RA p :: _ => Ok (ostr_eqb (lin_slot i (p_lineage p)) (Some name))
  | RL _ :: _ => Err AttributeError
  end.

Definition is_tbl (x : rose par) : res bool := first_par_has x 3%nat 1%nat s_tbl.
Definition is_tr (x : rose par) : res bool := first_par_has x 2%nat 2%nat s_tr.
Definition is_tc (x : rose par) : res bool := first_par_has x 1%nat 3%nat s_tc.
