(* Bullets.v — bullets_and_numbering.py *)
From Coq Require Import List NArith ZArith Bool.
From D2P Require Import Str Err Xml TableTypes Tables Fmt NumFmt.
Import ListNotations.
Open Scope N_scope.

Record numattrs := { na_fmt : option str; na_start : option Z }.
Definition numtable := list (str * list numattrs).      (* numId2Attrs *)
Definition counters := list (str * list (str * N)).     (* numId2count *)

Definition s_pPr : str := [112; 80; 114].
Definition s_numPr : str := [110; 117; 109; 80; 114].
Definition s_numId : str := [110; 117; 109; 73; 100].
Definition s_ilvl : str := [105; 108; 118; 108].

(* try: next(iterfind_by_qn(x, "w:NAME")) except (StopIteration, KeyError): None *)
Definition first_child_w (t : anode) (name : str) : option anode :=
  match t with
  | AX _ => None
  | AE e ks =>
      match children_w e ks name with
      | Ok (x :: _) => Some x
      | _ => None
      end
  end.

Definition child_val_w (t : anode) (name : str) : option str :=
  match first_child_w t name with
  | Some (AE e _) =>
      match attr_w_req e s_val with Ok v => Some v | Err _ => None end
  | _ => None
  end.

(* get_bullet_fmt *)
Definition get_bullet_fmt (p : anode) : option str * option str :=
  match first_child_w p s_pPr with
  | None => (None, None)
  | Some ppr =>
      match first_child_w ppr s_numPr with
      | None => (None, None)
      | Some numpr => (child_val_w numpr s_numId, child_val_w numpr s_ilvl)
      end
  end.

(* _increment_list_counter: ilvl2count[ilvl] += 1; delete keys k > ilvl
   (string comparison) *)
Definition increment_list_counter (d : list (str * N)) (ilvl : str)
  : list (str * N) * N :=
  let c := match dict_get ilvl d with Some c => c + 1 | None => 1 end in
  let d1 := dict_set ilvl c d in
  (filter (fun kv => negb (str_ltb ilvl (fst kv))) d1, c).

(* Python list indexing with a possibly negative index *)
Definition py_nth {A} (l : list A) (i : Z) : option A :=
  let n := Z.of_nat (length l) in
  let j := if (i <? 0)%Z then (n + i)%Z else i in
  if (j <? 0)%Z || (n <=? j)%Z then None else nth_error l (Z.to_nat j).

(* __get_num_fmt_attributes *)
Definition get_num_fmt_attributes (tbl : numtable) (numId ilvl : str) : option numattrs :=
  match dict_get numId tbl, int_of_str ilvl with
  | Some lvls, Some i => py_nth lvls i
  | _, _ => None
  end.

Definition get_start_value_zero_based (tbl : numtable) (numId ilvl : str) : Z :=
  match get_num_fmt_attributes tbl numId ilvl with
  | Some {| na_start := Some s |} => (s - 1)%Z
  | _ => 0%Z
  end.

(* get_par_number on a paragraph not seen before (each paragraph element is
   opened once per walk; the second call in _open_paragraph hits the memo) *)
Definition get_par_number (tbl : numtable) (cs : counters) (fmt : option str * option str)
  : counters * option Z :=
  match fmt with
  | (Some numId, Some ilvl) =>
      let d := match dict_get numId cs with Some d => d | None => [] end in
      let '(d', c) := increment_list_counter d ilvl in
      (dict_set numId d' cs,
       Some (Z.of_N c + get_start_value_zero_based tbl numId ilvl)%Z)
  | _ => (cs, None)
  end.

Definition s_tab : str := [9].
Definition s_bullet_key : str := [98; 117; 108; 108; 101; 116].   (* "bullet" *)

(* get_bullet: string inserted at the start of the paragraph *)
Definition get_bullet (tbl : numtable) (fmt : option str * option str) (number : option Z)
  : res str :=
  match fmt, number with
  | (Some numId, Some ilvl), Some n =>
      let attrs := get_num_fmt_attributes tbl numId ilvl in
      let numFmt := match attrs with
                    | Some {| na_fmt := Some (c :: f) |} => c :: f
                    | _ => s_bullet_key
                    end in
      let fn := match dict_get numFmt numfmt_table with
                | Some f => f
                | None => NFBullet              (* + warning *)
                end in
      (* try: renderer(number) except ValueError: decimal(number) *)
      b <- match apply_numfn fn n with
           | Err ValueError => decimal n
           | r => r
           end ;;
      let b' := if str_eqb b bullet_str then b else b ++ [41] in
      lvl <- of_opt ValueError (int_of_str ilvl) ;;
      Ok (repeat_str s_tab (Z.to_nat lvl) ++ b' ++ s_tab)
  | _, _ => Ok []
  end.

(* get_list_position, evaluated after get_par_number *)
Definition get_list_position (cs : counters) (fmt : option str * option str)
  : option str * list N :=
  match fst fmt with
  | None => (None, [])
  | Some numId =>
      (Some numId, match dict_get numId cs with Some d => map snd d | None => [] end)
  end.
