(* Fs.v — the part of the file system that DocxReader.pull_image_files /
   DocxContent.save_images touch (C11: "exactly those files are written there with identical
   bytes, the folder being created if necessary, and nothing else is written").

   A file system is the set of directories that exist and the files with their content
   (payload ids, as everywhere in the model).  Paths are absolute and normalised: lists of
   segments below the root.  What pathlib / open() do is modelled, not verified:
     Path.mkdir(parents=True, exist_ok=True)  = [mkdir_parents]
     (dir / name).open("wb").write(bytes)     = [write_file]
   An OSError of any kind (a prefix of the folder is a file, the target is a directory, the
   parent is missing) is the outcome [None]. *)
From Coq Require Import List NArith Bool.
From D2P Require Import Str Err.
Import ListNotations.

Definition fpath := list str.

Fixpoint fpath_eqb (a b : fpath) : bool :=
  match a, b with
  | [], [] => true
  | x :: a', y :: b' => str_eqb x y && fpath_eqb a' b'
  | _, _ => false
  end.

Record fsys := { fs_dirs : list fpath; fs_files : list (fpath * N) }.

Definition is_dir (fs : fsys) (p : fpath) : bool :=
  match p with [] => true | _ => existsb (fpath_eqb p) (fs_dirs fs) end.

Fixpoint file_get (p : fpath) (l : list (fpath * N)) : option N :=
  match l with
  | [] => None
  | (q, b) :: r => if fpath_eqb p q then Some b else file_get p r
  end.
Definition is_file (fs : fsys) (p : fpath) : bool :=
  match file_get p (fs_files fs) with Some _ => true | None => false end.

Fixpoint file_set (p : fpath) (b : N) (l : list (fpath * N)) : list (fpath * N) :=
  match l with
  | [] => [(p, b)]
  | (q, c) :: r => if fpath_eqb p q then (q, b) :: r else (q, c) :: file_set p b r
  end.

(* all non-empty prefixes of a path, shortest first *)
Fixpoint prefixes_from (done : fpath) (p : fpath) : list fpath :=
  match p with
  | [] => []
  | x :: r => (done ++ [x]) :: prefixes_from (done ++ [x]) r
  end.
Definition prefixes (p : fpath) : list fpath := prefixes_from [] p.

(* Path.mkdir(parents=True, exist_ok=True) *)
Definition mkdir_parents (d : fpath) (fs : fsys) : option fsys :=
  if existsb (is_file fs) (prefixes d) then None        (* FileExistsError / NotADirectoryError *)
  else Some {| fs_dirs := fs_dirs fs ++ filter (fun q => negb (is_dir fs q)) (prefixes d);
               fs_files := fs_files fs |}.

Definition parent (p : fpath) : fpath := removelast p.

(* open(p, "wb").write(b): create or truncate *)
Definition write_file (p : fpath) (b : N) (fs : fsys) : option fsys :=
  match p with
  | [] => None                                           (* IsADirectoryError *)
  | _ =>
      if negb (is_dir fs (parent p)) then None           (* FileNotFoundError / NotADirectoryError *)
      else if is_dir fs p then None                      (* IsADirectoryError *)
      else Some {| fs_dirs := fs_dirs fs; fs_files := file_set p b (fs_files fs) |}
  end.

Fixpoint write_all (d : fpath) (imgs : list (str * N)) (fs : fsys) : option fsys :=
  match imgs with
  | [] => Some fs
  | (n, b) :: r =>
      match write_file (d ++ [n]) b fs with
      | Some fs' => write_all d r fs'
      | None => None
      end
  end.

(* the second half of pull_image_files: the images mapping has been computed already *)
Definition write_images (imgs : list (str * N)) (folder : option fpath) (fs : fsys) : option fsys :=
  match folder with
  | None => Some fs
  | Some d =>
      match mkdir_parents d fs with
      | Some fs1 => write_all d imgs fs1
      | None => None
      end
  end.

(* pull_image_files / save_images / docx2python(..., image_folder): the returned mapping and
   the file system afterwards.  [images] is Content.images of the archive: the returned value
   does not take the folder as an input at all (C19). *)
Definition pull_image_files (images : res (list (str * N))) (folder : option fpath) (fs : fsys)
  : res (list (str * N) * option fsys) :=
  imgs <- images ;; Ok (imgs, write_images imgs folder fs).
