(* Merge.v — attribute_register.has_content and merge_runs.merge_elems *)
From Coq Require Import List NArith Bool.
From D2P Require Import Str Err Xml TableTypes Tables Fmt.
Import ListNotations.
Open Scope N_scope.

Fixpoint mem_str (s : str) (l : list str) : bool :=
  match l with [] => false | x :: r => str_eqb s x || mem_str s r end.

Definition is_content (t : anode) : bool :=
  match t with AE e _ => mem_str (e_ptag e) content_tags | AX _ => false end.

Fixpoint has_content (t : anode) : bool :=
  match t with
  | AX _ => false
  | AE e ks =>
      mem_str (e_ptag e) content_tags
      || (fix any (l : list anode) : bool :=
            match l with [] => false | k :: r => has_content k || any r end) ks
  end.

Definition is_mergeable (e : einfo) : bool := mem_str (e_ptag e) mergeable_tags.
Definition is_text_like (e : einfo) : bool := mem_str (e_ptag e) text_tags.

(* environment of one part *)
Record env := {
  env_x2h : xml2html;                 (* XML2HTML_FORMATTER or {} *)
  env_rels : list (str * str);        (* file.rels : Id -> Target *)
  env_dup : bool;                     (* duplicate_merged_cells *)
  env_numtbl : list (str * list (option str * option Z)) }.  (* numId2Attrs *)

(* _elem_key : (tag, target, formatting) *)
Definition ekey := ((option str * str) * str * list str)%type.
Fixpoint strs_eqb (a b : list str) : bool :=
  match a, b with
  | [], [] => true
  | x :: a', y :: b' => str_eqb x y && strs_eqb a' b'
  | _, _ => false
  end.
Definition ekey_eqb (a b : ekey) : bool :=
  match a, b with
  | (t1, g1, f1), (t2, g2, f2) => aname_eqb t1 t2 && str_eqb g1 g2 && strs_eqb f1 f2
  end.

Definition s_id : str := [105; 100].

Definition elem_key (v : env) (e : einfo) (ks : list anode) : res ekey :=
  let tag := (e_uri e, e_local e) in
  if negb (is_mergeable e) then Ok (tag, [], [])
  else
    let rid := match e_ruri e with
               | None => None                       (* elem.nsmap.get("r") *)
               | Some u => alookup (Some u, s_id) (e_attrs e)
               end in
    let by_format := (f <- get_html_formatting e ks (env_x2h v) ;; Ok (tag, [], f)) in
    match rid with
    | Some (c :: r) =>
        match dict_get (c :: r) (env_rels v) with
        | Some tgt => Ok (tag, tgt, [])
        | None => by_format                         (* file.rels.get(...) is None *)
        end
    | _ => by_format
    end.

(* one pass over a sibling list.  State: output so far (reversed), and the
   open group: its key, whether its leader is mergeable, the leader under
   construction, the number of members, the texts of the members (for the
   text join), and the non-content siblings seen since the leader (reversed). *)
Record group := {
  g_key : ekey; g_merge : bool;
  g_e : einfo; g_kids : list anode;      (* leader *)
  g_n : nat; g_texts : list str;
  g_pending : list anode }.

Definition flush (g : option group) (out : list anode) : list anode :=
  match g with
  | None => out
  | Some g =>
      let e := g_e g in
      let e' := if (is_text_like e && Nat.ltb 1 (g_n g))%bool
                then {| e_ptag := e_ptag e; e_uri := e_uri e; e_local := e_local e;
                        e_wuri := e_wuri e; e_ruri := e_ruri e; e_attrs := e_attrs e;
                        e_text := Some (concat (g_texts g)); e_tail := e_tail e |}
                else e in
      g_pending g ++ AE e' (g_kids g) :: out
  end.

Fixpoint merge_sibs_go (v : env) (ks : list anode) (g : option group) (out : list anode)
  : res (list anode) :=
  match ks with
  | [] => Ok (rev (flush g out))
  | k :: r =>
      if negb (has_content k) then
        match g with
        | None => merge_sibs_go v r None (k :: out)
        | Some g0 =>
            merge_sibs_go v r
              (Some {| g_key := g_key g0; g_merge := g_merge g0; g_e := g_e g0;
                       g_kids := g_kids g0; g_n := g_n g0; g_texts := g_texts g0;
                       g_pending := k :: g_pending g0 |}) out
        end
      else
        match k with
        | AX _ => Err ModelError
        | AE e eks =>
            key <- elem_key v e eks ;;
            let fresh := Some {| g_key := key; g_merge := is_mergeable e; g_e := e;
                                 g_kids := eks; g_n := 1;
                                 g_texts := [ostr (e_text e)]; g_pending := [] |} in
            match g with
            | None => merge_sibs_go v r fresh out
            | Some g0 =>
                if (ekey_eqb (g_key g0) key && g_merge g0)%bool then
                  merge_sibs_go v r
                    (Some {| g_key := g_key g0; g_merge := true; g_e := g_e g0;
                             g_kids := g_kids g0 ++ eks; g_n := S (g_n g0);
                             g_texts := g_texts g0 ++ [ostr (e_text e)];
                             g_pending := g_pending g0 |}) out
                else merge_sibs_go v r fresh (flush g out)
            end
        end
  end.

Definition merge_sibs (v : env) (ks : list anode) : res (list anode) :=
  merge_sibs_go v ks None [].

(* merge_elems: siblings first, then each child of the new sibling list.
   fuel bounds the depth; merging never increases height *)
Fixpoint merge_fuel (fuel : nat) (v : env) (t : anode) : res anode :=
  match fuel with
  | O => Err ModelError
  | S f =>
      match t with
      | AX tl => Ok (AX tl)
      | AE e ks =>
          ks' <- merge_sibs v ks ;;
          ks'' <- mapM (merge_fuel f v) ks' ;;
          Ok (AE e ks'')
      end
  end.

Definition merge_elems (v : env) (t : anode) : res anode :=
  merge_fuel (S (height t)) v t.
