(* Xml.v — the XML infoset as lxml exposes it (rnode) and the view of it that
   docx2python's code can observe (anode). *)
From Coq Require Import List NArith Bool.
From D2P Require Import Str Err.
Import ListNotations.
Open Scope N_scope.

Definition ostr_eqb (a b : option str) : bool :=
  match a, b with
  | None, None => true
  | Some x, Some y => str_eqb x y
  | _, _ => false
  end.

Definition aname := (option str * str)%type.     (* (namespace uri, local) *)
Definition aname_eqb (a b : aname) : bool :=
  ostr_eqb (fst a) (fst b) && str_eqb (snd a) (snd b).

(* raw infoset: what lxml hands over after parsing *)
Inductive rnode :=
| RE (prefix : option str) (uri : option str) (local : str)
     (nsmap : list (option str * str))            (* in-scope prefix -> uri *)
     (attrs : list (aname * str))                 (* document order *)
     (text tail : option str) (kids : list rnode)
| RX (tail : option str).                         (* comment or PI *)

(* what the code ever looks at *)
Record einfo := {
  e_ptag : str;               (* f"{elem.prefix}:{localname}" *)
  e_uri : option str;
  e_local : str;
  e_wuri : option str;        (* elem.nsmap.get('w') *)
  e_ruri : option str;        (* elem.nsmap.get('r') *)
  e_attrs : list (aname * str);
  e_text : option str;
  e_tail : option str }.

Inductive anode :=
| AE (e : einfo) (kids : list anode)
| AX (tail : option str).

Fixpoint ns_lookup (p : option str) (m : list (option str * str)) : option str :=
  match m with
  | [] => None
  | (q, u) :: r => if ostr_eqb p q then Some u else ns_lookup p r
  end.

Definition s_None : str := [78; 111; 110; 101].    (* "None" *)
Definition prefixed (p : option str) (l : str) : str :=
  (match p with None => s_None | Some x => x end) ++ 58 :: l.

Definition s_w : str := [119].
Definition s_r : str := [114].

Fixpoint view (r : rnode) : anode :=
  match r with
  | RX tl => AX tl
  | RE p u l m a tx tl ks =>
      AE {| e_ptag := prefixed p l; e_uri := u; e_local := l;
            e_wuri := ns_lookup (Some s_w) m; e_ruri := ns_lookup (Some s_r) m;
            e_attrs := a; e_text := tx; e_tail := tl |}
         (map view ks)
  end.

(* ---- accessors used by the model of the code ---- *)
Fixpoint alookup (k : aname) (l : list (aname * str)) : option str :=
  match l with
  | [] => None
  | (k', v) :: r => if aname_eqb k k' then Some v else alookup k r
  end.

(* elem.attrib.get(qn(elem, "w:NAME")) : KeyError when 'w' is unbound *)
Definition attr_w (e : einfo) (name : str) : res (option str) :=
  match e_wuri e with
  | None => Err KeyError
  | Some u => Ok (alookup (Some u, name) (e_attrs e))
  end.
Definition attr_r (e : einfo) (name : str) : res (option str) :=
  match e_ruri e with
  | None => Err KeyError
  | Some u => Ok (alookup (Some u, name) (e_attrs e))
  end.
(* elem.attrib[qn(elem, "w:NAME")] *)
Definition attr_w_req (e : einfo) (name : str) : res str :=
  o <- attr_w e name ;; of_opt KeyError o.
Definition attr_r_req (e : einfo) (name : str) : res str :=
  o <- attr_r e name ;; of_opt KeyError o.
Definition attr_plain (e : einfo) (name : str) : option str :=
  alookup (None, name) (e_attrs e).

Definition kids_of (t : anode) : list anode :=
  match t with AE _ ks => ks | AX _ => [] end.

(* children with Clark tag {uri}local *)
Definition is_elem_named (u : option str) (l : str) (t : anode) : bool :=
  match t with
  | AE e _ => ostr_eqb (e_uri e) u && str_eqb (e_local e) l
  | AX _ => false
  end.
Definition find_children (u : option str) (l : str) (ks : list anode) : list anode :=
  filter (is_elem_named u l) ks.
Definition find_child (u : option str) (l : str) (ks : list anode) : option anode :=
  match find_children u l ks with [] => None | x :: _ => Some x end.

(* iterfind_by_qn(elem, "w:NAME") : qn raises KeyError when 'w' unbound *)
Definition children_w (e : einfo) (ks : list anode) (name : str) : res (list anode) :=
  match e_wuri e with
  | None => Err KeyError
  | Some u => Ok (find_children (Some u) name ks)
  end.

(* "".join(elem.itertext()): text of elements and tails of everything below
   (comments/PIs contribute their tail only) *)
Definition ostr (o : option str) : str := match o with None => [] | Some s => s end.

Fixpoint itertext_inner (t : anode) : str :=
  match t with
  | AX tl => ostr tl
  | AE e ks =>
      ostr (e_text e)
      ++ (fix go (l : list anode) : str :=
            match l with [] => [] | k :: r => itertext_inner k ++ go r end) ks
      ++ ostr (e_tail e)
  end.
(* the root's own tail is not included *)
Definition itertext (t : anode) : str :=
  match t with
  | AX _ => []
  | AE e ks => ostr (e_text e) ++ concat (map itertext_inner ks)
  end.

Fixpoint height (t : anode) : nat :=
  match t with
  | AX _ => 1
  | AE _ ks => S (fold_right (fun k m => Nat.max (height k) m) 0%nat ks)
  end.
