(* Output.v — the three views of extracted content (depth_collector.
   get_par_strings, docx_output._join_runs, docx_text.flatten_text) *)
From Coq Require Import List NArith Bool Arith.
From D2P Require Import Str Err Xml Merge Collector Iter.
Import ListNotations.
Open Scope N_scope.

(* the natural-order tree of a finished collector as a rose tree of records *)
Fixpoint rose_of_node (n : node) : rose par :=
  match n with
  | NP p => RA p
  | NL l => RL (map rose_of_node l)
  end.
Definition pars_view (s : cst) : rose par := RL (map rose_of_node (unrev_list (c_tree s))).

(* get_par_strings: four explicit loops, par.run_strings at the fourth level *)
Section Views.
  Variable html : bool.

  Definition gps_par (p : rose par) : res (rose str) :=
    match p with
    | RA p => ss <- par_run_strings html p ;; Ok (RL (map RA ss))
    | RL _ => Err AttributeError            (* list has no run_strings *)
    end.
  Definition gps_level {A B} (f : rose A -> res (rose B)) (t : rose A) : res (rose B) :=
    match t with
    | RL l => xs <- mapM f l ;; Ok (RL xs)
    | RA _ => Err TypeError                 (* Par is not iterable *)
    end.
  Definition get_par_strings (t : rose par) : res (rose str) :=
    gps_level (gps_level (gps_level (gps_level gps_par))) t.

  (* _join_runs *)
  Definition jr_par (p : rose str) : res (rose str) :=
    match p with
    | RL l => ss <- mapM leaf_str l ;; Ok (RA (concat ss))
    | RA s => Ok (RA s)                       (* "".join("abc") = "abc" *)
    end.
  Definition join_runs (t : rose str) : res (rose str) :=
    gps_level (gps_level (gps_level (gps_level jr_par))) t.

  (* flatten_text *)
  Definition s_nn : str := [10; 10].
  Definition flatten_text (t : rose str) : res str :=
    ps <- iter_at_depth t 4%nat ;;
    ss <- mapM (fun p => x <- jr_par p ;; leaf_str x) ps ;;
    Ok (join s_nn ss).
End Views.
