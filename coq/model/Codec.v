(* Codec.v — encoders / decoders between model types and the jt interchange
   format (see Json.v).  Pure glue; evaluated identically by the extracted
   driver and by vm_compute. *)
From Coq Require Import List NArith ZArith Bool.
From D2P Require Import Str Err Json Xml TableTypes Tables Fmt Bullets Merge Collector Iter.
Import ListNotations.
Open Scope N_scope.

(* ---------- option helpers ---------- *)
Definition obind {A B} (o : option A) (f : A -> option B) : option B :=
  match o with Some a => f a | None => None end.
Notation "x <~ o ;; k" := (obind o (fun x => k))
  (at level 61, o at next level, right associativity).

Definition get_ostr (t : jt) : option (option str) := get_opt get_str t.

(* ---------- rnode ---------- *)
Definition dec_ns (t : jt) : option (option str * str) :=
  match t with
  | JL [p; u] => p' <~ get_ostr p ;; u' <~ get_str u ;; Some (p', u')
  | _ => None
  end.
Definition dec_attr (t : jt) : option (aname * str) :=
  match t with
  | JL [u; l; v] =>
      u' <~ get_ostr u ;; l' <~ get_str l ;; v' <~ get_str v ;; Some ((u', l'), v')
  | _ => None
  end.

Fixpoint dec_rnode (t : jt) : option rnode :=
  match t with
  | JL [JN 0; tl] => tl' <~ get_ostr tl ;; Some (RX tl')
  | JL [JN 1; p; u; l; m; a; tx; tl; JL ks] =>
      p' <~ get_ostr p ;; u' <~ get_ostr u ;; l' <~ get_str l ;;
      m' <~ obind (get_list m) (map_opt dec_ns) ;;
      a' <~ obind (get_list a) (map_opt dec_attr) ;;
      tx' <~ get_ostr tx ;; tl' <~ get_ostr tl ;;
      ks' <~ (fix go (l : list jt) : option (list rnode) :=
                match l with
                | [] => Some []
                | k :: r => match dec_rnode k, go r with
                            | Some k', Some r' => Some (k' :: r')
                            | _, _ => None
                            end
                end) ks ;;
      Some (RE p' u' l' m' a' tx' tl' ks')
  | _ => None
  end.

(* ---------- environment ---------- *)
Definition dec_pair_str (t : jt) : option (str * str) :=
  match t with
  | JL [a; b] => a' <~ get_str a ;; b' <~ get_str b ;; Some (a', b')
  | _ => None
  end.
Definition dec_Z (t : jt) : option Z :=
  match t with
  | JL [JN 0; JN n] => Some (Z.of_N n)
  | JL [JN 1; JN n] => Some (- Z.of_N n)%Z
  | _ => None
  end.
Definition enc_Z (z : Z) : jt :=
  match z with
  | Zneg p => JL [JN 1; JN (Npos p)]
  | _ => JL [JN 0; JN (Z.to_N z)]
  end.
Definition dec_numattr (t : jt) : option (option str * option Z) :=
  match t with
  | JL [f; s] => f' <~ get_ostr f ;; s' <~ get_opt dec_Z s ;; Some (f', s')
  | _ => None
  end.
Definition dec_numentry (t : jt) : option (str * list (option str * option Z)) :=
  match t with
  | JL [k; JL lv] => k' <~ get_str k ;; lv' <~ map_opt dec_numattr lv ;; Some (k', lv')
  | _ => None
  end.

Definition dec_env (html dup : jt) (rels numtbl : jt) : option env :=
  h <~ get_bool html ;; d <~ get_bool dup ;;
  r <~ obind (get_list rels) (map_opt dec_pair_str) ;;
  n <~ obind (get_list numtbl) (map_opt dec_numentry) ;;
  Some {| env_x2h := if h then xml2html_table else [];
          env_rels := r; env_dup := d; env_numtbl := n |}.

(* ---------- outputs ---------- *)
Definition enc_strs (l : list str) : jt := jlist jstr l.
Definition enc_ostr (o : option str) : jt := jopt jstr o.
Definition enc_lineage (l : lineage) : jt :=
  match l with (a, b, c, d) => JL [enc_ostr a; enc_ostr b; enc_ostr c; enc_ostr d] end.

Definition enc_par (html : bool) (p : par) : res jt :=
  rs <- par_run_strings html p ;;
  Ok (JL [enc_strs rs; enc_strs (p_hstyle p); jstr (p_style p); enc_lineage (p_lineage p);
          JL [enc_ostr (fst (p_listpos p)); jlist JN (snd (p_listpos p))];
          match p_elem p with
          | None => JL []
          | Some path => JL [jbool (p_copy p); jlist jnat (rev path)]
          end]).

Fixpoint enc_rose {A} (f : A -> res jt) (t : rose A) : res jt :=
  match t with
  | RA a => x <- f a ;; Ok (JL [JN 1; x])
  | RL l =>
      xs <- (fix go (l : list (rose A)) : res (list jt) :=
               match l with
               | [] => Ok []
               | x :: r => y <- enc_rose f x ;; ys <- go r ;; Ok (y :: ys)
               end) l ;;
      Ok (JL [JN 0; JL xs])
  end.

Definition enc_exn (e : exn) : jt := JL [JN 1; jnat (exn_code e)].
Definition enc_res (r : res jt) : jt :=
  match r with Ok x => JL [JN 0; x] | Err e => enc_exn e end.

Definition enc_ranges (l : list (str * (nat * nat))) : jt :=
  jlist (fun kv => JL [jstr (fst kv); jnat (fst (snd kv)); jnat (snd (snd kv))]) l.

(* generic nested lists with integer leaves, for the iterator checks *)
Fixpoint dec_rose (t : jt) : rose N :=
  match t with
  | JN n => RA n
  | JL l => RL (map dec_rose l)
  end.
Fixpoint enc_rose_plain (t : rose N) : jt :=
  match t with
  | RA n => JN n
  | RL l => JL (map enc_rose_plain l)
  end.

(* tagged nested lists with string leaves: [0, items] | [1, str] *)
Fixpoint dec_rose_str (t : jt) : option (rose str) :=
  match t with
  | JL [JN 1; s] => s' <~ get_str s ;; Some (RA s')
  | JL [JN 0; JL l] =>
      l' <~ (fix go (l : list jt) : option (list (rose str)) :=
               match l with
               | [] => Some []
               | x :: r => match dec_rose_str x, go r with
                           | Some x', Some r' => Some (x' :: r')
                           | _, _ => None
                           end
               end) l ;;
      Some (RL l')
  | _ => None
  end.
