(* Paths.v — the fragment of pathlib.PurePosixPath / os.path.split that
   docx_reader.File uses to infer member names (Python 3.12 semantics) *)
From Coq Require Import List NArith Bool Arith.
From D2P Require Import Str.
Import ListNotations.
Open Scope N_scope.

Definition slash : N := 47.
Definition dot : N := 46.

(* PurePosixPath: root is "", "/" or "//" (exactly two leading slashes) *)
Record ppath := { pp_root : nat; pp_parts : list str }.

Fixpoint count_leading (c : N) (s : str) : nat :=
  match s with
  | x :: r => if N.eqb x c then S (count_leading c r) else O
  | [] => O
  end.

Definition is_real_part (p : str) : bool :=
  match p with
  | [] => false
  | [46] => false
  | _ => true
  end.

Definition parse_path (s : str) : ppath :=
  let n := count_leading slash s in
  {| pp_root := match n with O => 0%nat | 2%nat => 2%nat | _ => 1%nat end;
     pp_parts := filter is_real_part (split_chr slash s) |}.

Definition pp_parent (p : ppath) : ppath :=
  {| pp_root := pp_root p; pp_parts := removelast (pp_parts p) |}.

Definition pp_name (p : ppath) : str :=
  match last_opt (pp_parts p) with Some x => x | None => [] end.

Fixpoint strs_prefix (a b : list str) : option (list str) :=   (* b = a ++ rest *)
  match a, b with
  | [], _ => Some b
  | x :: a', y :: b' => if str_eqb x y then strs_prefix a' b' else None
  | _ :: _, [] => None
  end.

(* self.is_relative_to(other) / self.relative_to(other) *)
Definition pp_relative_to (self other : ppath) : option ppath :=
  if Nat.eqb (pp_root self) (pp_root other) then
    match strs_prefix (pp_parts other) (pp_parts self) with
    | Some rest => Some {| pp_root := 0%nat; pp_parts := rest |}
    | None => None
    end
  else None.

(* a / b *)
Definition pp_join (a b : ppath) : ppath :=
  match pp_root b with
  | O => {| pp_root := pp_root a; pp_parts := pp_parts a ++ pp_parts b |}
  | _ => b
  end.

Definition as_posix (p : ppath) : str :=
  match pp_root p, pp_parts p with
  | O, [] => [dot]
  | O, ps => join [slash] ps
  | S O, ps => slash :: join [slash] ps
  | _, ps => slash :: slash :: join [slash] ps
  end.

(* str(Path(k).parent) *)
Definition dir_of_member (name : str) : str := as_posix (pp_parent (parse_path name)).

(* File.path *)
Definition file_path (dir target : str) : str :=
  let dir_ := pp_parent (parse_path dir) in
  let tgt := parse_path target in
  let dirs := match pp_relative_to tgt dir_ with
              | Some rel => pp_join dir_ rel
              | None => pp_join dir_ tgt
              end in
  lstrip [slash; dot] (as_posix dirs).

(* os.path.split *)
Fixpoint rsplit_slash (r : str) (acc : str) : str * str :=
  (* r = reversed remaining prefix, acc = tail collected so far *)
  match r with
  | [] => ([], acc)
  | c :: r' => if N.eqb c slash then (rev r, acc) else rsplit_slash r' (c :: acc)
  end.
Fixpoint rstrip_slash_rev (r : str) : str :=
  match r with
  | c :: r' => if N.eqb c slash then rstrip_slash_rev r' else r
  | [] => []
  end.
Definition os_path_split (p : str) : str * str :=
  let '(head, tail) := rsplit_slash (rev p) [] in
  let stripped := rev (rstrip_slash_rev (rev head)) in
  (match stripped with [] => head | _ => stripped end, tail).

Definition s__rels : str := [95; 114; 101; 108; 115].
Definition s_dot_rels : str := [46; 114; 101; 108; 115].

(* File._rels_path *)
Definition rels_path (path : str) : str :=
  let '(d, f) := os_path_split path in
  join [slash] [d; s__rels; f ++ s_dot_rels].

(* Path(s).name — File.Type and image names *)
Definition path_name (s : str) : str := pp_name (parse_path s).

Definition ends_with (suffix s : str) : bool := starts_with (rev suffix) (rev s).
