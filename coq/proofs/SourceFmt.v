(* SourceFmt.v — text_runs.gather_Pr / _gather_sub_vals / get_pStyle AS TRANSLATED FROM THE SOURCE TEXT
   (gen/Source.v) are equal to the model's gather_Pr / get_pStyle (model/Fmt.v), which the C05 (paragraph
   style) and C07 (run / paragraph formatting) theorems are about.  How elements are read, qn and the
   Clark-name lemmas are in SourceElem.v. *)
From Coq Require Import List NArith ZArith Bool Arith Lia.
From D2P Require Import Str Err Xml TableTypes Tables Fmt PyVal Source SourceBase SourceElem.
Import ListNotations.


(* ---------- the loop of _gather_sub_vals ---------- *)
Definition sf_body : pv -> pv * pv -> out (pv * pv) :=
  fun t3 '(v_sub_val, v_sub_vals) =>
        let v_sub_element := t3 in
        t4 <~ py_attr v_sub_element ([116;97;103]%N (* tag *)) ;;;
        t5 <~ py_is_str t4 ;;;
        t6 <~ py_not t5 ;;;
        if py_truth t6 then (
          Nx (v_sub_val, v_sub_vals)
        ) else (
          t7 <~ py_attr v_sub_element ([97;116;116;114;105;98]%N (* attrib *)) ;;;
          t8 <~ S_qn v_sub_element (VStr ([119;58;118;97;108]%N (* w:val *))) ;;;
          t9 <~ py_dict_get t7 t8 ;;;
          let v_sub_val := t9 in
          v_sub_vals <~~ (if py_truth v_sub_val then (
            t10 <~ S_str v_sub_val ;;;
            t11 <~ py_attr v_sub_element ([108;111;99;97;108;110;97;109;101]%N (* localname *)) ;;;
            v_sub_vals <~ py_update_path v_sub_vals [] (fun c_ => py_setitem c_ t11 t10) ;;;
            Nx v_sub_vals
          ) else (
            t12 <~ py_attr v_sub_element ([108;111;99;97;108;110;97;109;101]%N (* localname *)) ;;;
            v_sub_vals <~ py_update_path v_sub_vals [] (fun c_ => py_setitem c_ t12 VNone) ;;;
            Nx v_sub_vals
          )) ;;;
          Nx (v_sub_val, v_sub_vals)
        ).

Lemma sf_gsv_unfold : forall el q,
  S__gather_sub_vals el q
  = fn_result (S:=unit) (
      '(v_sub_val, v_sub_vals) <~~ py_for_suppressed
          (t1 <- py_iterfind el q ;; t2 <- py_next t1 ;; Ok t2) StopIteration sf_body
          (VNone, VDict None []) ;;;
      Rt v_sub_vals).
Proof. reflexivity. Qed.

Definition sf_step (d : list (str * option str)) (k : anode) : res (list (str * option str)) :=
  match k with
  | AX _ => Ok d
  | AE _ _ => '(n, v) <- sub_val_of k ;; Ok (dict_set n v d)
  end.

Lemma sf_body_step : forall k sv d,
  (forall se sks, k = AE se sks -> attr_names_ok se) ->
  match sf_step d k with
  | Ok d' => exists sv', sf_body (enc_fel k) (sv, enc_prd d) = Nx (sv', enc_prd d')
  | Err x => sf_body (enc_fel k) (sv, enc_prd d) = Ex x
  end.
Proof.
  intros [se sks|tl] sv d Hk.
  - pose proof (Hk se sks eq_refl) as Ha.
    unfold sf_step, sub_val_of, attr_w, sf_body. cbv zeta.
    rewrite sf_attr_tag. cbn [binde py_is_str py_not py_truth negb].
    rewrite sf_attr_attrib. cbn [binde]. rewrite sf_qn_w_val.
    destruct (e_wuri se) as [u|]; cbn [bind binde]; [|reflexivity].
    cbn [py_dict_get].
    rewrite (sf_assoc_attrs (Some u, s_val) (e_attrs se)).
    2:{ cbn [snd]. unfold s_val. split; cbn [In]; intros [H|[H|[H|[]]]]; discriminate H. }
    2:{ exact Ha. }
    rewrite sf_attr_localname.
    destruct (alookup (Some u, s_val) (e_attrs se)) as [[|c s]|];
      cbn [option_map binde py_truth S_str_1 py_str py_update_path].
    + change (py_setitem (enc_prd d) (VStr (e_local se)) VNone)
        with (py_setitem (enc_prd d) (VStr (e_local se)) (enc_opt None)).
      rewrite (sf_setitem d (e_local se) None). cbn [binde bindo]. eexists. reflexivity.
    + change (py_setitem (enc_prd d) (VStr (e_local se)) (VStr (c :: s)))
        with (py_setitem (enc_prd d) (VStr (e_local se)) (enc_opt (Some (c :: s)))).
      rewrite (sf_setitem d (e_local se) (Some (c :: s))). cbn [binde bindo]. eexists. reflexivity.
    + change (py_setitem (enc_prd d) (VStr (e_local se)) VNone)
        with (py_setitem (enc_prd d) (VStr (e_local se)) (enc_opt None)).
      rewrite (sf_setitem d (e_local se) None). cbn [binde bindo]. eexists. reflexivity.
  - cbn [sf_step]. exists sv. reflexivity.
Qed.

Lemma sf_for_go : forall kids sv d,
  (forall se sks, In (AE se sks) kids -> attr_names_ok se) ->
  match foldM sf_step kids d with
  | Ok d' => exists sv', for_go sf_body (map enc_fel kids) (sv, enc_prd d) = Nx (sv', enc_prd d')
  | Err x => for_go sf_body (map enc_fel kids) (sv, enc_prd d) = Ex x
  end.
Proof.
  induction kids as [|k r IH]; intros sv d Hk; cbn [foldM map for_go].
  - exists sv. reflexivity.
  - assert (Hk1 : forall se sks, k = AE se sks -> attr_names_ok se).
    { intros se sks E. apply (Hk se sks). left. exact E. }
    assert (Hr : forall se sks, In (AE se sks) r -> attr_names_ok se).
    { intros se sks Hin. apply (Hk se sks). right. exact Hin. }
    pose proof (sf_body_step k sv d Hk1) as Hs.
    destruct (sf_step d k) as [d1|x]; cbn [bind].
    + destruct Hs as [sv1 Hs]. rewrite Hs. cbn [bindo]. exact (IH sv1 d1 Hr).
    + rewrite Hs. reflexivity.
Qed.


(* gather_Pr(element) (tag=None): the {name: val} of the children of element's <tagPr> child *)
Theorem src_gather_Pr : forall (ext : pv -> pv -> res pv) e ks,
  braceless (e_local e) -> kid_names_ok ks ->
  (forall pe pks, In (AE pe pks) ks -> forall se sks, In (AE se sks) pks -> attr_names_ok se) ->
  S_gather_Pr ext (enc_fel (AE e ks)) VNone = lift_prd (gather_Pr e ks).
Proof.
  intros ext e ks Hl Hk Ha. unfold S_gather_Pr.
  cbn [py_is_none binde py_truth].
  rewrite sf_attr_tag. cbn [binde S_str_1 py_str py_add].
  change [80; 114]%N with s_Pr. rewrite sf_fclark_Pr.
  rewrite sf_gsv_unfold.
  rewrite sf_iterfind; [|exact (sf_braceless_Pr _ Hl)|exact Hk].
  unfold gather_Pr, find_child.
  pose proof (sf_find_children_in (e_uri e) (e_local e ++ s_Pr) ks) as Hin.
  destruct (find_children (e_uri e) (e_local e ++ s_Pr) ks) as [|pr rest].
  - reflexivity.
  - destruct (Hin pr (or_introl eq_refl)) as [Hpr [pe [pks Epr]]]. subst pr.
    cbn [bind map py_next py_iter py_for_suppressed kids_of].
    unfold py_for. rewrite sf_iter_el. cbn [binde].
    pose proof (sf_for_go pks VNone [] (Ha pe pks Hpr)) as Hf.
    change (foldM _ pks []) with (foldM sf_step pks []).
    change (VDict None []) with (enc_prd []).
    destruct (foldM sf_step pks []) as [d|x].
    + destruct Hf as [sv' Hf]. rewrite Hf. reflexivity.
    + rewrite Hf. reflexivity.
Qed.

Theorem src_get_pStyle : forall (ext : pv -> pv -> res pv) e ks,
  braceless (e_local e) -> kid_names_ok ks ->
  (forall pe pks, In (AE pe pks) ks -> forall se sks, In (AE se sks) pks -> attr_names_ok se) ->
  S_get_pStyle ext (enc_fel (AE e ks)) = lift_str (get_pStyle e ks).
Proof.
  intros ext e ks Hl Hk Ha. unfold S_get_pStyle, get_pStyle.
  rewrite (src_gather_Pr ext e ks Hl Hk Ha).
  destruct (gather_Pr e ks) as [d|x]; cbn [lift_prd binde bind]; [|reflexivity].
  unfold enc_prd. cbn [py_dict_get2]. change [112; 83; 116; 121; 108; 101]%N with s_pStyle.
  rewrite sf_assoc_prd.
  destruct (dict_get s_pStyle d) as [[[|c s]|]|]; reflexivity.
Qed.

Print Assumptions src_gather_Pr.
Print Assumptions src_get_pStyle.

