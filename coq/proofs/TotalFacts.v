(* TotalFacts.v — C13: every valid document can be read without an
   exception.  Python exceptions are `Err e` values; exceptions can only come
   from the evaluation of individual elements (a missing required attribute,
   an unparsable number ...), never from the interplay of the state machine.

   FINDINGS (statements of the task that are false of the model as written):

   1. While this file was being written the model of get_bullet changed
      (mirroring an upstream fix): an ordinal the format rejects (ValueError
      of lower_letter / roman numerals on an ordinal below one) is now
      printed in decimal.  Before that change `starts_ok` (start values >= 0)
      did NOT make get_bullet total: numId2Attrs = {"1": [("lowerLetter", 0)]}
      gives the first paragraph the ordinal 1 + (0 - 1) = 0 and
      lower_letter 0 raised ValueError.  With the fallback no hypothesis on
      the start values is needed at all: the `_strong` lemmas below do not
      mention them, and the lemmas with the names and shapes asked for keep
      `starts_ok v` as an (unused) hypothesis.

   2. the formatter results are not style_ok in general (w:vertAlign with an
      empty or blank w:val gives a blank style string, and html_close then
      raises IndexError); `local_ok'` adds that check to `local_ok`. *)
From Coq Require Import List NArith ZArith Bool Arith Lia.
From D2P Require Import Str Err Xml TableTypes Tables Fmt NumFmt Bullets Merge Collector Walk
     Iter Output.
From D2P Require Import BulletsFacts NumFmtFacts TokFacts ShapeFacts FrameFacts MergeFacts ViewFacts.
Import ListNotations.
Open Scope N_scope.

(* ================================================================== *)
(* Definitions                                                          *)
(* ================================================================== *)
Definition is_ok {A} (r : res A) : bool := match r with Ok _ => true | Err _ => false end.

(* everything the handlers evaluate locally on one element succeeds *)
Definition local_ok (v : env) (t : anode) : bool :=
  match t with
  | AX _ => true
  | AE e ks =>
      let tg := e_ptag e in
      (if str_eqb tg tag_PARAGRAPH then
         is_ok (get_paragraph_formatting e ks (env_x2h v)) && is_ok (get_pStyle e ks)
         && match get_bullet_fmt t with
            | (Some _, Some l) => match int_of_str l with Some _ => true | None => false end
            | _ => true
            end
       else true)
      && (if str_eqb tg tag_RUN then is_ok (get_run_formatting e ks (env_x2h v)) else true)
      && (if str_eqb tg tag_SYM then is_ok (attr_w e s_font) && is_ok (attr_w e s_char) else true)
      && (if (str_eqb tg tag_FOOTNOTE || str_eqb tg tag_ENDNOTE)%bool then
            match attr_w e s_type with
            | Ok ty => contains s_separator (lower (ostr ty)) || is_ok (attr_w_req e s_id)
            | Err _ => false
            end
          else true)
      && (if (str_eqb tg tag_FOOTNOTE_REFERENCE || str_eqb tg tag_ENDNOTE_REFERENCE)%bool
          then is_ok (attr_w_req e s_id) else true)
      && (if str_eqb tg tag_FORM_CHECKBOX then is_ok (get_checkBox_entry e ks) else true)
      && (if str_eqb tg tag_FORM_DDLIST then is_ok (get_ddList_entry e ks) else true)
      (* tables are covered by the grid theorem, not here *)
      && (if str_eqb tg tag_TABLE_CELL then false else true)
      (* comment ranges: covered by C12 *)
      && (if (str_eqb tg tag_COMMENT_RANGE_START || str_eqb tg tag_COMMENT_RANGE_END)%bool
          then false else true)
  end.
Fixpoint all_local_ok (v : env) (t : anode) : bool :=
  match t with AX _ => true | AE e ks => local_ok v t && forallb (all_local_ok v) ks end.

(* numbering definitions never yield a negative ordinal: start values are >= 0
   (no longer needed for totality, see finding 1) *)
Definition starts_ok (v : env) : Prop :=
  forall n lvls a z, In (n, lvls) (env_numtbl v) -> In a lvls -> snd a = Some z -> (0 <= z)%Z.

(* every style string produced by the formatter table has a first word (so
   html_close cannot fail) *)
Definition style_ok (st : list str) : Prop := Forall (fun x => words x <> []) st.
Definition style_okb (st : list str) : bool :=
  forallb (fun x => match words x with [] => false | _ => true end) st.

(* local_ok plus: the formatting results of paragraphs and runs are style_ok *)
Definition fmt_okb (r : res (list str)) : bool :=
  match r with Ok st => style_okb st | Err _ => true end.
Definition local_ok' (v : env) (t : anode) : bool :=
  local_ok v t
  && match t with
     | AX _ => true
     | AE e ks =>
         (if str_eqb (e_ptag e) tag_PARAGRAPH
          then fmt_okb (get_paragraph_formatting e ks (env_x2h v)) else true)
         && (if str_eqb (e_ptag e) tag_RUN
             then fmt_okb (get_run_formatting e ks (env_x2h v)) else true)
     end.
Fixpoint all_local_ok' (v : env) (t : anode) : bool :=
  match t with AX _ => true | AE e ks => local_ok' v t && forallb (all_local_ok' v) ks end.

Lemma style_okb_ok st : style_okb st = true <-> style_ok st.
Proof.
  unfold style_okb, style_ok. rewrite forallb_forall, Forall_forall.
  split; intros H x Hx; specialize (H x Hx); destruct (words x); congruence.
Qed.

(* ================================================================== *)
(* T1: numbering                                                        *)
(* ================================================================== *)
Lemma apply_numfn_total : forall f z, (1 <= z)%Z -> exists s, apply_numfn f z = Ok s.
Proof.
  intros f z Hz. destruct z as [|p|p]; try lia.
  destruct (letters_total p) as [s Hs].
  destruct f; cbn [apply_numfn]; unfold upper_letter, upper_roman, decimal, bullet.
  - eexists; reflexivity.
  - exists s; exact Hs.
  - rewrite Hs. eexists; reflexivity.
  - cbn [lower_roman]. eexists; reflexivity.
  - cbn [lower_roman bind]. eexists; reflexivity.
  - eexists; reflexivity.
Qed.

(* the only exception a number formatter raises is ValueError *)
Lemma apply_numfn_err : forall f z x, apply_numfn f z = Err x -> x = ValueError.
Proof.
  intros f z x H. destruct z as [|p|p].
  - destruct f; cbv [apply_numfn decimal bullet upper_letter upper_roman lower_letter lower_roman bind] in H;
      first [discriminate H|injection H as <-; reflexivity].
  - destruct (apply_numfn_total f (Zpos p)) as [s Hs]; [lia|]. congruence.
  - destruct f; cbv [apply_numfn decimal bullet upper_letter upper_roman lower_letter lower_roman bind] in H;
      first [discriminate H|injection H as <-; reflexivity].
Qed.

(* ... and get_bullet catches it *)
Lemma render_num_total : forall f z, exists s, render_num f z = Ok s.
Proof.
  intros f z. unfold render_num. destruct (apply_numfn f z) as [s|x] eqn:E.
  - exists s. reflexivity.
  - rewrite (apply_numfn_err f z x E). unfold decimal. eexists; reflexivity.
Qed.

Lemma get_bullet_total_strong : forall tbl fmt number,
  (match fmt with (Some _, Some l) => int_of_str l <> None | _ => True end) ->
  exists bl, get_bullet tbl fmt number = Ok bl.
Proof.
  intros tbl fmt number Hfmt.
  destruct fmt as [[numId|] [ilvl|]]; try (eexists; reflexivity).
  destruct number as [num|]; [|eexists; reflexivity].
  rewrite get_bullet_eq.
  destruct (render_num_total (bullet_fn tbl numId ilvl) num) as [b Hb]. rewrite Hb.
  cbn [bind]. cbv zeta.
  destruct (int_of_str ilvl) as [lvl|]; [|congruence]. cbn [of_opt bind]. eexists; reflexivity.
Qed.

Lemma get_bullet_total : forall v fmt cs cs' number, starts_ok v ->
  get_par_number (to_numtable v) cs fmt = (cs', number) ->
  (match fmt with (Some _, Some l) => int_of_str l <> None | _ => True end) ->
  exists bl, get_bullet (to_numtable v) fmt number = Ok bl.
Proof. intros v fmt cs cs' number _ _ Hfmt. apply get_bullet_total_strong. exact Hfmt. Qed.

(* the ordinal itself: count + start - 1 with count >= 1; under starts_ok it
   is never negative (it may be 0, which the letter and roman formats
   reject and get_bullet then prints in decimal) *)
Lemma dict_get_In_inv {V} : forall (d : list (str * V)) k x, dict_get k d = Some x -> In (k, x) d.
Proof.
  induction d as [|[k0 v0] d IH]; intros k x H; [discriminate H|].
  cbn [dict_get] in H. destruct (str_eqb k k0) eqn:E.
  - apply BulletsFacts.str_eqb_eq in E. injection H as ->. subst. left. reflexivity.
  - right. apply IH. exact H.
Qed.

Lemma num_attrs_in : forall v numId ilvl na,
  get_num_fmt_attributes (to_numtable v) numId ilvl = Some na ->
  exists n lvls a, In (n, lvls) (env_numtbl v) /\ In a lvls
                   /\ na = {| na_fmt := fst a; na_start := snd a |}.
Proof.
  intros v numId ilvl na H. unfold get_num_fmt_attributes in H.
  destruct (dict_get numId (to_numtable v)) as [lvls'|] eqn:D; [|discriminate H].
  destruct (int_of_str ilvl) as [i|]; [|discriminate H].
  apply py_nth_In in H. apply dict_get_In_inv in D. unfold to_numtable in D.
  apply in_map_iff in D. destruct D as ([n lvls] & E & I). cbn [fst snd] in E.
  injection E as <- <-. apply in_map_iff in H. destruct H as (a & <- & Ia).
  exists n, lvls, a. auto.
Qed.

Lemma par_number_nonneg : forall v fmt cs cs' z, starts_ok v ->
  get_par_number (to_numtable v) cs fmt = (cs', Some z) -> (0 <= z)%Z.
Proof.
  intros v fmt cs cs' z Hst Hpn.
  destruct fmt as [[numId|] [ilvl|]]; try discriminate Hpn.
  unfold get_par_number in Hpn.
  destruct (increment_list_counter _ ilvl) as [d' c] eqn:Ei.
  injection Hpn as _ <-.
  assert (Hc : (1 <= Z.of_N c)%Z).
  { unfold increment_list_counter in Ei. injection Ei as _ <-.
    destruct (dict_get ilvl _); lia. }
  unfold get_start_value_zero_based.
  destruct (get_num_fmt_attributes (to_numtable v) numId ilvl) as [na|] eqn:Ea; [|lia].
  destruct (num_attrs_in v numId ilvl na Ea) as (n & lvls & a & I1 & I2 & ->).
  destruct a as [f st]. cbn [fst snd na_fmt na_start]. destruct st as [s|]; [|lia].
  pose proof (Hst n lvls (f, Some s) s I1 I2 eq_refl). lia.
Qed.

(* ================================================================== *)
(* T3: no internal errors                                               *)
(* ================================================================== *)
(* ModelError marks the branches of the model that correspond to nothing in
   Python.  [nme r] (MergeFacts): r is not Err ModelError. *)
Lemma nme_of_opt {A} e (o : option A) : e <> ModelError -> nme (of_opt e o).
Proof. intro H. destruct o; [apply nme_ok|apply nme_err; exact H]. Qed.

Lemma nme_total {A} (r : res A) : (exists a, r = Ok a) -> nme r.
Proof. intros [a ->]. apply nme_ok. Qed.

Create HintDb nme.
#[local] Hint Resolve nme_attr_r nme_attr_w nme_sub_val_of nme_gather_Pr nme_eval_fpart
  nme_eval_fexpr nme_format_Pr nme_get_html_formatting : nme.

Ltac nme_step :=
  first
    [ solve [auto with nme]
    | match goal with
      | |- nme (Ok _) => apply nme_ok
      | |- nme (Err _) => apply nme_err; discriminate
      | |- nme (bind _ _) => apply nme_bind; [|intros ? ?]
      | |- nme (of_opt _ _) => apply nme_of_opt; discriminate
      | |- nme (mapM _ _) => apply nme_mapM; apply Forall_forall; intros ? ?
      | |- nme (foldM _ _ _) => apply nme_foldM; intros
      | |- nme (let _ := _ in _) => cbv zeta
      | |- nme (match ?x with _ => _ end) => destruct x
      end ].
Ltac nme_tac := repeat nme_step.

Lemma nme_attr_w_req e n : nme (attr_w_req e n).
Proof. unfold attr_w_req. nme_tac. Qed.
#[local] Hint Resolve nme_attr_w_req : nme.
Lemma nme_attr_r_req e n : nme (attr_r_req e n).
Proof. unfold attr_r_req. nme_tac. Qed.
#[local] Hint Resolve nme_attr_r_req : nme.
Lemma nme_children_w e ks n : nme (children_w e ks n).
Proof. unfold children_w. nme_tac. Qed.
#[local] Hint Resolve nme_children_w : nme.
Lemma nme_get_pStyle e ks : nme (get_pStyle e ks).
Proof. unfold get_pStyle. nme_tac. Qed.
#[local] Hint Resolve nme_get_pStyle : nme.
Lemma nme_get_run_formatting e ks x : nme (get_run_formatting e ks x).
Proof. unfold get_run_formatting. nme_tac. Qed.
#[local] Hint Resolve nme_get_run_formatting : nme.
Lemma nme_get_paragraph_formatting e ks x : nme (get_paragraph_formatting e ks x).
Proof. unfold get_paragraph_formatting. nme_tac. Qed.
#[local] Hint Resolve nme_get_paragraph_formatting : nme.
Lemma nme_first_word s : nme (first_word s).
Proof. unfold first_word. nme_tac. Qed.
#[local] Hint Resolve nme_first_word : nme.
Lemma nme_close_toks st : nme (close_toks st).
Proof. unfold close_toks. nme_tac. Qed.
#[local] Hint Resolve nme_close_toks : nme.
Lemma nme_run_toks r : nme (run_toks r).
Proof. unfold run_toks. nme_tac. Qed.
#[local] Hint Resolve nme_run_toks : nme.
Lemma nme_par_run_toks p : nme (par_run_toks p).
Proof. unfold par_run_toks. nme_tac. Qed.
#[local] Hint Resolve nme_par_run_toks : nme.
Lemma nme_par_run_strings h p : nme (par_run_strings h p).
Proof. unfold par_run_strings. nme_tac. Qed.
#[local] Hint Resolve nme_par_run_strings : nme.

(* pars_at reaches its depth-0 branch only when called with depth 0 *)
Lemma nme_pars_at : forall d l, nme (pars_at (S d) l).
Proof.
  induction d as [|d IH]; intro l.
  - cbn [pars_at]. apply nme_mapM. apply Forall_forall. intros n _. destruct n; nme_tac.
  - rewrite pars_at_SS. apply nme_bind; [|intros; apply nme_ok].
    apply nme_mapM. apply Forall_forall. intros n _. destruct n as [l'|p]; [apply IH|nme_tac].
Qed.
Lemma nme_pars_at_4 l : nme (pars_at 4%nat l).
Proof. apply nme_pars_at. Qed.
#[local] Hint Resolve nme_pars_at_4 : nme.
Lemma nme_count_runs v s : nme (count_runs v s).
Proof. unfold count_runs. nme_tac. Qed.
#[local] Hint Resolve nme_count_runs : nme.
Lemma nme_tree_par_toks l : nme (tree_par_toks l).
Proof. unfold tree_par_toks. nme_tac. Qed.
#[local] Hint Resolve nme_tree_par_toks : nme.

(* lower_letter: the fuel suffices (NumFmtFacts.letters_total) *)
Lemma nme_lower_letter z : nme (lower_letter z).
Proof.
  destruct z as [|p|p]; try (cbn [lower_letter]; apply nme_err; discriminate).
  apply nme_total. apply letters_total.
Qed.
#[local] Hint Resolve nme_lower_letter : nme.
Lemma nme_apply_numfn f z : nme (apply_numfn f z).
Proof.
  destruct f; cbn [apply_numfn]; unfold upper_letter, upper_roman, lower_roman, decimal, bullet;
    nme_tac.
Qed.
#[local] Hint Resolve nme_apply_numfn : nme.
Lemma nme_get_bullet tbl fmt number : nme (get_bullet tbl fmt number).
Proof.
  destruct fmt as [[n|] [l|]]; try apply nme_ok.
  destruct number as [z|]; [|apply nme_ok]. rewrite get_bullet_eq.
  apply nme_bind; [apply nme_total, render_num_total|]. intros b _. cbv zeta.
  apply nme_bind; [apply nme_of_opt; discriminate|]. intros. apply nme_ok.
Qed.
#[local] Hint Resolve nme_get_bullet : nme.
Lemma nme_get_checkBox_entry e ks : nme (get_checkBox_entry e ks).
Proof. unfold get_checkBox_entry. nme_tac. Qed.
#[local] Hint Resolve nme_get_checkBox_entry : nme.

(* iterfind yields elements only *)
Lemma children_w_AE e ks n l : children_w e ks n = Ok l ->
  Forall (fun k => match k with AE _ _ => True | AX _ => False end) l.
Proof.
  unfold children_w. destruct (e_wuri e) as [u|]; [|discriminate].
  intro H. injection H as <-. unfold find_children. apply Forall_forall. intros k Hk.
  apply filter_In in Hk. destruct Hk as [_ Hk]. destruct k; [exact I|discriminate Hk].
Qed.

Lemma nme_get_ddList_entry e ks : nme (get_ddList_entry e ks).
Proof.
  unfold get_ddList_entry.
  apply nme_bind; [apply nme_children_w|]. intros entries He.
  apply nme_bind.
  { apply nme_mapM. apply children_w_AE in He. eapply Forall_impl; [|exact He].
    intros k Hk. destruct k; [apply nme_attr_w_req|destruct Hk]. }
  intros vals _.
  apply nme_bind; [|intros; apply nme_ok].
  destruct (children_w e ks s_result) as [l|x] eqn:Er; [|apply nme_ok].
  apply children_w_AE in Er. destruct l as [|k r]; [apply nme_ok|].
  inversion Er as [|? ? Hk _]; subst. destruct k; [|destruct Hk]. nme_tac.
Qed.
#[local] Hint Resolve nme_get_ddList_entry : nme.

(* ---- the collector's primitives ---- *)
Lemma set_caret_nme od name s :
  (forall d, od = Some d -> (1 <= d <= 4)%nat) -> Inv s -> nme (set_caret od name s).
Proof.
  intros Hd H. destruct od as [d|]; [|apply nme_ok].
  destruct (set_caret_inv d name s (Hd d eq_refl) H) as (s' & E & _). rewrite E. apply nme_ok.
Qed.

Lemma commence_paragraph_nme v elem s : Inv s -> nme (commence_paragraph v elem s).
Proof.
  intro H. unfold commence_paragraph.
  apply nme_bind.
  { apply set_caret_nme; [|exact H]. intros d Hd. injection Hd as <-. unfold par_depth. lia. }
  intros s1 _. nme_tac.
Qed.

Lemma commence_paragraph_open v elem s s' :
  commence_paragraph v elem s = Ok s' -> c_open s' <> [].
Proof.
  unfold commence_paragraph. intro H.
  bind_inv H as s1 E1. bind_inv H as hs E2. bind_inv H as ps E3. cbv zeta in H.
  injection H as <-. cbn. discriminate.
Qed.

Lemma conclude_paragraph_total s : Inv s -> exists s', conclude_paragraph s = Ok s'.
Proof.
  intro H. unfold conclude_paragraph.
  destruct (c_open s) as [|p rest]; [eexists; reflexivity|].
  destruct (set_caret_inv 4%nat None (set_open rest s)) as (s1 & E & I1 & D1 & _);
    [lia|apply set_open_inv; exact H|].
  unfold par_depth. rewrite E. cbn [bind].
  destruct I1 as (T & R & S). rewrite D1 in S.
  destruct (spine_app_ok 4%nat 1%nat (NP p) (c_tree s1) S T) as (l' & E' & _); [reflexivity|].
  rewrite E'. cbn [bind]. eexists; reflexivity.
Qed.

Lemma conclude_paragraph_nme s : Inv s -> nme (conclude_paragraph s).
Proof. intro H. apply nme_total, conclude_paragraph_total, H. Qed.

Lemma ensure_par_nme v s : Inv s -> nme (ensure_par v s).
Proof.
  intro H. unfold ensure_par. destruct (c_open s); [apply commence_paragraph_nme, H|apply nme_ok].
Qed.

Lemma ensure_par_open v s s' : ensure_par v s = Ok s' -> c_open s' <> [].
Proof.
  unfold ensure_par. destruct (c_open s) eqn:E.
  - apply commence_paragraph_open.
  - intro H. injection H as <-. rewrite E. discriminate.
Qed.

Lemma upd_open_runs_nme v f s : Inv s -> nme (upd_open_runs v f s).
Proof.
  intro H. unfold upd_open_runs.
  apply nme_bind; [apply ensure_par_nme, H|]. intros s1 E.
  apply ensure_par_open in E. destruct (c_open s1); [congruence|apply nme_ok].
Qed.

Lemma upd_open_runs_nonempty v f s s' : upd_open_runs v f s = Ok s' -> c_open s' <> [].
Proof.
  unfold upd_open_runs. intro H. bind_inv H as s1 E.
  destruct (c_open s1); [discriminate H|]. injection H as <-. cbn. discriminate.
Qed.

Lemma start_comment_range_nme v id s : nme (start_comment_range v id s).
Proof. unfold start_comment_range. nme_tac. Qed.
Lemma end_comment_range_nme v id s : nme (end_comment_range v id s).
Proof. unfold end_comment_range. nme_tac. Qed.

(* ---- close_table_cell: the proof of ShapeFacts.close_table_cell_good with
   the absence of ModelError carried along ---- *)
Definition good2 {A} (Q : A -> Prop) (r : res A) : Prop := good Q r /\ nme r.

Lemma good2_bind {A B} (Q : A -> Prop) (R : B -> Prop) (r : res A) (k : A -> res B) :
  good2 Q r -> (forall a, Q a -> good2 R (k a)) -> good2 R (bind r k).
Proof.
  destruct r as [a|e]; cbn [bind]; intros [H N] K.
  - apply K. exact H.
  - split; [exact H|]. intro E. apply N. injection E as ->. reflexivity.
Qed.
Lemma good2_ok {A} (Q : A -> Prop) a : Q a -> good2 Q (Ok a).
Proof. intro H. split; [exact H|apply nme_ok]. Qed.
Lemma good2_err {A} (Q : A -> Prop) e :
  e <> CaretDepthError -> e <> ModelError -> good2 Q (@Err A e).
Proof. intros H1 H2. split; [exact H1|apply nme_err; exact H2]. Qed.
Lemma good2_any {A} (r : res A) : nce r -> nme r -> good2 any r.
Proof. intros H1 H2. split; assumption. Qed.

Lemma nme_as_list n : nme (as_list n).
Proof. destruct n; cbn [as_list]; nme_tac. Qed.
#[local] Hint Resolve nme_as_list : nme.
Lemma nme_get_row root ti ri : nme (get_row root ti ri).
Proof. unfold get_row. nme_tac. Qed.
#[local] Hint Resolve nme_get_row : nme.

Lemma nme_upd_nth {A} (f : A -> res A) :
  (forall x, nme (f x)) -> forall l n, nme (upd_nth n f l).
Proof.
  intro Hf. induction l as [|x r IH]; intro n.
  - destruct n; cbn [upd_nth]; apply nme_err; discriminate.
  - destruct n as [|k]; cbn [upd_nth].
    + apply nme_bind; [apply Hf|intros; apply nme_ok].
    + apply nme_bind; [apply IH|intros; apply nme_ok].
Qed.
Lemma nme_py_upd {A} (f : A -> res A) l i : (forall x, nme (f x)) -> nme (py_upd l i f).
Proof.
  intro Hf. unfold py_upd. destruct (Nat.leb (length l) i); [apply nme_err; discriminate|].
  apply nme_upd_nth; exact Hf.
Qed.
Lemma nme_upd_row root ti ri f : (forall cs, nme (f cs)) -> nme (upd_row root ti ri f).
Proof.
  intro Hf. unfold upd_row. apply nme_py_upd. intro t.
  apply nme_bind; [apply nme_as_list|intros rows _].
  apply nme_bind; [|intros; apply nme_ok].
  apply nme_py_upd. intro r.
  apply nme_bind; [apply nme_as_list|intros cells _].
  apply nme_bind; [apply Hf|intros; apply nme_ok].
Qed.

Lemma upd_row_good2 sa ti ri f :
  Inv sa -> c_depth sa = 3%nat ->
  (forall cs, nce (f cs)) -> (forall cs, nme (f cs)) ->
  (forall cs cs', forallb (shapeb 3%nat) cs = true -> f cs = Ok cs' ->
                  forallb (shapeb 3%nat) cs' = true) ->
  good2 (fun root' => Inv (set_tree root' sa)) (upd_row (c_tree sa) ti ri f).
Proof.
  intros Ia D N1 N2 Hf. split; [apply upd_row_good; assumption|apply nme_upd_row; exact N2].
Qed.

#[local] Hint Resolve attr_w_nce attr_r_nce attr_w_req_nce attr_r_req_nce children_w_nce
  sub_val_of_nce gather_Pr_nce get_pStyle_nce format_Pr_into_html_nce get_run_formatting_nce
  get_paragraph_formatting_nce par_run_strings_nce pars_at_nce count_runs_nce tree_par_toks_nce
  get_bullet_nce get_checkBox_entry_nce get_ddList_entry_nce as_list_nce get_row_nce : nce.

Ltac ext2 := apply good2_any; [solve [nce_tac]|solve [nme_tac]].
Ltac g2err := apply good2_err; discriminate.

Lemma close_table_cell_good2 v e ks s : Inv s -> good2 Inv (close_table_cell v e ks s).
Proof.
  intro H. unfold close_table_cell.
  apply good2_bind with (Q := any); [ext2|]. intros pr _. cbv zeta.
  (* the two early returns of the repaired _close_table_cell *)
  destruct (c_tree s) as [|tb0 root0] eqn:Eroot0; [apply good2_ok; exact H|]. rewrite <- Eroot0.
  apply good2_bind with (Q := any); [ext2|]. intros rows0 _.
  destruct rows0 as [|rb0 rows1] eqn:Erows1; [apply good2_ok; exact H|]. rewrite <- Erows1.
  apply good2_bind with (Q := any); [ext2|]. intros _ _.
  apply good2_bind with (Q := Inv).
  { match goal with |- good2 Inv (if ?c then _ else _) => destruct c end;
      [|apply good2_ok; exact H].
    destruct (set_caret_inv 3%nat None s) as (sa & E & Ia & Da & _); [lia|exact H|].
    rewrite E. cbn [bind].
    destruct (py_get (c_tree sa) (length (c_tree s) - 1)) as [t|] eqn:Eg; [|g2err].
    cbn [of_opt bind].
    destruct t as [rows|p]; [|g2err]. cbn [as_list bind].
    destruct rows as [|r0 [|p rest]]; try g2err.
    destruct p as [prev|p]; [|g2err]. cbn [as_list bind].
    apply good2_bind with (Q := any); [ext2|]. intros cells _.
    cbv zeta. destruct cells as [|c0 cr].
    { apply good2_ok. exact Ia. }
    match goal with |- context [py_nth ?a ?b] => destruct (py_nth a b) as [src|] eqn:Esrc end;
      [|apply good2_ok; exact Ia].
    apply good2_bind with (Q := fun root' => Inv (set_tree root' sa)).
    2:{ intros root' Hr. apply good2_ok. exact Hr. }
    apply upd_row_good2; [exact Ia|exact Da| | |].
    - intros [|c r]; simpl; [discriminate|exact I].
    - intros [|c r]; nme_tac.
    - intros [|c r] cs' Hc Hf; [discriminate Hf|]. injection Hf as <-.
      cbn [forallb] in Hc |- *. apply andb_true_iff in Hc. destruct Hc as [_ Hc].
      rewrite Hc, andb_true_r, copy_node_shape.
      apply py_nth_In in Esrc. apply in_rev in Esrc. apply py_get_In in Eg.
      destruct Ia as (T & _).
      pose proof (tree_ok_cells _ _ prev T Eg (or_intror (or_introl eq_refl))) as Hp.
      exact (proj1 (forallb_forall _ _) Hp _ Esrc). }
  intros s1 I1.
  apply good2_bind with (Q := any); [ext2|]. intros span _.
  generalize (Z.to_nat (span - 1)). intro n. revert s1 I1.
  induction n as [|k IH]; intros s1 I1; [apply good2_ok; exact I1|].
  cbv beta iota.
  destruct (set_caret_inv 3%nat None s1) as (sa & E & Ia & Da & _); [lia|exact I1|].
  rewrite E. cbn [bind].
  apply good2_bind with (Q := fun root' => Inv (set_tree root' sa)).
  2:{ intros root' Hr. apply IH. exact Hr. }
  apply upd_row_good2; [exact Ia|exact Da| | |].
  - intro cs. destruct (env_dup v); [|exact I]. destruct cs; simpl; exact I.
  - intro cs. destruct (env_dup v); [|apply nme_ok]. destruct cs; nme_tac.
  - intros cs cs' Hc Hf. destruct (env_dup v).
    + destruct cs as [|c r]; [injection Hf as <-; reflexivity|]. injection Hf as <-.
      cbn [forallb] in Hc |- *. rewrite copy_node_shape.
      apply andb_true_iff in Hc. destruct Hc as [Hc1 Hc2]. rewrite Hc1, Hc2. reflexivity.
    + injection Hf as <-. cbn [forallb]. rewrite Hc. reflexivity.
Qed.

Lemma close_table_cell_nme v e ks s : Inv s -> nme (close_table_cell v e ks s).
Proof. intro H. exact (proj2 (close_table_cell_good2 v e ks s H)). Qed.

(* ---- open_tag / close_tag ---- *)
Ltac model_absurd :=
  exfalso;
  match goal with
  | E : ?r = Err ModelError |- _ =>
      let N := fresh "N" in assert (N : nme r) by nme_tac; exact (N E)
  end.

Ltac inv_side2 := first [assumption | apply set_counters_inv; assumption
                         | apply set_open_inv; assumption
                         | apply queue_run_for_next_paragraph_inv; assumption].
Ltac nme_prim :=
  first [ apply upd_open_runs_nme | apply commence_paragraph_nme
        | apply start_comment_range_nme | apply end_comment_range_nme ]; inv_side2.

Ltac on_step :=
  match goal with
  | |- nme (if ?c then _ else _) => destruct c
  | |- nme (match ?x with _ => _ end) => destruct x eqn:?
  | |- nme (Ok _) => apply nme_ok
  | |- nme (Err ModelError) => model_absurd
  | |- nme (Err _) => apply nme_err; discriminate
  | |- nme (bind _ _) =>
      apply nme_bind; [first [nme_prim | solve [nme_tac]] | intros ? ?]
  end.

Lemma insert_text_as_new_run_nme v ts s : Inv s -> nme (insert_text_as_new_run v ts s).
Proof. apply upd_open_runs_nme. Qed.

Lemma note_label_nme v kind e s : Inv s -> nme (note_label v kind e s).
Proof. intro H. unfold note_label. repeat on_step. Qed.

Lemma note_ref_nme v kind e s : Inv s -> nme (note_ref v kind e s).
Proof. intro H. unfold note_ref, insert_text_as_new_run. repeat on_step. Qed.

Lemma image_ref_nme v rid s : nme rid -> Inv s -> nme (image_ref v rid s).
Proof.
  intros N H. unfold image_ref, insert_text_as_new_run. destruct rid as [id|x].
  - repeat on_step.
  - destruct x; try (apply nme_err; discriminate); [apply nme_ok|]. exfalso. apply N. reflexivity.
Qed.

Lemma open_tag_nme v path t e ks body s : Inv s -> nme (open_tag v path t e ks body s).
Proof.
  intro H. unfold open_tag. cbv zeta.
  destruct (str_eqb (e_ptag e) tag_PARAGRAPH).
  { apply nme_bind; [apply commence_paragraph_nme, H|]. intros s1 E1.
    pose proof (commence_paragraph_inv _ _ _ _ H E1) as I1.
    destruct (get_par_number _ _ _) as [cs number].
    apply nme_bind; [apply nme_get_bullet|]. intros bl _.
    apply nme_bind; [apply insert_text_as_new_run_nme, set_counters_inv, I1|]. intros s2 E2.
    apply upd_open_runs_nonempty in E2. destruct (c_open s2); [congruence|apply nme_ok]. }
  repeat match goal with
         | |- nme (if ?c then _ else _) => destruct c
         end;
    try (apply note_label_nme; exact H);
    try (apply note_ref_nme; exact H);
    try (apply image_ref_nme; [nme_tac|exact H]);
    unfold commence_run, add_text_into_open_run, add_code_into_open_run, add_toks,
      insert_text_as_new_run; repeat on_step.
Qed.

Lemma close_tag_nme v e ks s : Inv s -> nme (close_tag v e ks s).
Proof.
  intro H. unfold close_tag. cbv zeta.
  destruct (str_eqb (e_ptag e) tag_PARAGRAPH); [apply conclude_paragraph_nme; exact H|].
  destruct (str_eqb (e_ptag e) tag_RUN); [apply upd_open_runs_nme; exact H|].
  destruct (str_eqb (e_ptag e) tag_TABLE_CELL); [apply close_table_cell_nme; exact H|].
  apply nme_ok.
Qed.

Lemma finish_nme v s : Inv s -> nme (finish v s).
Proof.
  intro H. unfold finish. apply nme_bind.
  { destruct (c_queued s); [apply nme_ok|apply commence_paragraph_nme, H]. }
  intros s1 E. apply conclude_paragraph_nme.
  destruct (c_queued s); [injection E as <-; exact H|exact (commence_paragraph_inv _ _ _ _ H E)].
Qed.

(* ---- the walk ---- *)
Definition walk_nme_at (v : env) (t : anode) : Prop :=
  forall path s, Inv s -> nme (walk v path t s).

Lemma below_loop_nme v path ks :
  Forall (walk_nme_at v) ks -> forall i, nme (below_loop v path ks i).
Proof.
  induction 1 as [|k r Hk Hr IH]; intro i; cbn [below_loop].
  - apply nme_ok.
  - apply nme_bind; [apply Hk, init_inv|]. intros sk Ek.
    pose proof (walk_inv _ _ _ _ _ init_inv Ek) as Ik.
    apply nme_bind; [apply finish_nme, Ik|]. intros sk' _.
    apply nme_bind; [apply nme_tree_par_toks|]. intros ps _.
    apply nme_bind; [apply IH|]. intros. apply nme_ok.
Qed.

Lemma kids_loop_nme v path ks :
  Forall (walk_nme_at v) ks -> forall i s, Inv s -> nme (kids_loop v path ks i s).
Proof.
  induction 1 as [|k r Hk Hr IH]; intros i s Hs; cbn [kids_loop].
  - apply nme_ok.
  - apply nme_bind; [apply Hk, Hs|]. intros s' E. apply IH.
    exact (walk_inv _ _ _ _ _ Hs E).
Qed.

Lemma kids_loop_inv v path : forall ks i s s',
  Inv s -> kids_loop v path ks i s = Ok s' -> Inv s'.
Proof.
  induction ks as [|k r IH]; intros i s s' Hs H; cbn [kids_loop] in H.
  - injection H as <-. exact Hs.
  - bind_inv H as s1 E. exact (IH _ _ _ (walk_inv _ _ _ _ _ Hs E) H).
Qed.

Lemma walk_nme v : forall t, walk_nme_at v t.
Proof.
  apply ShapeFacts.anode_ind'.
  - intros tl path s Hs. apply nme_ok.
  - intros e ks HF path s Hs. rewrite walk_AE. cbv zeta.
    apply nme_bind; [apply set_caret_nme; [apply elem_depth_range|exact Hs]|]. intros s1 E1.
    assert (I1 : Inv s1).
    { exact (good_ok_inv _ _ _ (set_caret_good _ _ _ (elem_depth_range _) Hs) E1). }
    apply nme_bind.
    { destruct (str_eqb (e_ptag e) tag_HYPERLINK); [apply below_loop_nme; exact HF|apply nme_ok]. }
    intros body _.
    apply nme_bind; [apply open_tag_nme, I1|]. intros [s2 rec] E2.
    pose proof (open_tag_inv _ _ _ _ _ _ _ _ _ I1 E2) as I2.
    apply nme_bind.
    { destruct rec; [apply kids_loop_nme; assumption|apply nme_ok]. }
    intros s3 E3.
    assert (I3 : Inv s3).
    { destruct rec; [exact (kids_loop_inv _ _ _ _ _ _ I2 E3)|injection E3 as <-; exact I2]. }
    apply nme_bind; [apply close_tag_nme, I3|]. intros s4 E4.
    apply set_caret_nme; [apply elem_depth_range|exact (close_tag_inv _ _ _ _ _ I3 E4)].
Qed.

Lemma walk_no_model_error : forall v t path s, Inv s -> walk v path t s <> Err ModelError.
Proof. intros v t path s H. exact (walk_nme v t path s H). Qed.

Lemma collect_no_model_error : forall v path t, collect_from v path t <> Err ModelError.
Proof.
  intros v path t. unfold collect_from.
  change (nme (s <- walk v path t init_cst ;; finish v s)).
  apply nme_bind; [apply walk_nme, init_inv|]. intros s E.
  apply finish_nme. exact (walk_inv _ _ _ _ _ init_inv E).
Qed.

Lemma no_internal_errors : forall v path t,
  collect_from v path t <> Err ModelError /\ collect_from v path t <> Err CaretDepthError.
Proof.
  intros v path t. split; [apply collect_no_model_error|apply collect_no_caret_error].
Qed.

(* ================================================================== *)
(* T2: totality                                                         *)
(* ================================================================== *)
(* the style invariant: every run style and paragraph html style stored in
   the state (tree, open paragraphs, queued runs) has a first word in each
   of its strings *)
Definition run_sty (r : run) : Prop := style_ok (r_style r).
Definition par_sty (p : par) : Prop := style_ok (p_hstyle p) /\ Forall run_sty (p_runs p).
Inductive node_sty : node -> Prop :=
| sty_NP p : par_sty p -> node_sty (NP p)
| sty_NL l : Forall node_sty l -> node_sty (NL l).
Definition runs_style_ok (s : cst) : Prop :=
  Forall node_sty (c_tree s) /\ Forall par_sty (c_open s) /\ Forall run_sty (c_queued s).
Definition J (s : cst) : Prop := Inv s /\ runs_style_ok s.

Lemma init_J : J init_cst.
Proof. split; [exact init_inv|]. repeat split; constructor. Qed.

Lemma style_ok_nil : style_ok [].
Proof. constructor. Qed.

(* ---- rendering is total on styled paragraphs ---- *)
Lemma close_toks_total st : style_ok st -> exists r, close_toks st = Ok r.
Proof.
  intro H. unfold close_toks.
  destruct (mapM_total first_word (rev st)) as [ws E].
  { apply Forall_rev'. eapply Forall_impl; [|exact H]. intros x Hx. cbv beta in Hx. unfold first_word.
    destruct (words x); [exfalso; apply Hx; reflexivity|eexists; reflexivity]. }
  rewrite E. cbn [bind]. eexists; reflexivity.
Qed.

Lemma run_toks_total r : run_sty r -> exists x, run_toks r = Ok x.
Proof.
  intro H. unfold run_toks. destruct (r_toks r); [eexists; reflexivity|].
  destruct (close_toks_total _ H) as [cl E]. rewrite E. cbn [bind]. eexists; reflexivity.
Qed.

Lemma par_run_toks_total p : par_sty p -> exists x, par_run_toks p = Ok x.
Proof.
  intros [Hh Hr]. unfold par_run_toks.
  destruct (mapM_total run_toks (p_runs p)) as [rs E].
  { eapply Forall_impl; [|exact Hr]. intros r. apply run_toks_total. }
  rewrite E. cbn [bind]. cbv zeta. destruct (p_hstyle p) eqn:Eh; [eexists; reflexivity|].
  destruct (close_toks_total _ Hh) as [cl E']. rewrite E'. cbn [bind].
  eexists; reflexivity.
Qed.

Lemma par_run_strings_total h p : par_sty p -> exists x, par_run_strings h p = Ok x.
Proof.
  intro H. unfold par_run_strings. destruct (par_run_toks_total p H) as [x E]. rewrite E.
  cbn [bind]. eexists; reflexivity.
Qed.

Lemma pars_at_total : forall dd k l, (dd + k = 5)%nat -> (1 <= dd)%nat ->
  forallb (shapeb k) l = true -> exists ps, pars_at dd l = Ok ps.
Proof.
  induction dd as [|dd IH]; intros k l Hk Hd Hl; [lia|].
  destruct dd as [|d'].
  - cbn [pars_at]. apply mapM_total. apply Forall_rev'. apply Forall_forall. intros n Hn.
    pose proof (proj1 (forallb_forall _ _) Hl n Hn) as Hs.
    destruct n as [l'|p]; [|eexists; reflexivity].
    rewrite shapeb_NL in Hs. apply andb_true_iff in Hs. destruct Hs as [Hlt _].
    apply Nat.ltb_lt in Hlt. lia.
  - rewrite pars_at_SS.
    match goal with |- context [mapM ?f (rev l)] => destruct (mapM_total f (rev l)) as [xs E] end.
    { apply Forall_rev'. apply Forall_forall. intros n Hn.
      pose proof (proj1 (forallb_forall _ _) Hl n Hn) as Hs.
      destruct n as [l'|p].
      - rewrite shapeb_NL in Hs. apply andb_true_iff in Hs. destruct Hs as [_ Hs].
        apply (IH (S k) l'); [lia|lia|exact Hs].
      - cbn [shapeb] in Hs. apply Nat.eqb_eq in Hs. lia. }
    rewrite E. cbn [bind]. eexists; reflexivity.
Qed.

Lemma pars_at_sty : forall dd l ps, pars_at dd l = Ok ps -> Forall node_sty l -> Forall par_sty ps.
Proof.
  induction dd as [|dd IH]; intros l ps H Hl; [discriminate H|].
  destruct dd as [|d'].
  - cbn [pars_at] in H. eapply mapM_Forall; [|exact H|apply Forall_rev'; exact Hl].
    intros x y Hx Hy. destruct x as [l'|p]; [discriminate Hy|]. injection Hy as <-.
    inversion Hx; assumption.
  - rewrite pars_at_SS in H. bind_inv H as xs E. injection H as <-.
    apply Forall_concat'. eapply mapM_Forall; [|exact E|apply Forall_rev'; exact Hl].
    intros x y Hx Hy. destruct x as [l'|p]; [|discriminate Hy].
    apply (IH l' y Hy). inversion Hx; assumption.
Qed.

Lemma tree_par_toks_total : forall l, tree_ok l -> Forall node_sty l ->
  exists r, tree_par_toks l = Ok r.
Proof.
  intros l Ht Hs. unfold tree_par_toks.
  destruct (pars_at_total 4%nat 1%nat l eq_refl) as [ps E]; [lia|exact Ht|].
  rewrite E. cbn [bind].
  destruct (mapM_total par_run_toks ps) as [rs E'].
  { eapply Forall_impl; [|exact (pars_at_sty _ _ _ E Hs)]. intro p. apply par_run_toks_total. }
  rewrite E'. cbn [bind]. eexists; reflexivity.
Qed.

(* ---- the caret ---- *)
Lemma spine_app_sty : forall d x l l',
  spine_app d x l = Ok l' -> node_sty x -> Forall node_sty l -> Forall node_sty l'.
Proof.
  induction d as [|d IH]; intros x l l' H Hx Hl; [discriminate H|].
  destruct d as [|d'].
  - cbn in H. injection H as <-. constructor; assumption.
  - destruct l as [|[l0|q] rest]; try discriminate H.
    rewrite spine_app_SS in H. bind_inv H as l0' E. injection H as <-.
    inversion Hl as [|? ? H0 Hr]; subst. inversion H0 as [|? Hl0]; subst.
    constructor; [|exact Hr]. constructor. exact (IH _ _ _ E Hx Hl0).
Qed.

Lemma set_caret_go_sty : forall fuel d name s s',
  set_caret_go fuel d name s = Ok s' -> Forall node_sty (c_tree s) -> Forall node_sty (c_tree s').
Proof.
  induction fuel as [|f IH]; intros d name s s' H Hs; [discriminate H|].
  cbn [set_caret_go] in H.
  destruct (Nat.eqb (c_depth s) d).
  - bind_inv H as l El. injection H as <-. exact Hs.
  - destruct (Nat.ltb (c_depth s) d).
    + bind_inv H as s1 E. apply (IH _ _ _ _ H).
      unfold drop_caret in E. destruct (Nat.leb par_depth (c_depth s)); [discriminate E|].
      bind_inv E as t Et. injection E as <-. cbn [c_tree set_depth set_tree].
      apply (spine_app_sty _ _ _ _ Et); [constructor; constructor|exact Hs].
    + bind_inv H as l El. bind_inv H as s1 E. apply (IH _ _ _ _ H).
      unfold raise_caret in E. destruct (Nat.leb _ 1); [discriminate E|].
      injection E as <-. exact Hs.
Qed.

Lemma set_caret_J : forall d name s, (1 <= d <= 4)%nat -> J s ->
  exists s', set_caret (Some d) name s = Ok s' /\ J s' /\ c_depth s' = d
             /\ c_open s' = c_open s /\ c_queued s' = c_queued s.
Proof.
  intros d name s Hd [HI (Ht & Ho & Hq)].
  destruct (set_caret_inv d name s Hd HI) as (s' & E & I' & D' & O' & Q').
  exists s'. split; [exact E|]. split; [|auto].
  split; [exact I'|]. split; [exact (set_caret_go_sty _ _ _ _ _ E Ht)|].
  rewrite O', Q'. auto.
Qed.

Lemma set_caret_opt_J : forall od name s,
  (forall d, od = Some d -> (1 <= d <= 4)%nat) -> J s ->
  exists s', set_caret od name s = Ok s' /\ J s'.
Proof.
  intros [d|] name s Hd HJ.
  - destruct (set_caret_J d name s (Hd d eq_refl) HJ) as (s' & E & J' & _). eauto.
  - exists s. split; [reflexivity|exact HJ].
Qed.

(* ---- paragraphs and runs ---- *)
Definition elem_ok (v : env) (elem : option (einfo * list anode * list nat)) : Prop :=
  match elem with
  | None => True
  | Some (e, ks, _) =>
      exists hs ps, get_paragraph_formatting e ks (env_x2h v) = Ok hs /\ style_ok hs
                    /\ get_pStyle e ks = Ok ps
  end.

Lemma commence_paragraph_J v elem s : elem_ok v elem -> J s ->
  exists s', commence_paragraph v elem s = Ok s' /\ J s'.
Proof.
  intros He HJ. unfold commence_paragraph.
  destruct (set_caret_J 4%nat
              (match elem with Some (e, _, _) => Some (e_local e) | None => None end) s)
    as (s1 & E & [I1 (T1 & O1 & Q1)] & _); [lia|exact HJ|].
  unfold par_depth. rewrite E. cbn [bind].
  assert (Hfin : forall hs ps pe, style_ok hs ->
    J (set_open ({| p_elem := pe; p_copy := false; p_hstyle := hs; p_style := ps;
                    p_lineage := c_lineage s1; p_runs := c_queued s1;
                    p_listpos := (None, []) |} :: c_open s1) (set_queued [] s1))).
  { intros hs ps pe Hhs. split; [exact I1|]. split; [exact T1|].
    split; [|constructor]. constructor; [|exact O1]. split; [exact Hhs|exact Q1]. }
  destruct elem as [[[e ks] pth]|].
  - destruct He as (hs & ps & -> & Hhs & ->). cbn [bind]. eexists. split; [reflexivity|].
    apply Hfin. exact Hhs.
  - cbn [bind]. eexists. split; [reflexivity|]. apply Hfin. constructor.
Qed.

Lemma conclude_paragraph_J s : J s -> exists s', conclude_paragraph s = Ok s' /\ J s'.
Proof.
  intros HJ. unfold conclude_paragraph.
  destruct (c_open s) as [|p rest] eqn:Eo; [exists s; split; [reflexivity|exact HJ]|].
  destruct (set_caret_J 4%nat None (set_open rest s)) as (s1 & E & [I1 (T1 & O1 & Q1)] & D1 & _);
    [lia| |].
  { destruct HJ as [HI (Ht & Ho & Hq)]. split; [exact HI|]. split; [exact Ht|].
    split; [|exact Hq]. rewrite Eo in Ho. inversion Ho; assumption. }
  unfold par_depth. rewrite E. cbn [bind].
  destruct I1 as (T & R & S). rewrite D1 in S.
  destruct (spine_app_ok 4%nat 1%nat (NP p) (c_tree s1) S T) as (l' & E' & F & S1 & _);
    [reflexivity|].
  rewrite E'. cbn [bind]. eexists. split; [reflexivity|].
  split.
  - unfold Inv. cbn [c_tree c_depth set_tree]. rewrite D1. split; [exact F|]. split; [lia|exact S1].
  - split; [|split; [exact O1|exact Q1]]. cbn [c_tree set_tree].
    apply (spine_app_sty _ _ _ _ E'); [|exact T1]. constructor.
    destruct HJ as [_ (_ & Ho & _)]. rewrite Eo in Ho. inversion Ho; assumption.
Qed.

Lemma upd_open_runs_J v f s :
  (forall rs, Forall run_sty rs -> Forall run_sty (f rs)) -> J s ->
  exists s', upd_open_runs v f s = Ok s' /\ J s'.
Proof.
  intros Hf HJ. unfold upd_open_runs.
  assert (He : exists s1, ensure_par v s = Ok s1 /\ J s1).
  { unfold ensure_par. destruct (c_open s); [apply commence_paragraph_J; [exact I|exact HJ]|].
    exists s. split; [reflexivity|exact HJ]. }
  destruct He as (s1 & E & [I1 (T1 & O1 & Q1)]). rewrite E. cbn [bind].
  apply ensure_par_open in E. destruct (c_open s1) as [|p rest] eqn:Eo; [congruence|].
  eexists. split; [reflexivity|]. split; [exact I1|]. split; [exact T1|]. split; [|exact Q1].
  cbn [c_open set_open]. inversion O1 as [|? ? [Hh Hr] Hrest]; subst.
  constructor; [|exact Hrest]. split; [exact Hh|]. cbn [p_runs with_runs]. apply Hf. exact Hr.
Qed.

Lemma run_sty_empty ts : run_sty {| r_style := []; r_toks := ts |}.
Proof. constructor. Qed.

Lemma commence_run_J v st s : style_ok st -> J s ->
  exists s', commence_run v st s = Ok s' /\ J s'.
Proof.
  intros Hst HJ. apply upd_open_runs_J; [|exact HJ]. intros rs Hrs.
  apply Forall_app. split; [exact Hrs|]. constructor; [exact Hst|constructor].
Qed.

Lemma ensure_run_sty rs : Forall run_sty rs -> Forall run_sty (ensure_run rs).
Proof. intro H. destruct rs; [constructor; [apply run_sty_empty|constructor]|exact H]. Qed.

Lemma upd_last_sty (f : run -> run) : (forall r, run_sty r -> run_sty (f r)) ->
  forall rs, Forall run_sty rs -> Forall run_sty (upd_last f rs).
Proof.
  intros Hf. induction rs as [|x r IH]; intro H; [constructor|].
  inversion H as [|? ? Hx Hr]; subst. destruct r as [|y r'].
  - constructor; [apply Hf; exact Hx|constructor].
  - change (upd_last f (x :: y :: r')) with (x :: upd_last f (y :: r')).
    constructor; [exact Hx|apply IH; exact Hr].
Qed.

Lemma add_toks_J v ts s : J s -> exists s', add_toks v ts s = Ok s' /\ J s'.
Proof.
  intro HJ. apply upd_open_runs_J; [|exact HJ]. intros rs Hrs.
  apply upd_last_sty; [intros r Hr; exact Hr|apply ensure_run_sty; exact Hrs].
Qed.

Lemma last_opt_In {A} : forall (l : list A) x, last_opt l = Some x -> In x l.
Proof.
  induction l as [|y r IH]; intros x H; [discriminate H|].
  destruct r as [|z r']; [injection H as <-; left; reflexivity|].
  right. apply IH. exact H.
Qed.

Lemma insert_J v ts s : J s -> exists s', insert_text_as_new_run v ts s = Ok s' /\ J s'.
Proof.
  intro HJ. apply upd_open_runs_J; [|exact HJ]. intros rs Hrs. cbv zeta.
  pose proof (ensure_run_sty rs Hrs) as He.
  apply Forall_app. split; [exact He|]. constructor; [apply run_sty_empty|].
  constructor; [|constructor]. unfold run_sty. cbn [r_style].
  destruct (last_opt (ensure_run rs)) as [r|] eqn:El; [|constructor].
  apply last_opt_In in El. exact (proj1 (Forall_forall _ _) He r El).
Qed.

Lemma queue_J ts s : J s -> J (queue_run_for_next_paragraph ts s).
Proof.
  intros [HI (Ht & Ho & Hq)]. split; [exact HI|]. split; [exact Ht|]. split; [exact Ho|].
  cbn [c_queued queue_run_for_next_paragraph set_queued]. apply Forall_app. split; [exact Hq|].
  constructor; [apply run_sty_empty|constructor].
Qed.

Lemma set_counters_J cs s : J s -> J (set_counters cs s).
Proof. intro H. exact H. Qed.

Lemma finish_J v s : J s -> exists s', finish v s = Ok s' /\ J s'.
Proof.
  intro HJ. unfold finish.
  assert (H1 : exists s1, match c_queued s with [] => Ok s | _ :: _ => commence_paragraph v None s end
                          = Ok s1 /\ J s1).
  { destruct (c_queued s); [exists s; split; [reflexivity|exact HJ]|].
    apply commence_paragraph_J; [exact I|exact HJ]. }
  destruct H1 as (s1 & E & J1). rewrite E. cbn [bind]. apply conclude_paragraph_J. exact J1.
Qed.

(* ---- open_tag ---- *)
Lemma ret_J (r : res cst) (b : bool) : (exists s', r = Ok s' /\ J s') ->
  exists s' b', (s' <- r ;; Ok (s', b)) = Ok (s', b') /\ J s'.
Proof. intros (s' & -> & H). exists s', b. split; [reflexivity|exact H]. Qed.

Lemma id_J s (b : bool) : J s -> exists s' b', Ok (s, b) = Ok (s', b') /\ J s'.
Proof. intro H. exists s, b. split; [reflexivity|exact H]. Qed.

Lemma attr_w_err e n x : attr_w e n = Err x -> x = KeyError.
Proof. unfold attr_w. destruct (e_wuri e); [discriminate|]. intro H. injection H as <-. reflexivity. Qed.
Lemma attr_r_req_err e n x : attr_r_req e n = Err x -> x = KeyError.
Proof.
  unfold attr_r_req, attr_r. destruct (e_ruri e); cbn [bind].
  - destruct (alookup _ _); cbn [of_opt]; [discriminate|]. intro H. injection H as <-. reflexivity.
  - intro H. injection H as <-. reflexivity.
Qed.

Lemma image_ref_J v e n s : J s ->
  exists s' b, image_ref v (attr_r_req e n) s = Ok (s', b) /\ J s'.
Proof.
  intro HJ. unfold image_ref. destruct (attr_r_req e n) as [id|x] eqn:E.
  - destruct (dict_get id (env_rels v)); [|apply id_J; exact HJ].
    apply ret_J, insert_J, HJ.
  - rewrite (attr_r_req_err _ _ _ E). apply id_J. exact HJ.
Qed.

Lemma open_tag_J v path e ks body s :
  local_ok' v (AE e ks) = true -> J s ->
  exists s' b, open_tag v path (AE e ks) e ks body s = Ok (s', b) /\ J s'.
Proof.
  intros L HJ. unfold local_ok', local_ok in L. cbv zeta in L.
  apply andb_true_iff in L. destruct L as [L LB].
  apply andb_true_iff in LB. destruct LB as [LB1 LB2].
  apply andb_true_iff in L. destruct L as [L L9].
  apply andb_true_iff in L. destruct L as [L L8].
  apply andb_true_iff in L. destruct L as [L L7].
  apply andb_true_iff in L. destruct L as [L L6].
  apply andb_true_iff in L. destruct L as [L L5].
  apply andb_true_iff in L. destruct L as [L L4].
  apply andb_true_iff in L. destruct L as [L L3].
  apply andb_true_iff in L. destruct L as [L1 L2].
  unfold open_tag. cbv zeta.
  destruct (str_eqb (e_ptag e) tag_PARAGRAPH) eqn:T1.
  { clear L2 L3 L4 L5 L6 L7 L8 L9 LB2.
    destruct (get_paragraph_formatting e ks (env_x2h v)) as [hs|] eqn:Ehs;
      cbn [is_ok andb fmt_okb] in L1, LB1; [|discriminate L1].
    destruct (get_pStyle e ks) as [pst|] eqn:Eps; cbn [is_ok andb] in L1; [|discriminate L1].
    apply style_okb_ok in LB1.
    destruct (commence_paragraph_J v (Some (e, ks, path)) s) as (s1 & E1 & J1);
      [exists hs, pst; rewrite Ehs, Eps; auto|exact HJ|].
    rewrite E1. cbn [bind].
    destruct (get_par_number (to_numtable v) (c_counters s1) (get_bullet_fmt (AE e ks)))
      as [cs number] eqn:Epn.
    destruct (get_bullet_total_strong (to_numtable v) (get_bullet_fmt (AE e ks)) number)
      as [bl Ebl].
    { destruct (get_bullet_fmt (AE e ks)) as [[a|] [l|]]; try exact I.
      destruct (int_of_str l); [discriminate|discriminate L1]. }
    rewrite Ebl. cbn [bind].
    destruct (insert_J v (raw bl) (set_counters cs s1)) as (s2 & E2 & J2);
      [apply set_counters_J; exact J1|].
    rewrite E2. cbn [bind]. apply upd_open_runs_nonempty in E2.
    destruct (c_open s2) as [|p rest] eqn:Eo; [congruence|].
    eexists; eexists; split; [reflexivity|].
    destruct J2 as [I2 (T2 & O2 & Q2)]. split; [exact I2|]. split; [exact T2|]. split; [|exact Q2].
    cbn [c_open set_open]. rewrite Eo in O2. inversion O2 as [|? ? Hp Hrest]; subst.
    constructor; [exact Hp|exact Hrest]. }
  clear L1 LB1.
  destruct (str_eqb (e_ptag e) tag_RUN) eqn:T2.
  { destruct (get_run_formatting e ks (env_x2h v)) as [st|];
      cbn [is_ok fmt_okb] in L2, LB2; [|discriminate L2].
    cbn [bind]. apply ret_J, commence_run_J; [apply style_okb_ok; exact LB2|exact HJ]. }
  clear L2 LB2.
  destruct (str_eqb (e_ptag e) tag_COMMENT_RANGE_END) eqn:T3.
  { rewrite orb_true_r in L9. discriminate L9. }
  destruct (str_eqb (e_ptag e) tag_COMMENT_RANGE_START) eqn:T4.
  { discriminate L9. }
  clear L9.
  destruct (str_eqb (e_ptag e) tag_TEXT || str_eqb (e_ptag e) tag_TEXT_MATH)%bool.
  { apply ret_J, add_toks_J, HJ. }
  destruct (str_eqb (e_ptag e) tag_MATH).
  { apply ret_J, insert_J, HJ. }
  destruct (str_eqb (e_ptag e) tag_BR).
  { apply ret_J, add_toks_J, HJ. }
  destruct (str_eqb (e_ptag e) tag_SYM).
  { destruct (attr_w e s_font) as [font|]; cbn [is_ok andb] in L3; [|discriminate L3].
    destruct (attr_w e s_char) as [chr|]; cbn [is_ok] in L3; [|discriminate L3].
    cbn [bind]. destruct (ostr chr); [apply id_J; exact HJ|]. apply ret_J, add_toks_J, HJ. }
  clear L3.
  assert (Hnote : forall kind,
     match attr_w e s_type with
     | Ok ty => contains s_separator (lower (ostr ty)) || is_ok (attr_w_req e s_id)
     | Err _ => false
     end = true ->
     exists s' b, note_label v kind e s = Ok (s', b) /\ J s').
  { intros kind Hn. unfold note_label. destruct (attr_w e s_type) as [ty|]; [|discriminate Hn].
    cbn [bind]. destruct (contains s_separator (lower (ostr ty))); [apply id_J; exact HJ|].
    cbn [orb] in Hn. destruct (attr_w_req e s_id) as [id|]; [|discriminate Hn].
    cbn [bind]. apply id_J. apply queue_J. exact HJ. }
  destruct (str_eqb (e_ptag e) tag_FOOTNOTE) eqn:T5.
  { apply Hnote. exact L4. }
  destruct (str_eqb (e_ptag e) tag_ENDNOTE) eqn:T6.
  { apply Hnote. exact L4. }
  clear L4 Hnote.
  destruct (str_eqb (e_ptag e) tag_HYPERLINK).
  { assert (Hplain : exists s' b, (s' <- insert_text_as_new_run v body s ;; Ok (s', false))
                                  = Ok (s', b) /\ J s') by (apply ret_J, insert_J, HJ).
    destruct (attr_r_req e s_id) as [rid|x] eqn:Er.
    - destruct (dict_get rid (env_rels v)) as [link|]; [|exact Hplain].
      destruct (attr_w e s_anchor) as [anchor|x] eqn:Ea.
      + apply ret_J, insert_J, HJ.
      + rewrite (attr_w_err _ _ _ Ea). exact Hplain.
    - rewrite (attr_r_req_err _ _ _ Er). exact Hplain. }
  destruct (str_eqb (e_ptag e) tag_FORM_CHECKBOX).
  { destruct (get_checkBox_entry e ks) as [x|]; [|discriminate L6]. cbn [bind].
    apply ret_J, insert_J, HJ. }
  destruct (str_eqb (e_ptag e) tag_FORM_DDLIST).
  { destruct (get_ddList_entry e ks) as [x|]; [|discriminate L7]. cbn [bind].
    apply ret_J, insert_J, HJ. }
  assert (Href : forall kind, is_ok (attr_w_req e s_id) = true ->
     exists s' b, note_ref v kind e s = Ok (s', b) /\ J s').
  { intros kind Hn. unfold note_ref. destruct (attr_w_req e s_id) as [id|]; [|discriminate Hn].
    cbn [bind]. apply ret_J, insert_J, HJ. }
  destruct (str_eqb (e_ptag e) tag_FOOTNOTE_REFERENCE) eqn:T7.
  { apply Href. exact L5. }
  destruct (str_eqb (e_ptag e) tag_ENDNOTE_REFERENCE) eqn:T8.
  { apply Href. exact L5. }
  destruct (str_eqb (e_ptag e) tag_IMAGE).
  { apply image_ref_J, HJ. }
  destruct (str_eqb (e_ptag e) tag_IMAGE_ALT).
  { destruct (attr_plain e s_descr); [apply ret_J, insert_J, HJ|apply id_J, HJ]. }
  destruct (str_eqb (e_ptag e) tag_IMAGEDATA).
  { apply image_ref_J, HJ. }
  destruct (str_eqb (e_ptag e) tag_TAB).
  { apply ret_J, insert_J, HJ. }
  apply id_J, HJ.
Qed.

Lemma close_tag_J v e ks s : local_ok' v (AE e ks) = true -> J s ->
  exists s', close_tag v e ks s = Ok s' /\ J s'.
Proof.
  intros L HJ. unfold local_ok', local_ok in L. cbv zeta in L.
  apply andb_true_iff in L. destruct L as [L _].
  apply andb_true_iff in L. destruct L as [L _].
  apply andb_true_iff in L. destruct L as [_ L8].
  unfold close_tag. cbv zeta.
  destruct (str_eqb (e_ptag e) tag_PARAGRAPH); [apply conclude_paragraph_J, HJ|].
  destruct (str_eqb (e_ptag e) tag_RUN); [apply commence_run_J; [constructor|exact HJ]|].
  destruct (str_eqb (e_ptag e) tag_TABLE_CELL); [discriminate L8|].
  exists s. split; [reflexivity|exact HJ].
Qed.

(* ---- the walk ---- *)
Definition walk_J_at (v : env) (t : anode) : Prop :=
  forall path s, all_local_ok' v t = true -> J s -> exists s', walk v path t s = Ok s' /\ J s'.

Lemma below_loop_total v path ks :
  Forall (walk_J_at v) ks -> forallb (all_local_ok' v) ks = true ->
  forall i, exists body, below_loop v path ks i = Ok body.
Proof.
  induction 1 as [|k r Hk Hr IH]; intros Hl i; cbn [below_loop].
  - eexists; reflexivity.
  - cbn [forallb] in Hl. apply andb_true_iff in Hl. destruct Hl as [Hlk Hlr].
    destruct (Hk (i :: path) init_cst Hlk init_J) as (sk & E & Jk). rewrite E. cbn [bind].
    destruct (finish_J v sk Jk) as (sk' & E' & [Ik' (Tk' & _)]). rewrite E'. cbn [bind].
    destruct (tree_par_toks_total (c_tree sk') (proj1 Ik') Tk') as [ps Ep]. rewrite Ep. cbn [bind].
    destruct (IH Hlr (S i)) as [rest Er]. rewrite Er. cbn [bind]. eexists; reflexivity.
Qed.

Lemma kids_loop_J v path ks :
  Forall (walk_J_at v) ks -> forallb (all_local_ok' v) ks = true ->
  forall i s, J s -> exists s', kids_loop v path ks i s = Ok s' /\ J s'.
Proof.
  induction 1 as [|k r Hk Hr IH]; intros Hl i s HJ; cbn [kids_loop].
  - exists s. split; [reflexivity|exact HJ].
  - cbn [forallb] in Hl. apply andb_true_iff in Hl. destruct Hl as [Hlk Hlr].
    destruct (Hk (i :: path) s Hlk HJ) as (s1 & E & J1). rewrite E. cbn [bind].
    apply IH; assumption.
Qed.

Lemma walk_J v : forall t, walk_J_at v t.
Proof.
  apply ShapeFacts.anode_ind'.
  - intros tl path s _ HJ. exists s. split; [reflexivity|exact HJ].
  - intros e ks HF path s Hl HJ. cbn [all_local_ok'] in Hl.
    apply andb_true_iff in Hl. destruct Hl as [Hloc Hks].
    rewrite walk_AE. cbv zeta.
    destruct (set_caret_opt_J (elem_depth (AE e ks)) (Some (e_local e)) s
                (elem_depth_range _) HJ) as (s1 & E1 & J1).
    rewrite E1. cbn [bind].
    assert (Hb : exists body, (if str_eqb (e_ptag e) tag_HYPERLINK
                               then below_loop v path ks 0 else Ok []) = Ok body).
    { destruct (str_eqb (e_ptag e) tag_HYPERLINK); [|eexists; reflexivity].
      apply below_loop_total; assumption. }
    destruct Hb as [body Eb]. rewrite Eb. cbn [bind].
    destruct (open_tag_J v path e ks body s1 Hloc J1) as (s2 & rec & E2 & J2).
    rewrite E2. cbn [bind].
    assert (H3 : exists s3, (if rec then kids_loop v path ks 0 s2 else Ok s2) = Ok s3 /\ J s3).
    { destruct rec; [apply kids_loop_J; assumption|exists s2; split; [reflexivity|exact J2]]. }
    destruct H3 as (s3 & E3 & J3). rewrite E3. cbn [bind].
    destruct (close_tag_J v e ks s3 Hloc J3) as (s4 & E4 & J4). rewrite E4. cbn [bind].
    apply set_caret_opt_J; [apply elem_depth_range|exact J4].
Qed.

(* no hypothesis on the numbering table is needed (finding 1) *)
Lemma walk_total_strong : forall v t path s, all_local_ok' v t = true ->
  Inv s -> runs_style_ok s ->
  exists s', walk v path t s = Ok s' /\ Inv s' /\ runs_style_ok s'.
Proof.
  intros v t path s Hl HI HS.
  destruct (walk_J v t path s Hl (conj HI HS)) as (s' & E & [I' S']). eauto.
Qed.

Lemma walk_total : forall v t path s, all_local_ok' v t = true -> starts_ok v ->
  Inv s -> runs_style_ok s -> exists s', walk v path t s = Ok s'.
Proof.
  intros v t path s Hl _ HI HS.
  destruct (walk_total_strong v t path s Hl HI HS) as (s' & E & _). eauto.
Qed.

Lemma finish_total : forall v s, Inv s -> runs_style_ok s ->
  exists s', finish v s = Ok s' /\ Inv s' /\ runs_style_ok s'.
Proof.
  intros v s HI HS. destruct (finish_J v s (conj HI HS)) as (s' & E & [I' S']). eauto.
Qed.

Lemma collect_total_strong : forall v path t, all_local_ok' v t = true ->
  exists s, collect_from v path t = Ok s /\ Inv s /\ runs_style_ok s.
Proof.
  intros v path t Hl. unfold collect_from.
  destruct (walk_J v t path init_cst Hl init_J) as (s1 & E & J1). rewrite E. cbn [bind].
  destruct (finish_J v s1 J1) as (s' & E' & [I' S']). eauto.
Qed.

Lemma collect_total : forall v path t, all_local_ok' v t = true -> starts_ok v ->
  exists s, collect_from v path t = Ok s.
Proof.
  intros v path t Hl _. destruct (collect_total_strong v path t Hl) as (s & E & _). eauto.
Qed.

(* ---- the views of a collected tree render ---- *)
Lemma rose_leaves_sty : forall n, node_sty n -> leaves_ok par_sty (rose_of_node (unrev n)).
Proof.
  fix IH 1. intros [l|p] H.
  - inversion H as [|? Hl]; subst. cbn [unrev rose_of_node].
    assert (HF : Forall (fun n => leaves_ok par_sty (rose_of_node (unrev n))) l).
    { clear H. induction l as [|x l IHl]; [constructor|].
      inversion Hl; subst. constructor; [apply IH; assumption|apply IHl; assumption]. }
    intros addr q Hq. destruct addr as [|i r]; [discriminate Hq|]. cbn [index] in Hq.
    destruct (nth_error (map rose_of_node (rev (map unrev l))) i) as [x|] eqn:En;
      [|discriminate Hq].
    apply nth_error_In in En. apply in_map_iff in En. destruct En as (n' & <- & In').
    apply in_rev in In'. apply in_map_iff in In'. destruct In' as (n0 & <- & In0).
    exact (proj1 (Forall_forall _ _) HF n0 In0 r q Hq).
  - inversion H; subst. cbn [unrev rose_of_node]. intros addr q Hq.
    destruct addr as [|i r]; [|discriminate Hq]. cbn [index] in Hq. injection Hq as <-. assumption.
Qed.

Lemma pars_view_leaves_sty : forall s, Forall node_sty (c_tree s) -> leaves_ok par_sty (pars_view s).
Proof.
  intros s H. change (pars_view s) with (rose_of_node (unrev (NL (c_tree s)))).
  apply rose_leaves_sty. constructor. exact H.
Qed.

Lemma rendering_total_strong : forall v path t s, all_local_ok' v t = true ->
  collect_from v path t = Ok s -> exists r, get_par_strings (html_on v) (pars_view s) = Ok r.
Proof.
  intros v path t s Hl E.
  destruct (collect_total_strong v path t Hl) as (s0 & E0 & I0 & (T0 & _)).
  rewrite E in E0. injection E0 as <-.
  apply gps_total.
  - apply pars_view_deep. apply unrev_shape. exact (proj1 I0).
  - intros addr p Hp. apply par_run_strings_total.
    exact (pars_view_leaves_sty s T0 addr p Hp).
Qed.

Lemma rendering_total : forall v path t s, all_local_ok' v t = true -> starts_ok v ->
  collect_from v path t = Ok s -> exists r, get_par_strings (html_on v) (pars_view s) = Ok r.
Proof. intros v path t s Hl _. apply rendering_total_strong. exact Hl. Qed.

(* ---- finding 2: local_ok alone does not suffice ---- *)
(* <w:p><w:r><w:rPr><w:vertAlign w:val=" "/></w:rPr><w:t>x</w:t></w:r></w:p> with
   html on: every local evaluation succeeds, the walk succeeds, and
   rendering the run raises IndexError (the style string " " has no first
   word for html_close) *)
Definition cx_el (tag loc : str) (attrs : list (aname * str)) (tx : option str)
           (ks : list anode) : anode :=
  AE {| e_ptag := tag; e_uri := Some [87]; e_local := loc; e_wuri := Some [87]; e_ruri := None;
        e_attrs := attrs; e_text := tx; e_tail := None |} ks.
Definition cx_doc : anode :=
  cx_el tag_PARAGRAPH [112] [] None
    [cx_el tag_RUN [114] [] None
       [cx_el [119;58;114;80;114] [114;80;114] [] None
          [cx_el [119;58;118;101;114;116;65;108;105;103;110] [118;101;114;116;65;108;105;103;110]
                 [((Some [87], s_val), [32])] None []];
        cx_el tag_TEXT [116] [] (Some [120]) []]].
Definition cx_env : env :=
  {| env_x2h := xml2html_table; env_rels := []; env_dup := false; env_numtbl := [] |}.

Lemma style_check_needed :
  all_local_ok cx_env cx_doc = true /\ all_local_ok' cx_env cx_doc = false /\
  exists s, collect_from cx_env [] cx_doc = Ok s
            /\ get_par_strings (html_on cx_env) (pars_view s) = Err IndexError.
Proof.
  split; [vm_compute; reflexivity|]. split; [vm_compute; reflexivity|].
  destruct (collect_from cx_env [] cx_doc) as [s|x] eqn:E; [|vm_compute in E; discriminate E].
  exists s. split; [reflexivity|].
  assert (H : match collect_from cx_env [] cx_doc with
              | Ok s => get_par_strings (html_on cx_env) (pars_view s)
              | Err e => Err e
              end = Err IndexError) by (vm_compute; reflexivity).
  rewrite E in H. exact H.
Qed.

Lemma all_local_ok'_all_local_ok : forall v t, all_local_ok' v t = true -> all_local_ok v t = true.
Proof.
  intro v.
  apply (ShapeFacts.anode_ind' (fun t => all_local_ok' v t = true -> all_local_ok v t = true));
    [intros tl _; reflexivity|].
  intros e ks HF H. cbn [all_local_ok' all_local_ok] in H |- *.
  apply andb_true_iff in H. destruct H as [Hl Hk].
  unfold local_ok' in Hl. apply andb_true_iff in Hl. destruct Hl as [Hl _]. rewrite Hl. cbn [andb].
  apply forallb_forall. intros k Ik. apply (proj1 (Forall_forall _ _) HF k Ik).
  exact (proj1 (forallb_forall _ _) Hk k Ik).
Qed.

Print Assumptions apply_numfn_total.
Print Assumptions get_bullet_total.
Print Assumptions get_bullet_total_strong.
Print Assumptions par_number_nonneg.
Print Assumptions walk_no_model_error.
Print Assumptions no_internal_errors.
Print Assumptions walk_total_strong.
Print Assumptions walk_total.
Print Assumptions finish_total.
Print Assumptions tree_par_toks_total.
Print Assumptions collect_total_strong.
Print Assumptions collect_total.
Print Assumptions rendering_total_strong.
Print Assumptions rendering_total.
Print Assumptions style_check_needed.
