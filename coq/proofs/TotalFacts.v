(* TotalFacts.v — C13: every valid document can be read without an
   exception.  Python exceptions are `Err e` values; exceptions can only come
   from the evaluation of individual elements (a missing required attribute,
   an unparsable number ...), never from the interplay of the state machine.

   FINDINGS (statements of the task that are false of the model as written):

   1. `starts_ok` (start values >= 0) does NOT make get_bullet total.
      Counterexample: env_numtbl v = [("1", [(Some "lowerLetter", Some 0)])],
      fmt = (Some "1", Some "0"), fresh counters.  get_par_number gives the
      ordinal 1 + (0 - 1) = 0 and lower_letter 0 = Err ValueError (likewise
      upper_letter, lower_roman, upper_roman).  The right hypothesis is
      `starts_ok'` below: every start value is >= 1 OR the level's format is
      one whose formatter is total (decimal, bullet, or an unknown format,
      which falls back to bullet).

   2. the formatter results are not style_ok in general (w:vertAlign with an
      empty or blank w:val gives a blank style string, and html_close then
      raises IndexError); `local_ok'` adds that check to `local_ok`. *)
From Coq Require Import List NArith ZArith Bool Arith Lia.
From D2P Require Import Str Err Xml TableTypes Tables Fmt NumFmt Bullets Merge Collector Walk
     Iter Output.
From D2P Require Import BulletsFacts NumFmtFacts TokFacts ShapeFacts FrameFacts MergeFacts ViewFacts.
Import ListNotations.
Open Scope N_scope.

(* ================================================================== *)
(* Definitions                                                          *)
(* ================================================================== *)
Definition is_ok {A} (r : res A) : bool := match r with Ok _ => true | Err _ => false end.

(* everything the handlers evaluate locally on one element succeeds *)
Definition local_ok (v : env) (t : anode) : bool :=
  match t with
  | AX _ => true
  | AE e ks =>
      let tg := e_ptag e in
      (if str_eqb tg tag_PARAGRAPH then
         is_ok (get_paragraph_formatting e ks (env_x2h v)) && is_ok (get_pStyle e ks)
         && match get_bullet_fmt t with
            | (Some _, Some l) => match int_of_str l with Some _ => true | None => false end
            | _ => true
            end
       else true)
      && (if str_eqb tg tag_RUN then is_ok (get_run_formatting e ks (env_x2h v)) else true)
      && (if str_eqb tg tag_SYM then is_ok (attr_w e s_font) && is_ok (attr_w e s_char) else true)
      && (if (str_eqb tg tag_FOOTNOTE || str_eqb tg tag_ENDNOTE)%bool then
            match attr_w e s_type with
            | Ok ty => contains s_separator (lower (ostr ty)) || is_ok (attr_w_req e s_id)
            | Err _ => false
            end
          else true)
      && (if (str_eqb tg tag_FOOTNOTE_REFERENCE || str_eqb tg tag_ENDNOTE_REFERENCE)%bool
          then is_ok (attr_w_req e s_id) else true)
      && (if str_eqb tg tag_FORM_CHECKBOX then is_ok (get_checkBox_entry e ks) else true)
      && (if str_eqb tg tag_FORM_DDLIST then is_ok (get_ddList_entry e ks) else true)
      (* tables are covered by the grid theorem, not here *)
      && (if str_eqb tg tag_TABLE_CELL then false else true)
      (* comment ranges: covered by C12 *)
      && (if (str_eqb tg tag_COMMENT_RANGE_START || str_eqb tg tag_COMMENT_RANGE_END)%bool
          then false else true)
  end.
Fixpoint all_local_ok (v : env) (t : anode) : bool :=
  match t with AX _ => true | AE e ks => local_ok v t && forallb (all_local_ok v) ks end.

(* numbering definitions never yield an ordinal below one: start values are >= 0
   (the hypothesis suggested first; NOT sufficient, see finding 1) *)
Definition starts_ok (v : env) : Prop :=
  forall n lvls a z, In (n, lvls) (env_numtbl v) -> In a lvls -> snd a = Some z -> (0 <= z)%Z.

(* every style string produced by the formatter table has a first word (so
   html_close cannot fail) *)
Definition style_ok (st : list str) : Prop := Forall (fun x => words x <> []) st.
Definition style_okb (st : list str) : bool :=
  forallb (fun x => match words x with [] => false | _ => true end) st.

(* local_ok plus: the formatting results of paragraphs and runs are style_ok *)
Definition fmt_okb (r : res (list str)) : bool :=
  match r with Ok st => style_okb st | Err _ => true end.
Definition local_ok' (v : env) (t : anode) : bool :=
  local_ok v t
  && match t with
     | AX _ => true
     | AE e ks =>
         (if str_eqb (e_ptag e) tag_PARAGRAPH
          then fmt_okb (get_paragraph_formatting e ks (env_x2h v)) else true)
         && (if str_eqb (e_ptag e) tag_RUN
             then fmt_okb (get_run_formatting e ks (env_x2h v)) else true)
     end.
Fixpoint all_local_ok' (v : env) (t : anode) : bool :=
  match t with AX _ => true | AE e ks => local_ok' v t && forallb (all_local_ok' v) ks end.

(* the formatter a level uses, as get_bullet computes it *)
Definition fn_of (fmt : option str) : numfn :=
  match dict_get (match fmt with Some (c :: f) => c :: f | _ => s_bullet_key end) numfmt_table with
  | Some f => f
  | None => NFBullet
  end.
Definition total_fn (f : numfn) : bool :=
  match f with NFDecimal | NFBullet => true | _ => false end.
(* the right hypothesis on the numbering table: a level whose formatter is
   partial (letters, roman numerals) starts at one or above *)
Definition starts_ok' (v : env) : Prop :=
  forall n lvls a z, In (n, lvls) (env_numtbl v) -> In a lvls -> snd a = Some z ->
    (1 <= z)%Z \/ total_fn (fn_of (fst a)) = true.

Lemma style_okb_ok st : style_okb st = true <-> style_ok st.
Proof.
  unfold style_okb, style_ok. rewrite forallb_forall, Forall_forall.
  split; intros H x Hx; specialize (H x Hx); destruct (words x); congruence.
Qed.

(* ================================================================== *)
(* T1: numbering                                                        *)
(* ================================================================== *)
Lemma apply_numfn_total : forall f z, (1 <= z)%Z -> exists s, apply_numfn f z = Ok s.
Proof.
  intros f z Hz. destruct z as [|p|p]; try lia.
  destruct (letters_total p) as [s Hs].
  destruct f; cbn [apply_numfn]; unfold upper_letter, upper_roman, decimal, bullet.
  - eexists; reflexivity.
  - exists s; exact Hs.
  - rewrite Hs. eexists; reflexivity.
  - cbn [lower_roman]. eexists; reflexivity.
  - cbn [lower_roman bind]. eexists; reflexivity.
  - eexists; reflexivity.
Qed.

Lemma apply_numfn_total_fn : forall f z, total_fn f = true -> exists s, apply_numfn f z = Ok s.
Proof.
  intros f z H. destruct f; try discriminate H; cbn [apply_numfn]; unfold decimal, bullet;
    eexists; reflexivity.
Qed.

Lemma dict_get_In_inv {V} : forall (d : list (str * V)) k x, dict_get k d = Some x -> In (k, x) d.
Proof.
  induction d as [|[k0 v0] d IH]; intros k x H; [discriminate H|].
  cbn [dict_get] in H. destruct (str_eqb k k0) eqn:E.
  - apply BulletsFacts.str_eqb_eq in E. injection H as ->. subst. left. reflexivity.
  - right. apply IH. exact H.
Qed.

Lemma num_attrs_in : forall v numId ilvl na,
  get_num_fmt_attributes (to_numtable v) numId ilvl = Some na ->
  exists n lvls a, In (n, lvls) (env_numtbl v) /\ In a lvls
                   /\ na = {| na_fmt := fst a; na_start := snd a |}.
Proof.
  intros v numId ilvl na H. unfold get_num_fmt_attributes in H.
  destruct (dict_get numId (to_numtable v)) as [lvls'|] eqn:D; [|discriminate H].
  destruct (int_of_str ilvl) as [i|]; [|discriminate H].
  apply py_nth_In in H. apply dict_get_In_inv in D. unfold to_numtable in D.
  apply in_map_iff in D. destruct D as ([n lvls] & E & I). cbn [fst snd] in E.
  injection E as <- <-. apply in_map_iff in H. destruct H as (a & <- & Ia).
  exists n, lvls, a. auto.
Qed.

Lemma get_bullet_total : forall v fmt cs cs' number, starts_ok' v ->
  get_par_number (to_numtable v) cs fmt = (cs', number) ->
  (match fmt with (Some _, Some l) => int_of_str l <> None | _ => True end) ->
  exists bl, get_bullet (to_numtable v) fmt number = Ok bl.
Proof.
  intros v fmt cs cs' number Hst Hpn Hfmt.
  destruct fmt as [[numId|] [ilvl|]]; try (eexists; reflexivity).
  unfold get_par_number in Hpn.
  destruct (increment_list_counter _ ilvl) as [d' c] eqn:Ei.
  injection Hpn as <- <-.
  assert (Hc : (1 <= Z.of_N c)%Z).
  { unfold increment_list_counter in Ei. injection Ei as _ <-.
    destruct (dict_get ilvl _); lia. }
  rewrite get_bullet_eq. unfold bullet_fn, get_start_value_zero_based.
  destruct (int_of_str ilvl) as [lvl|] eqn:El; [|congruence].
  assert (Hfin : forall fn z, (exists s, apply_numfn fn z = Ok s) ->
            exists bl, (b <- apply_numfn fn z ;;
                        let b' := if str_eqb b bullet_str then b else b ++ [41] in
                        lvl0 <- of_opt ValueError (Some lvl) ;;
                        Ok (repeat_str s_tab (Z.to_nat lvl0) ++ b' ++ s_tab)) = Ok bl).
  { intros fn z [s Hs]. rewrite Hs. cbn [bind of_opt]. eexists; reflexivity. }
  destruct (get_num_fmt_attributes (to_numtable v) numId ilvl) as [na|] eqn:Ea.
  - destruct (num_attrs_in v numId ilvl na Ea) as (n & lvls & a & I1 & I2 & ->).
    destruct a as [f st]. cbn [fst snd na_fmt na_start].
    destruct st as [z|].
    + destruct (Hst n lvls (f, Some z) z I1 I2 eq_refl) as [Hz|Ht].
      * apply Hfin. apply apply_numfn_total. lia.
      * apply Hfin. apply apply_numfn_total_fn. exact Ht.
    + apply Hfin. apply apply_numfn_total. lia.
  - apply Hfin. apply apply_numfn_total. lia.
Qed.

(* the hypothesis suggested first is not enough *)
Lemma get_bullet_starts_ok_counterexample :
  let v := {| env_x2h := []; env_rels := []; env_dup := false;
              env_numtbl := [([49], [(Some [108;111;119;101;114;76;101;116;116;101;114], Some 0%Z)])] |} in
  let fmt := (Some [49], Some [48]) in
  starts_ok v /\
  get_bullet (to_numtable v) fmt (snd (get_par_number (to_numtable v) [] fmt)) = Err ValueError.
Proof.
  cbv zeta. split.
  - intros n lvls a z [E|[]] Ia Hz. injection E as <- <-. destruct Ia as [<-|[]].
    cbn in Hz. injection Hz as <-. lia.
  - vm_compute. reflexivity.
Qed.

(* ================================================================== *)
(* T3: no internal errors                                               *)
(* ================================================================== *)
(* ModelError marks the branches of the model that correspond to nothing in
   Python.  [nme r] (MergeFacts): r is not Err ModelError. *)
Lemma nme_of_opt {A} e (o : option A) : e <> ModelError -> nme (of_opt e o).
Proof. intro H. destruct o; [apply nme_ok|apply nme_err; exact H]. Qed.

Lemma nme_total {A} (r : res A) : (exists a, r = Ok a) -> nme r.
Proof. intros [a ->]. apply nme_ok. Qed.

Create HintDb nme.
#[local] Hint Resolve nme_attr_r nme_attr_w nme_sub_val_of nme_gather_Pr nme_eval_fpart
  nme_eval_fexpr nme_format_Pr nme_get_html_formatting : nme.

Ltac nme_step :=
  first
    [ solve [auto with nme]
    | match goal with
      | |- nme (Ok _) => apply nme_ok
      | |- nme (Err _) => apply nme_err; discriminate
      | |- nme (bind _ _) => apply nme_bind; [|intros ? ?]
      | |- nme (of_opt _ _) => apply nme_of_opt; discriminate
      | |- nme (mapM _ _) => apply nme_mapM; apply Forall_forall; intros ? ?
      | |- nme (foldM _ _ _) => apply nme_foldM; intros
      | |- nme (let _ := _ in _) => cbv zeta
      | |- nme (match ?x with _ => _ end) => destruct x
      end ].
Ltac nme_tac := repeat nme_step.

Lemma nme_attr_w_req e n : nme (attr_w_req e n).
Proof. unfold attr_w_req. nme_tac. Qed.
#[local] Hint Resolve nme_attr_w_req : nme.
Lemma nme_attr_r_req e n : nme (attr_r_req e n).
Proof. unfold attr_r_req. nme_tac. Qed.
#[local] Hint Resolve nme_attr_r_req : nme.
Lemma nme_children_w e ks n : nme (children_w e ks n).
Proof. unfold children_w. nme_tac. Qed.
#[local] Hint Resolve nme_children_w : nme.
Lemma nme_get_pStyle e ks : nme (get_pStyle e ks).
Proof. unfold get_pStyle. nme_tac. Qed.
#[local] Hint Resolve nme_get_pStyle : nme.
Lemma nme_get_run_formatting e ks x : nme (get_run_formatting e ks x).
Proof. unfold get_run_formatting. nme_tac. Qed.
#[local] Hint Resolve nme_get_run_formatting : nme.
Lemma nme_get_paragraph_formatting e ks x : nme (get_paragraph_formatting e ks x).
Proof. unfold get_paragraph_formatting. nme_tac. Qed.
#[local] Hint Resolve nme_get_paragraph_formatting : nme.
Lemma nme_first_word s : nme (first_word s).
Proof. unfold first_word. nme_tac. Qed.
#[local] Hint Resolve nme_first_word : nme.
Lemma nme_close_toks st : nme (close_toks st).
Proof. unfold close_toks. nme_tac. Qed.
#[local] Hint Resolve nme_close_toks : nme.
Lemma nme_run_toks r : nme (run_toks r).
Proof. unfold run_toks. nme_tac. Qed.
#[local] Hint Resolve nme_run_toks : nme.
Lemma nme_par_run_toks p : nme (par_run_toks p).
Proof. unfold par_run_toks. nme_tac. Qed.
#[local] Hint Resolve nme_par_run_toks : nme.
Lemma nme_par_run_strings h p : nme (par_run_strings h p).
Proof. unfold par_run_strings. nme_tac. Qed.
#[local] Hint Resolve nme_par_run_strings : nme.

(* pars_at reaches its depth-0 branch only when called with depth 0 *)
Lemma nme_pars_at : forall d l, nme (pars_at (S d) l).
Proof.
  induction d as [|d IH]; intro l.
  - cbn [pars_at]. apply nme_mapM. apply Forall_forall. intros n _. destruct n; nme_tac.
  - rewrite pars_at_SS. apply nme_bind; [|intros; apply nme_ok].
    apply nme_mapM. apply Forall_forall. intros n _. destruct n as [l'|p]; [apply IH|nme_tac].
Qed.
Lemma nme_pars_at_4 l : nme (pars_at 4%nat l).
Proof. apply nme_pars_at. Qed.
#[local] Hint Resolve nme_pars_at_4 : nme.
Lemma nme_count_runs v s : nme (count_runs v s).
Proof. unfold count_runs. nme_tac. Qed.
#[local] Hint Resolve nme_count_runs : nme.
Lemma nme_tree_par_toks l : nme (tree_par_toks l).
Proof. unfold tree_par_toks. nme_tac. Qed.
#[local] Hint Resolve nme_tree_par_toks : nme.

(* lower_letter: the fuel suffices (NumFmtFacts.letters_total) *)
Lemma nme_lower_letter z : nme (lower_letter z).
Proof.
  destruct z as [|p|p]; try (cbn [lower_letter]; apply nme_err; discriminate).
  apply nme_total. apply letters_total.
Qed.
#[local] Hint Resolve nme_lower_letter : nme.
Lemma nme_apply_numfn f z : nme (apply_numfn f z).
Proof.
  destruct f; cbn [apply_numfn]; unfold upper_letter, upper_roman, lower_roman, decimal, bullet;
    nme_tac.
Qed.
#[local] Hint Resolve nme_apply_numfn : nme.
Lemma nme_get_bullet tbl fmt number : nme (get_bullet tbl fmt number).
Proof.
  unfold get_bullet. destruct fmt as [[n|] [l|]]; try apply nme_ok.
  destruct number as [z|]; [|apply nme_ok]. cbv zeta.
  apply nme_bind; [apply nme_apply_numfn|]. intros b _.
  apply nme_bind; [apply nme_of_opt; discriminate|]. intros. apply nme_ok.
Qed.
#[local] Hint Resolve nme_get_bullet : nme.
Lemma nme_get_checkBox_entry e ks : nme (get_checkBox_entry e ks).
Proof. unfold get_checkBox_entry. nme_tac. Qed.
#[local] Hint Resolve nme_get_checkBox_entry : nme.

(* iterfind yields elements only *)
Lemma children_w_AE e ks n l : children_w e ks n = Ok l ->
  Forall (fun k => match k with AE _ _ => True | AX _ => False end) l.
Proof.
  unfold children_w. destruct (e_wuri e) as [u|]; [|discriminate].
  intro H. injection H as <-. unfold find_children. apply Forall_forall. intros k Hk.
  apply filter_In in Hk. destruct Hk as [_ Hk]. destruct k; [exact I|discriminate Hk].
Qed.

Lemma nme_get_ddList_entry e ks : nme (get_ddList_entry e ks).
Proof.
  unfold get_ddList_entry.
  apply nme_bind; [apply nme_children_w|]. intros entries He.
  apply nme_bind.
  { apply nme_mapM. apply children_w_AE in He. eapply Forall_impl; [|exact He].
    intros k Hk. destruct k; [apply nme_attr_w_req|destruct Hk]. }
  intros vals _.
  apply nme_bind; [|intros; apply nme_ok].
  destruct (children_w e ks s_result) as [l|x] eqn:Er; [|apply nme_ok].
  apply children_w_AE in Er. destruct l as [|k r]; [apply nme_ok|].
  inversion Er as [|? ? Hk _]; subst. destruct k; [|destruct Hk]. nme_tac.
Qed.
#[local] Hint Resolve nme_get_ddList_entry : nme.

(* ---- the collector's primitives ---- *)
Lemma set_caret_nme od name s :
  (forall d, od = Some d -> (1 <= d <= 4)%nat) -> Inv s -> nme (set_caret od name s).
Proof.
  intros Hd H. destruct od as [d|]; [|apply nme_ok].
  destruct (set_caret_inv d name s (Hd d eq_refl) H) as (s' & E & _). rewrite E. apply nme_ok.
Qed.

Lemma commence_paragraph_nme v elem s : Inv s -> nme (commence_paragraph v elem s).
Proof.
  intro H. unfold commence_paragraph.
  apply nme_bind.
  { apply set_caret_nme; [|exact H]. intros d Hd. injection Hd as <-. unfold par_depth. lia. }
  intros s1 _. nme_tac.
Qed.

Lemma commence_paragraph_open v elem s s' :
  commence_paragraph v elem s = Ok s' -> c_open s' <> [].
Proof.
  unfold commence_paragraph. intro H.
  bind_inv H as s1 E1. bind_inv H as hs E2. bind_inv H as ps E3. cbv zeta in H.
  injection H as <-. cbn. discriminate.
Qed.

Lemma conclude_paragraph_total s : Inv s -> exists s', conclude_paragraph s = Ok s'.
Proof.
  intro H. unfold conclude_paragraph.
  destruct (c_open s) as [|p rest]; [eexists; reflexivity|].
  destruct (set_caret_inv 4%nat None (set_open rest s)) as (s1 & E & I1 & D1 & _);
    [lia|apply set_open_inv; exact H|].
  unfold par_depth. rewrite E. cbn [bind].
  destruct I1 as (T & R & S). rewrite D1 in S.
  destruct (spine_app_ok 4%nat 1%nat (NP p) (c_tree s1) S T) as (l' & E' & _); [reflexivity|].
  rewrite E'. cbn [bind]. eexists; reflexivity.
Qed.

Lemma conclude_paragraph_nme s : Inv s -> nme (conclude_paragraph s).
Proof. intro H. apply nme_total, conclude_paragraph_total, H. Qed.

Lemma ensure_par_nme v s : Inv s -> nme (ensure_par v s).
Proof.
  intro H. unfold ensure_par. destruct (c_open s); [apply commence_paragraph_nme, H|apply nme_ok].
Qed.

Lemma ensure_par_open v s s' : ensure_par v s = Ok s' -> c_open s' <> [].
Proof.
  unfold ensure_par. destruct (c_open s) eqn:E.
  - apply commence_paragraph_open.
  - intro H. injection H as <-. rewrite E. discriminate.
Qed.

Lemma upd_open_runs_nme v f s : Inv s -> nme (upd_open_runs v f s).
Proof.
  intro H. unfold upd_open_runs.
  apply nme_bind; [apply ensure_par_nme, H|]. intros s1 E.
  apply ensure_par_open in E. destruct (c_open s1); [congruence|apply nme_ok].
Qed.

Lemma upd_open_runs_nonempty v f s s' : upd_open_runs v f s = Ok s' -> c_open s' <> [].
Proof.
  unfold upd_open_runs. intro H. bind_inv H as s1 E.
  destruct (c_open s1); [discriminate H|]. injection H as <-. cbn. discriminate.
Qed.

Lemma start_comment_range_nme v id s : nme (start_comment_range v id s).
Proof. unfold start_comment_range. nme_tac. Qed.
Lemma end_comment_range_nme v id s : nme (end_comment_range v id s).
Proof. unfold end_comment_range. nme_tac. Qed.

(* ---- close_table_cell: the proof of ShapeFacts.close_table_cell_good with
   the absence of ModelError carried along ---- *)
Definition good2 {A} (Q : A -> Prop) (r : res A) : Prop := good Q r /\ nme r.

Lemma good2_bind {A B} (Q : A -> Prop) (R : B -> Prop) (r : res A) (k : A -> res B) :
  good2 Q r -> (forall a, Q a -> good2 R (k a)) -> good2 R (bind r k).
Proof.
  destruct r as [a|e]; cbn [bind]; intros [H N] K.
  - apply K. exact H.
  - split; [exact H|exact N].
Qed.
Lemma good2_ok {A} (Q : A -> Prop) a : Q a -> good2 Q (Ok a).
Proof. intro H. split; [exact H|apply nme_ok]. Qed.
Lemma good2_err {A} (Q : A -> Prop) e :
  e <> CaretDepthError -> e <> ModelError -> good2 Q (@Err A e).
Proof. intros H1 H2. split; [exact H1|apply nme_err; exact H2]. Qed.
Lemma good2_any {A} (r : res A) : nce r -> nme r -> good2 any r.
Proof. intros H1 H2. split; assumption. Qed.

Lemma nme_as_list n : nme (as_list n).
Proof. destruct n; nme_tac. Qed.
#[local] Hint Resolve nme_as_list : nme.
Lemma nme_get_row root ti ri : nme (get_row root ti ri).
Proof. unfold get_row. nme_tac. Qed.
#[local] Hint Resolve nme_get_row : nme.

Lemma nme_upd_nth {A} (f : A -> res A) :
  (forall x, nme (f x)) -> forall l n, nme (upd_nth n f l).
Proof.
  intro Hf. induction l as [|x r IH]; intro n.
  - destruct n; cbn [upd_nth]; apply nme_err; discriminate.
  - destruct n as [|k]; cbn [upd_nth].
    + apply nme_bind; [apply Hf|intros; apply nme_ok].
    + apply nme_bind; [apply IH|intros; apply nme_ok].
Qed.
Lemma nme_py_upd {A} (f : A -> res A) l i : (forall x, nme (f x)) -> nme (py_upd l i f).
Proof.
  intro Hf. unfold py_upd. destruct (Nat.leb (length l) i); [apply nme_err; discriminate|].
  apply nme_upd_nth; exact Hf.
Qed.
Lemma nme_upd_row root ti ri f : (forall cs, nme (f cs)) -> nme (upd_row root ti ri f).
Proof.
  intro Hf. unfold upd_row. apply nme_py_upd. intro t.
  apply nme_bind; [apply nme_as_list|intros rows _].
  apply nme_bind; [|intros; apply nme_ok].
  apply nme_py_upd. intro r.
  apply nme_bind; [apply nme_as_list|intros cells _].
  apply nme_bind; [apply Hf|intros; apply nme_ok].
Qed.

Lemma upd_row_good2 sa ti ri f :
  Inv sa -> c_depth sa = 3%nat ->
  (forall cs, nce (f cs)) -> (forall cs, nme (f cs)) ->
  (forall cs cs', forallb (shapeb 3%nat) cs = true -> f cs = Ok cs' ->
                  forallb (shapeb 3%nat) cs' = true) ->
  good2 (fun root' => Inv (set_tree root' sa)) (upd_row (c_tree sa) ti ri f).
Proof.
  intros Ia D N1 N2 Hf. split; [apply upd_row_good; assumption|apply nme_upd_row; exact N2].
Qed.

#[local] Hint Resolve attr_w_nce attr_r_nce attr_w_req_nce attr_r_req_nce children_w_nce
  sub_val_of_nce gather_Pr_nce get_pStyle_nce format_Pr_into_html_nce get_run_formatting_nce
  get_paragraph_formatting_nce par_run_strings_nce pars_at_nce count_runs_nce tree_par_toks_nce
  get_bullet_nce get_checkBox_entry_nce get_ddList_entry_nce as_list_nce get_row_nce : nce.

Ltac ext2 := apply good2_any; [solve [nce_tac]|solve [nme_tac]].
Ltac g2err := apply good2_err; discriminate.

Lemma close_table_cell_good2 v e ks s : Inv s -> good2 Inv (close_table_cell v e ks s).
Proof.
  intro H. unfold close_table_cell.
  apply good2_bind with (Q := any); [ext2|]. intros pr _. cbv zeta.
  apply good2_bind with (Q := any); [ext2|]. intros rows0 _.
  apply good2_bind with (Q := any); [ext2|]. intros _ _.
  apply good2_bind with (Q := Inv).
  { match goal with |- good2 Inv (if ?c then _ else _) => destruct c end;
      [|apply good2_ok; exact H].
    destruct (set_caret_inv 3%nat None s) as (sa & E & Ia & Da & _); [lia|exact H|].
    rewrite E. cbn [bind].
    destruct (py_get (c_tree sa) (length (c_tree s) - 1)) as [t|] eqn:Eg; [|g2err].
    cbn [of_opt bind].
    destruct t as [rows|p]; [|g2err]. cbn [as_list bind].
    destruct rows as [|r0 [|p rest]]; try g2err.
    destruct p as [prev|p]; [|g2err]. cbn [as_list bind].
    apply good2_bind with (Q := any); [ext2|]. intros cells _.
    cbv zeta. destruct cells as [|c0 cr].
    { apply good2_ok. exact Ia. }
    match goal with |- context [py_nth ?a ?b] => destruct (py_nth a b) as [src|] eqn:Esrc end;
      [|apply good2_ok; exact Ia].
    apply good2_bind with (Q := fun root' => Inv (set_tree root' sa)).
    2:{ intros root' Hr. apply good2_ok. exact Hr. }
    apply upd_row_good2; [exact Ia|exact Da| | |].
    - intros [|c r]; simpl; [discriminate|exact I].
    - intros [|c r]; nme_tac.
    - intros [|c r] cs' Hc Hf; [discriminate Hf|]. injection Hf as <-.
      cbn [forallb] in Hc |- *. apply andb_true_iff in Hc. destruct Hc as [_ Hc].
      rewrite Hc, andb_true_r, copy_node_shape.
      apply py_nth_In in Esrc. apply in_rev in Esrc. apply py_get_In in Eg.
      destruct Ia as (T & _).
      pose proof (tree_ok_cells _ _ prev T Eg (or_intror (or_introl eq_refl))) as Hp.
      exact (proj1 (forallb_forall _ _) Hp _ Esrc). }
  intros s1 I1.
  apply good2_bind with (Q := any); [ext2|]. intros span _.
  generalize (Z.to_nat (span - 1)). intro n. revert s1 I1.
  induction n as [|k IH]; intros s1 I1; [apply good2_ok; exact I1|].
  cbv beta iota.
  destruct (set_caret_inv 3%nat None s1) as (sa & E & Ia & Da & _); [lia|exact I1|].
  rewrite E. cbn [bind].
  apply good2_bind with (Q := fun root' => Inv (set_tree root' sa)).
  2:{ intros root' Hr. apply IH. exact Hr. }
  apply upd_row_good2; [exact Ia|exact Da| | |].
  - intro cs. destruct (env_dup v); [|exact I]. destruct cs; simpl; [discriminate|exact I].
  - intro cs. destruct (env_dup v); [|apply nme_ok]. destruct cs; nme_tac.
  - intros cs cs' Hc Hf. destruct (env_dup v).
    + destruct cs as [|c r]; [discriminate Hf|]. injection Hf as <-.
      cbn [forallb] in Hc |- *. rewrite copy_node_shape.
      apply andb_true_iff in Hc. destruct Hc as [Hc1 Hc2]. rewrite Hc1, Hc2. reflexivity.
    + injection Hf as <-. cbn [forallb]. rewrite Hc. reflexivity.
Qed.

Lemma close_table_cell_nme v e ks s : Inv s -> nme (close_table_cell v e ks s).
Proof. intro H. exact (proj2 (close_table_cell_good2 v e ks s H)). Qed.

Print Assumptions apply_numfn_total.
Print Assumptions get_bullet_total.
Print Assumptions get_bullet_starts_ok_counterexample.
