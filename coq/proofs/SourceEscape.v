(* SourceEscape.v — depth_collector.DepthCollector.escape AS TRANSLATED FROM THE SOURCE TEXT
   (gen/Source.v: three str.replace calls, guarded by the html flag) is the model's
   character-wise escaping (C07: every &, < and > that comes from document text is
   entity-escaped; html=False leaves the text alone). *)
From Coq Require Import List NArith ZArith Bool.
From D2P Require Import Str Err Collector PyVal Source SourceBase TokFacts.
Import ListNotations.

Definition k_x2h : str := [95;120;109;108;50;104;116;109;108;95;102;111;114;109;97;116]%N.

(* self._xml2html_format truthy = html on *)
Theorem src_escape : forall cls (fmt : pv) (s : str),
  S_DepthCollector_escape (VObj cls [(k_x2h, fmt)]) (VStr s)
  = Ok (VStr (if py_truth fmt then render true (map TTxt s) else render false (map TTxt s))).
Proof.
  intros cls fmt s. unfold S_DepthCollector_escape, fn_result.
  cbn [binde py_attr field_get]. change (str_eqb _ k_x2h) with true. cbn [of_opt binde].
  destruct (py_truth fmt).
  - cbn [bindo binde py_replace]. rewrite escape_is_python_replace. reflexivity.
  - cbn [bindo]. f_equal. f_equal. symmetry. apply render_plain_txt.
Qed.
Print Assumptions src_escape.
