(* TotalTables.v — C13 for trees WITH tables and comment range markers:
   if the local evaluation of every element succeeds, the whole walk succeeds,
   the collector finishes and the views render.

   STATE OF THE CODE.  TagRunner._close_table_cell was repaired (it returns at
   once when the tree is empty or its newest table has no row, and appends a
   blank cell when a horizontally merged cell is to be duplicated into a row
   that has no cell yet); Collector.close_table_cell mirrors the repaired
   method.  This file was first written against the unrepaired method, where
   closing a cell could raise IndexError for structural reasons; what was
   found then is kept below as history, with the statements that hold now.

   Main results
     close_table_cell_total_now  under J and the local conditions (gather_Pr,
                                 the gridSpan value) close_table_cell ALWAYS
                                 succeeds and preserves J
     close_table_cell_ok_iff_now the exact condition: gather_Pr succeeds and,
                                 if the newest table has a row, the gridSpan
                                 value parses
     walk_total_all, collect_total_all(_strong), rendering_total_all
                                 totality under all_local_ok3: local
                                 evaluations only, NO condition on what a
                                 w:tc contains
     all_local_ok2_all_local_ok3, all_local_ok2_weak_all_local_ok3,
     all_local_ok'_all_local_ok3 the earlier hypotheses are special cases
     walk_total_tables, collect_total_tables(_strong), rendering_total_tables
                                 the earlier theorems (hypothesis
                                 all_local_ok2, with the structural clause
                                 tc_ok); kept, now instances of the above
     all_local_ok'_all_local_ok2   TotalFacts' hypothesis is a special case
     cell_ok_ends_with_par         a cell whose last paragraph-bearing child is
                                   a w:p satisfies the structural condition
     tt_doc_ok / tt_doc_collects / tt_doc_result    the example
     walk_total_tables_repaired, walk_total_tables_dup_repaired,
     cell_without_paragraph_repaired, cx_all_local_ok3, cx_extracted,
     cx_dup_result               the former counterexample trees are extracted

   HISTORY (findings made on the unrepaired method)
   1. "Some w:p below the w:tc" (local_ok2_weak) did not suffice for the walk
      to succeed:
        cx_nested   <w:tc><w:customXml><w:customXml><w:p/></w:customXml>
          <w:tbl>...</w:tbl></w:customXml></w:tc> — a structure the XSD
          allows — raised IndexError in close_table_cell for both settings of
          duplicate_merged_cells;
        cx_dup      a gridSpan=2 cell holding <w:customXml><w:p/><w:sdt>..
          <w:p/>..</w:sdt></w:customXml> raised IndexError when
          duplicate_merged_cells = True only;
        <w:tc/>     raised IndexError.
      The cause was always the same: after the last paragraph of the cell the
      caret is raised (an element of depth 1 or 2) and dropped again (closing
      an element of depth 2 or 3), which appends an EMPTY table or row, and
      close_table_cell read root[-1][-1] resp. this_tr[-1].
      The hypothesis used then (decidable, [tc_ok]): the last paragraph-bearing
      child of the cell "ends with paragraph content" — it is a w:p, or a
      chain of wrappers (w:sdt/w:sdtContent/w:customXml ..., children walked,
      no w:tc) down to a w:p where no wrapper sits deeper than its last
      paragraph-bearing child ([ends_full], needed when the cell is
      duplicated) resp. no wrapper of depth 2 does ([ends_row], otherwise).
      After the repair none of this is needed (PART 6b).
   2. The proposed strengthening of the invariant ("every table has a row,
      every row a cell") is not an invariant, not even of final trees of
      ordinary documents (J2_naive_counterexample: a content control holding a
      paragraph and a table) — still true.  No strengthening of the state
      invariant is needed: J2 is the J of TotalFacts. *)
From Coq Require Import List NArith ZArith Bool Arith Lia.
From D2P Require Import Str Err Xml TableTypes Tables Fmt NumFmt Bullets Merge Collector Walk
     Iter Output.
From D2P Require Import BulletsFacts NumFmtFacts TokFacts ShapeFacts FrameFacts MergeFacts
     ViewFacts TotalFacts GridFacts LineageFacts.
Import ListNotations.
#[local] Open Scope nat_scope.

(* ================================================================== *)
(* PART 0 — definitions                                                 *)
(* ================================================================== *)
(* a w:p at or below t *)
Definition has_par (t : anode) : bool :=
  match min_par_depth t with Some _ => true | None => false end.

(* the handlers of these tags return False: their children are not walked *)
Definition recurses (tg : str) : bool :=
  negb (str_eqb tg tag_COMMENT_RANGE_END || str_eqb tg tag_COMMENT_RANGE_START
        || str_eqb tg tag_MATH || str_eqb tg tag_HYPERLINK).

(* the last child with a paragraph at or below it *)
Fixpoint last_pc (l : list anode) : option anode :=
  match l with
  | [] => None
  | k :: r => match last_pc r with
              | Some x => Some x
              | None => if has_par k then Some k else None
              end
  end.

(* closing an element of depth a, after a last paragraph-bearing child of
   depth b, does not DROP the caret ... *)
Definition dle (a b : option nat) : bool :=
  match a with
  | None => true
  | Some x => Nat.eqb x 1 || match b with Some y => Nat.leb x y | None => false end
  end.
(* ... or drops it to depth 3 or 4 only *)
Definition dle3 (a b : option nat) : bool :=
  match a with
  | None => true
  | Some x => Nat.leb 3 x || dle a b
  end.

(* "t ends with paragraph content": t is a w:p, or a wrapper (w:sdt,
   w:sdtContent, w:customXml, w:ins ...; not a w:tc, not an element whose
   children are skipped) whose last paragraph-bearing child ends with
   paragraph content and whose own closing does not move the caret down
   (condition D on the depths of the two elements) *)
Fixpoint ends_gen (D : option nat -> option nat -> bool) (t : anode) : bool :=
  match t with
  | AX _ => false
  | AE e ks =>
      if str_eqb (e_ptag e) tag_PARAGRAPH then true
      else recurses (e_ptag e) && negb (str_eqb (e_ptag e) tag_TABLE_CELL)
           && match (fix go (l : list anode) : option bool :=
                        match l with
                        | [] => None
                        | k :: r =>
                            match go r with
                            | Some b => Some b
                            | None => if has_par k
                                      then Some (ends_gen D k && D (elem_depth t) (elem_depth k))
                                      else None
                            end
                        end) ks with
              | Some b => b
              | None => false
              end
  end.
(* afterwards the newest row of the newest table has a cell ... *)
Definition ends_full : anode -> bool := ends_gen dle.
(* ... afterwards the newest table has a row *)
Definition ends_row : anode -> bool := ends_gen dle3.

(* the structural conditions on the children of a w:tc: the last child with
   a paragraph below it ends with paragraph content.  The schema (with the
   rule that a cell ends with a w:p) gives the simplest instance: that child
   IS a w:p (cell_ok_ends_with_par below). *)
Definition cell_ok (ks : list anode) : bool :=
  match last_pc ks with Some k => ends_full k | None => false end.
Definition row_ok (ks : list anode) : bool :=
  match last_pc ks with Some k => ends_row k | None => false end.

(* what close_table_cell evaluates locally, and the structural condition that
   the unrepaired method needed: [cell_ok] when the cell will be duplicated
   (duplicate_merged_cells and a gridSpan above 1), [row_ok] otherwise.
   (Since the repair the structural clause is superfluous: tc_ok3, PART 6b.) *)
Definition tc_ok (v : env) (e : einfo) (ks : list anode) : bool :=
  match gather_Pr e ks with
  | Ok pr =>
      match span_of pr with
      | Ok g => if (env_dup v && Z.ltb 1 g)%bool then cell_ok ks else row_ok ks
      | Err _ => false
      end
  | Err _ => false
  end.

Definition local_ok2 (v : env) (t : anode) : bool :=
  match t with
  | AX _ => true
  | AE e ks =>
      if str_eqb (e_ptag e) tag_TABLE_CELL then tc_ok v e ks
      else if (str_eqb (e_ptag e) tag_COMMENT_RANGE_START
               || str_eqb (e_ptag e) tag_COMMENT_RANGE_END)%bool then
        is_ok (attr_w_req e s_id)
      else local_ok' v t
  end.
Fixpoint all_local_ok2 (v : env) (t : anode) : bool :=
  match t with AX _ => true | AE e ks => local_ok2 v t && forallb (all_local_ok2 v) ks end.

(* the variant with the structural condition that was expected to suffice:
   "some paragraph below the cell" (before the repair of _close_table_cell it
   did not, see PART 7; now even less is enough: local_ok3, PART 6b) *)
Definition local_ok2_weak (v : env) (t : anode) : bool :=
  match t with
  | AX _ => true
  | AE e ks =>
      if str_eqb (e_ptag e) tag_TABLE_CELL then
        match gather_Pr e ks with Ok pr => is_ok (span_of pr) | Err _ => false end
        && has_par t
      else if (str_eqb (e_ptag e) tag_COMMENT_RANGE_START
               || str_eqb (e_ptag e) tag_COMMENT_RANGE_END)%bool then
        is_ok (attr_w_req e s_id)
      else local_ok' v t
  end.
Fixpoint all_local_ok2_weak (v : env) (t : anode) : bool :=
  match t with AX _ => true | AE e ks => local_ok2_weak v t && forallb (all_local_ok2_weak v) ks end.

(* The invariant.  The strengthening that was proposed ("every table of the
   tree has a row, every row a cell") is NOT an invariant of the walk, not
   even of its final states (J2_naive_counterexample in PART 7); what the
   unrepaired close_table_cell needed of the state was [spine_ok 3 (c_tree s)]
   — the root and its newest table are non-empty — and, when a cell is to be
   duplicated, [spine_ok 4 (c_tree s)] — the newest row is non-empty too.
   Neither is invariant (the caret dropping from depth 1 or 2 appends an empty
   table or row); [row_ok] / [cell_ok] re-establish them locally, at the end
   of each cell.  The repaired method needs neither.  The invariant of the
   walk itself is the J of TotalFacts. *)
Definition J2 (s : cst) : Prop := J s.

Definition rows_nonempty (n : node) : Prop :=
  match n with NL rows => rows <> [] /\ Forall (fun r => r <> NL []) rows | NP _ => True end.
Definition J2_naive (s : cst) : Prop := J s /\ Forall rows_nonempty (c_tree s).

(* ================================================================== *)
(* PART 1 — close_table_cell                                            *)
(* ================================================================== *)
Lemma node_ind' (P : node -> Prop) :
  (forall p, P (NP p)) -> (forall l, Forall P l -> P (NL l)) -> forall n, P n.
Proof.
  intros HP HL. fix IH 1. intros [l|p]; [|apply HP].
  apply HL. induction l as [|x l IHl]; constructor; [apply IH|exact IHl].
Qed.

(* ---- Python indexes below newer entries ---- *)
Lemma py_get_app {A} (pre : list A) x old : py_get (pre ++ x :: old) (length old) = Some x.
Proof.
  unfold py_get. rewrite app_length. cbn [length].
  destruct (Nat.leb_spec (length pre + S (length old)) (length old)) as [L|L]; [lia|].
  replace (length pre + S (length old) - 1 - length old) with (length pre) by lia.
  rewrite nth_error_app2 by lia. rewrite Nat.sub_diag. reflexivity.
Qed.

Lemma upd_nth_app {A} (f : A -> res A) : forall (pre : list A) x old,
  upd_nth (length pre) f (pre ++ x :: old) = (y <- f x ;; Ok (pre ++ y :: old)).
Proof.
  induction pre as [|a pre IH]; intros x old; cbn [length app upd_nth].
  - reflexivity.
  - rewrite IH. destruct (f x); reflexivity.
Qed.

Lemma py_upd_app {A} (f : A -> res A) pre x old :
  py_upd (pre ++ x :: old) (length old) f = (y <- f x ;; Ok (pre ++ y :: old)).
Proof.
  unfold py_upd. rewrite app_length. cbn [length].
  destruct (Nat.leb_spec (length pre + S (length old)) (length old)) as [L|L]; [lia|].
  replace (length pre + S (length old) - 1 - length old) with (length pre) by lia.
  apply upd_nth_app.
Qed.

(* the row with Python indexes (ti, ri) holds [cells]; newer tables and
   newer rows of the same table may have been appended since *)
Definition at_row (root : list node) (ti ri : nat) (cells : list node) : Prop :=
  exists pre_t pre_r prev_rows old,
    root = pre_t ++ NL (pre_r ++ NL cells :: prev_rows) :: old
    /\ ti = length old /\ ri = length prev_rows.

Lemma at_row_get root ti ri cells : at_row root ti ri cells -> get_row root ti ri = Ok cells.
Proof.
  intros (pt & pr & pv & old & -> & -> & ->). unfold get_row.
  rewrite py_get_app. cbn [of_opt bind as_list]. rewrite py_get_app. reflexivity.
Qed.

Lemma at_row_upd root ti ri cells f cells' :
  at_row root ti ri cells -> f cells = Ok cells' ->
  exists root', upd_row root ti ri f = Ok root' /\ at_row root' ti ri cells'.
Proof.
  intros (pt & pr & pv & old & -> & -> & ->) Hf. unfold upd_row.
  rewrite py_upd_app. cbn [as_list bind]. rewrite py_upd_app. cbn [as_list bind].
  rewrite Hf. cbn [bind]. eexists. split; [reflexivity|]. exists pt, pr, pv, old. auto.
Qed.

Lemma at_row_upd_err root ti ri cells f x :
  at_row root ti ri cells -> f cells = Err x -> upd_row root ti ri f = Err x.
Proof.
  intros (pt & pr & pv & old & -> & -> & ->) Hf. unfold upd_row.
  rewrite py_upd_app. cbn [as_list bind]. rewrite py_upd_app. cbn [as_list bind].
  rewrite Hf. reflexivity.
Qed.

(* what set_caret (Some 3) does to the tree *)
Definition ext3 (root root' : list node) : Prop :=
  root' = root \/ root' = NL [NL []] :: root
  \/ exists rows old, root = NL rows :: old /\ root' = NL (NL [] :: rows) :: old.

Lemma at_row_ext root root' ti ri cells :
  ext3 root root' -> at_row root ti ri cells -> at_row root' ti ri cells.
Proof.
  intros [->|[->|(rows & old0 & E & ->)]] (pt & pr & pv & old & E0 & Hti & Hri).
  - exists pt, pr, pv, old. auto.
  - exists (NL [NL []] :: pt), pr, pv, old. rewrite E0. auto.
  - rewrite E in E0. clear E. destruct pt as [|t0 pt'].
    + cbn [app] in E0. injection E0 as E1 E2. subst rows old0.
      exists [], (NL [] :: pr), pv, old. auto.
    + cbn [app] in E0. injection E0 as E1 E2. subst t0 old0.
      exists (NL (NL [] :: rows) :: pt'), pr, pv, old. auto.
Qed.

Lemma set_caret3_ext s sa :
  Inv s -> set_caret (Some 3) None s = Ok sa -> ext3 (c_tree s) (c_tree sa).
Proof.
  intros (T & R & S) H. destruct s as [t d lin o q r cn]. cbn [c_tree c_depth] in *.
  destruct lin as [[[a b] c] e].
  assert (D : d = 1 \/ d = 2 \/ d = 3 \/ d = 4) by lia.
  destruct D as [-> | [-> | [-> | ->]]].
  - cbn in H. injection H as <-. right; left. reflexivity.
  - destruct t as [|[rows|p] old]; try (cbn in S; contradiction).
    cbn in H. injection H as <-. right; right. eauto.
  - cbn in H. injection H as <-. left. reflexivity.
  - cbn in H. injection H as <-. left. reflexivity.
Qed.

(* ---- the style invariant under the edits of close_table_cell ---- *)
Lemma node_sty_copy : forall n, node_sty n -> node_sty (copy_node n).
Proof.
  apply (node_ind' (fun n => node_sty n -> node_sty (copy_node n))).
  - intros p H. inversion H as [? Hp|]; subst. cbn [copy_node]. constructor. exact Hp.
  - intros l IH H. inversion H as [|? Hl]; subst. cbn [copy_node]. constructor.
    clear H. induction IH as [|x l Hx _ IHl]; [constructor|].
    inversion Hl; subst. cbn [map]. constructor; [apply Hx; assumption|apply IHl; assumption].
Qed.

Lemma node_sty_blank : node_sty (NL [NP new_empty_par]).
Proof.
  constructor. constructor; [|constructor]. constructor. split; constructor.
Qed.

Lemma node_sty_NL_inv l : node_sty (NL l) -> Forall node_sty l.
Proof. intro H. inversion H; assumption. Qed.

Lemma upd_nth_Forall {A} (P : A -> Prop) (f : A -> res A) :
  (forall x y, P x -> f x = Ok y -> P y) ->
  forall l n l', Forall P l -> upd_nth n f l = Ok l' -> Forall P l'.
Proof.
  intro Hf. induction l as [|x r IH]; intros n l' HP H.
  - destruct n; discriminate H.
  - inversion HP as [|? ? Px Pr]; subst.
    destruct n as [|k]; cbn [upd_nth] in H.
    + bind_inv H as y E. injection H as <-. constructor; [exact (Hf _ _ Px E)|exact Pr].
    + bind_inv H as r' E. injection H as <-. constructor; [exact Px|exact (IH _ _ Pr E)].
Qed.

Lemma py_upd_Forall {A} (P : A -> Prop) (f : A -> res A) l i l' :
  (forall x y, P x -> f x = Ok y -> P y) -> Forall P l -> py_upd l i f = Ok l' -> Forall P l'.
Proof.
  intros Hf HP. unfold py_upd. destruct (Nat.leb (length l) i); [discriminate|].
  apply upd_nth_Forall; assumption.
Qed.

Lemma upd_row_sty root ti ri f root' :
  Forall node_sty root ->
  (forall cs cs', Forall node_sty cs -> f cs = Ok cs' -> Forall node_sty cs') ->
  upd_row root ti ri f = Ok root' -> Forall node_sty root'.
Proof.
  intros HT Hf H. unfold upd_row in H.
  eapply py_upd_Forall; [|exact HT|exact H].
  clear H. intros x y Px Hx. cbv beta in Hx.
  bind_inv Hx as rows Er. destruct x as [l|p]; [|discriminate Er]. injection Er as <-.
  bind_inv Hx as rows' E2. injection Hx as <-. constructor.
  eapply py_upd_Forall; [|exact (node_sty_NL_inv _ Px)|exact E2].
  clear E2. intros x y Px2 Hx. cbv beta in Hx.
  bind_inv Hx as cells Er. destruct x as [l2|p]; [|discriminate Er]. injection Er as <-.
  bind_inv Hx as cells' E3. injection Hx as <-. constructor.
  exact (Hf _ _ (node_sty_NL_inv _ Px2) E3).
Qed.

(* every row of a table of a well-shaped tree is a list *)
Lemma tree_ok_row_NL root rows r :
  tree_ok root -> In (NL rows) root -> In r rows -> exists cells, r = NL cells.
Proof.
  unfold tree_ok. intros T I1 I2.
  pose proof (proj1 (forallb_forall _ _) T _ I1) as H1.
  rewrite shapeb_NL in H1. apply andb_true_iff in H1. destruct H1 as [_ H1].
  pose proof (proj1 (forallb_forall _ _) H1 _ I2) as H2.
  destruct r as [cells|p]; [eauto|discriminate H2].
Qed.

Lemma set_tree_J root' sa :
  Inv (set_tree root' sa) -> Forall node_sty root' -> J sa -> J (set_tree root' sa).
Proof.
  intros HI HT [_ (_ & Ho & Hq)]. split; [exact HI|]. split; [exact HT|]. split; assumption.
Qed.

(* ---- the vertical merge ---- *)
Lemma vmerge_total ti ri s cells :
  J s -> at_row (c_tree s) ti ri cells -> 1 <= ri ->
  exists s' cells', vmerge ti ri s = Ok s' /\ J s' /\ at_row (c_tree s') ti ri cells'
                    /\ (cells <> [] -> cells' <> []) /\ (cells = [] -> cells' = []).
Proof.
  intros HJ Hat Hri. unfold vmerge.
  destruct (set_caret_J 3 None s) as (sa & E & Ja & Da & _); [lia|exact HJ|].
  rewrite E. cbn [bind].
  assert (Ha : at_row (c_tree sa) ti ri cells).
  { eapply at_row_ext; [eapply set_caret3_ext; [exact (proj1 HJ)|exact E]|exact Hat]. }
  pose proof Ha as (pt & pr & pv & old & Et & Eti & Eri).
  destruct Ja as [Ia Sa]. pose proof Ia as (Ta & _). pose proof Sa as (STa & _).
  assert (Eg : py_get (c_tree sa) ti = Some (NL (pr ++ NL cells :: pv))).
  { rewrite Et, Eti. apply py_get_app. }
  rewrite Eg. cbn [of_opt bind as_list].
  assert (Hin : In (NL (pr ++ NL cells :: pv)) (c_tree sa)).
  { rewrite Et. apply in_or_app. right. left. reflexivity. }
  destruct (pr ++ NL cells :: pv) as [|r0 [|p rest]] eqn:Erows.
  { apply (f_equal (@length node)) in Erows. rewrite app_length in Erows. cbn [length] in Erows. lia. }
  { apply (f_equal (@length node)) in Erows. rewrite app_length in Erows. cbn [length] in Erows. lia. }
  destruct (tree_ok_row_NL _ _ p Ta Hin (or_intror (or_introl eq_refl))) as [prev ->].
  cbn [as_list bind]. rewrite (at_row_get _ _ _ _ Ha). cbn [bind]. cbv zeta.
  destruct cells as [|c0 cr].
  { exists sa, []. split; [reflexivity|]. split; [split; assumption|]. split; [exact Ha|]. auto. }
  destruct (py_nth (rev prev) (Z.of_nat (length (c0 :: cr)) - 1)) as [src|] eqn:Esrc.
  2:{ exists sa, (c0 :: cr). split; [reflexivity|]. split; [split; assumption|]. split; [exact Ha|].
      split; [auto|discriminate]. }
  set (f := fun cs : list node => match cs with [] => Err IndexError | _ :: r => Ok (copy_node src :: r) end).
  destruct (at_row_upd _ _ _ _ f (copy_node src :: cr) Ha eq_refl) as (root' & Eu & Hat').
  rewrite Eu. cbn [bind].
  apply py_nth_In in Esrc. apply in_rev in Esrc.
  exists (set_tree root' sa), (copy_node src :: cr). split; [reflexivity|].
  split; [|split; [exact Hat'|split; discriminate]].
  apply set_tree_J; [| |split; assumption].
  - assert (G : good (fun root' => Inv (set_tree root' sa)) (upd_row (c_tree sa) ti ri f)).
    { apply upd_row_good; [exact Ia|exact Da| |].
      - intros [|c r]; simpl; [discriminate|exact I].
      - intros [|c r] cs' Hc Hf; [discriminate Hf|]. injection Hf as <-.
        cbn [forallb] in Hc |- *. apply andb_true_iff in Hc. destruct Hc as [_ Hc].
        rewrite Hc, andb_true_r, copy_node_shape.
        pose proof (tree_ok_cells _ _ prev Ta Hin (or_intror (or_introl eq_refl))) as Hp.
        exact (proj1 (forallb_forall _ _) Hp _ Esrc). }
    rewrite Eu in G. exact G.
  - eapply upd_row_sty; [exact STa| |exact Eu].
    intros [|c r] cs' Hc Hf; [discriminate Hf|]. injection Hf as <-.
    inversion Hc; subst. constructor; [|assumption]. apply node_sty_copy.
    pose proof (proj1 (Forall_forall _ _) STa _ Hin) as K1. apply node_sty_NL_inv in K1.
    pose proof (proj1 (Forall_forall _ _) K1 (NL prev) (or_intror (or_introl eq_refl))) as K2.
    apply node_sty_NL_inv in K2. exact (proj1 (Forall_forall _ _) K2 _ Esrc).
Qed.

(* ---- the horizontal merge ---- *)
Lemma hstep_shape v cs cs' :
  forallb (shapeb 3) cs = true -> hstep v cs = Ok cs' -> forallb (shapeb 3) cs' = true.
Proof.
  intros Hc Hf. unfold hstep in Hf. destruct (env_dup v).
  - destruct cs as [|c r]; [injection Hf as <-; reflexivity|]. injection Hf as <-.
    cbn [forallb] in Hc |- *. rewrite copy_node_shape.
    apply andb_true_iff in Hc. destruct Hc as [Hc1 Hc2]. rewrite Hc1, Hc2. reflexivity.
  - injection Hf as <-. cbn [forallb]. rewrite Hc. reflexivity.
Qed.

Lemma hstep_sty v cs cs' :
  Forall node_sty cs -> hstep v cs = Ok cs' -> Forall node_sty cs'.
Proof.
  intros Hc Hf. unfold hstep in Hf. destruct (env_dup v).
  - destruct cs as [|c r];
      [injection Hf as <-; constructor; [exact node_sty_blank|exact Hc]|]. injection Hf as <-.
    inversion Hc; subst. constructor; [apply node_sty_copy; assumption|exact Hc].
  - injection Hf as <-. constructor; [exact node_sty_blank|exact Hc].
Qed.

Lemma hstep_nce v cs : nce (hstep v cs).
Proof. unfold hstep. destruct (env_dup v); [|exact I]. destruct cs; exact I. Qed.

(* since the repair of _close_table_cell (an empty row gets a blank cell
   instead of this_tr[-1] raising IndexError) one step of the horizontal loop
   cannot fail *)
Lemma hstep_total v cs : exists cs', hstep v cs = Ok cs'.
Proof. unfold hstep. destruct (env_dup v); [destruct cs|]; eexists; reflexivity. Qed.

Lemma hloop_total v ti ri : forall n s cells,
  J s -> at_row (c_tree s) ti ri cells ->
  exists s', hloop v ti ri n s = Ok s' /\ J s'.
Proof.
  induction n as [|k IH]; intros s cells HJ Hat.
  - exists s. split; [reflexivity|exact HJ].
  - rewrite hloop_S.
    destruct (set_caret_J 3 None s) as (sa & E & Ja & Da & _); [lia|exact HJ|].
    rewrite E. cbn [bind].
    assert (Ha : at_row (c_tree sa) ti ri cells).
    { eapply at_row_ext; [eapply set_caret3_ext; [exact (proj1 HJ)|exact E]|exact Hat]. }
    destruct (hstep_total v cells) as (cells' & Es).
    destruct (at_row_upd _ _ _ _ (hstep v) cells' Ha Es) as (root' & Eu & Hat').
    rewrite Eu. cbn [bind].
    destruct Ja as [Ia Sa]. pose proof Sa as (STa & _).
    apply (IH (set_tree root' sa) cells'); [|exact Hat'].
    apply set_tree_J; [| |split; assumption].
    + assert (G : good (fun root' => Inv (set_tree root' sa)) (upd_row (c_tree sa) ti ri (hstep v))).
      { apply upd_row_good; [exact Ia|exact Da|apply hstep_nce|apply hstep_shape]. }
      rewrite Eu in G. exact G.
    + eapply upd_row_sty; [exact STa|apply hstep_sty|exact Eu].
Qed.

(* ---- close_table_cell: since the repair of _close_table_cell (early return
   when the tree is empty or its newest table has no row; a blank cell when
   the row to duplicate into is empty) it cannot fail, under J, other than
   through the local conditions (gather_Pr, the gridSpan value) ---- *)
Lemma spine3_shape root : spine_ok 3 root ->
  exists cells prev_rows old, root = NL (NL cells :: prev_rows) :: old.
Proof.
  destruct root as [|[[|[cells|p] pv]|p] old]; cbn; try contradiction. eauto.
Qed.

Lemma spine4_shape root : spine_ok 4 root ->
  exists l cells prev_rows old, root = NL (NL (NL l :: cells) :: prev_rows) :: old.
Proof.
  destruct root as [|[[|[[|[l|p] cells]|p] pv]|p] old]; cbn; try contradiction. eauto.
Qed.

(* a well-shaped tree is empty, or its newest table is empty, or it has a
   newest row (which is a list) *)
Lemma tree_ok_cases root : tree_ok root ->
  root = [] \/ (exists old, root = NL [] :: old) \/ spine_ok 3 root.
Proof.
  unfold tree_ok. destruct root as [|[[|[cells|p] pv]|p] old]; cbn; intro T; auto.
  - right; left. eauto.
  - discriminate T.
  - discriminate T.
Qed.

(* the part after the two early returns *)
Lemma close_table_cell_total_row v e ks s pr g :
  J s -> gather_Pr e ks = Ok pr -> span_of pr = Ok g ->
  spine_ok 3 (c_tree s) ->
  exists s', close_table_cell v e ks s = Ok s' /\ J s'.
Proof.
  intros HJ Hpr Hg H3.
  destruct (spine3_shape _ H3) as (cells & pv & old & Et).
  rewrite close_table_cell_eq, Hpr. cbn [bind]. rewrite Et. cbn [as_list bind]. cbv zeta.
  replace (length (NL (NL cells :: pv) :: old) - 1) with (length old) by (cbn [length]; lia).
  replace (length (NL cells :: pv) - 1) with (length pv) by (cbn [length]; lia).
  assert (Hat : at_row (c_tree s) (length old) (length pv) cells).
  { exists [], [], pv, old. rewrite Et. auto. }
  assert (H1 : exists s1 cells1,
             (if (env_dup v && is_continuation pr && Nat.ltb 1 (length (NL cells :: pv)))%bool
              then vmerge (length old) (length pv) s else Ok s) = Ok s1
             /\ J s1 /\ at_row (c_tree s1) (length old) (length pv) cells1).
  { destruct (env_dup v && is_continuation pr && Nat.ltb 1 (length (NL cells :: pv)))%bool eqn:C.
    - apply andb_true_iff in C. destruct C as [_ C]. apply Nat.ltb_lt in C. cbn [length] in C.
      destruct (vmerge_total (length old) (length pv) s cells HJ Hat) as (s1 & c1 & A & B & C1 & _);
        [lia|]. exists s1, c1. auto.
    - exists s, cells. auto. }
  destruct H1 as (s1 & cells1 & E1 & J1 & Hat1). rewrite E1. cbn [bind].
  rewrite Hg. cbn [bind].
  apply (hloop_total v (length old) (length pv) _ s1 cells1 J1 Hat1).
Qed.

(* THE REPAIRED METHOD IS TOTAL: under the invariant J (shape: Inv; styles)
   and the two local conditions — the cell's properties gather, its gridSpan
   value parses — closing a table cell ALWAYS succeeds, whatever the tree
   looks like, and preserves J.  (Before the repair:
   close_table_cell_ok_iff, "iff spine_ok 3 and, when a cell is duplicated,
   spine_ok 4; otherwise IndexError".) *)
Theorem close_table_cell_total_now v e ks s pr g :
  J s -> gather_Pr e ks = Ok pr -> span_of pr = Ok g ->
  exists s', close_table_cell v e ks s = Ok s' /\ J s'.
Proof.
  intros HJ Hpr Hg.
  destruct (tree_ok_cases _ (proj1 (proj1 HJ))) as [Et|[(old & Et)|H3]].
  - exists s. split; [|exact HJ]. rewrite close_table_cell_eq, Hpr. cbn [bind]. rewrite Et.
    reflexivity.
  - exists s. split; [|exact HJ]. rewrite close_table_cell_eq, Hpr. cbn [bind]. rewrite Et.
    reflexivity.
  - exact (close_table_cell_total_row v e ks s pr g HJ Hpr Hg H3).
Qed.

(* the exact condition, for the record: the gridSpan value is only looked at
   when the newest table has a row *)
Theorem close_table_cell_ok_iff_now v e ks s :
  J s ->
  ((exists s', close_table_cell v e ks s = Ok s')
   <-> exists pr, gather_Pr e ks = Ok pr
                  /\ (spine_ok 3 (c_tree s) -> exists g, span_of pr = Ok g)).
Proof.
  intro HJ. split.
  - intros [s' H]. rewrite close_table_cell_eq in H.
    destruct (gather_Pr e ks) as [pr|x] eqn:Epr; [|discriminate H]. cbn [bind] in H.
    exists pr. split; [reflexivity|]. intro H3.
    destruct (spine3_shape _ H3) as (cells & pv & old & Et).
    rewrite Et in H. cbn [as_list bind] in H. cbv zeta in H.
    match type of H with bind ?r _ = _ => destruct r as [s1|x]; [|discriminate H] end.
    cbn [bind] in H. destruct (span_of pr) as [g|x]; [eauto|discriminate H].
  - intros (pr & Hpr & Hg).
    destruct (tree_ok_cases _ (proj1 (proj1 HJ))) as [Et|[(old & Et)|H3]].
    + exists s. rewrite close_table_cell_eq, Hpr. cbn [bind]. rewrite Et. reflexivity.
    + exists s. rewrite close_table_cell_eq, Hpr. cbn [bind]. rewrite Et. reflexivity.
    + destruct (Hg H3) as [g Eg].
      destruct (close_table_cell_total_row v e ks s pr g HJ Hpr Eg H3) as (s' & E & _). eauto.
Qed.

(* the statement used by walk_total_tables (its two structural hypotheses
   are no longer needed) *)
Lemma close_table_cell_total v e ks s pr g :
  J s -> gather_Pr e ks = Ok pr -> span_of pr = Ok g ->
  spine_ok 3 (c_tree s) ->
  (env_dup v = true -> (1 < g)%Z -> spine_ok 4 (c_tree s)) ->
  exists s', close_table_cell v e ks s = Ok s' /\ J s'.
Proof. intros HJ Hpr Hg _ _. exact (close_table_cell_total_now v e ks s pr g HJ Hpr Hg). Qed.

(* ================================================================== *)
(* PART 2 — comment range markers                                       *)
(* ================================================================== *)
Lemma count_runs_total v s : J s -> exists n, count_runs v s = Ok n.
Proof.
  intros [(T & _) (ST & SO & _)]. unfold count_runs.
  destruct (pars_at_total 4 1 (c_tree s) eq_refl) as [ps Eps]; [lia|exact T|].
  rewrite Eps. cbn [bind].
  pose proof (pars_at_sty _ _ _ Eps ST) as Hps.
  destruct (ViewFacts.mapM_total (par_run_strings (html_on v)) ps) as [a Ea].
  { eapply Forall_impl; [|exact Hps]. intro p. apply par_run_strings_total. }
  rewrite Ea. cbn [bind].
  match goal with
  | |- context [mapM ?f (rev (c_open s))] =>
      destruct (ViewFacts.mapM_total f (rev (c_open s))) as [b Eb]
  end.
  { apply Forall_rev'. eapply Forall_impl; [|exact SO]. intros p Hp. cbv beta.
    destruct (par_run_strings_total (html_on v) p Hp) as [x Ex]. rewrite Ex. cbn [bind].
    eexists; reflexivity. }
  rewrite Eb. cbn [bind]. eexists; reflexivity.
Qed.

Lemma set_ranges_J r s : J s -> J (set_ranges r s).
Proof. intro H. exact H. Qed.

Lemma start_comment_range_J v id s : J s -> exists s', start_comment_range v id s = Ok s' /\ J s'.
Proof.
  intro HJ. unfold start_comment_range. destruct (count_runs_total v s HJ) as [n E].
  rewrite E. cbn [bind]. eexists. split; [reflexivity|]. apply set_ranges_J, HJ.
Qed.

Lemma end_comment_range_J v id s : J s -> exists s', end_comment_range v id s = Ok s' /\ J s'.
Proof.
  intro HJ. unfold end_comment_range. destruct (dict_get id (c_ranges s)) as [[b c]|].
  - destruct (count_runs_total v s HJ) as [n E]. rewrite E. cbn [bind].
    eexists. split; [reflexivity|]. apply set_ranges_J, HJ.
  - exists s. split; [reflexivity|exact HJ].
Qed.

(* ================================================================== *)
(* PART 3 — what the handlers do to the tree and the caret              *)
(* ================================================================== *)
(* "same tree and depth, or the caret went down to the paragraph level" *)
Definition so4 (s s' : cst) : Prop :=
  (c_tree s' = c_tree s /\ c_depth s' = c_depth s) \/ c_depth s' = 4.

Lemma so4_refl s : so4 s s.
Proof. left. split; reflexivity. Qed.

Lemma so4_trans a b c : so4 a b -> so4 b c -> so4 a c.
Proof.
  intros [[T1 D1]|D1] [[T2 D2]|D2].
  - left. split; congruence.
  - right. exact D2.
  - right. congruence.
  - right. exact D2.
Qed.

Lemma so4_core a s1 s2 : core_eq s1 s2 -> so4 a s1 -> so4 a s2.
Proof.
  intros (T & D & _) [[T1 D1]|D1]; [left; split; congruence|right; congruence].
Qed.

Lemma so4_caret4 a name s1 s2 : so4 a s1 -> set_caret (Some 4) name s1 = Ok s2 -> so4 a s2.
Proof. intros _ H. apply set_caret_frame in H. right. apply H. Qed.

Lemma open_tag_so4 v path t e ks body s s' b :
  open_tag v path t e ks body s = Ok (s', b) -> so4 s s'.
Proof.
  intro H. apply (open_tag_P (so4 s) (so4_core s) (so4_caret4 s)) in H; [exact H|apply so4_refl].
Qed.

Lemma close_tag_so4 v e ks s s' :
  str_eqb (e_ptag e) tag_PARAGRAPH = false -> str_eqb (e_ptag e) tag_TABLE_CELL = false ->
  close_tag v e ks s = Ok s' -> so4 s s'.
Proof.
  intros Hp Hc H.
  apply (close_tag_P (so4 s) (so4_core s) (so4_caret4 s) v e ks s s' Hp Hc H). apply so4_refl.
Qed.

Lemma Inv_depth4_spine s : Inv s -> c_depth s = 4 -> spine_ok 4 (c_tree s).
Proof. intros (_ & _ & S) D. rewrite D in S. exact S. Qed.

Lemma so4_spine4 s s' : so4 s s' -> Inv s' -> spine_ok 4 (c_tree s) -> spine_ok 4 (c_tree s').
Proof.
  intros [[T D]|D] HI H; [rewrite T; exact H|apply Inv_depth4_spine; assumption].
Qed.

Lemma so4_depth s s' d : so4 s s' -> d <= 4 -> d <= c_depth s -> d <= c_depth s'.
Proof. intros [[T D]|D] H4 H; lia. Qed.

(* moving the caret up (or not at all) leaves the tree alone *)
Lemma set_caret_go_up : forall fuel d name s s',
  d <= c_depth s -> set_caret_go fuel d name s = Ok s' -> c_tree s' = c_tree s.
Proof.
  induction fuel as [|f IH]; intros d name s s' Hd H; [discriminate H|].
  cbn [set_caret_go] in H.
  destruct (Nat.eqb (c_depth s) d) eqn:E1.
  - bind_inv H as l El. injection H as <-. reflexivity.
  - apply Nat.eqb_neq in E1. destruct (Nat.ltb (c_depth s) d) eqn:E2.
    + apply Nat.ltb_lt in E2. lia.
    + bind_inv H as l El. bind_inv H as s1 E. unfold raise_caret in E.
      cbn [c_depth set_lin] in E.
      destruct (Nat.leb (c_depth s) 1); [discriminate E|]. injection E as <-.
      assert (Hd' : d <= c_depth (set_depth (pred (c_depth s)) (set_lin l s))).
      { cbn [c_depth set_depth]. lia. }
      rewrite (IH _ _ _ _ Hd' H). reflexivity.
Qed.

Lemma set_caret_opt_J2 od name s :
  (forall d, od = Some d -> 1 <= d <= 4) -> J s ->
  exists s', set_caret od name s = Ok s' /\ J s'
    /\ (forall d, od = Some d -> c_depth s' = d)
    /\ (od = None -> s' = s)
    /\ (forall d, od = Some d -> d <= c_depth s -> c_tree s' = c_tree s).
Proof.
  intros Hd HJ. destruct od as [d|].
  - destruct (set_caret_J d name s (Hd d eq_refl) HJ) as (s' & E & J' & D' & _).
    exists s'. split; [exact E|]. split; [exact J'|].
    split; [intros d0 E0; injection E0 as <-; exact D'|]. split; [discriminate|].
    intros d0 E0 Hle. injection E0 as <-. exact (set_caret_go_up _ _ _ _ _ Hle E).
  - exists s. split; [reflexivity|]. split; [exact HJ|]. split; [discriminate|].
    split; [reflexivity|discriminate].
Qed.

(* ================================================================== *)
(* PART 4 — the tags, open_tag and close_tag                            *)
(* ================================================================== *)
Lemma open_tag_tc v path t e ks body s :
  str_eqb (e_ptag e) tag_TABLE_CELL = true -> open_tag v path t e ks body s = Ok (s, true).
Proof. intro H. apply str_eqb_eq in H. unfold open_tag. cbv zeta. rewrite H. reflexivity. Qed.

Lemma open_tag_crs v path t e ks body s :
  str_eqb (e_ptag e) tag_COMMENT_RANGE_START = true ->
  open_tag v path t e ks body s
  = (id <- attr_w_req e s_id ;; s' <- start_comment_range v id s ;; Ok (s', false)).
Proof. intro H. apply str_eqb_eq in H. unfold open_tag. cbv zeta. rewrite H. reflexivity. Qed.

Lemma open_tag_cre v path t e ks body s :
  str_eqb (e_ptag e) tag_COMMENT_RANGE_END = true ->
  open_tag v path t e ks body s
  = (id <- attr_w_req e s_id ;; s' <- end_comment_range v id s ;; Ok (s', false)).
Proof. intro H. apply str_eqb_eq in H. unfold open_tag. cbv zeta. rewrite H. reflexivity. Qed.

Lemma close_tag_tc v e ks s :
  str_eqb (e_ptag e) tag_TABLE_CELL = true -> close_tag v e ks s = close_table_cell v e ks s.
Proof. intro H. apply str_eqb_eq in H. unfold close_tag. cbv zeta. rewrite H. reflexivity. Qed.

Lemma close_tag_crs v e ks s :
  str_eqb (e_ptag e) tag_COMMENT_RANGE_START = true -> close_tag v e ks s = Ok s.
Proof. intro H. apply str_eqb_eq in H. unfold close_tag. cbv zeta. rewrite H. reflexivity. Qed.

Lemma close_tag_cre v e ks s :
  str_eqb (e_ptag e) tag_COMMENT_RANGE_END = true -> close_tag v e ks s = Ok s.
Proof. intro H. apply str_eqb_eq in H. unfold close_tag. cbv zeta. rewrite H. reflexivity. Qed.

Lemma tc_not_par tg : str_eqb tg tag_TABLE_CELL = true -> str_eqb tg tag_PARAGRAPH = false.
Proof. intro H. apply str_eqb_eq in H. rewrite H. reflexivity. Qed.

Lemma tc_recurses tg : str_eqb tg tag_TABLE_CELL = true -> recurses tg = true.
Proof. intro H. apply str_eqb_eq in H. rewrite H. reflexivity. Qed.

Lemma par_recurses tg : str_eqb tg tag_PARAGRAPH = true -> recurses tg = true.
Proof. intro H. apply str_eqb_eq in H. rewrite H. reflexivity. Qed.

(* the "recurse into the children" flag of the handlers *)
Ltac ot_step H :=
  cbv beta zeta in H;
  match type of H with
  | Err _ = Ok _ => discriminate H
  | bind ?r _ = Ok _ =>
      let x := fresh "x" in let E := fresh "E" in
      destruct r as [x|] eqn:E; [cbn [bind] in H|discriminate H]
  | (if ?c then _ else _) = Ok _ => let E := fresh "E" in destruct c eqn:E
  | (match ?x with _ => _ end) = Ok _ => let E := fresh "E" in destruct x eqn:E
  end.

Lemma open_tag_rec v path t e ks body s s' b :
  open_tag v path t e ks body s = Ok (s', b) -> recurses (e_ptag e) = true -> b = true.
Proof.
  intros H Hr.
  unfold open_tag, note_label, note_ref, image_ref in H.
  repeat ot_step H;
    (injection H as _ <-;
     first [ reflexivity
           | exfalso; unfold recurses in Hr;
             repeat match goal with
                    | E : str_eqb (e_ptag e) _ = _ |- _ => rewrite E in Hr; clear E
                    end;
             cbn [orb negb] in Hr; try rewrite !orb_true_r in Hr; discriminate Hr ]).
Qed.

Lemma open_tag_J2 v path e ks body s :
  local_ok2 v (AE e ks) = true -> J s ->
  exists s' b, open_tag v path (AE e ks) e ks body s = Ok (s', b) /\ J s'.
Proof.
  intros L HJ. unfold local_ok2 in L.
  destruct (str_eqb (e_ptag e) tag_TABLE_CELL) eqn:Ttc.
  { rewrite (open_tag_tc _ _ _ _ _ _ _ Ttc). exists s, true. auto. }
  destruct (str_eqb (e_ptag e) tag_COMMENT_RANGE_START) eqn:Ts.
  { cbn [orb] in L. rewrite (open_tag_crs _ _ _ _ _ _ _ Ts).
    destruct (attr_w_req e s_id) as [id|]; [|discriminate L]. cbn [bind].
    destruct (start_comment_range_J v id s HJ) as (s' & E & J'). rewrite E. cbn [bind]. eauto. }
  destruct (str_eqb (e_ptag e) tag_COMMENT_RANGE_END) eqn:Te.
  { cbn [orb] in L. rewrite (open_tag_cre _ _ _ _ _ _ _ Te).
    destruct (attr_w_req e s_id) as [id|]; [|discriminate L]. cbn [bind].
    destruct (end_comment_range_J v id s HJ) as (s' & E & J'). rewrite E. cbn [bind]. eauto. }
  cbn [orb] in L. apply TotalFacts.open_tag_J; assumption.
Qed.

Lemma spine_ok_4_3 l : spine_ok 4 l -> spine_ok 3 l.
Proof. apply spine_ok_pred. Qed.

Lemma close_tag_J2 v e ks s :
  local_ok2 v (AE e ks) = true -> J s ->
  (str_eqb (e_ptag e) tag_TABLE_CELL = true -> row_ok ks = true -> spine_ok 3 (c_tree s)) ->
  (str_eqb (e_ptag e) tag_TABLE_CELL = true -> cell_ok ks = true -> spine_ok 4 (c_tree s)) ->
  exists s', close_tag v e ks s = Ok s' /\ J s'.
Proof.
  intros L HJ Hsp3 Hsp4. unfold local_ok2 in L.
  destruct (str_eqb (e_ptag e) tag_TABLE_CELL) eqn:Ttc.
  { rewrite (close_tag_tc _ _ _ _ Ttc). unfold tc_ok in L.
    destruct (gather_Pr e ks) as [pr|] eqn:Epr; [|discriminate L].
    destruct (span_of pr) as [g|] eqn:Eg; [|discriminate L].
    apply (close_table_cell_total v e ks s pr g HJ Epr Eg).
    - destruct (env_dup v && Z.ltb 1 g)%bool.
      + apply spine_ok_4_3. exact (Hsp4 eq_refl L).
      + exact (Hsp3 eq_refl L).
    - intros Hd Hg1. rewrite Hd in L. apply Z.ltb_lt in Hg1. rewrite Hg1 in L. cbn [andb] in L.
      exact (Hsp4 eq_refl L). }
  destruct (str_eqb (e_ptag e) tag_COMMENT_RANGE_START) eqn:Ts.
  { rewrite (close_tag_crs _ _ _ _ Ts). exists s. auto. }
  destruct (str_eqb (e_ptag e) tag_COMMENT_RANGE_END) eqn:Te.
  { rewrite (close_tag_cre _ _ _ _ Te). exists s. auto. }
  cbn [orb] in L. apply TotalFacts.close_tag_J; assumption.
Qed.

(* ================================================================== *)
(* PART 5 — the walk                                                    *)
(* ================================================================== *)
(* ---- the syntactic predicates ---- *)
Lemma ends_gen_AE D e ks :
  ends_gen D (AE e ks)
  = if str_eqb (e_ptag e) tag_PARAGRAPH then true
    else recurses (e_ptag e) && negb (str_eqb (e_ptag e) tag_TABLE_CELL)
         && match last_pc ks with
            | Some k => ends_gen D k && D (elem_depth (AE e ks)) (elem_depth k)
            | None => false
            end.
Proof.
  cbn [ends_gen]. destruct (str_eqb (e_ptag e) tag_PARAGRAPH); [reflexivity|].
  f_equal.
  match goal with
  | |- match ?g ks with _ => _ end = _ =>
      assert (G : g ks = match last_pc ks with
                         | Some k => Some (ends_gen D k && D (elem_depth (AE e ks)) (elem_depth k))
                         | None => None
                         end)
  end.
  { generalize (elem_depth (AE e ks)). intro dt.
    induction ks as [|k r IH]; [reflexivity|]. cbn [last_pc]. rewrite IH.
    destruct (last_pc r); [reflexivity|]. destruct (has_par k); reflexivity. }
  rewrite G. destruct (last_pc ks); reflexivity.
Qed.

Lemma omin_None a b : omin a b = None -> a = None /\ b = None.
Proof. destruct a, b; cbn; intro H; try discriminate H; auto. Qed.

Lemma mpd_list_last_pc ks : mpd_list ks = None -> last_pc ks = None.
Proof.
  induction ks as [|k r IH]; [reflexivity|]. cbn [mpd_list last_pc]. intro H.
  apply omin_None in H. destruct H as [Hk Hr]. rewrite (IH Hr). unfold has_par. rewrite Hk.
  reflexivity.
Qed.

Lemma last_pc_mpd_list ks k : last_pc ks = Some k -> mpd_list ks <> None.
Proof.
  induction ks as [|k0 r IH]; [discriminate|]. cbn [mpd_list last_pc]. intros H E.
  apply omin_None in E. destruct E as [Hk Hr].
  destruct (last_pc r) as [x|] eqn:El.
  - apply (IH H). exact Hr.
  - unfold has_par in H. rewrite Hk in H. discriminate H.
Qed.

Lemma no_par_AE e ks : has_par (AE e ks) = false ->
  str_eqb (e_ptag e) tag_PARAGRAPH = false /\ last_pc ks = None.
Proof.
  unfold has_par. rewrite min_par_depth_AE.
  destruct (str_eqb (e_ptag e) tag_PARAGRAPH); [discriminate|].
  destruct (mpd_list ks) as [d|] eqn:E; [discriminate|]. intros _.
  split; [reflexivity|apply mpd_list_last_pc; exact E].
Qed.

Lemma no_par_no_depth t : has_par t = false -> elem_depth t = None.
Proof.
  destruct t as [e ks|tl]; [|reflexivity]. unfold has_par, elem_depth.
  destruct (min_par_depth (AE e ks)); [discriminate|]. intros _.
  destruct (mem_str (e_ptag e) depth_none_tags); reflexivity.
Qed.

Lemma cell_ok_last ks : cell_ok ks = true -> exists k, last_pc ks = Some k /\ ends_full k = true.
Proof. unfold cell_ok. destruct (last_pc ks) as [k|]; [eauto|discriminate]. Qed.
Lemma row_ok_last ks : row_ok ks = true -> exists k, last_pc ks = Some k /\ ends_row k = true.
Proof. unfold row_ok. destruct (last_pc ks) as [k|]; [eauto|discriminate]. Qed.

Lemma tc_ok_last v e ks : tc_ok v e ks = true -> exists k, last_pc ks = Some k.
Proof.
  unfold tc_ok. destruct (gather_Pr e ks) as [pr|]; [|discriminate].
  destruct (span_of pr) as [g|]; [|discriminate].
  destruct (env_dup v && Z.ltb 1 g)%bool; intro H.
  - destruct (cell_ok_last _ H) as (k & Hk & _). eauto.
  - destruct (row_ok_last _ H) as (k & Hk & _). eauto.
Qed.

(* the structural conditions imply the one that was expected to suffice *)
Lemma tc_ok_has_par v e ks :
  str_eqb (e_ptag e) tag_PARAGRAPH = false -> tc_ok v e ks = true -> has_par (AE e ks) = true.
Proof.
  intros Hp H. destruct (tc_ok_last _ _ _ H) as (k & Hk).
  unfold has_par. rewrite min_par_depth_AE, Hp.
  destruct (mpd_list ks) eqn:E; [reflexivity|]. exfalso. exact (last_pc_mpd_list _ _ Hk E).
Qed.

(* the shape the schema asks for: the last paragraph-bearing child of the
   cell is a w:p *)
Lemma ends_gen_par D e ks : str_eqb (e_ptag e) tag_PARAGRAPH = true -> ends_gen D (AE e ks) = true.
Proof. intro H. rewrite ends_gen_AE, H. reflexivity. Qed.

Lemma last_pc_app_par pre e ks post :
  str_eqb (e_ptag e) tag_PARAGRAPH = true -> forallb (fun k => negb (has_par k)) post = true ->
  last_pc (pre ++ AE e ks :: post) = Some (AE e ks).
Proof.
  intros Hp Hpost.
  assert (Hl : last_pc post = None).
  { induction post as [|k r IH]; [reflexivity|]. cbn [forallb] in Hpost.
    apply andb_true_iff in Hpost. destruct Hpost as [Hk Hr]. cbn [last_pc]. rewrite (IH Hr).
    apply negb_true_iff in Hk. rewrite Hk. reflexivity. }
  induction pre as [|k r IH]; cbn [app last_pc].
  - rewrite Hl. unfold has_par. rewrite min_par_depth_AE, Hp. reflexivity.
  - rewrite IH. reflexivity.
Qed.

Lemma cell_ok_ends_with_par pre e ks post :
  str_eqb (e_ptag e) tag_PARAGRAPH = true -> forallb (fun k => negb (has_par k)) post = true ->
  cell_ok (pre ++ AE e ks :: post) = true /\ row_ok (pre ++ AE e ks :: post) = true.
Proof.
  intros Hp Hpost. unfold cell_ok, row_ok. rewrite (last_pc_app_par _ _ _ _ Hp Hpost).
  split; apply ends_gen_par; exact Hp.
Qed.

Lemma par_depth_4 e ks : str_eqb (e_ptag e) tag_PARAGRAPH = true -> elem_depth (AE e ks) = Some 4.
Proof.
  intro H. unfold elem_depth. rewrite min_par_depth_AE, H.
  apply str_eqb_eq in H. rewrite H. reflexivity.
Qed.

(* ---- the postcondition of one element ---- *)
Definition spn (b : bool) : nat := if b then 4 else 3.
Definition ends_b (b : bool) : anode -> bool := ends_gen (if b then dle else dle3).
(* ends_b true = ends_full, ends_b false = ends_row *)

Definition Post (t : anode) (s s' : cst) : Prop :=
  J s'
  /\ (has_par t = false -> so4 s s')
  /\ (forall b, ends_b b t = true -> spine_ok (spn b) (c_tree s'))
  /\ (forall d, elem_depth t = Some d -> c_depth s' = d).

Definition walk_T_at (v : env) (t : anode) : Prop :=
  forall path s, all_local_ok2 v t = true -> J s ->
    exists s', walk v path t s = Ok s' /\ Post t s s'.

Lemma so4_spine s s' b :
  so4 s s' -> Inv s' -> spine_ok (spn b) (c_tree s) -> spine_ok (spn b) (c_tree s').
Proof.
  intros [[T D]|D] HI H; [rewrite T; exact H|].
  pose proof (Inv_depth4_spine _ HI D) as H4. destruct b; [exact H4|apply spine_ok_4_3; exact H4].
Qed.

Lemma below_loop_total2 v path ks :
  Forall (walk_T_at v) ks -> forallb (all_local_ok2 v) ks = true ->
  forall i, exists body, below_loop v path ks i = Ok body.
Proof.
  induction 1 as [|k r Hk Hr IH]; intros Hl i; cbn [below_loop].
  - eexists; reflexivity.
  - cbn [forallb] in Hl. apply andb_true_iff in Hl. destruct Hl as [Hlk Hlr].
    destruct (Hk (i :: path) init_cst Hlk init_J) as (sk & E & Jk & _). rewrite E. cbn [bind].
    destruct (finish_J v sk Jk) as (sk' & E' & [Ik' (Tk' & _)]). rewrite E'. cbn [bind].
    destruct (tree_par_toks_total (c_tree sk') (proj1 Ik') Tk') as [ps Ep]. rewrite Ep. cbn [bind].
    destruct (IH Hlr (S i)) as [rest Er]. rewrite Er. cbn [bind]. eexists; reflexivity.
Qed.

Lemma elem_depth_le4 t d : elem_depth t = Some d -> d <= 4.
Proof. intro H. apply elem_depth_range in H. lia. Qed.

Lemma kids_loop_T v path ks :
  Forall (walk_T_at v) ks -> forallb (all_local_ok2 v) ks = true ->
  forall i s, J s ->
  exists s', kids_loop v path ks i s = Ok s' /\ J s'
    /\ (last_pc ks = None -> so4 s s')
    /\ (forall k, last_pc ks = Some k ->
          (forall dk, elem_depth k = Some dk -> dk <= c_depth s')
          /\ forall b, ends_b b k = true -> spine_ok (spn b) (c_tree s')).
Proof.
  induction 1 as [|k r Hk Hr IH]; intros Hl i s HJ; cbn [kids_loop].
  - exists s. split; [reflexivity|]. split; [exact HJ|]. split; [intros _; apply so4_refl|].
    intros k Hk. discriminate Hk.
  - cbn [forallb] in Hl. apply andb_true_iff in Hl. destruct Hl as [Hlk Hlr].
    destruct (Hk (i :: path) s Hlk HJ) as (s1 & E & J1 & P1 & P2 & P3). rewrite E. cbn [bind].
    destruct (IH Hlr (S i) s1 J1) as (s' & E' & J' & Q1 & Q2).
    exists s'. split; [exact E'|]. split; [exact J'|]. cbn [last_pc].
    destruct (last_pc r) as [x|] eqn:El.
    + split; [discriminate|]. intros k0 Hk0. injection Hk0 as <-. apply (Q2 x eq_refl).
    + specialize (Q1 eq_refl). destruct (has_par k) eqn:Hp.
      * split; [discriminate|]. intros k0 Hk0. injection Hk0 as <-. split.
        -- intros dk Hd. apply (so4_depth _ _ _ Q1 (elem_depth_le4 _ _ Hd)).
           rewrite (P3 dk Hd). lia.
        -- intros b He. exact (so4_spine _ _ b Q1 (proj1 J') (P2 b He)).
      * split; [|discriminate]. intros _. exact (so4_trans _ _ _ (P1 eq_refl) Q1).
Qed.

Lemma Inv_depth_spine3 s : Inv s -> 3 <= c_depth s -> spine_ok 3 (c_tree s).
Proof.
  intros (_ & R & S) D. assert (C : c_depth s = 3 \/ c_depth s = 4) by lia.
  destruct C as [C|C]; rewrite C in S; [exact S|apply spine_ok_4_3; exact S].
Qed.

Lemma walk_T v : forall t, walk_T_at v t.
Proof.
  apply ShapeFacts.anode_ind'.
  - intros tl path s _ HJ. exists s. split; [reflexivity|]. split; [exact HJ|].
    split; [intros _; apply so4_refl|]. split; [intros b Hb|intros d Hd]; discriminate.
  - intros e ks HF path s Hl HJ. cbn [all_local_ok2] in Hl.
    apply andb_true_iff in Hl. destruct Hl as [Hloc Hks].
    rewrite walk_AE. cbv zeta.
    destruct (set_caret_opt_J2 (elem_depth (AE e ks)) (Some (e_local e)) s
                (elem_depth_range _) HJ) as (s1 & E1 & J1 & _ & N1 & _).
    rewrite E1. cbn [bind].
    assert (Hb : exists body, (if str_eqb (e_ptag e) tag_HYPERLINK
                               then below_loop v path ks 0 else Ok []) = Ok body).
    { destruct (str_eqb (e_ptag e) tag_HYPERLINK); [|eexists; reflexivity].
      apply below_loop_total2; assumption. }
    destruct Hb as [body Eb]. rewrite Eb. cbn [bind].
    destruct (open_tag_J2 v path e ks body s1 Hloc J1) as (s2 & rec & E2 & J2').
    rewrite E2. cbn [bind].
    pose proof (open_tag_so4 _ _ _ _ _ _ _ _ _ E2) as S12.
    pose proof (open_tag_rec _ _ _ _ _ _ _ _ _ E2) as Hrec.
    destruct (kids_loop_T v path ks HF Hks 0 s2 J2') as (s3k & E3k & J3k & K1 & K2).
    (* the state after the children *)
    assert (H3 : exists s3, (if rec then kids_loop v path ks 0 s2 else Ok s2) = Ok s3 /\ J s3
               /\ (last_pc ks = None -> so4 s2 s3)
               /\ (rec = true -> forall k, last_pc ks = Some k ->
                     (forall dk, elem_depth k = Some dk -> dk <= c_depth s3)
                     /\ forall b, ends_b b k = true -> spine_ok (spn b) (c_tree s3))).
    { destruct rec.
      - exists s3k. split; [exact E3k|]. split; [exact J3k|]. split; [exact K1|]. intros _. exact K2.
      - exists s2. split; [reflexivity|]. split; [exact J2'|]. split; [intros _; apply so4_refl|].
        discriminate. }
    destruct H3 as (s3 & E3 & J3 & F1 & F2). rewrite E3. cbn [bind]. clear s3k E3k J3k K1 K2.
    (* closing *)
    assert (Htc3 : str_eqb (e_ptag e) tag_TABLE_CELL = true -> row_ok ks = true ->
                   spine_ok 3 (c_tree s3)).
    { intros Ttc Hc. destruct (row_ok_last _ Hc) as (k & Hk & He).
      exact (proj2 (F2 (Hrec (tc_recurses _ Ttc)) k Hk) false He). }
    assert (Htc4 : str_eqb (e_ptag e) tag_TABLE_CELL = true -> cell_ok ks = true ->
                   spine_ok 4 (c_tree s3)).
    { intros Ttc Hc. destruct (cell_ok_last _ Hc) as (k & Hk & He).
      exact (proj2 (F2 (Hrec (tc_recurses _ Ttc)) k Hk) true He). }
    destruct (close_tag_J2 v e ks s3 Hloc J3 Htc3 Htc4) as (s4 & E4 & J4). rewrite E4. cbn [bind].
    destruct (set_caret_opt_J2 (elem_depth (AE e ks)) None s4 (elem_depth_range _) J4)
      as (s5 & E5 & J5 & D5 & N5 & U5).
    exists s5. split; [exact E5|]. split; [exact J5|].
    split; [|split; [|exact D5]].
    + (* no paragraph below: the tree is only touched by the paragraph caret *)
      intro Hnp. pose proof (no_par_no_depth _ Hnp) as Hd.
      destruct (no_par_AE _ _ Hnp) as [Tp Hl].
      rewrite (N5 Hd). rewrite <- (N1 Hd).
      assert (Ttc : str_eqb (e_ptag e) tag_TABLE_CELL = false).
      { destruct (str_eqb (e_ptag e) tag_TABLE_CELL) eqn:Ttc; [|reflexivity]. exfalso.
        unfold local_ok2 in Hloc. rewrite Ttc in Hloc.
        destruct (tc_ok_last _ _ _ Hloc) as (k & Hk). congruence. }
      eapply so4_trans; [exact S12|]. eapply so4_trans; [exact (F1 Hl)|].
      exact (close_tag_so4 _ _ _ _ _ Tp Ttc E4).
    + (* the element ends with paragraph content *)
      intros b He. unfold ends_b in He. rewrite ends_gen_AE in He.
      destruct (str_eqb (e_ptag e) tag_PARAGRAPH) eqn:Tp.
      { assert (H4 : spine_ok 4 (c_tree s5)).
        { apply Inv_depth4_spine; [exact (proj1 J5)|]. apply D5. apply par_depth_4. exact Tp. }
        destruct b; [exact H4|apply spine_ok_4_3; exact H4]. }
      apply andb_true_iff in He. destruct He as [He Hk].
      apply andb_true_iff in He. destruct He as [Hr Ttc]. apply negb_true_iff in Ttc.
      destruct (last_pc ks) as [k|] eqn:El; [|discriminate Hk].
      apply andb_true_iff in Hk. destruct Hk as [Hek Hdle].
      destruct (F2 (Hrec Hr) k eq_refl) as [Dk3 Sp3]. specialize (Sp3 b Hek).
      pose proof (close_tag_so4 _ _ _ _ _ Tp Ttc E4) as S34.
      pose proof (so4_spine _ _ b S34 (proj1 J4) Sp3) as Sp4.
      destruct (elem_depth (AE e ks)) as [dt|] eqn:Edt; [|rewrite (N5 eq_refl); exact Sp4].
      assert (Hup : dle (Some dt) (elem_depth k) = true -> spine_ok (spn b) (c_tree s5)).
      { intro Hd. unfold dle in Hd. apply orb_true_iff in Hd.
        rewrite (U5 dt eq_refl); [exact Sp4|]. destruct Hd as [Hd|Hd].
        - apply Nat.eqb_eq in Hd. destruct J4 as [(_ & R4 & _) _]. lia.
        - destruct (elem_depth k) as [dk|] eqn:Edk; [|discriminate Hd]. apply Nat.leb_le in Hd.
          pose proof (so4_depth _ _ dk S34 (elem_depth_le4 _ _ Edk) (Dk3 dk eq_refl)). lia. }
      destruct b; [exact (Hup Hdle)|].
      unfold dle3 in Hdle. apply orb_true_iff in Hdle. destruct Hdle as [H3|Hd]; [|exact (Hup Hd)].
      apply Nat.leb_le in H3. apply Inv_depth_spine3; [exact (proj1 J5)|].
      rewrite (D5 dt eq_refl). exact H3.
Qed.

(* ================================================================== *)
(* PART 6 — the theorems                                                *)
(* ================================================================== *)
Theorem walk_total_tables : forall v t path s, all_local_ok2 v t = true -> J2 s ->
  exists s', walk v path t s = Ok s' /\ J2 s'.
Proof.
  intros v t path s Hl HJ. destruct (walk_T v t path s Hl HJ) as (s' & E & J' & _). eauto.
Qed.

Theorem collect_total_tables_strong : forall v path t, all_local_ok2 v t = true ->
  exists s, collect_from v path t = Ok s /\ J2 s.
Proof.
  intros v path t Hl. unfold collect_from.
  destruct (walk_total_tables v t path init_cst Hl init_J) as (s1 & E & J1). rewrite E. cbn [bind].
  apply finish_J. exact J1.
Qed.

Theorem collect_total_tables : forall v path t, all_local_ok2 v t = true ->
  exists s, collect_from v path t = Ok s.
Proof. intros v path t Hl. destruct (collect_total_tables_strong v path t Hl) as (s & E & _). eauto. Qed.

(* the views of the result: the flat list of paragraphs, their run strings,
   and the nested list of run strings *)
Theorem rendering_total_tables : forall v path t, all_local_ok2 v t = true ->
  exists s ps rs r,
    collect_from v path t = Ok s
    /\ pars_at 4 (c_tree s) = Ok ps
    /\ mapM (par_run_strings (html_on v)) ps = Ok rs
    /\ get_par_strings (html_on v) (pars_view s) = Ok r.
Proof.
  intros v path t Hl.
  destruct (collect_total_tables_strong v path t Hl) as (s & E & [I0 (T0 & _)]).
  destruct (pars_at_total 4 1 (c_tree s) eq_refl) as [ps Eps]; [lia|exact (proj1 I0)|].
  destruct (ViewFacts.mapM_total (par_run_strings (html_on v)) ps) as [rs Ers].
  { eapply Forall_impl; [|exact (pars_at_sty _ _ _ Eps T0)]. intro p. apply par_run_strings_total. }
  destruct (gps_total (html_on v) (pars_view s)) as [r Er].
  { apply pars_view_deep. apply unrev_shape. exact (proj1 I0). }
  { intros addr p Hp. apply par_run_strings_total. exact (pars_view_leaves_sty s T0 addr p Hp). }
  exists s, ps, rs, r. auto.
Qed.

(* the invariant under the primitives, under the names of the work package *)
Lemma set_caret_J2 d name s : 1 <= d <= 4 -> J2 s ->
  exists s', set_caret (Some d) name s = Ok s' /\ J2 s'.
Proof. intros Hd HJ. destruct (set_caret_J d name s Hd HJ) as (s' & E & J' & _). eauto. Qed.
Lemma commence_paragraph_J2 v elem s : elem_ok v elem -> J2 s ->
  exists s', commence_paragraph v elem s = Ok s' /\ J2 s'.
Proof. apply commence_paragraph_J. Qed.
Lemma conclude_paragraph_J2 s : J2 s -> exists s', conclude_paragraph s = Ok s' /\ J2 s'.
Proof. apply conclude_paragraph_J. Qed.
Lemma close_table_cell_J2 v e ks s pr g :
  J2 s -> gather_Pr e ks = Ok pr -> span_of pr = Ok g ->
  spine_ok 3 (c_tree s) -> (env_dup v = true -> (1 < g)%Z -> spine_ok 4 (c_tree s)) ->
  exists s', close_table_cell v e ks s = Ok s' /\ J2 s'.
Proof. apply close_table_cell_total. Qed.

(* the earlier theorem is a special case *)
Lemma local_ok'_local_ok2 v t : local_ok' v t = true -> local_ok2 v t = true.
Proof.
  destruct t as [e ks|tl]; [|reflexivity]. intro H. unfold local_ok2.
  assert (H' := H). unfold local_ok', local_ok in H'. cbv zeta in H'.
  apply andb_true_iff in H'. destruct H' as [H' _].
  apply andb_true_iff in H'. destruct H' as [H' L9].
  apply andb_true_iff in H'. destruct H' as [_ L8].
  destruct (str_eqb (e_ptag e) tag_TABLE_CELL); [discriminate L8|].
  destruct (str_eqb (e_ptag e) tag_COMMENT_RANGE_START || str_eqb (e_ptag e) tag_COMMENT_RANGE_END)%bool;
    [discriminate L9|exact H].
Qed.

Lemma all_local_ok'_all_local_ok2 v : forall t, all_local_ok' v t = true -> all_local_ok2 v t = true.
Proof.
  apply (ShapeFacts.anode_ind' (fun t => all_local_ok' v t = true -> all_local_ok2 v t = true));
    [intros tl _; reflexivity|].
  intros e ks HF H. cbn [all_local_ok' all_local_ok2] in H |- *.
  apply andb_true_iff in H. destruct H as [Hl Hk].
  rewrite (local_ok'_local_ok2 _ _ Hl). cbn [andb].
  apply forallb_forall. intros k Ik. apply (proj1 (Forall_forall _ _) HF k Ik).
  exact (proj1 (forallb_forall _ _) Hk k Ik).
Qed.

(* ================================================================== *)
(* PART 6b — after the repair: no structural hypothesis at all          *)
(* ================================================================== *)
(* Since _close_table_cell was repaired, closing a cell cannot fail for
   structural reasons (close_table_cell_total_now), so the condition on what
   a w:tc CONTAINS ([cell_ok] / [row_ok]) can be dropped: only the local
   evaluations remain.  For a w:tc: its properties gather and its gridSpan
   value parses; for a comment range marker: the id attribute is present;
   for every other element: local_ok' of TotalFacts. *)
Definition tc_ok3 (e : einfo) (ks : list anode) : bool :=
  match gather_Pr e ks with Ok pr => is_ok (span_of pr) | Err _ => false end.

Definition local_ok3 (v : env) (t : anode) : bool :=
  match t with
  | AX _ => true
  | AE e ks =>
      if str_eqb (e_ptag e) tag_TABLE_CELL then tc_ok3 e ks
      else if (str_eqb (e_ptag e) tag_COMMENT_RANGE_START
               || str_eqb (e_ptag e) tag_COMMENT_RANGE_END)%bool then
        is_ok (attr_w_req e s_id)
      else local_ok' v t
  end.
Fixpoint all_local_ok3 (v : env) (t : anode) : bool :=
  match t with AX _ => true | AE e ks => local_ok3 v t && forallb (all_local_ok3 v) ks end.

Lemma open_tag_J3 v path e ks body s :
  local_ok3 v (AE e ks) = true -> J s ->
  exists s' b, open_tag v path (AE e ks) e ks body s = Ok (s', b) /\ J s'.
Proof.
  intros L HJ. unfold local_ok3 in L.
  destruct (str_eqb (e_ptag e) tag_TABLE_CELL) eqn:Ttc.
  { rewrite (open_tag_tc _ _ _ _ _ _ _ Ttc). exists s, true. auto. }
  destruct (str_eqb (e_ptag e) tag_COMMENT_RANGE_START) eqn:Ts.
  { cbn [orb] in L. rewrite (open_tag_crs _ _ _ _ _ _ _ Ts).
    destruct (attr_w_req e s_id) as [id|]; [|discriminate L]. cbn [bind].
    destruct (start_comment_range_J v id s HJ) as (s' & E & J'). rewrite E. cbn [bind]. eauto. }
  destruct (str_eqb (e_ptag e) tag_COMMENT_RANGE_END) eqn:Te.
  { cbn [orb] in L. rewrite (open_tag_cre _ _ _ _ _ _ _ Te).
    destruct (attr_w_req e s_id) as [id|]; [|discriminate L]. cbn [bind].
    destruct (end_comment_range_J v id s HJ) as (s' & E & J'). rewrite E. cbn [bind]. eauto. }
  cbn [orb] in L. apply TotalFacts.open_tag_J; assumption.
Qed.

Lemma close_tag_J3 v e ks s :
  local_ok3 v (AE e ks) = true -> J s -> exists s', close_tag v e ks s = Ok s' /\ J s'.
Proof.
  intros L HJ. unfold local_ok3 in L.
  destruct (str_eqb (e_ptag e) tag_TABLE_CELL) eqn:Ttc.
  { rewrite (close_tag_tc _ _ _ _ Ttc). unfold tc_ok3 in L.
    destruct (gather_Pr e ks) as [pr|] eqn:Epr; [|discriminate L].
    destruct (span_of pr) as [g|] eqn:Eg; [|discriminate L].
    exact (close_table_cell_total_now v e ks s pr g HJ Epr Eg). }
  destruct (str_eqb (e_ptag e) tag_COMMENT_RANGE_START) eqn:Ts.
  { rewrite (close_tag_crs _ _ _ _ Ts). exists s. auto. }
  destruct (str_eqb (e_ptag e) tag_COMMENT_RANGE_END) eqn:Te.
  { rewrite (close_tag_cre _ _ _ _ Te). exists s. auto. }
  cbn [orb] in L. apply TotalFacts.close_tag_J; assumption.
Qed.

Definition walk_A_at (v : env) (t : anode) : Prop :=
  forall path s, all_local_ok3 v t = true -> J s -> exists s', walk v path t s = Ok s' /\ J s'.

Lemma below_loop_total3 v path ks :
  Forall (walk_A_at v) ks -> forallb (all_local_ok3 v) ks = true ->
  forall i, exists body, below_loop v path ks i = Ok body.
Proof.
  induction 1 as [|k r Hk Hr IH]; intros Hl i; cbn [below_loop].
  - eexists; reflexivity.
  - cbn [forallb] in Hl. apply andb_true_iff in Hl. destruct Hl as [Hlk Hlr].
    destruct (Hk (i :: path) init_cst Hlk init_J) as (sk & E & Jk). rewrite E. cbn [bind].
    destruct (finish_J v sk Jk) as (sk' & E' & [Ik' (Tk' & _)]). rewrite E'. cbn [bind].
    destruct (tree_par_toks_total (c_tree sk') (proj1 Ik') Tk') as [ps Ep]. rewrite Ep. cbn [bind].
    destruct (IH Hlr (S i)) as [rest Er]. rewrite Er. cbn [bind]. eexists; reflexivity.
Qed.

Lemma kids_loop_total3 v path ks :
  Forall (walk_A_at v) ks -> forallb (all_local_ok3 v) ks = true ->
  forall i s, J s -> exists s', kids_loop v path ks i s = Ok s' /\ J s'.
Proof.
  induction 1 as [|k r Hk Hr IH]; intros Hl i s HJ; cbn [kids_loop].
  - exists s. split; [reflexivity|exact HJ].
  - cbn [forallb] in Hl. apply andb_true_iff in Hl. destruct Hl as [Hlk Hlr].
    destruct (Hk (i :: path) s Hlk HJ) as (s1 & E & J1). rewrite E. cbn [bind].
    exact (IH Hlr (S i) s1 J1).
Qed.

Lemma walk_A v : forall t, walk_A_at v t.
Proof.
  apply ShapeFacts.anode_ind'.
  - intros tl path s _ HJ. exists s. split; [reflexivity|exact HJ].
  - intros e ks HF path s Hl HJ. cbn [all_local_ok3] in Hl.
    apply andb_true_iff in Hl. destruct Hl as [Hloc Hks].
    rewrite walk_AE. cbv zeta.
    destruct (set_caret_opt_J2 (elem_depth (AE e ks)) (Some (e_local e)) s
                (elem_depth_range _) HJ) as (s1 & E1 & J1 & _).
    rewrite E1. cbn [bind].
    assert (Hb : exists body, (if str_eqb (e_ptag e) tag_HYPERLINK
                               then below_loop v path ks 0 else Ok []) = Ok body).
    { destruct (str_eqb (e_ptag e) tag_HYPERLINK); [|eexists; reflexivity].
      apply below_loop_total3; assumption. }
    destruct Hb as [body Eb]. rewrite Eb. cbn [bind].
    destruct (open_tag_J3 v path e ks body s1 Hloc J1) as (s2 & rec & E2 & J2').
    rewrite E2. cbn [bind].
    assert (H3 : exists s3, (if rec then kids_loop v path ks 0 s2 else Ok s2) = Ok s3 /\ J s3).
    { destruct rec; [|exists s2; split; [reflexivity|exact J2']].
      exact (kids_loop_total3 v path ks HF Hks 0 s2 J2'). }
    destruct H3 as (s3 & E3 & J3). rewrite E3. cbn [bind].
    destruct (close_tag_J3 v e ks s3 Hloc J3) as (s4 & E4 & J4). rewrite E4. cbn [bind].
    destruct (set_caret_opt_J2 (elem_depth (AE e ks)) None s4 (elem_depth_range _) J4)
      as (s5 & E5 & J5 & _).
    exists s5. split; [exact E5|exact J5].
Qed.

(* TOTALITY, every tree: if the local evaluation of every element succeeds
   the whole walk succeeds, whatever the cells contain and however tables,
   wrappers and paragraphs are nested *)
Theorem walk_total_all : forall v t path s, all_local_ok3 v t = true -> J s ->
  exists s', walk v path t s = Ok s' /\ J s'.
Proof. intros v t path s Hl HJ. exact (walk_A v t path s Hl HJ). Qed.

Theorem collect_total_all_strong : forall v path t, all_local_ok3 v t = true ->
  exists s, collect_from v path t = Ok s /\ J s.
Proof.
  intros v path t Hl. unfold collect_from.
  destruct (walk_total_all v t path init_cst Hl init_J) as (s1 & E & J1). rewrite E. cbn [bind].
  apply finish_J. exact J1.
Qed.

Theorem collect_total_all : forall v path t, all_local_ok3 v t = true ->
  exists s, collect_from v path t = Ok s.
Proof. intros v path t Hl. destruct (collect_total_all_strong v path t Hl) as (s & E & _). eauto. Qed.

Theorem rendering_total_all : forall v path t, all_local_ok3 v t = true ->
  exists s ps rs r,
    collect_from v path t = Ok s
    /\ pars_at 4 (c_tree s) = Ok ps
    /\ mapM (par_run_strings (html_on v)) ps = Ok rs
    /\ get_par_strings (html_on v) (pars_view s) = Ok r.
Proof.
  intros v path t Hl.
  destruct (collect_total_all_strong v path t Hl) as (s & E & [I0 (T0 & _)]).
  destruct (pars_at_total 4 1 (c_tree s) eq_refl) as [ps Eps]; [lia|exact (proj1 I0)|].
  destruct (ViewFacts.mapM_total (par_run_strings (html_on v)) ps) as [rs Ers].
  { eapply Forall_impl; [|exact (pars_at_sty _ _ _ Eps T0)]. intro p. apply par_run_strings_total. }
  destruct (gps_total (html_on v) (pars_view s)) as [r Er].
  { apply pars_view_deep. apply unrev_shape. exact (proj1 I0). }
  { intros addr p Hp. apply par_run_strings_total. exact (pars_view_leaves_sty s T0 addr p Hp). }
  exists s, ps, rs, r. auto.
Qed.

(* the earlier hypotheses are special cases: all_local_ok2 (with the
   structural clause tc_ok), and all_local_ok2_weak ("some paragraph below
   the cell", which did NOT suffice before the repair) *)
Lemma local_ok2_local_ok3 v t : local_ok2 v t = true -> local_ok3 v t = true.
Proof.
  destruct t as [e ks|tl]; [|reflexivity]. unfold local_ok2, local_ok3, tc_ok, tc_ok3.
  destruct (str_eqb (e_ptag e) tag_TABLE_CELL); [|intro H; exact H].
  destruct (gather_Pr e ks) as [pr|]; [|intro H; exact H].
  destruct (span_of pr) as [g|]; [reflexivity|intro H; exact H].
Qed.

Lemma all_local_ok2_all_local_ok3 v : forall t, all_local_ok2 v t = true -> all_local_ok3 v t = true.
Proof.
  apply (ShapeFacts.anode_ind' (fun t => all_local_ok2 v t = true -> all_local_ok3 v t = true));
    [intros tl _; reflexivity|].
  intros e ks HF H. cbn [all_local_ok2 all_local_ok3] in H |- *.
  apply andb_true_iff in H. destruct H as [Hl Hk].
  rewrite (local_ok2_local_ok3 _ _ Hl). cbn [andb].
  apply forallb_forall. intros k Ik. apply (proj1 (Forall_forall _ _) HF k Ik).
  exact (proj1 (forallb_forall _ _) Hk k Ik).
Qed.

Lemma local_ok2_weak_local_ok3 v t : local_ok2_weak v t = true -> local_ok3 v t = true.
Proof.
  destruct t as [e ks|tl]; [|reflexivity]. unfold local_ok2_weak, local_ok3, tc_ok3.
  destruct (str_eqb (e_ptag e) tag_TABLE_CELL); [|intro H; exact H].
  intro H. apply andb_true_iff in H. exact (proj1 H).
Qed.

Lemma all_local_ok2_weak_all_local_ok3 v :
  forall t, all_local_ok2_weak v t = true -> all_local_ok3 v t = true.
Proof.
  apply (ShapeFacts.anode_ind' (fun t => all_local_ok2_weak v t = true -> all_local_ok3 v t = true));
    [intros tl _; reflexivity|].
  intros e ks HF H. cbn [all_local_ok2_weak all_local_ok3] in H |- *.
  apply andb_true_iff in H. destruct H as [Hl Hk].
  rewrite (local_ok2_weak_local_ok3 _ _ Hl). cbn [andb].
  apply forallb_forall. intros k Ik. apply (proj1 (Forall_forall _ _) HF k Ik).
  exact (proj1 (forallb_forall _ _) Hk k Ik).
Qed.

Corollary all_local_ok'_all_local_ok3 v : forall t, all_local_ok' v t = true -> all_local_ok3 v t = true.
Proof. intros t H. apply all_local_ok2_all_local_ok3, all_local_ok'_all_local_ok2, H. Qed.

(* ================================================================== *)
(* PART 7 — examples and counterexamples                                *)
(* ================================================================== *)
Definition tt_el (tag loc : str) (attrs : list (aname * str)) (tx : option str)
           (ks : list anode) : anode :=
  AE {| e_ptag := tag; e_uri := Some [87%N]; e_local := loc; e_wuri := Some [87%N];
        e_ruri := None; e_attrs := attrs; e_text := tx; e_tail := None |} ks.
Definition tt_wattr (n v : str) : aname * str := ((Some [87%N], n), v).
Definition tt_t (txt : str) : anode := tt_el tag_TEXT [116%N] [] (Some txt) [].
Definition tt_r (ks : list anode) : anode := tt_el tag_RUN [114%N] [] None ks.
Definition tt_p (ks : list anode) : anode := tt_el tag_PARAGRAPH [112%N] [] None ks.
Definition tt_par (txt : str) : anode := tt_p [tt_r [tt_t txt]].
(* <w:tcPr>, <w:gridSpan w:val="2"/>, <w:vMerge/> *)
Definition tt_tcPr (ks : list anode) : anode :=
  tt_el [119;58;116;99;80;114]%N [116;99;80;114]%N [] None ks.
Definition tt_gridSpan2 : anode :=
  tt_el [119;58;103;114;105;100;83;112;97;110]%N s_gridSpan [tt_wattr s_val [50%N]] None [].
Definition tt_vMerge : anode := tt_el [119;58;118;77;101;114;103;101]%N s_vMerge [] None [].
Definition tt_tc (ks : list anode) : anode := tt_el tag_TABLE_CELL [116;99]%N [] None ks.
Definition tt_tr (ks : list anode) : anode := tt_el tag_TABLE_ROW [116;114]%N [] None ks.
Definition tt_tbl (ks : list anode) : anode := tt_el tag_TABLE [116;98;108]%N [] None ks.
Definition tt_crs (id : str) : anode :=
  tt_el tag_COMMENT_RANGE_START
        [99;111;109;109;101;110;116;82;97;110;103;101;83;116;97;114;116]%N
        [tt_wattr s_id id] None [].
Definition tt_cre (id : str) : anode :=
  tt_el tag_COMMENT_RANGE_END [99;111;109;109;101;110;116;82;97;110;103;101;69;110;100]%N
        [tt_wattr s_id id] None [].
(* <w:sdt>, <w:sdtContent>, <w:customXml>, <w:bookmarkEnd>, <w:pict>, <w:txbxContent> *)
Definition tt_sdt (ks : list anode) : anode := tt_el [119;58;115;100;116]%N [115;100;116]%N [] None ks.
Definition tt_sdtContent (ks : list anode) : anode :=
  tt_el [119;58;115;100;116;67;111;110;116;101;110;116]%N [115;100;116;67;111;110;116;101;110;116]%N
        [] None ks.
Definition tt_customXml (ks : list anode) : anode :=
  tt_el [119;58;99;117;115;116;111;109;88;109;108]%N [99;117;115;116;111;109;88;109;108]%N [] None ks.
Definition tt_bookmarkEnd : anode :=
  tt_el [119;58;98;111;111;107;109;97;114;107;69;110;100]%N [98;111;111;107;109;97;114;107;69;110;100]%N
        [] None [].
Definition tt_pict (ks : list anode) : anode := tt_el [119;58;112;105;99;116]%N [112;105;99;116]%N [] None ks.
Definition tt_txbx (ks : list anode) : anode :=
  tt_el [119;58;116;120;98;120;67;111;110;116;101;110;116]%N [116;120;98;120;67;111;110;116;101;110;116]%N
        [] None ks.
Definition tt_body (ks : list anode) : anode := tt_el [119;58;98;111;100;121]%N [98;111;100;121]%N [] None ks.

Definition tt_env (html dup : bool) : env :=
  {| env_x2h := if html then xml2html_table else []; env_rels := []; env_dup := dup;
     env_numtbl := [] |}.

(* EXAMPLE.  A body with
   - a free paragraph: a comment range around its first run, and a text box
     (a nested paragraph) in its second run;
   - a 2 x 2 table:  row 0 = [ A, gridSpan = 2 ],
                     row 1 = [ B, vMerge continuation ] [ C in a content
                     control (w:sdt), followed by a bookmark end ]. *)
Definition tt_doc : anode :=
  tt_body
    [tt_p [tt_crs [48%N]; tt_r [tt_t [88%N]]; tt_cre [48%N];
           tt_r [tt_pict [tt_txbx [tt_par [89%N]]]]];
     tt_tbl
       [tt_tr [tt_tc [tt_tcPr [tt_gridSpan2]; tt_par [65%N]]];
        tt_tr [tt_tc [tt_tcPr [tt_vMerge]; tt_par [66%N]];
               tt_tc [tt_sdt [tt_sdtContent [tt_par [67%N]]]; tt_bookmarkEnd]]]].

Example tt_doc_ok : forall html dup, all_local_ok2 (tt_env html dup) tt_doc = true.
Proof. intros [|] [|]; vm_compute; reflexivity. Qed.

(* it is outside the reach of TotalFacts *)
Example tt_doc_not_ok' : forall html dup, all_local_ok' (tt_env html dup) tt_doc = false.
Proof. intros [|] [|]; vm_compute; reflexivity. Qed.

Example tt_doc_collects : forall html dup, exists s, collect_from (tt_env html dup) [] tt_doc = Ok s.
Proof. intros html dup. apply collect_total_tables, tt_doc_ok. Qed.

(* what comes out (duplicate_merged_cells = True): per table, row and cell
   the (source path, is-a-copy) of the paragraphs.  The run with the text box
   and the cell with the content control have their paragraph three or more
   levels down, so _get_elem_depth puts them at depth 1 and the caret opens
   new tables (and leaves empty lists behind): quirks of the code that the
   model reproduces, none of them an exception. *)
Fixpoint tt_leaves (n : node) : list (option (list nat) * bool) :=
  match n with
  | NP p => [(p_elem p, p_copy p)]
  | NL l => concat (map tt_leaves l)
  end.
Definition tt_view (l : list node) : list (list (list (list (option (list nat) * bool)))) :=
  map (fun t => match t with
                | NL rows => map (fun r => match r with
                                           | NL cells => map tt_leaves cells
                                           | NP _ => []
                                           end) rows
                | NP _ => []
                end) l.

Example tt_doc_result :
  exists s, collect_from (tt_env true true) [] tt_doc = Ok s /\
    c_ranges s = [([48%N], (0, 1))] /\
    tt_view (unrev_list (c_tree s)) =
      [ [ [ [] ] ];
        [ [ [ (Some [0;0;0;3;0], false) ] ] ];          (* the text box *)
        [ [ [ (Some [0], false) ] ] ];                  (* the free paragraph *)
        [ [ [ (Some [1;0;0;1], false) ]; [ (Some [1;0;0;1], true) ] ];
          [ [ (Some [1;0;0;1], true) ] ] ];
        [ [ [ (Some [0;0;0;1;1;1], false) ] ] ];        (* C: its cell sits at depth 1 *)
        [] ].
Proof.
  destruct (collect_from (tt_env true true) [] tt_doc) as [s|x] eqn:E;
    [|vm_compute in E; discriminate E].
  vm_compute in E. injection E as <-. eexists. split; [reflexivity|].
  split; vm_compute; reflexivity.
Qed.

(* ---- FINDING 1 (now repaired in the code): before the repair of
   _close_table_cell "some paragraph below the cell" did not suffice; the
   three trees below made close_table_cell raise IndexError.  They are kept,
   with the statement that holds now: they are extracted. ---- *)
(* (a) a structure the XSD allows: a cell whose only block is a
   w:customXml that holds a wrapped paragraph and then a nested table.  The
   nested table raises the caret to depth 1; closing the customXml (depth 2)
   appends an EMPTY table, and closing the cell used to read root[-1][-1]
   (IndexError, whatever duplicate_merged_cells is); now it returns at once. *)
Definition cx_nested : anode :=
  tt_tbl [tt_tr [tt_tc [tt_customXml [tt_customXml [tt_par [65%N]];
                                      tt_tbl [tt_tr [tt_tc [tt_par [66%N]]]]]]]].

Lemma walk_total_tables_repaired :
  exists t, forall html dup,
    all_local_ok2_weak (tt_env html dup) t = true
    /\ exists s, collect_from (tt_env html dup) [] t = Ok s.
Proof.
  exists cx_nested. intros html dup. split; [destruct html, dup; vm_compute; reflexivity|].
  apply collect_total_all, all_local_ok2_weak_all_local_ok3.
  destruct html, dup; vm_compute; reflexivity.
Qed.

(* (b) a cell with gridSpan = 2 whose only block is a w:customXml holding a
   paragraph and then a content control: the content control (depth 2) raises
   the caret, closing the customXml (depth 3) appends an EMPTY row, and with
   duplicate_merged_cells = True the cell to duplicate, this_tr[-1], does
   not exist: it used to be an IndexError, now a blank cell is appended, as
   with duplicate_merged_cells = False. *)
Definition cx_dup : anode :=
  tt_tbl [tt_tr [tt_tc [tt_tcPr [tt_gridSpan2];
                        tt_customXml [tt_par [65%N];
                                      tt_sdt [tt_sdtContent [tt_par [66%N]]]]]]].

Lemma walk_total_tables_dup_repaired :
  exists t, forall html,
    all_local_ok2_weak (tt_env html true) t = true
    /\ (exists s, collect_from (tt_env html true) [] t = Ok s)
    /\ all_local_ok2_weak (tt_env html false) t = true
    /\ exists s, collect_from (tt_env html false) [] t = Ok s.
Proof.
  exists cx_dup. intros [|]; (split; [vm_compute; reflexivity|]);
    (split; [eexists; vm_compute; reflexivity|]); (split; [vm_compute; reflexivity|]);
    eexists; vm_compute; reflexivity.
Qed.

(* what comes out of (b): both settings give the same shape — one table, three rows of
   one cell; the row that the dropped caret had left empty holds the blank cell (one
   empty paragraph that belongs to no source element) *)
Example cx_dup_result : forall dup,
  exists s, collect_from (tt_env false dup) [] cx_dup = Ok s /\
    tt_view (unrev_list (c_tree s)) =
      [ [ [ [ (Some [0;1;0;0], false) ] ];
          [ [ (Some [0;0;1;1;0;0], false) ] ];
          [ [ (None, false) ] ] ] ].
Proof.
  intros [|]; (eexists; split; [vm_compute; reflexivity|vm_compute; reflexivity]).
Qed.

(* (c) and a cell with no paragraph at all used to fail on the empty root; now
   nothing is extracted from it *)
Lemma cell_without_paragraph_repaired :
  forall html dup, exists s, collect_from (tt_env html dup) [] (tt_tbl [tt_tr [tt_tc []]]) = Ok s
                             /\ c_tree s = [].
Proof. intros [|] [|]; eexists; split; vm_compute; reflexivity. Qed.

(* the three trees satisfy the hypothesis of walk_total_all ... *)
Example cx_all_local_ok3 : forall html dup,
  all_local_ok3 (tt_env html dup) cx_nested = true
  /\ all_local_ok3 (tt_env html dup) cx_dup = true
  /\ all_local_ok3 (tt_env html dup) (tt_tbl [tt_tr [tt_tc []]]) = true.
Proof. intros [|] [|]; repeat split; vm_compute; reflexivity. Qed.

(* ... so they are extracted and rendered by the theorem (no computation) *)
Example cx_extracted : forall html dup,
  (exists s, collect_from (tt_env html dup) [] cx_nested = Ok s)
  /\ (exists s, collect_from (tt_env html dup) [] cx_dup = Ok s)
  /\ (exists s, collect_from (tt_env html dup) [] (tt_tbl [tt_tr [tt_tc []]]) = Ok s).
Proof.
  intros html dup. destruct (cx_all_local_ok3 html dup) as (A & B & C).
  repeat split; apply collect_total_all; assumption.
Qed.

(* they remain outside the OLD hypothesis ([row_ok] / [cell_ok]); (b) only when its
   cell is to be duplicated: all_local_ok3 is strictly weaker than all_local_ok2 *)
Example cx_excluded : forall html dup,
  all_local_ok2 (tt_env html dup) cx_nested = false
  /\ all_local_ok2 (tt_env html true) cx_dup = false
  /\ all_local_ok2 (tt_env html false) cx_dup = true.
Proof. intros [|] [|]; repeat split; vm_compute; reflexivity. Qed.

(* ---- FINDING 2: the proposed strengthening of J is not an invariant ---- *)
(* a content control that holds a paragraph and then a table whose only cell
   ends with a w:p: every hypothesis of the theorem holds, the walk from the
   initial state (which satisfies J2_naive) succeeds, and the FINAL tree ends
   with a table whose only row has no cell — the w:tbl (depth 1) raised the
   caret, and closing w:sdtContent (depth 3) dropped it again. *)
Definition cx_sdt_doc : anode :=
  tt_body [tt_sdt [tt_sdtContent [tt_par [65%N]; tt_tbl [tt_tr [tt_tc [tt_par [66%N]]]]]]].

Lemma J2_naive_counterexample :
  exists v t s, all_local_ok2 v t = true /\ J2_naive init_cst
                /\ collect_from v [] t = Ok s /\ ~ J2_naive s.
Proof.
  exists (tt_env false true), cx_sdt_doc.
  destruct (collect_from (tt_env false true) [] cx_sdt_doc) as [s|x] eqn:E;
    [|vm_compute in E; discriminate E].
  exists s. split; [vm_compute; reflexivity|].
  split; [split; [exact init_J|constructor]|]. split; [reflexivity|].
  vm_compute in E. injection E as <-. intros [_ H]. cbn [c_tree] in H.
  inversion H as [|n l Hn Hl]. cbn [rows_nonempty] in Hn. destruct Hn as [_ Hr].
  inversion Hr as [|r rs Hne Hrs]. apply Hne. reflexivity.
Qed.

(* ---- the generality of [cell_ok]: a cell (gridSpan = 2, duplicated) whose
   whole content sits in a content control, <w:tc><w:tcPr/><w:sdt>
   <w:sdtContent><w:p/></w:sdtContent></w:sdt></w:tc>, is covered ---- *)
Definition tt_sdt_cell : anode :=
  tt_tbl [tt_tr [tt_tc [tt_tcPr [tt_gridSpan2]; tt_sdt [tt_sdtContent [tt_par [66%N]]]]]].

Example tt_sdt_cell_ok : forall html dup, all_local_ok2 (tt_env html dup) tt_sdt_cell = true.
Proof. intros [|] [|]; vm_compute; reflexivity. Qed.

Print Assumptions close_table_cell_total.
Print Assumptions close_table_cell_total_now.
Print Assumptions close_table_cell_ok_iff_now.
Print Assumptions walk_total_tables.
Print Assumptions collect_total_tables_strong.
Print Assumptions collect_total_tables.
Print Assumptions rendering_total_tables.
Print Assumptions all_local_ok'_all_local_ok2.
Print Assumptions tt_doc_ok.
Print Assumptions tt_doc_collects.
Print Assumptions tt_doc_result.
Print Assumptions walk_total_tables_repaired.
Print Assumptions walk_total_tables_dup_repaired.
Print Assumptions cell_without_paragraph_repaired.
Print Assumptions cx_dup_result.
Print Assumptions cx_all_local_ok3.
Print Assumptions cx_extracted.
Print Assumptions walk_total_all.
Print Assumptions collect_total_all_strong.
Print Assumptions collect_total_all.
Print Assumptions rendering_total_all.
Print Assumptions all_local_ok2_all_local_ok3.
Print Assumptions all_local_ok2_weak_all_local_ok3.
Print Assumptions all_local_ok'_all_local_ok3.
Print Assumptions J2_naive_counterexample.
Print Assumptions tt_sdt_cell_ok.
Print Assumptions cell_ok_ends_with_par.
