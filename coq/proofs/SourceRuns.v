(* SourceRuns.v — the RUN methods of depth_collector.DepthCollector AS TRANSLATED FROM THE SOURCE TEXT
   with the heap embedding (gen/SourceHeapRuns.v: the dataclass constructors Run(...) / Par(...), the
   side-effecting properties _open_par / _open_runs / _open_run, commence_run, conclude_run, escape,
   add_text_into_open_run, add_code_into_open_run, insert_text_as_new_run,
   queue_run_for_next_paragraph) do to the runs of the open paragraph exactly what the functional
   model of model/Collector.v does (commence_run, add_toks, insert_text_as_new_run,
   queue_run_for_next_paragraph), and touch nothing else.

   A Run object is read as (style strings, text); the model keeps the text of a run as tokens and
   renders them when the strings are asked for, Python keeps the rendered string: [run_view] is the
   reading of a model run under the html flag, and the bridge lemmas at the end show that the model's
   operations, seen through run_view, are the operations proved of the source here.

   The theorems are about a collector in which a paragraph is open (the state in which the walk calls
   these methods; with no open paragraph _open_par first commences one, which goes through set_caret:
   SourceCaret2.v).  The functions of text_runs.py that compute the formatting are parameters. *)
From Coq Require Import List NArith ZArith Bool Arith Lia.
From D2P Require Import Str Err Xml TableTypes Tables Fmt Bullets Merge Collector PyVal PyHeap
                        SourceHeap SourceHeapRuns SourceCaret SourceFresh TokFacts.
Import ListNotations.

Definition n_Run : str := [82;117;110]%N.
Definition n_Par : str := [80;97;114]%N.
Definition n_html_style : str := [104;116;109;108;95;115;116;121;108;101]%N.
Definition n_text : str := [116;101;120;116]%N.
Definition n_runs : str := [114;117;110;115]%N.
Definition n_queued : str := [113;117;101;117;101;100;95;114;117;110;115]%N.
Definition n_x2h : str := [95;120;109;108;50;104;116;109;108;95;102;111;114;109;97;116]%N.

(* a Run as read from the heap: its style strings and its text *)
Definition rv := (list str * str)%type.

Fixpoint ostrs (l : list pv) : option (list str) :=
  match l with
  | [] => Some []
  | VStr s :: r => match ostrs r with Some ss => Some (s :: ss) | None => None end
  | _ :: _ => None
  end.
Definition rd_strs (h : heap) (v : pv) : option (list str) :=
  match v with
  | VRef a => match h_get a h with Some (HList l) => ostrs l | _ => None end
  | _ => None
  end.
Definition rd_run (h : heap) (v : pv) : option rv :=
  match v with
  | VRef a =>
      match h_get a h with
      | Some (HObj c fs) =>
          if str_eqb c n_Run then
            match field_get n_html_style fs, field_get n_text fs with
            | Some st, Some (VStr t) => match rd_strs h st with Some ss => Some (ss, t) | None => None end
            | _, _ => None
            end
          else None
      | _ => None
      end
  | _ => None
  end.
(* a list of runs: references to pairwise DISTINCT Run objects *)
Definition rd_runs (h : heap) (v : pv) : option (list rv) :=
  match v with
  | VRef a => match h_get a h with
              | Some (HList l) =>
                  match refs_of l with
                  | Some rs => if nodupb rs then mapo (rd_run h) l else None
                  | None => None
                  end
              | _ => None
              end
  | _ => None
  end.

(* the open paragraph of a collector: (address of the Par object, address of its runs list, the runs) *)
Definition rd_open (h : heap) (self : pv) : option (nat * nat * list rv) :=
  match self with
  | VRef sa =>
      match h_get sa h with
      | Some (HObj _ fs) =>
          match field_get f_open_pars fs with
          | Some (VRef op) =>
              match h_get op h with
              | Some (HList ops) =>
                  match rev ops with
                  | VRef pa :: _ =>
                      match h_get pa h with
                      | Some (HObj c pfs) =>
                          if str_eqb c n_Par then
                            match field_get n_runs pfs with
                            | Some (VRef ra) =>
                                match rd_runs h (VRef ra) with
                                | Some rs => Some (pa, ra, rs)
                                | None => None
                                end
                            | _ => None
                            end
                          else None
                      | _ => None
                      end
                  | _ => None
                  end
              | _ => None
              end
          | _ => None
          end
      | _ => None
      end
  | _ => None
  end.

(* the queued runs: (address of the list, the runs) *)
Definition rd_queued (h : heap) (self : pv) : option (nat * list rv) :=
  match self with
  | VRef sa =>
      match h_get sa h with
      | Some (HObj _ fs) =>
          match field_get n_queued fs with
          | Some (VRef qa) => match rd_runs h (VRef qa) with Some rs => Some (qa, rs) | None => None end
          | _ => None
          end
      | _ => None
      end
  | _ => None
  end.

(* the html flag: self._xml2html_format, an immutable value here (a mapping handed in from outside) *)
Definition rd_fmt (h : heap) (self : pv) : option pv :=
  match self with
  | VRef sa => match h_get sa h with
               | Some (HObj _ fs) => match field_get n_x2h fs with
                                     | Some (VRef _) => None
                                     | Some v => Some v
                                     | None => None
                                     end
               | _ => None
               end
  | _ => None
  end.

(* frame: apart from the list at address ra and the Run objects, every cell that existed is unchanged *)
Definition frame_runs (h h' : heap) (ra : nat) : Prop :=
  (length h <= length h')%nat /\
  forall a o, h_get a h = Some o -> a <> ra -> (forall fs, o <> HObj n_Run fs) -> h_get a h' = Some o.

Definition ensure_rv (rs : list rv) : list rv := match rs with [] => [([], [])] | _ => rs end.
Definition last_style (rs : list rv) : list str := match rev rs with (s, _) :: _ => s | [] => [] end.


(* ================================================================== *)
(* Helper lemmas, prefix sr_                                             *)
(* ================================================================== *)
Local Open Scope nat_scope.
Local Arguments h_get : simpl never.
Local Arguments h_set : simpl never.
Local Arguments field_get : simpl never.
Local Arguments field_set : simpl never.
Local Arguments hy_getattr : simpl never.
Local Arguments hy_setattr : simpl never.

(* every cell but ra is unchanged; the heap may grow *)
Definition sr_frame (h h' : heap) (ra : nat) : Prop :=
  length h <= length h' /\ forall a o, h_get a h = Some o -> a <> ra -> h_get a h' = Some o.

Lemma sr_frame_refl : forall h ra, sr_frame h h ra.
Proof. intros h ra. split; auto. Qed.

Lemma sr_frame_trans : forall h1 h2 h3 ra, sr_frame h1 h2 ra -> sr_frame h2 h3 ra -> sr_frame h1 h3 ra.
Proof. intros h1 h2 h3 ra [L1 F1] [L2 F2]. split; [lia|]. intros a o G N. apply F2; auto. Qed.

Lemma sr_frame_app : forall h o ra, sr_frame h (h ++ [o]) ra.
Proof.
  intros h o ra. split.
  - rewrite app_length. simpl. lia.
  - intros a x G _. apply h_get_app_old. exact G.
Qed.

Lemma sr_frame_set : forall h o ra, sr_frame h (h_set ra o h) ra.
Proof.
  intros h o ra. split.
  - rewrite h_set_length. lia.
  - intros a x G N. rewrite h_get_set_other; auto.
Qed.

Lemma sr_frame_extends : forall h h' ra, extends h h' -> sr_frame h h' ra.
Proof.
  intros h h' ra [ex ->]. split.
  - rewrite app_length. lia.
  - intros a o G _. unfold h_get in *. rewrite nth_error_app1; auto.
    apply nth_error_Some. rewrite G. discriminate.
Qed.

Lemma sr_frame_runs : forall h h' ra, sr_frame h h' ra -> frame_runs h h' ra.
Proof. intros h h' ra [L F]. split; auto. Qed.

(* a frame step followed by rewriting one Run object *)
Lemma sr_frame_runs_set : forall h h1 ra r fs fs',
  sr_frame h h1 ra -> h_get r h1 = Some (HObj n_Run fs) ->
  frame_runs h (h_set r (HObj n_Run fs') h1) ra.
Proof.
  intros h h1 ra r fs fs' [L F] Hr. split.
  - rewrite h_set_length. exact L.
  - intros a o G N NR. pose proof (F a o G N) as G1.
    destruct (Nat.eq_dec a r) as [->|Na].
    + rewrite Hr in G1. inversion G1; subst. exfalso. apply (NR fs). reflexivity.
    + rewrite h_get_set_other; auto.
Qed.

Lemma sr_ostrs_ref : forall l x, In (VRef x) l -> ostrs l = None.
Proof.
  induction l as [|y r IH]; intros x I; [destruct I|].
  simpl. destruct I as [->|I]; [reflexivity|].
  destruct y; try reflexivity. rewrite (IH _ I). reflexivity.
Qed.

Lemma sr_refs_app : forall l1 l2,
  refs_of (l1 ++ l2) = match refs_of l1, refs_of l2 with Some a, Some b => Some (a ++ b) | _, _ => None end.
Proof.
  induction l1 as [|x r IH]; intros l2; simpl.
  - destruct (refs_of l2); reflexivity.
  - destruct x; try reflexivity. rewrite IH.
    destruct (refs_of r); [|reflexivity]. destruct (refs_of l2); reflexivity.
Qed.

Lemma sr_refs_in : forall l ns x, refs_of l = Some ns -> (In (VRef x) l <-> In x ns).
Proof.
  intros l ns x R. rewrite (refs_of_map _ _ R). rewrite in_map_iff. split.
  - intros (y & E & I). inversion E; subst; exact I.
  - intros I. exists x. auto.
Qed.

Lemma sr_NoDup_app : forall (l1 l2 : list nat),
  NoDup l1 -> NoDup l2 -> (forall x, In x l1 -> ~ In x l2) -> NoDup (l1 ++ l2).
Proof.
  induction l1 as [|a r IH]; intros l2 N1 N2 D; simpl; auto.
  inversion N1; subst. constructor.
  - rewrite in_app_iff. intros [I|I]; [auto|]. apply (D a); simpl; auto.
  - apply IH; auto. intros x I. apply D. simpl; auto.
Qed.

Lemma sr_mapo_in : forall {A B} (f : A -> option B) l ys x,
  mapo f l = Some ys -> In x l -> exists y, f x = Some y.
Proof.
  induction l as [|a r IH]; intros ys x M I; [destruct I|].
  simpl in M. destruct (f a) eqn:E; try discriminate. destruct (mapo f r) eqn:M'; try discriminate.
  destruct I as [->|I]; eauto.
Qed.

Lemma sr_mapo_length : forall {A B} (f : A -> option B) l ys, mapo f l = Some ys -> length ys = length l.
Proof.
  induction l as [|a r IH]; intros ys M; simpl in M.
  - inversion M; reflexivity.
  - destruct (f a); try discriminate. destruct (mapo f r) eqn:M'; try discriminate.
    inversion M; subst. simpl. f_equal. apply IH. reflexivity.
Qed.

Lemma sr_run_some_lt : forall h v y, rd_run h v = Some y -> exists a, v = VRef a /\ a < length h.
Proof.
  intros h v y H. destruct v; try discriminate. exists a. split; auto.
  unfold rd_run in H. destruct (h_get a h) eqn:E; try discriminate. eapply h_get_lt; eauto.
Qed.

Lemma sr_strs_frame : forall h h' ra v ss,
  sr_frame h h' ra -> v <> VRef ra -> rd_strs h v = Some ss -> rd_strs h' v = Some ss.
Proof.
  intros h h' ra v ss [L F] N H. destruct v; try discriminate. unfold rd_strs in *.
  destruct (h_get a h) as [[l|]|] eqn:E; try discriminate.
  rewrite (F _ _ E) by congruence. exact H.
Qed.

Lemma sr_run_frame : forall h h' ra items x v,
  sr_frame h h' ra -> h_get ra h = Some (HList items) -> In x items ->
  rd_run h x = Some v -> rd_run h' x = Some v.
Proof.
  intros h h' ra items x v Fr Hra I H. destruct x; try discriminate.
  pose proof Fr as [L F]. unfold rd_run in *.
  destruct (h_get a h) as [[l|c fs]|] eqn:E; try discriminate.
  assert (Na : a <> ra) by (intros ->; congruence).
  rewrite (F _ _ E Na).
  destruct (str_eqb c n_Run); try discriminate.
  destruct (field_get n_html_style fs) as [st|]; try discriminate.
  destruct (field_get n_text fs) as [[]|]; try discriminate.
  destruct (rd_strs h st) as [ss|] eqn:S; try discriminate.
  assert (Nst : st <> VRef ra).
  { intros ->. unfold rd_strs in S. rewrite Hra in S. rewrite (sr_ostrs_ref _ _ I) in S. discriminate. }
  rewrite (sr_strs_frame _ _ _ _ _ Fr Nst S). exact H.
Qed.

Lemma sr_runs_frame : forall h h' ra items extra ns rs vs,
  rd_runs h (VRef ra) = Some rs -> h_get ra h = Some (HList items) -> sr_frame h h' ra ->
  h_get ra h' = Some (HList (items ++ extra)) -> refs_of extra = Some ns ->
  (forall n, In n ns -> length h <= n) -> NoDup ns -> mapo (rd_run h') extra = Some vs ->
  rd_runs h' (VRef ra) = Some (rs ++ vs).
Proof.
  intros h h' ra items extra ns rs vs H Hra Fr Hra' Rx Fresh NDx Mx.
  unfold rd_runs in *. rewrite Hra in H. rewrite Hra'.
  destruct (refs_of items) as [addrs|] eqn:R; try discriminate.
  destruct (nodupb addrs) eqn:ND; try discriminate.
  rewrite sr_refs_app, R, Rx.
  assert (ND' : nodupb (addrs ++ ns) = true).
  { apply nodupb_NoDup. apply sr_NoDup_app; auto.
    - apply nodupb_NoDup; exact ND.
    - intros x I I2. apply Fresh in I2.
      apply (sr_refs_in _ _ x R) in I.
      destruct (sr_mapo_in _ _ _ _ H I) as [y Y].
      destruct (sr_run_some_lt _ _ _ Y) as (a & Ea & La). inversion Ea; subst. lia. }
  rewrite ND'. rewrite mapo_app, Mx.
  rewrite (mapo_impl _ (rd_run h') _ _ H); [reflexivity|].
  intros x y I Y. eapply sr_run_frame; eauto.
Qed.

(* the structure around the runs list: self -> _open_pars -> last Par -> runs *)
Definition sr_par (h : heap) (self : pv) (pa ra : nat) : Prop :=
  exists sa c fs op l pfs,
    self = VRef sa /\ h_get sa h = Some (HObj c fs) /\ field_get f_open_pars fs = Some (VRef op) /\
    h_get op h = Some (HList (l ++ [VRef pa])) /\ h_get pa h = Some (HObj n_Par pfs) /\
    field_get n_runs pfs = Some (VRef ra) /\ sa <> ra /\ op <> ra /\ pa <> ra.

Lemma sr_runs_list : forall h ra rs, rd_runs h (VRef ra) = Some rs ->
  exists items, h_get ra h = Some (HList items) /\ mapo (rd_run h) items = Some rs.
Proof.
  intros h ra rs H. unfold rd_runs in H.
  destruct (h_get ra h) as [[items|]|]; try discriminate.
  destruct (refs_of items); try discriminate. destruct (nodupb l); try discriminate.
  eauto.
Qed.

Lemma sr_open_inv : forall h self pa ra rs, rd_open h self = Some (pa, ra, rs) ->
  sr_par h self pa ra /\ rd_runs h (VRef ra) = Some rs.
Proof.
  intros h self pa ra rs H. unfold rd_open in H.
  repeat match type of H with
         | match ?x with _ => _ end = Some _ => destruct x eqn:?; cbv beta iota zeta in H; try discriminate H
         | (if ?x then _ else _) = Some _ => destruct x eqn:?; cbv beta iota zeta in H; try discriminate H
         end.
  inversion H; subst. clear H.
  match goal with E : str_eqb _ n_Par = true |- _ => apply str_eqb_eq in E; subst end.
  match goal with E : rd_runs _ _ = Some _ |- _ => rename E into HR end.
  match goal with E : rev ?ops = _ :: ?r |- _ =>
    assert (Eo : ops = rev r ++ [VRef pa]) by (rewrite <- (rev_involutive ops), E; reflexivity) end.
  subst.
  destruct (sr_runs_list _ _ _ HR) as (items & Hra & M).
  split; [|exact HR].
  do 6 eexists. repeat split; eauto.
  - intros ->. congruence.
  - intros ->.
    match goal with E : h_get ra h = Some (HList (_ ++ _)) |- _ => rewrite E in Hra; inversion Hra; subst end.
    destruct (mapo_app_inv _ _ _ _ M) as (x & y & _ & M2 & _).
    rewrite mapo_one in M2. unfold rd_run in M2.
    match goal with E : h_get pa h = Some _ |- _ => rewrite E in M2 end.
    change (str_eqb n_Par n_Run) with false in M2. discriminate.
  - intros ->. congruence.
Qed.

Lemma sr_open_mk : forall h self pa ra rs,
  sr_par h self pa ra -> rd_runs h (VRef ra) = Some rs -> rd_open h self = Some (pa, ra, rs).
Proof.
  intros h self pa ra rs (sa & c & fs & op & l & pfs & -> & Hsa & Hf & Hop & Hpa & Hr & _) HR.
  unfold rd_open. rewrite Hsa, Hf, Hop, rev_app_distr. cbn [rev app]. rewrite Hpa.
  change (str_eqb n_Par n_Par) with true. cbv iota. rewrite Hr, HR. reflexivity.
Qed.

Lemma sr_par_frame : forall h h' self pa ra, sr_par h self pa ra -> sr_frame h h' ra -> sr_par h' self pa ra.
Proof.
  intros h h' self pa ra (sa & c & fs & op & l & pfs & -> & Hsa & Hf & Hop & Hpa & Hr & N1 & N2 & N3) [L F].
  exists sa, c, fs, op, l, pfs. repeat split; auto.
Qed.

Lemma sr_par_self : forall h self pa ra, sr_par h self pa ra -> self <> VRef ra.
Proof.
  intros h self pa ra (sa & c & fs & op & l & pfs & -> & _ & _ & _ & _ & _ & N1 & _). congruence.
Qed.

Lemma sr_runs_frame0 : forall h h' ra rs,
  rd_runs h (VRef ra) = Some rs -> sr_frame h h' ra -> h_get ra h' = h_get ra h ->
  rd_runs h' (VRef ra) = Some rs.
Proof.
  intros h h' ra rs HR Fr E.
  destruct (sr_runs_list _ _ _ HR) as (items & Hra & M).
  rewrite <- (app_nil_r rs).
  eapply (sr_runs_frame h h' ra items [] [] rs []); eauto.
  - rewrite app_nil_r, E. exact Hra.
  - intros n [].
  - constructor.
Qed.

Lemma sr_open_frame : forall h h' self pa ra rs,
  rd_open h self = Some (pa, ra, rs) -> sr_frame h h' ra -> h_get ra h' = h_get ra h ->
  rd_open h' self = Some (pa, ra, rs).
Proof.
  intros h h' self pa ra rs H Fr E. destruct (sr_open_inv _ _ _ _ _ H) as [P HR].
  apply sr_open_mk; [eapply sr_par_frame; eauto|]. eapply sr_runs_frame0; eauto.
Qed.

Lemma sr_fmt_frame : forall h h' self ra fmt,
  rd_fmt h self = Some fmt -> sr_frame h h' ra -> self <> VRef ra -> rd_fmt h' self = Some fmt.
Proof.
  intros h h' self ra fmt H [L F] N. destruct self; try discriminate. unfold rd_fmt in *.
  destruct (h_get a h) as [[|c fs]|] eqn:E; try discriminate.
  rewrite (F _ _ E) by congruence. exact H.
Qed.

(* appending a new Run object to a list of runs *)
Lemma sr_push_runs : forall h ra rs items st ss t,
  rd_runs h (VRef ra) = Some rs -> h_get ra h = Some (HList items) ->
  rd_strs h st = Some ss -> st <> VRef ra ->
  let hA := h ++ [HObj n_Run [(n_html_style, st); (n_text, VStr t)]] in
  let hB := h_set ra (HList (items ++ [VRef (length h)])) hA in
  hy_append (VRef ra) (VRef (length h)) hA = HOk tt hB /\
  rd_runs hB (VRef ra) = Some (rs ++ [(ss, t)]) /\ sr_frame h hB ra /\
  h_get ra hB = Some (HList (items ++ [VRef (length h)])).
Proof.
  intros h ra rs items st ss t HR Hra S Nst hA hB.
  assert (Lra : ra < length h) by (eapply h_get_lt; eauto).
  assert (HraA : h_get ra hA = Some (HList items)) by (apply h_get_app_old; exact Hra).
  assert (Fr : sr_frame h hB ra).
  { eapply sr_frame_trans; [apply sr_frame_app|apply sr_frame_set]. }
  assert (HraB : h_get ra hB = Some (HList (items ++ [VRef (length h)]))).
  { unfold hB. apply h_get_set_same. unfold hA. rewrite app_length. simpl. lia. }
  split; [apply hy_append_ref; exact HraA|].
  split; [|split; [exact Fr|exact HraB]].
  eapply (sr_runs_frame h hB ra items [VRef (length h)] [length h]); eauto.
  - intros n [<-|[]]. lia.
  - constructor; [intros []|constructor].
  - rewrite mapo_one. unfold rd_run.
    assert (Hn : h_get (length h) hB = Some (HObj n_Run [(n_html_style, st); (n_text, VStr t)])).
    { unfold hB. rewrite h_get_set_other by lia. apply h_get_app_new. }
    rewrite Hn. change (str_eqb n_Run n_Run) with true. cbv iota.
    change (field_get n_html_style [(n_html_style, st); (n_text, VStr t)]) with (Some st).
    change (field_get n_text [(n_html_style, st); (n_text, VStr t)]) with (Some (VStr t)).
    cbv iota. rewrite (sr_strs_frame _ _ _ _ _ Fr Nst S). reflexivity.
Qed.

Lemma sr_push_run : forall h self pa ra rs items st ss t,
  sr_par h self pa ra -> rd_runs h (VRef ra) = Some rs -> h_get ra h = Some (HList items) ->
  rd_strs h st = Some ss -> st <> VRef ra ->
  let hA := h ++ [HObj n_Run [(n_html_style, st); (n_text, VStr t)]] in
  let hB := h_set ra (HList (items ++ [VRef (length h)])) hA in
  hy_append (VRef ra) (VRef (length h)) hA = HOk tt hB /\
  rd_open hB self = Some (pa, ra, rs ++ [(ss, t)]) /\ sr_frame h hB ra /\
  h_get ra hB = Some (HList (items ++ [VRef (length h)])).
Proof.
  intros h self pa ra rs items st ss t P HR Hra S Nst hA hB.
  destruct (sr_push_runs h ra rs items st ss t HR Hra S Nst) as (A & B & C & D).
  split; [exact A|]. split; [|split; [exact C|exact D]].
  apply sr_open_mk; [eapply sr_par_frame; eauto|exact B].
Qed.

Lemma sr_new_Run_eq : forall st tx h,
  S_H_new_Run st tx h = HOk (VRef (length h)) (h ++ [HObj n_Run [(n_html_style, st); (n_text, tx)]]).
Proof. reflexivity. Qed.

Lemma sr_truth_val : forall v h, (forall a, v <> VRef a) -> hy_truth v h = HOk (py_truth v) h.
Proof. intros v h N. destruct v; try reflexivity. exfalso. apply (N a). reflexivity. Qed.

Lemma sr_get_extends : forall h ex a, a < length h -> h_get a (h ++ ex) = h_get a h.
Proof. intros h ex a L. unfold h_get. apply nth_error_app1. exact L. Qed.

(* the last run of the open runs *)
Lemma sr_last_run : forall h ra rs items r,
  rd_runs h (VRef ra) = Some rs -> h_get ra h = Some (HList (items ++ [VRef r])) ->
  exists rs0 fs st ss t, rs = rs0 ++ [(ss, t)] /\ h_get r h = Some (HObj n_Run fs) /\
    field_get n_html_style fs = Some st /\ field_get n_text fs = Some (VStr t) /\
    rd_strs h st = Some ss /\ st <> VRef ra /\ mapo (rd_run h) items = Some rs0.
Proof.
  intros h ra rs items r HR Hra. destruct (sr_runs_list _ _ _ HR) as (items' & Hra' & M).
  rewrite Hra in Hra'. inversion Hra'; subst items'. clear Hra'.
  destruct (mapo_app_inv _ _ _ _ M) as (rs0 & y & M1 & M2 & ->).
  rewrite mapo_one in M2. destruct (rd_run h (VRef r)) as [[ss t]|] eqn:R; try discriminate.
  inversion M2; subst y. clear M2.
  unfold rd_run in R. destruct (h_get r h) as [[|c fs]|] eqn:Hr; try discriminate.
  destruct (str_eqb c n_Run) eqn:Ec; try discriminate. apply str_eqb_eq in Ec. subst c.
  destruct (field_get n_html_style fs) as [st|] eqn:F1; try discriminate.
  destruct (field_get n_text fs) as [[]|] eqn:F2; try discriminate.
  destruct (rd_strs h st) as [ss'|] eqn:S; try discriminate.
  inversion R; subst.
  exists rs0, fs, st, ss, t. repeat split; auto.
  intros ->. unfold rd_strs in S. rewrite Hra in S.
  rewrite (sr_ostrs_ref _ r) in S; [discriminate|]. apply in_or_app. right. simpl; auto.
Qed.

Lemma sr_strs_set_obj : forall h r c fs c' fs' v,
  h_get r h = Some (HObj c fs) -> rd_strs (h_set r (HObj c' fs') h) v = rd_strs h v.
Proof.
  intros h r c fs c' fs' v Hr. destruct v; try reflexivity. unfold rd_strs.
  destruct (Nat.eq_dec a r) as [->|N].
  - rewrite h_get_set_same by (eapply h_get_lt; eauto). rewrite Hr. reflexivity.
  - rewrite h_get_set_other by auto. reflexivity.
Qed.

Lemma sr_run_set_other : forall h r c fs c' fs' a,
  h_get r h = Some (HObj c fs) -> a <> r ->
  rd_run (h_set r (HObj c' fs') h) (VRef a) = rd_run h (VRef a).
Proof.
  intros h r c fs c' fs' a Hr N. unfold rd_run. rewrite h_get_set_other by auto.
  destruct (h_get a h) as [[|c2 fs2]|]; try reflexivity.
  destruct (str_eqb c2 n_Run); try reflexivity.
  destruct (field_get n_html_style fs2); try reflexivity.
  destruct (field_get n_text fs2) as [[]|]; try reflexivity.
  rewrite (sr_strs_set_obj _ _ _ _ c' fs' _ Hr). reflexivity.
Qed.

Lemma sr_par_set_text : forall h self pa ra r fs v,
  sr_par h self pa ra -> h_get r h = Some (HObj n_Run fs) ->
  sr_par (h_set r (HObj n_Run (field_set n_text v fs)) h) self pa ra.
Proof.
  intros h self pa ra r fs v (sa & c & fs0 & op & l & pfs & -> & Hsa & Hf & Hop & Hpa & Hr & N1 & N2 & N3) Hrr.
  assert (Lr : r < length h) by (eapply h_get_lt; eauto).
  assert (Nop : op <> r) by (intros ->; congruence).
  assert (Npa : pa <> r).
  { intros ->. rewrite Hpa in Hrr. inversion Hrr. }
  destruct (Nat.eq_dec sa r) as [->|Nsa].
  - rewrite Hsa in Hrr. inversion Hrr; subst.
    exists r, n_Run, (field_set n_text v fs), op, l, pfs. repeat split; auto.
    + apply h_get_set_same; auto.
    + rewrite field_get_set_other by reflexivity. exact Hf.
    + rewrite h_get_set_other by auto. exact Hop.
    + rewrite h_get_set_other by auto. exact Hpa.
  - exists sa, c, fs0, op, l, pfs. repeat split; auto.
    + rewrite h_get_set_other by auto. exact Hsa.
    + rewrite h_get_set_other by auto. exact Hop.
    + rewrite h_get_set_other by auto. exact Hpa.
Qed.

(* rewriting the text of the last run *)
Lemma sr_set_text : forall h self pa ra rs0 ss t items r fs t',
  sr_par h self pa ra -> rd_runs h (VRef ra) = Some (rs0 ++ [(ss, t)]) ->
  h_get ra h = Some (HList (items ++ [VRef r])) -> h_get r h = Some (HObj n_Run fs) ->
  rd_open (h_set r (HObj n_Run (field_set n_text (VStr t') fs)) h) self = Some (pa, ra, rs0 ++ [(ss, t')]).
Proof.
  intros h self pa ra rs0 ss t items r fs t' P HR Hra Hr.
  apply sr_open_mk; [apply sr_par_set_text; auto|].
  destruct (sr_last_run _ _ _ _ _ HR Hra) as (rs1 & fs1 & st & ss1 & t1 & E & Hr1 & F1 & F2 & S & Nst & M).
  rewrite Hr in Hr1. inversion Hr1; subst fs1. clear Hr1.
  apply app_inj_tail in E. destruct E as [<- E]. inversion E; subst ss1 t1. clear E.
  assert (Lr : r < length h) by (eapply h_get_lt; eauto).
  assert (Nra : ra <> r) by (intros ->; congruence).
  unfold rd_runs in *. rewrite h_get_set_other by auto. rewrite Hra in *.
  destruct (refs_of (items ++ [VRef r])) as [addrs|] eqn:R; try discriminate.
  destruct (nodupb addrs) eqn:ND; try discriminate.
  rewrite mapo_app, mapo_one.
  assert (M' : mapo (rd_run (h_set r (HObj n_Run (field_set n_text (VStr t') fs)) h)) items = Some rs0).
  { apply (mapo_impl _ _ _ _ M). intros x y I Y.
    destruct (sr_run_some_lt _ _ _ Y) as (a & -> & _).
    rewrite (sr_run_set_other _ _ _ _ _ _ _ Hr); auto.
    intros ->. rewrite sr_refs_app in R. destruct (refs_of items) as [n1|] eqn:R1; try discriminate.
    cbn [refs_of] in R. inversion R; subst addrs.
    apply nodupb_NoDup in ND. apply NoDup_remove_2 in ND. apply ND. rewrite app_nil_r.
    apply (sr_refs_in _ _ r R1). exact I. }
  rewrite M'. unfold rd_run at 1. rewrite h_get_set_same by auto.
  change (str_eqb n_Run n_Run) with true. cbv iota.
  rewrite field_get_set_other by reflexivity. rewrite F1.
  rewrite field_get_set_same. rewrite (sr_strs_set_obj _ _ _ _ _ _ _ Hr), S. reflexivity.
Qed.

Lemma sr_upd_last_snoc : forall {A} (f : A -> A) l x, upd_last f (l ++ [x]) = l ++ [f x].
Proof.
  induction l as [|a r IH]; intros x; [reflexivity|].
  cbn [app]. destruct (r ++ [x]) eqn:E.
  - destruct r; discriminate.
  - rewrite <- E. cbn [upd_last]. rewrite <- IH. rewrite E. reflexivity.
Qed.

Lemma sr_last_style_snoc : forall l s t, last_style (l ++ [(s, t)]) = s.
Proof. intros. unfold last_style. rewrite rev_app_distr. reflexivity. Qed.

Section Runs.
  Variable epf erf : pv -> pv -> hm pv.
  Variable eps : pv -> hm pv.

  (* escape: the model's rendering of text tokens under the html flag *)
  Theorem src_h_escape : forall h self fmt s, rd_fmt h self = Some fmt ->
    S_H_escape self (VStr s) h = HOk (VStr (render (py_truth fmt) (map TTxt s))) h.
  Proof.
    intros h self fmt s H. destruct self as [| | | | | | | |sa]; try discriminate. unfold rd_fmt in H.
    destruct (h_get sa h) as [[|c fs]|] eqn:Hsa; try discriminate.
    destruct (field_get n_x2h fs) as [v|] eqn:F; try discriminate.
    assert (K : v = fmt /\ forall a, v <> VRef a).
    { destruct v; try discriminate; inversion H; split; auto; intros; discriminate. }
    destruct K as [-> NR].
    unfold S_H_escape, hfn_result, hbinde, hbindo, hnx, hrt. fold n_x2h.
    rewrite (hy_getattr_ref _ _ _ _ _ _ Hsa F). cbv beta iota.
    rewrite (sr_truth_val _ _ NR). cbv beta iota.
    destruct (py_truth fmt).
    - cbn [hlift py_replace]. rewrite escape_is_python_replace. reflexivity.
    - rewrite render_plain_txt. reflexivity.
  Qed.

  (* the side-effecting properties, a paragraph being open (any fuel) *)
  Lemma sr_open_par : forall fuel h self pa ra, sr_par h self pa ra ->
    S_H_open_par epf eps fuel self h = HOk (VRef pa) h.
  Proof.
    intros fuel h self pa ra (sa & c & fs & op & l & pfs & -> & Hsa & Hf & Hop & Hpa & Hr & _).
    unfold S_H_open_par, hfn_result, hbinde, hrt. fold f_open_pars.
    rewrite (hy_getattr_ref _ _ _ _ _ _ Hsa Hf). cbv beta iota.
    assert (T : hy_truth (VRef op) h = HOk true h).
    { unfold hy_truth. rewrite Hop. destruct l; reflexivity. }
    rewrite T. cbv beta iota. cbn [negb].
    change (hy_truth (VBool false) h) with (HOk false h). cbv beta iota.
    rewrite (hy_getattr_ref _ _ _ _ _ _ Hsa Hf). cbv beta iota.
    rewrite (hy_index_last _ _ _ _ Hop). reflexivity.
  Qed.

  Lemma sr_open_runs : forall fuel h self pa ra, sr_par h self pa ra ->
    S_H_open_runs epf eps fuel self h = HOk (VRef ra) h.
  Proof.
    intros fuel h self pa ra P. unfold S_H_open_runs, hfn_result, hbinde, hrt.
    rewrite (sr_open_par fuel _ _ _ _ P). cbv beta iota.
    destruct P as (sa & c & fs & op & l & pfs & -> & Hsa & Hf & Hop & Hpa & Hr & _).
    fold n_runs. rewrite (hy_getattr_ref _ _ _ _ _ _ Hpa Hr). reflexivity.
  Qed.

  Lemma sr_open_run : forall fuel h self pa ra rs,
    rd_open h self = Some (pa, ra, rs) ->
    exists h' r items, S_H_open_run epf eps fuel self h = HOk (VRef r) h' /\
      rd_open h' self = Some (pa, ra, ensure_rv rs) /\ sr_frame h h' ra /\
      h_get ra h' = Some (HList (items ++ [VRef r])).
  Proof.
    intros fuel h self pa ra rs H. destruct (sr_open_inv _ _ _ _ _ H) as [P HR].
    destruct (sr_runs_list _ _ _ HR) as (items & Hra & M).
    assert (Lra : ra < length h) by (eapply h_get_lt; eauto).
    unfold S_H_open_run, hfn_result, hbinde, hbindo, hnx, hrt.
    rewrite (sr_open_runs fuel _ _ _ _ P). cbv beta iota.
    destruct items as [|x items' _] using rev_ind.
    - (* no run yet: one is made *)
      cbn [mapo] in M. inversion M; subst rs.
      assert (T : hy_truth (VRef ra) h = HOk false h) by (unfold hy_truth; rewrite Hra; reflexivity).
      rewrite T. cbv beta iota. cbn [negb].
      change (hy_truth (VBool true) h) with (HOk true h). cbv beta iota.
      rewrite (sr_open_runs fuel _ _ _ _ P). cbv beta iota.
      rewrite hy_new_list_eq. cbv beta iota.
      set (h1 := h ++ [HList []]).
      assert (F1 : sr_frame h h1 ra) by apply sr_frame_app.
      assert (P1 : sr_par h1 self pa ra) by exact (sr_par_frame _ _ _ _ _ P F1).
      assert (Hra1 : h_get ra h1 = Some (HList [])) by (apply h_get_app_old; exact Hra).
      assert (HR1 : rd_runs h1 (VRef ra) = Some []).
      { eapply sr_runs_frame0; eauto. rewrite Hra1, Hra; reflexivity. }
      assert (S1 : rd_strs h1 (VRef (length h)) = Some []).
      { unfold rd_strs, h1. rewrite h_get_app_new. reflexivity. }
      assert (N1 : VRef (length h) <> VRef ra).
      { intros E. inversion E. lia. }
      destruct (sr_push_run h1 self pa ra [] [] (VRef (length h)) [] [] P1 HR1 Hra1 S1 N1) as (A & B & C & D).
      rewrite sr_new_Run_eq. cbv beta iota. rewrite A. cbv beta iota.
      destruct (sr_open_inv _ _ _ _ _ B) as [P2 _].
      rewrite (sr_open_runs fuel _ _ _ _ P2). cbv beta iota.
      rewrite (hy_index_last _ _ _ _ D).
      eexists _, _, _. split; [reflexivity|]. split; [exact B|].
      split; [eapply sr_frame_trans; eauto|exact D].
    - (* the last run *)
      assert (T : hy_truth (VRef ra) h = HOk true h).
      { unfold hy_truth. rewrite Hra. destruct items'; reflexivity. }
      rewrite T. cbv beta iota. cbn [negb].
      change (hy_truth (VBool false) h) with (HOk false h). cbv beta iota.
      rewrite (sr_open_runs fuel _ _ _ _ P). cbv beta iota.
      destruct (mapo_app_inv _ _ _ _ M) as (a & b & Ma & Mb & Eab).
      rewrite mapo_one in Mb. destruct (rd_run h x) as [y|] eqn:Rx; try discriminate.
      destruct (sr_run_some_lt _ _ _ Rx) as (r & -> & _).
      rewrite (hy_index_last _ _ _ _ Hra).
      exists h, r, items'. split; [reflexivity|]. split; [|split; [apply sr_frame_refl|exact Hra]].
      inversion Mb; subst. destruct a; exact H.
  Qed.

  (* commence_run after its first statement: the style found is sty *)
  Local Open Scope pyh_scope.
  Definition sr_cr_tail (fuel : nat) (self sty : pv) : hm pv :=
    hfn_result (S:=unit) (
      t8 <~ hy_truth sty ;;;
      t7 <~~ (if t8 then (hnx sty) else (t6 <~ hy_new_list [] ;;; hnx t6)) ;;;
      t9 <~ S_H_open_runs epf eps fuel self ;;;
      t12 <~ hy_truth t7 ;;;
      t11 <~~ (if t12 then (hnx t7) else (t10 <~ hy_new_list [] ;;; hnx t10)) ;;;
      t13 <~ S_H_new_Run t11 (VStr []) ;;;
      t14 <~ hy_append t9 t13 ;;;
      hrt VNone).

  Lemma sr_cr_head_none : forall fuel self h,
    S_H_commence_run epf erf eps fuel self VNone h = sr_cr_tail fuel self VNone h.
  Proof. reflexivity. Qed.

  Lemma sr_cr_head_elem : forall fuel self elem h fmt sty h1,
    elem <> VNone -> rd_fmt h self = Some fmt -> erf elem fmt h = HOk sty h1 ->
    S_H_commence_run epf erf eps fuel self elem h = sr_cr_tail fuel self sty h1.
  Proof.
    intros fuel self elem h fmt sty h1 Ne H He.
    destruct self as [| | | | | | | |sa]; try discriminate. unfold rd_fmt in H.
    destruct (h_get sa h) as [[|c fs]|] eqn:Hsa; try discriminate.
    destruct (field_get n_x2h fs) as [v|] eqn:F; try discriminate.
    assert (K : v = fmt) by (destruct v; try discriminate; inversion H; reflexivity).
    subst v.
    assert (Hn : py_is_none elem = Ok (VBool false)) by (destruct elem; try reflexivity; congruence).
    unfold S_H_commence_run, sr_cr_tail, hfn_result, hbinde, hbindo.
    rewrite Hn. cbv beta iota delta [hlift py_not py_truth negb].
    change (hy_truth (VBool true) h) with (HOk true h). cbv beta iota.
    fold n_x2h. rewrite (hy_getattr_ref _ _ _ _ _ _ Hsa F). cbv beta iota.
    rewrite He. reflexivity.
  Qed.

  Lemma sr_cr_tail_ok : forall fuel h1 self pa ra rs sty ss,
    rd_open h1 self = Some (pa, ra, rs) ->
    (sty = VNone /\ ss = []) \/ rd_strs h1 sty = Some ss ->
    exists h', sr_cr_tail fuel self sty h1 = HOk VNone h' /\
      rd_open h' self = Some (pa, ra, rs ++ [(ss, [])]) /\ sr_frame h1 h' ra.
  Proof.
    intros fuel h1 self pa ra rs sty ss H Hs.
    destruct (sr_open_inv _ _ _ _ _ H) as [P HR].
    destruct (sr_runs_list _ _ _ HR) as (items & Hra & M).
    assert (Lra : ra < length h1) by (eapply h_get_lt; eauto).
    assert (C : (hy_truth sty h1 = HOk false h1 /\ ss = []) \/
                (hy_truth sty h1 = HOk true h1 /\ rd_strs h1 sty = Some ss /\ sty <> VRef ra)).
    { destruct Hs as [[-> ->]|S]; [left; split; reflexivity|].
      destruct sty; try discriminate. pose proof S as S0. unfold rd_strs in S.
      destruct (h_get a h1) as [[l|]|] eqn:Ha; try discriminate.
      destruct l as [|x l].
      - left. cbn [ostrs] in S. inversion S. split; auto. unfold hy_truth. rewrite Ha. reflexivity.
      - right. split; [unfold hy_truth; rewrite Ha; reflexivity|]. split; [exact S0|].
        intros E. inversion E; subst a. rewrite Hra in Ha. inversion Ha; subst items.
        unfold rd_runs in HR. rewrite Hra in HR.
        destruct (refs_of (x :: l)) eqn:R; try discriminate.
        destruct x; cbn [refs_of] in R; try discriminate R.
        cbn [ostrs] in S. discriminate S. }
    unfold sr_cr_tail, hfn_result, hbinde, hbindo, hnx, hrt.
    destruct C as [[T ->]|(T & S & Nst)]; rewrite T; cbv beta iota.
    - rewrite hy_new_list_eq. cbv beta iota. set (h2 := h1 ++ [HList []]).
      assert (F2 : sr_frame h1 h2 ra) by apply sr_frame_app.
      assert (P2 : sr_par h2 self pa ra) by exact (sr_par_frame _ _ _ _ _ P F2).
      rewrite (sr_open_runs fuel _ _ _ _ P2). cbv beta iota.
      assert (T2 : hy_truth (VRef (length h1)) h2 = HOk false h2).
      { unfold hy_truth, h2. rewrite h_get_app_new. reflexivity. }
      rewrite T2. cbv beta iota. rewrite hy_new_list_eq. cbv beta iota. set (h3 := h2 ++ [HList []]).
      assert (F3 : sr_frame h1 h3 ra) by (eapply sr_frame_trans; [exact F2|apply sr_frame_app]).
      assert (P3 : sr_par h3 self pa ra) by exact (sr_par_frame _ _ _ _ _ P F3).
      assert (Hra3 : h_get ra h3 = Some (HList items)) by (apply h_get_app_old, h_get_app_old; exact Hra).
      assert (HR3 : rd_runs h3 (VRef ra) = Some rs).
      { eapply sr_runs_frame0; eauto. rewrite Hra3, Hra. reflexivity. }
      assert (S3 : rd_strs h3 (VRef (length h2)) = Some []).
      { unfold rd_strs, h3. rewrite h_get_app_new. reflexivity. }
      assert (N3 : VRef (length h2) <> VRef ra).
      { intros E. inversion E. unfold h2 in *. rewrite app_length in *. simpl in *. lia. }
      destruct (sr_push_run h3 self pa ra rs items (VRef (length h2)) [] [] P3 HR3 Hra3 S3 N3) as (A & B & C & D).
      rewrite sr_new_Run_eq. cbv beta iota. rewrite A. cbv beta iota.
      eexists. split; [reflexivity|]. split; [exact B|]. eapply sr_frame_trans; eauto.
    - rewrite (sr_open_runs fuel _ _ _ _ P). cbv beta iota. rewrite T. cbv beta iota.
      destruct (sr_push_run h1 self pa ra rs items sty ss [] P HR Hra S Nst) as (A & B & C & D).
      rewrite sr_new_Run_eq. cbv beta iota. rewrite A. cbv beta iota.
      eexists. split; [reflexivity|]. split; [exact B|exact C].
  Qed.

  (* commence_run() / conclude_run(): a new run without style *)
  Theorem src_commence_run_none : forall fuel h self pa ra rs,
    rd_open h self = Some (pa, ra, rs) ->
    exists h', S_H_commence_run epf erf eps fuel self VNone h = HOk VNone h'
               /\ rd_open h' self = Some (pa, ra, rs ++ [([], [])])
               /\ frame_runs h h' ra.
  Proof.
    intros fuel h self pa ra rs H. rewrite sr_cr_head_none.
    destruct (sr_cr_tail_ok fuel h self pa ra rs VNone [] H (or_introl (conj eq_refl eq_refl)))
      as (h' & A & B & C).
    exists h'. split; [exact A|]. split; [exact B|apply sr_frame_runs; exact C].
  Qed.

  Theorem src_conclude_run : forall fuel h self pa ra rs,
    rd_open h self = Some (pa, ra, rs) ->
    exists h', S_H_conclude_run epf erf eps fuel self h = HOk VNone h'
               /\ rd_open h' self = Some (pa, ra, rs ++ [([], [])])
               /\ frame_runs h h' ra.
  Proof.
    intros fuel h self pa ra rs H.
    destruct (src_commence_run_none fuel h self pa ra rs H) as (h' & A & B & C).
    exists h'. split; [|split; assumption].
    unfold S_H_conclude_run, hfn_result, hbinde, hrt. rewrite A. reflexivity.
  Qed.

  (* commence_run(elem): the run's style is what get_run_formatting returns (None or an empty list: no
     style), provided that function only allocates *)
  Theorem src_commence_run_elem : forall fuel h h1 self pa ra rs elem fmt sty ss,
    rd_open h self = Some (pa, ra, rs) -> rd_fmt h self = Some fmt ->
    elem <> VNone ->
    erf elem fmt h = HOk sty h1 -> extends h h1 ->
    (sty = VNone /\ ss = []) \/ rd_strs h1 sty = Some ss ->
    exists h', S_H_commence_run epf erf eps fuel self elem h = HOk VNone h'
               /\ rd_open h' self = Some (pa, ra, rs ++ [(ss, [])])
               /\ frame_runs h h' ra.
  Proof.
    intros fuel h h1 self pa ra rs elem fmt sty ss H Hf Ne He Hx Hs.
    rewrite (sr_cr_head_elem fuel self elem h fmt sty h1 Ne Hf He).
    assert (F1 : sr_frame h h1 ra) by (apply sr_frame_extends; exact Hx).
    assert (H1 : rd_open h1 self = Some (pa, ra, rs)).
    { eapply sr_open_frame; eauto.
      destruct (sr_open_inv _ _ _ _ _ H) as [_ HR].
      destruct (sr_runs_list _ _ _ HR) as (items & Hra & _).
      destruct Hx as [ex ->]. apply sr_get_extends. eapply h_get_lt; eauto. }
    destruct (sr_cr_tail_ok fuel h1 self pa ra rs sty ss H1 Hs) as (h' & A & B & C).
    exists h'. split; [exact A|]. split; [exact B|].
    apply sr_frame_runs. eapply sr_frame_trans; eauto.
  Qed.

  (* add_text_into_open_run(item): the escaped text goes to the end of the last run (made when there is none) *)
  Theorem src_add_text : forall fuel h self pa ra rs fmt item,
    rd_open h self = Some (pa, ra, rs) -> rd_fmt h self = Some fmt ->
    exists h', S_H_add_text_into_open_run epf eps fuel self (VStr item) h = HOk VNone h'
               /\ rd_open h' self
                  = Some (pa, ra, upd_last (fun r : rv => (fst r, snd r ++ render (py_truth fmt) (map TTxt item)))
                                           (ensure_rv rs))
               /\ frame_runs h h' ra.
  Proof.
    intros fuel h self pa ra rs fmt item H Hf.
    destruct (sr_open_run fuel h self pa ra rs H) as (h1 & r & items & A & B & C & D).
    destruct (sr_open_inv _ _ _ _ _ B) as [P1 HR1].
    destruct (sr_last_run _ _ _ _ _ HR1 D) as (rs0 & fs & st & ss & t & E & Hr & F1 & F2 & S & Nst & M).
    assert (Hf1 : rd_fmt h1 self = Some fmt).
    { eapply sr_fmt_frame; eauto. eapply sr_par_self; eauto. }
    unfold S_H_add_text_into_open_run, hfn_result, hbinde, hrt.
    rewrite A. cbv beta iota. fold n_text. rewrite (hy_getattr_ref _ _ _ _ _ _ Hr F2). cbv beta iota.
    rewrite (src_h_escape _ _ _ _ Hf1). cbv beta iota.
    cbn [hlift py_add].
    rewrite (hy_setattr_ref _ _ _ _ _ _ Hr). cbv beta iota.
    eexists. split; [reflexivity|]. split.
    - rewrite E. rewrite sr_upd_last_snoc. cbn [fst snd]. rewrite E in HR1. eapply sr_set_text; eauto.
    - eapply sr_frame_runs_set; eauto.
  Qed.

  (* add_code_into_open_run(item): verbatim *)
  Theorem src_add_code : forall fuel h self pa ra rs item,
    rd_open h self = Some (pa, ra, rs) ->
    exists h', S_H_add_code_into_open_run epf eps fuel self (VStr item) h = HOk VNone h'
               /\ rd_open h' self
                  = Some (pa, ra, upd_last (fun r : rv => (fst r, snd r ++ item)) (ensure_rv rs))
               /\ frame_runs h h' ra.
  Proof.
    intros fuel h self pa ra rs item H.
    destruct (sr_open_run fuel h self pa ra rs H) as (h1 & r & items & A & B & C & D).
    destruct (sr_open_inv _ _ _ _ _ B) as [P1 HR1].
    destruct (sr_last_run _ _ _ _ _ HR1 D) as (rs0 & fs & st & ss & t & E & Hr & F1 & F2 & S & Nst & M).
    unfold S_H_add_code_into_open_run, hfn_result, hbinde, hrt.
    rewrite A. cbv beta iota. fold n_text. rewrite (hy_getattr_ref _ _ _ _ _ _ Hr F2). cbv beta iota.
    cbn [hlift py_add].
    rewrite (hy_setattr_ref _ _ _ _ _ _ Hr). cbv beta iota.
    eexists. split; [reflexivity|]. split.
    - rewrite E. rewrite sr_upd_last_snoc. cbn [fst snd]. rewrite E in HR1. eapply sr_set_text; eauto.
    - eapply sr_frame_runs_set; eauto.
  Qed.

  (* insert_text_as_new_run(item): an unstyled run holding item, then a fresh run in the open style *)
  Theorem src_insert_text_as_new_run : forall fuel h self pa ra rs item,
    rd_open h self = Some (pa, ra, rs) ->
    exists h', S_H_insert_text_as_new_run epf eps fuel self (VStr item) h = HOk VNone h'
               /\ rd_open h' self
                  = Some (pa, ra, ensure_rv rs ++ [([], item); (last_style (ensure_rv rs), [])])
               /\ frame_runs h h' ra.
  Proof.
    intros fuel h self pa ra rs item H.
    destruct (sr_open_run fuel h self pa ra rs H) as (h1 & r & items & A & B & C & D).
    destruct (sr_open_inv _ _ _ _ _ B) as [P1 HR1].
    destruct (sr_last_run _ _ _ _ _ HR1 D) as (rs0 & fs & st & ss & t & E & Hr & F1 & F2 & S & Nst & M).
    assert (Lra : ra < length h1) by (eapply h_get_lt; eauto).
    unfold S_H_insert_text_as_new_run, hfn_result, hbinde, hrt.
    rewrite A. cbv beta iota. fold n_html_style. rewrite (hy_getattr_ref _ _ _ _ _ _ Hr F1). cbv beta iota.
    rewrite (sr_open_runs fuel _ _ _ _ P1). cbv beta iota.
    rewrite hy_new_list_eq. cbv beta iota. set (h2 := h1 ++ [HList []]).
    assert (Fr2 : sr_frame h1 h2 ra) by apply sr_frame_app.
    assert (P2 : sr_par h2 self pa ra) by exact (sr_par_frame _ _ _ _ _ P1 Fr2).
    assert (Hra2 : h_get ra h2 = Some (HList (items ++ [VRef r]))) by (apply h_get_app_old; exact D).
    assert (HR2 : rd_runs h2 (VRef ra) = Some (ensure_rv rs)).
    { eapply sr_runs_frame0; eauto. rewrite Hra2, D. reflexivity. }
    assert (S2 : rd_strs h2 (VRef (length h1)) = Some []).
    { unfold rd_strs, h2. rewrite h_get_app_new. reflexivity. }
    assert (N2 : VRef (length h1) <> VRef ra).
    { intros E'. inversion E'. lia. }
    destruct (sr_push_run h2 self pa ra (ensure_rv rs) (items ++ [VRef r]) (VRef (length h1)) [] item
                          P2 HR2 Hra2 S2 N2) as (A2 & B2 & C2 & D2).
    rewrite sr_new_Run_eq. cbv beta iota. rewrite A2. cbv beta iota.
    destruct (sr_open_inv _ _ _ _ _ B2) as [P3 HR3].
    rewrite (sr_open_runs fuel _ _ _ _ P3). cbv beta iota.
    assert (Fr3 : sr_frame h1 (h_set ra (HList ((items ++ [VRef r]) ++ [VRef (length h2)]))
                                    (h2 ++ [HObj n_Run [(n_html_style, VRef (length h1)); (n_text, VStr item)]])) ra).
    { eapply sr_frame_trans; eauto. }
    pose proof (sr_strs_frame _ _ _ _ _ Fr3 Nst S) as S3.
    destruct (sr_push_run _ self pa ra _ _ st ss [] P3 HR3 D2 S3 Nst) as (A3 & B3 & C3 & D3).
    rewrite sr_new_Run_eq. cbv beta iota. rewrite A3. cbv beta iota.
    eexists. split; [reflexivity|]. split.
    - assert (LS : last_style (ensure_rv rs) = ss) by (rewrite E; apply sr_last_style_snoc).
      rewrite LS, B3, <- app_assoc. reflexivity.
    - apply sr_frame_runs. eapply sr_frame_trans; [exact C|]. eapply sr_frame_trans; [exact Fr3|exact C3].
  Qed.

  (* queue_run_for_next_paragraph(text) *)
  Theorem src_queue_run : forall h self qa qs text,
    rd_queued h self = Some (qa, qs) ->
    exists h', S_H_queue_run_for_next_paragraph self (VStr text) h = HOk VNone h'
               /\ rd_queued h' self = Some (qa, qs ++ [([], text)])
               /\ frame_runs h h' qa.
  Proof.
    intros h self qa qs text H.
    destruct self as [| | | | | | | |sa]; try discriminate. unfold rd_queued in H.
    destruct (h_get sa h) as [[|c fs]|] eqn:Hsa; try discriminate.
    destruct (field_get n_queued fs) as [[| | | | | | | |qa']|] eqn:F; try discriminate.
    destruct (rd_runs h (VRef qa')) as [qs'|] eqn:HR; try discriminate.
    inversion H; subst qa' qs'. clear H.
    destruct (sr_runs_list _ _ _ HR) as (items & Hqa & M).
    assert (Lqa : qa < length h) by (eapply h_get_lt; eauto).
    assert (Nsa : sa <> qa) by (intros ->; congruence).
    unfold S_H_queue_run_for_next_paragraph, hfn_result, hbinde, hrt. fold n_queued.
    rewrite (hy_getattr_ref _ _ _ _ _ _ Hsa F). cbv beta iota.
    rewrite hy_new_list_eq. cbv beta iota. set (h1 := h ++ [HList []]).
    assert (F1 : sr_frame h h1 qa) by apply sr_frame_app.
    assert (Hqa1 : h_get qa h1 = Some (HList items)) by (apply h_get_app_old; exact Hqa).
    assert (HR1 : rd_runs h1 (VRef qa) = Some qs).
    { eapply sr_runs_frame0; eauto. rewrite Hqa1, Hqa. reflexivity. }
    assert (S1 : rd_strs h1 (VRef (length h)) = Some []).
    { unfold rd_strs, h1. rewrite h_get_app_new. reflexivity. }
    assert (N1 : VRef (length h) <> VRef qa).
    { intros E. inversion E. lia. }
    destruct (sr_push_runs h1 qa qs items (VRef (length h)) [] text HR1 Hqa1 S1 N1) as (A & B & C & D).
    rewrite sr_new_Run_eq. cbv beta iota. rewrite A. cbv beta iota.
    assert (Fr : sr_frame h (h_set qa (HList (items ++ [VRef (length h1)]))
                                   (h1 ++ [HObj n_Run [(n_html_style, VRef (length h)); (n_text, VStr text)]])) qa).
    { eapply sr_frame_trans; eauto. }
    eexists. split; [reflexivity|]. split.
    - unfold rd_queued. destruct Fr as [_ Fr]. rewrite (Fr _ _ Hsa Nsa). rewrite F, B. reflexivity.
    - apply sr_frame_runs. exact Fr.
  Qed.
End Runs.

(* ---------- bridge to model/Collector.v: the model's run operations seen through run_view ---------- *)
Definition run_view (b : bool) (r : run) : rv := (r_style r, render b (r_toks r)).

Lemma sr_render_app : forall b a c, render b (a ++ c) = render b a ++ render b c.
Proof. intros. unfold render. rewrite map_app, concat_app. reflexivity. Qed.

Lemma sr_map_upd_last : forall {A B} (g : A -> B) (f : A -> A) (f' : B -> B) l,
  (forall x, g (f x) = f' (g x)) -> map g (upd_last f l) = upd_last f' (map g l).
Proof.
  intros A B g f f' l K. induction l as [|x r IH]; [reflexivity|].
  destruct r as [|y r'].
  - cbn [upd_last map]. rewrite K. reflexivity.
  - change (upd_last f (x :: y :: r')) with (x :: upd_last f (y :: r')).
    change (map g (x :: upd_last f (y :: r'))) with (g x :: map g (upd_last f (y :: r'))).
    rewrite IH. reflexivity.
Qed.

Lemma sr_last_opt_snoc : forall {A} (l : list A) x, last_opt (l ++ [x]) = Some x.
Proof.
  induction l as [|a r IH]; intros x; [reflexivity|].
  cbn [app]. destruct (r ++ [x]) eqn:E.
  - destruct r; discriminate.
  - rewrite <- E. rewrite <- (IH x). rewrite E. reflexivity.
Qed.

Lemma sr_ensure_view : forall b rs, map (run_view b) (ensure_run rs) = ensure_rv (map (run_view b) rs).
Proof. intros b rs. destruct rs; reflexivity. Qed.

Theorem model_commence_run_view : forall b rs style,
  map (run_view b) (rs ++ [{| r_style := style; r_toks := [] |}]) = map (run_view b) rs ++ [(style, [])].
Proof. intros b rs style. rewrite map_app. reflexivity. Qed.

Theorem model_add_toks_view : forall b rs ts,
  map (run_view b)
      (upd_last (fun r => {| r_style := r_style r; r_toks := r_toks r ++ ts |}) (ensure_run rs))
  = upd_last (fun r : rv => (fst r, snd r ++ render b ts)) (ensure_rv (map (run_view b) rs)).
Proof.
  intros b rs ts. rewrite <- sr_ensure_view. apply sr_map_upd_last.
  intros x. unfold run_view. cbn [r_style r_toks fst snd]. rewrite sr_render_app. reflexivity.
Qed.

Theorem model_insert_view : forall b rs ts,
  map (run_view b)
      (let rs' := ensure_run rs in
       let st := match last_opt rs' with Some r => r_style r | None => [] end in
       rs' ++ [{| r_style := []; r_toks := ts |}; {| r_style := st; r_toks := [] |}])
  = ensure_rv (map (run_view b) rs)
    ++ [([], render b ts); (last_style (ensure_rv (map (run_view b) rs)), [])].
Proof.
  intros b rs ts. cbv zeta. rewrite <- sr_ensure_view.
  destruct (exists_last (l := ensure_run rs)) as (l & x & El); [destruct rs; discriminate|].
  rewrite El. rewrite sr_last_opt_snoc. rewrite !map_app. cbn [map].
  change (run_view b x) with (r_style x, render b (r_toks x)).
  rewrite sr_last_style_snoc. reflexivity.
Qed.

Theorem model_queue_view : forall b qs ts,
  map (run_view b) (qs ++ [{| r_style := []; r_toks := ts |}]) = map (run_view b) qs ++ [([], render b ts)].
Proof. intros b qs ts. rewrite map_app. reflexivity. Qed.

Print Assumptions src_h_escape.
Print Assumptions src_commence_run_none.
Print Assumptions src_conclude_run.
Print Assumptions src_commence_run_elem.
Print Assumptions src_add_text.
Print Assumptions src_add_code.
Print Assumptions src_insert_text_as_new_run.
Print Assumptions src_queue_run.
Print Assumptions model_commence_run_view.
Print Assumptions model_add_toks_view.
Print Assumptions model_insert_view.
Print Assumptions model_queue_view.
