(* CommentFacts.v — C12: each comment is returned with its exact anchored text.
   A comment range marker records count_runs = the number of run strings seen
   so far; the anchored text is later cut out of the final list of run strings
   by those numbers.  Here: what count_runs counts, when the list of run
   strings seen so far is a prefix of the later lists, and the bounds of the
   recorded numbers. *)
From Coq Require Import List NArith ZArith Bool Arith Lia.
From D2P Require Import Str Err Xml TableTypes Tables Fmt NumFmt Bullets Merge Collector Walk.
From D2P Require Import Iter Output Paths Package Content.
From D2P Require Import ShapeFacts TokFacts FrameFacts BulletsFacts.
Import ListNotations.
Open Scope N_scope.

(* ================================================================== *)
(* The run strings seen so far                                          *)
(* ================================================================== *)
Definition runs_so_far (v : env) (s : cst) : res (list str) :=
  ps <- pars_at 4%nat (c_tree s) ;;
  a <- mapM (par_run_strings (html_on v)) ps ;;
  b <- mapM (fun p => rs <- par_run_strings (html_on v) p ;;
                      Ok (match p_hstyle p with [] => rs | _ => removelast rs end))
            (rev (c_open s)) ;;
  Ok (concat a ++ concat b).

Lemma count_runs_is_length : forall v s n,
  count_runs v s = Ok n -> exists l, runs_so_far v s = Ok l /\ length l = n.
Proof.
  intros v s n H. unfold count_runs in H.
  bind_inv H as ps Eps. bind_inv H as a Ea. bind_inv H as b Eb. injection H as <-.
  unfold runs_so_far. rewrite Eps. cbn [bind]. rewrite Ea. cbn [bind]. rewrite Eb. cbn [bind].
  eexists. split; [reflexivity|]. apply app_length.
Qed.

Lemma length_is_count_runs : forall v s l,
  runs_so_far v s = Ok l -> count_runs v s = Ok (length l).
Proof.
  intros v s l H. unfold runs_so_far in H.
  bind_inv H as ps Eps. bind_inv H as a Ea. bind_inv H as b Eb. injection H as <-.
  unfold count_runs. rewrite Eps. cbn [bind]. rewrite Ea. cbn [bind]. rewrite Eb. cbn [bind].
  rewrite app_length. reflexivity.
Qed.

(* the strings of an open paragraph: its closing tag is not due yet *)
Definition open_strs (html : bool) (p : par) : res (list str) :=
  rs <- par_run_strings html p ;;
  Ok (match p_hstyle p with [] => rs | _ => removelast rs end).

Definition hdr (p : par) : list (list tok) :=
  match p_hstyle p with [] => [] | hs => [map TOpen hs] end.

Lemma open_strs_spec html p l :
  open_strs html p = Ok l ->
  exists ys, mapM run_toks (p_runs p) = Ok ys
             /\ l = map (render html) (hdr p ++ filter nonempty ys).
Proof.
  unfold open_strs, par_run_strings, par_run_toks, hdr. intro H.
  bind_inv H as rs E. bind_inv E as ts Et. bind_inv Et as ys Ey. cbv zeta in Et.
  exists ys. split; [reflexivity|].
  destruct (p_hstyle p) as [|h hs].
  - injection Et as <-. injection E as <-. injection H as <-. reflexivity.
  - bind_inv Et as cl Ecl. injection Et as <-. injection E as <-. injection H as <-.
    change (map TOpen (h :: hs) :: filter nonempty ys ++ [cl])
      with ((map TOpen (h :: hs) :: filter nonempty ys) ++ [cl]).
    rewrite map_app. change (map (render html) [cl]) with [render html cl].
    rewrite removelast_last.
    destruct (map (render html) (filter nonempty ys) ++ [render html cl]) eqn:E0.
    + destruct (map (render html) (filter nonempty ys)); discriminate E0.
    + reflexivity.
Qed.

(* the strings of a concluded paragraph are those of the open one, plus the
   closing tag when it has an html style *)
Lemma closed_strs_spec html p l :
  par_run_strings html p = Ok l ->
  exists lo z, open_strs html p = Ok lo /\ l = lo ++ z.
Proof.
  intro H. unfold open_strs. rewrite H. cbn [bind].
  destruct (p_hstyle p) as [|h hs] eqn:Eh.
  - exists l, []. rewrite app_nil_r. auto.
  - assert (N : l <> []).
    { unfold par_run_strings, par_run_toks in H. bind_inv H as ts Et. bind_inv Et as ys Ey.
      cbv zeta in Et. rewrite Eh in Et. bind_inv Et as cl Ecl. injection Et as <-.
      injection H as <-. discriminate. }
    exists (removelast l), [last l []]. split; [reflexivity|].
    apply app_removelast_last. exact N.
Qed.

(* with exactly one open paragraph *)
Lemma rsf_one v s p l :
  c_open s = [p] -> runs_so_far v s = Ok l ->
  exists ps a lo, pars_at 4%nat (c_tree s) = Ok ps
    /\ mapM (par_run_strings (html_on v)) ps = Ok a
    /\ open_strs (html_on v) p = Ok lo /\ l = concat a ++ lo.
Proof.
  intros Ho H. unfold runs_so_far in H. rewrite Ho in H. cbn [rev app mapM] in H.
  bind_inv H as ps Eps. bind_inv H as a Ea. bind_inv H as b Eb. injection H as <-.
  bind_inv Eb as lo Elo. cbn [bind] in Eb. injection Eb as <-.
  exists ps, a, lo. cbn [concat]. rewrite app_nil_r. auto.
Qed.

Lemma rsf_none v s l :
  c_open s = [] -> runs_so_far v s = Ok l ->
  exists ps a, pars_at 4%nat (c_tree s) = Ok ps
    /\ mapM (par_run_strings (html_on v)) ps = Ok a /\ l = concat a.
Proof.
  intros Ho H. unfold runs_so_far in H. rewrite Ho in H. cbn [rev mapM] in H.
  bind_inv H as ps Eps. bind_inv H as a Ea. cbn [bind concat] in H. injection H as <-.
  exists ps, a. rewrite app_nil_r. auto.
Qed.

(* ================================================================== *)
(* C1: the primitives that touch the open paragraph                     *)
(* ================================================================== *)
(* every run string of the paragraph is final: the last run is still empty *)
Definition settled_runs (rs : list run) : Prop :=
  match last_opt rs with Some r => r_toks r = [] | None => True end.
Definition settled (p : par) : Prop := settled_runs (p_runs p).

Lemma last_opt_snoc {A} (l : list A) x : last_opt (l ++ [x]) = Some x.
Proof.
  induction l as [|y l IH]; [reflexivity|].
  cbn [app]. destruct (l ++ [x]) eqn:E.
  - destruct l; discriminate E.
  - cbn [last_opt]. cbn [last_opt] in IH. exact IH.
Qed.

Lemma settled_runs_cases rs :
  settled_runs rs -> rs = [] \/ exists rs0 r, rs = rs0 ++ [r] /\ r_toks r = [].
Proof.
  intro H. destruct rs as [|x rs']; [left; reflexivity|right].
  destruct (@exists_last _ (x :: rs')) as (rs0 & r & E); [discriminate|].
  exists rs0, r. split; [exact E|]. unfold settled_runs in H. rewrite E, last_opt_snoc in H.
  exact H.
Qed.

Lemma upd_last_snoc {A} (f : A -> A) l x : upd_last f (l ++ [x]) = l ++ [f x].
Proof.
  induction l as [|y l IH]; [reflexivity|].
  cbn [app]. destruct (l ++ [x]) eqn:E.
  - destruct l; discriminate E.
  - change (upd_last f (y :: a :: l0)) with (y :: upd_last f (a :: l0)). rewrite IH. reflexivity.
Qed.

Lemma run_toks_empty r : r_toks r = [] -> run_toks r = Ok [].
Proof. intro H. unfold run_toks. rewrite H. reflexivity. Qed.

(* the generic step: the open paragraph's runs change from rs to F rs, and
   the visible run token lists only get longer at the end *)
Lemma prefix_upd_runs : forall v F s s' l l' p,
  c_open s = [p] -> upd_open_runs v F s = Ok s' ->
  runs_so_far v s = Ok l -> runs_so_far v s' = Ok l' ->
  (forall ys ys', mapM run_toks (p_runs p) = Ok ys -> mapM run_toks (F (p_runs p)) = Ok ys' ->
                  exists z, filter nonempty ys' = filter nonempty ys ++ z) ->
  exists x, l' = l ++ x.
Proof.
  intros v F s s' l l' p Ho Hu Hl Hl' HF.
  rewrite (upd_open_runs_open _ _ _ _ _ Ho) in Hu. injection Hu as <-.
  destruct (rsf_one v s p l Ho Hl) as (ps & a & lo & Eps & Ea & Elo & ->).
  destruct (rsf_one v (set_open [with_runs p (F (p_runs p))] s) (with_runs p (F (p_runs p))) l'
              eq_refl Hl')
    as (ps' & a' & lo' & Eps' & Ea' & Elo' & ->).
  cbn [c_tree set_open] in Eps'. rewrite Eps in Eps'. injection Eps' as <-.
  rewrite Ea in Ea'. injection Ea' as <-.
  apply open_strs_spec in Elo. destruct Elo as (ys & Ey & ->).
  apply open_strs_spec in Elo'. destruct Elo' as (ys' & Ey' & ->).
  cbn [p_runs with_runs] in Ey'.
  destruct (HF ys ys' Ey Ey') as (z & Ez).
  exists (map (render (html_on v)) z).
  change (hdr (with_runs p (F (p_runs p)))) with (hdr p).
  rewrite Ez, app_assoc, map_app, app_assoc. reflexivity.
Qed.

Lemma ensure_run_toks rs ys ya :
  mapM run_toks rs = Ok ys -> mapM run_toks (ensure_run rs) = Ok ya ->
  filter nonempty ya = filter nonempty ys.
Proof.
  intros H1 H2. destruct rs as [|r rs'].
  - cbn in H1, H2. injection H1 as <-. injection H2 as <-. reflexivity.
  - cbn [ensure_run] in H2. rewrite H1 in H2. injection H2 as <-. reflexivity.
Qed.

(* a new run never disturbs the strings before it: no side condition *)
Lemma prefix_insert_run : forall v ts s s' l l' p,
  c_open s = [p] -> insert_text_as_new_run v ts s = Ok s' ->
  runs_so_far v s = Ok l -> runs_so_far v s' = Ok l' -> exists x, l' = l ++ x.
Proof.
  intros v ts s s' l l' p Ho Hi Hl Hl'. unfold insert_text_as_new_run in Hi.
  apply (prefix_upd_runs v _ s s' l l' p Ho Hi Hl Hl').
  intros ys ys' Ey Ey'. cbv zeta in Ey'.
  apply mapM_app_inv in Ey'. destruct Ey' as (ya & yb & Ea & Eb & ->).
  rewrite filter_app, (ensure_run_toks _ _ _ Ey Ea). eauto.
Qed.

Lemma prefix_commence_run : forall v st s s' l l' p,
  c_open s = [p] -> commence_run v st s = Ok s' ->
  runs_so_far v s = Ok l -> runs_so_far v s' = Ok l' -> exists x, l' = l ++ x.
Proof.
  intros v st s s' l l' p Ho Hi Hl Hl'. unfold commence_run in Hi.
  apply (prefix_upd_runs v _ s s' l l' p Ho Hi Hl Hl').
  intros ys ys' Ey Ey'.
  apply mapM_app_inv in Ey'. destruct Ey' as (ya & yb & Ea & Eb & ->).
  rewrite Ey in Ea. injection Ea as <-. rewrite filter_app. eauto.
Qed.

(* text goes into the last run: the strings before it are undisturbed when
   that run was empty (hence invisible) so far *)
Lemma add_toks_settled_shape : forall v ts s p rest,
  c_open s = p :: rest -> settled p ->
  exists rs0 st,
    (p_runs p = [] /\ rs0 = [] \/ exists r, p_runs p = rs0 ++ [r] /\ r_toks r = [] /\ r_style r = st)
    /\ add_toks v ts s
       = Ok (set_open (with_runs p (rs0 ++ [{| r_style := st; r_toks := ts |}]) :: rest) s).
Proof.
  intros v ts s p rest Ho Hs. unfold add_toks. rewrite (upd_open_runs_open _ _ _ _ _ Ho).
  destruct (settled_runs_cases _ Hs) as [E|(rs0 & r & E & Er)].
  - exists [], []. split; [left; auto|]. rewrite E. reflexivity.
  - exists rs0, (r_style r). split; [right; exists r; auto|]. rewrite E.
    assert (En : ensure_run (rs0 ++ [r]) = rs0 ++ [r]) by (destruct rs0; reflexivity).
    rewrite En, upd_last_snoc, Er. reflexivity.
Qed.

Lemma prefix_add_toks : forall v ts s s' l l' p,
  c_open s = [p] -> settled p -> add_toks v ts s = Ok s' ->
  runs_so_far v s = Ok l -> runs_so_far v s' = Ok l' -> exists x, l' = l ++ x.
Proof.
  intros v ts s s' l l' p Ho Hs Hi Hl Hl'. unfold add_toks in Hi.
  apply (prefix_upd_runs v _ s s' l l' p Ho Hi Hl Hl').
  intros ys ys' Ey Ey'.
  destruct (settled_runs_cases _ Hs) as [E|(rs0 & r & E & Er)].
  - rewrite E in Ey. cbn in Ey. injection Ey as <-. cbn [filter app]. eauto.
  - rewrite E in Ey, Ey'.
    assert (En : ensure_run (rs0 ++ [r]) = rs0 ++ [r]) by (destruct rs0; reflexivity).
    rewrite En, upd_last_snoc in Ey'.
    apply mapM_app_inv in Ey. destruct Ey as (ya & yb & Ea & Eb & ->).
    apply mapM_app_inv in Ey'. destruct Ey' as (ya' & yb' & Ea' & Eb' & ->).
    rewrite Ea in Ea'. injection Ea' as <-.
    cbn [mapM] in Eb. rewrite (run_toks_empty _ Er) in Eb. cbn [bind] in Eb. injection Eb as <-.
    rewrite !filter_app. cbn [filter nonempty]. rewrite app_nil_r. eauto.
Qed.

Lemma prefix_add_text : forall v txt s s' l l' p,
  c_open s = [p] -> settled p -> add_text_into_open_run v txt s = Ok s' ->
  runs_so_far v s = Ok l -> runs_so_far v s' = Ok l' -> exists x, l' = l ++ x.
Proof. intros v txt. apply prefix_add_toks. Qed.

Lemma prefix_add_code : forall v ts s s' l l' p,
  c_open s = [p] -> settled p -> add_code_into_open_run v ts s = Ok s' ->
  runs_so_far v s = Ok l -> runs_so_far v s' = Ok l' -> exists x, l' = l ++ x.
Proof. intros v ts. apply prefix_add_toks. Qed.

(* which primitives leave the paragraph settled *)
Lemma settled_after_insert : forall v ts s s' p rest,
  c_open s = p :: rest -> insert_text_as_new_run v ts s = Ok s' ->
  exists p', c_open s' = p' :: rest /\ settled p'.
Proof.
  intros v ts s s' p rest Ho H. unfold insert_text_as_new_run in H.
  rewrite (upd_open_runs_open _ _ _ _ _ Ho) in H. injection H as <-.
  eexists. split; [reflexivity|]. unfold settled, settled_runs. cbn [p_runs with_runs].
  cbv zeta.
  change (ensure_run (p_runs p) ++ [?a; ?b]) with (ensure_run (p_runs p) ++ [a] ++ [b]).
  rewrite app_assoc, last_opt_snoc. reflexivity.
Qed.

Lemma settled_after_commence_run : forall v st s s' p rest,
  c_open s = p :: rest -> commence_run v st s = Ok s' ->
  exists p', c_open s' = p' :: rest /\ settled p'.
Proof.
  intros v st s s' p rest Ho H. unfold commence_run in H.
  rewrite (upd_open_runs_open _ _ _ _ _ Ho) in H. injection H as <-.
  eexists. split; [reflexivity|]. unfold settled, settled_runs. cbn [p_runs with_runs].
  rewrite last_opt_snoc. reflexivity.
Qed.

(* the side condition is needed: text added to a run that is already visible
   changes a string that was counted before *)
Lemma add_toks_unsettled_not_prefix : forall v,
  exists s s' p l l',
    c_open s = [p] /\ add_toks v [TRaw 98] s = Ok s'
    /\ runs_so_far v s = Ok l /\ runs_so_far v s' = Ok l' /\ ~ exists x, l' = l ++ x.
Proof.
  intro v.
  set (p := with_runs blank_par [{| r_style := []; r_toks := [TRaw 97] |}]).
  exists (set_open [p] init_cst), (set_open [with_runs p [{| r_style := []; r_toks := [TRaw 97; TRaw 98] |}]] init_cst),
         p, [[97]], [[97; 98]].
  split; [reflexivity|]. split; [reflexivity|]. split; [reflexivity|]. split; [reflexivity|].
  intros (x & Hx). discriminate Hx.
Qed.

(* ================================================================== *)
(* C2: concluding the open paragraph                                    *)
(* ================================================================== *)
Lemma conclude_one s s' p :
  c_open s = [p] -> conclude_paragraph s = Ok s' ->
  c_open s' = [] /\ c_ranges s' = c_ranges s /\ c_queued s' = c_queued s
  /\ c_counters s' = c_counters s
  /\ forall ps, pars_at 4%nat (c_tree s) = Ok ps -> pars_at 4%nat (c_tree s') = Ok (ps ++ [p]).
Proof.
  intros Ho H. unfold conclude_paragraph in H. rewrite Ho in H.
  bind_inv H as s1 E1. bind_inv H as t Et. injection H as <-.
  apply set_caret_frame in E1. destruct E1 as ((O1 & Q1 & R1 & C1) & K1 & _).
  cbn [c_open c_ranges c_queued c_counters c_tree set_tree set_open] in *.
  repeat split; auto.
  intros ps Hps. apply (spine_app_NP_pars 3%nat _ _ _ _ Et). apply K1. exact Hps.
Qed.

Lemma conclude_prefix : forall v s s' l l' p,
  c_open s = [p] -> Inv s -> conclude_paragraph s = Ok s' ->
  runs_so_far v s = Ok l -> runs_so_far v s' = Ok l' -> exists x, l' = l ++ x.
Proof.
  intros v s s' l l' p Ho _ Hc Hl Hl'.
  destruct (conclude_one s s' p Ho Hc) as (O' & _ & _ & _ & K).
  destruct (rsf_one v s p l Ho Hl) as (ps & a & lo & Eps & Ea & Elo & ->).
  destruct (rsf_none v s' l' O' Hl') as (ps' & a' & Eps' & Ea' & ->).
  rewrite (K ps Eps) in Eps'. injection Eps' as <-.
  apply mapM_app_inv in Ea'. destruct Ea' as (y1 & y2 & E1 & E2 & ->).
  rewrite Ea in E1. injection E1 as <-.
  cbn [mapM] in E2. bind_inv E2 as lp Elp. cbn [bind] in E2. injection E2 as <-.
  destruct (closed_strs_spec _ _ _ Elp) as (lo' & z & Elo' & ->).
  rewrite Elo in Elo'. injection Elo' as <-.
  exists z. rewrite concat_app. cbn [concat]. rewrite app_nil_r, app_assoc. reflexivity.
Qed.

(* ================================================================== *)
(* C3: a paragraph with comment range markers                           *)
(* ================================================================== *)
(* the number of visible runs, without rendering anything *)
Definition nvis (rs : list run) : nat := length (filter (fun r => nonempty (r_toks r)) rs).
Definition open_count (p : par) : nat :=
  ((match p_hstyle p with [] => 0 | _ => 1 end) + nvis (p_runs p))%nat.

Lemma nvis_app a b : nvis (a ++ b) = (nvis a + nvis b)%nat.
Proof. unfold nvis. rewrite filter_app, app_length. reflexivity. Qed.

Lemma nvis_ensure rs : nvis (ensure_run rs) = nvis rs.
Proof. destruct rs; reflexivity. Qed.

Lemma nvis_upd_last ts : forall rs,
  (nvis rs <= nvis (upd_last (fun r => {| r_style := r_style r; r_toks := r_toks r ++ ts |}) rs))%nat.
Proof.
  induction rs as [|x r IH]; [apply Nat.le_refl|].
  destruct r as [|y r'].
  - cbn [upd_last]. unfold nvis. cbn [filter r_toks].
    destruct (r_toks x) as [|t l]; cbn [app nonempty length]; [apply Nat.le_0_l|apply Nat.le_refl].
  - change (upd_last ?f (x :: y :: r')) with (x :: upd_last f (y :: r')).
    change (x :: ?l) with ([x] ++ l). rewrite !nvis_app. lia.
Qed.

Lemma run_toks_nonempty r ts : run_toks r = Ok ts -> nonempty ts = nonempty (r_toks r).
Proof.
  unfold run_toks. destruct (r_toks r) as [|t l] eqn:E; intro H.
  - injection H as <-. reflexivity.
  - bind_inv H as cl Ecl. injection H as <-. destruct (map TOpen (r_style r)); reflexivity.
Qed.

Lemma mapM_run_toks_nvis : forall rs ys,
  mapM run_toks rs = Ok ys -> length (filter nonempty ys) = nvis rs.
Proof.
  induction rs as [|r rs IH]; intros ys H.
  - cbn in H. injection H as <-. reflexivity.
  - cbn [mapM] in H. bind_inv H as y Ey. bind_inv H as ys' Eys. injection H as <-.
    unfold nvis. cbn [filter]. rewrite (run_toks_nonempty _ _ Ey).
    destruct (nonempty (r_toks r)); cbn [length]; rewrite (IH _ eq_refl); reflexivity.
Qed.

Lemma open_strs_length html p l : open_strs html p = Ok l -> length l = open_count p.
Proof.
  intro H. apply open_strs_spec in H. destruct H as (ys & Ey & ->).
  rewrite map_length, app_length, (mapM_run_toks_nvis _ _ Ey). unfold open_count, hdr.
  destruct (p_hstyle p); reflexivity.
Qed.

Lemma closed_strs_length html p l :
  par_run_strings html p = Ok l -> (open_count p <= length l)%nat.
Proof.
  intro H. destruct (closed_strs_spec _ _ _ H) as (lo & z & Elo & ->).
  rewrite app_length, (open_strs_length _ _ _ Elo). lia.
Qed.

(* ---- the frame property of inline subtrees, with a relation between the
   runs of the open paragraph before and after ---- *)
(* take a handler apart, one state-independent test at a time *)
Ltac mstep H :=
  match type of H with
  | Ok _ = Ok _ => fail 1
  | Err _ = Ok _ => discriminate H
  | bind ?c _ = Ok _ =>
      let E := fresh "E" in destruct c eqn:E; [cbn [bind] in H|discriminate H]
  | (if ?c then _ else _) = Ok _ => destruct c
  | match ?c with _ => _ end = Ok _ => destruct c
  end.

Section Frame.
  Variable R : list run -> list run -> Prop.
  Hypothesis R_refl : forall rs, R rs rs.
  Hypothesis R_trans : forall a b c, R a b -> R b c -> R a c.
  Hypothesis R_app : forall rs x, R rs (rs ++ x).
  Hypothesis R_ensure : forall rs, R rs (ensure_run rs).
  Hypothesis R_upd : forall ts rs, rs <> [] ->
    R rs (upd_last (fun r => {| r_style := r_style r; r_toks := r_toks r ++ ts |}) rs).

  Definition mono (f : cst -> res cst) : Prop :=
    forall s p rest s', c_open s = p :: rest -> f s = Ok s' ->
      exists rs', s' = set_open (with_runs p rs' :: rest) s /\ R (p_runs p) rs'.

  Definition mono_b (f : cst -> res (cst * bool)) : Prop :=
    forall s p rest s' b, c_open s = p :: rest -> f s = Ok (s', b) ->
      exists rs', s' = set_open (with_runs p rs' :: rest) s /\ R (p_runs p) rs'.

  Lemma mono_id_at s p rest :
    c_open s = p :: rest ->
    exists rs', s = set_open (with_runs p rs' :: rest) s /\ R (p_runs p) rs'.
  Proof.
    intro Ho. exists (p_runs p). rewrite with_runs_id, (set_open_id s _ Ho).
    split; [reflexivity|apply R_refl].
  Qed.

  Lemma mono_ret : mono (fun s => Ok s).
  Proof. intros s p rest s' Ho H. injection H as <-. apply mono_id_at, Ho. Qed.

  Lemma mono_bind f g : mono f -> mono g -> mono (fun s => s1 <- f s ;; g s1).
  Proof.
    intros Hf Hg s p rest s' Ho H. cbv beta in H. bind_inv H as s1 E1.
    destruct (Hf s p rest s1 Ho E1) as (rs1 & -> & L1).
    destruct (Hg (set_open (with_runs p rs1 :: rest) s) (with_runs p rs1) rest s' eq_refl H)
      as (rs2 & -> & L2).
    exists rs2. split; [reflexivity|]. cbn [p_runs with_runs] in L2. exact (R_trans _ _ _ L1 L2).
  Qed.

  Lemma mono_upd v F : (forall rs, R rs (F rs)) -> mono (upd_open_runs v F).
  Proof.
    intros HF s p rest s' Ho H. rewrite (upd_open_runs_open _ _ _ _ _ Ho) in H. injection H as <-.
    exists (F (p_runs p)). split; [reflexivity|apply HF].
  Qed.

  Lemma mono_insert v ts : mono (insert_text_as_new_run v ts).
  Proof.
    apply mono_upd. intro rs. cbv zeta. exact (R_trans _ _ _ (R_ensure rs) (R_app _ _)).
  Qed.
  Lemma mono_commence_run v st : mono (commence_run v st).
  Proof. apply mono_upd. intro rs. apply R_app. Qed.
  Lemma mono_add_toks v ts : mono (add_toks v ts).
  Proof.
    apply mono_upd. intro rs.
    exact (R_trans _ _ _ (R_ensure rs) (R_upd ts _ (ensure_run_nonnil rs))).
  Qed.
  Lemma mono_add_text v txt : mono (add_text_into_open_run v txt).
  Proof. apply mono_add_toks. Qed.
  Lemma mono_add_code v ts : mono (add_code_into_open_run v ts).
  Proof. apply mono_add_toks. Qed.

  Ltac mdone H Ho :=
    injection H as <- <-;
    first [ apply mono_id_at; exact Ho
          | eapply mono_insert; [exact Ho|eassumption]
          | eapply mono_add_code; [exact Ho|eassumption]
          | eapply mono_add_text; [exact Ho|eassumption]
          | eapply mono_commence_run; [exact Ho|eassumption] ].

  Lemma open_tag_mono v path t e ks body :
    inline_tag (e_ptag e) -> mono_b (open_tag v path t e ks body).
  Proof.
    intros (Hp & _ & Hfn & Hen & Hcs & Hce) s p rest s' b Ho H.
    unfold open_tag, note_ref, image_ref in H. cbv zeta in H.
    rewrite Hp, Hfn, Hen, Hcs, Hce in H.
    repeat mstep H; mdone H Ho.
  Qed.

  Lemma close_tag_mono v e ks : inline_tag (e_ptag e) -> mono (close_tag v e ks).
  Proof.
    intros (Hp & Htc & _). unfold close_tag. cbv zeta. rewrite Hp, Htc.
    destruct (str_eqb (e_ptag e) tag_RUN); [apply mono_commence_run|apply mono_ret].
  Qed.

  Lemma kids_loop_mono v path : forall ks,
    Forall (fun k => forall path', mono (walk v path' k)) ks ->
    forall i, mono (kids_loop v path ks i).
  Proof.
    induction 1 as [|k r Hk Hr IH]; intro i; cbn [kids_loop].
    - exact mono_ret.
    - apply (mono_bind (walk v (i :: path) k) (kids_loop v path r (S i))); [apply Hk|apply IH].
  Qed.

  (* an inline element, up to its close handler *)
  Lemma walk_inline_split v e ks path s p rest s' :
    Forall (fun k => forall path', mono (walk v path' k)) ks ->
    plain_inline (AE e ks) = true -> c_open s = p :: rest -> walk v path (AE e ks) s = Ok s' ->
    exists rs3, R (p_runs p) rs3
                /\ close_tag v e ks (set_open (with_runs p rs3 :: rest) s) = Ok s'.
  Proof.
    intros HF Hpl Ho H.
    pose proof (plain_inline_no_depth _ Hpl) as Hd.
    apply plain_inline_AE in Hpl. destruct Hpl as [Htag Hks].
    rewrite walk_AE in H. cbv zeta in H. rewrite Hd in H.
    cbn [set_caret bind] in H. bind_inv H as body Eb. bind_inv H as s2r Eo.
    destruct s2r as [s2 rec].
    destruct (open_tag_mono v path (AE e ks) e ks body Htag s p rest s2 rec Ho Eo)
      as (rs1 & -> & L1).
    bind_inv H as s3 Ek. bind_inv H as s4 Ec. injection H as <-.
    destruct rec.
    - destruct (kids_loop_mono v path ks HF O (set_open (with_runs p rs1 :: rest) s)
                  (with_runs p rs1) rest s3 eq_refl Ek)
        as (rs3 & -> & L3). exists rs3. split; [exact (R_trans _ _ _ L1 L3)|exact Ec].
    - injection Ek as <-. exists rs1. split; [exact L1|exact Ec].
  Qed.

  Lemma plain_kids_mono v ks :
    Forall (fun t => plain_inline t = true -> forall path, mono (walk v path t)) ks ->
    forallb plain_inline ks = true ->
    Forall (fun k => forall path', mono (walk v path' k)) ks.
  Proof.
    intros IH Hks. induction IH as [|k r Hk Hr IHr]; [constructor|].
    cbn [forallb] in Hks. apply andb_true_iff in Hks. destruct Hks as [K1 K2].
    constructor; auto.
  Qed.

  Lemma walk_mono v : forall t, plain_inline t = true -> forall path, mono (walk v path t).
  Proof.
    apply (ShapeFacts.anode_ind' (fun t => plain_inline t = true -> forall path, mono (walk v path t))).
    - intros tl _ path. exact mono_ret.
    - intros e ks IH Hpl path s p rest s' Ho H.
      pose proof (plain_inline_AE _ _ Hpl) as [Htag Hks].
      destruct (walk_inline_split v e ks path s p rest s' (plain_kids_mono v ks IH Hks) Hpl Ho H)
        as (rs3 & L3 & Ec).
      destruct (close_tag_mono v e ks Htag (set_open (with_runs p rs3 :: rest) s)
                  (with_runs p rs3) rest s' eq_refl Ec)
        as (rs4 & -> & L4).
      exists rs4. split; [reflexivity|]. cbn [p_runs with_runs] in L4. exact (R_trans _ _ _ L3 L4).
  Qed.

  Lemma walk_inline_split' v e ks path s p rest s' :
    plain_inline (AE e ks) = true -> c_open s = p :: rest -> walk v path (AE e ks) s = Ok s' ->
    exists rs3, R (p_runs p) rs3
                /\ close_tag v e ks (set_open (with_runs p rs3 :: rest) s) = Ok s'.
  Proof.
    intros Hpl Ho H. apply (walk_inline_split v e ks path s p rest s'); try assumption.
    apply plain_inline_AE in Hpl. destruct Hpl as [_ Hks].
    clear - Hks R_refl R_trans R_app R_ensure R_upd. induction ks as [|k r IH]; [constructor|].
    cbn [forallb] in Hks. apply andb_true_iff in Hks. destruct Hks as [K1 K2].
    constructor; [intro path'; apply walk_mono; exact K1|auto].
  Qed.
End Frame.

(* first instance: the number of visible runs never decreases *)
Definition Rn (rs rs' : list run) : Prop := (nvis rs <= nvis rs')%nat.

Lemma walk_count_mono v t path :
  plain_inline t = true -> mono Rn (walk v path t).
Proof.
  intro H. refine (walk_mono Rn _ _ _ _ _ v t H path); unfold Rn.
  - intro rs. lia.
  - intros a b c. lia.
  - intros rs x. rewrite nvis_app. lia.
  - intro rs. rewrite nvis_ensure. lia.
  - intros ts rs _. apply nvis_upd_last.
Qed.

(* ---- the markers ---- *)
Lemma ranges_get_set : forall (k k' : str) (x : nat * nat) d,
  dict_get k (ranges_set k' x d) = if str_eqb k k' then Some x else dict_get k d.
Proof.
  intros k k' x d. induction d as [|[k0 v0] r IH]; cbn [ranges_set dict_get].
  - reflexivity.
  - destruct (str_eqb k' k0) eqn:E; cbn [dict_get].
    + apply str_eqb_eq in E. subst k0. destruct (str_eqb k k'); reflexivity.
    + rewrite IH. destruct (str_eqb k k0) eqn:E0, (str_eqb k k') eqn:E1; try reflexivity.
      apply str_eqb_eq in E0. apply str_eqb_eq in E1. subst.
      rewrite BulletsFacts.str_eqb_refl in E. discriminate.
Qed.

Lemma marker_no_depth e : str_eqb (e_ptag e) tag_PARAGRAPH = false -> elem_depth (AE e []) = None.
Proof.
  intro H. unfold elem_depth. rewrite min_par_depth_AE, H. cbn [mpd_list option_map].
  destruct (mem_str (e_ptag e) depth_none_tags); reflexivity.
Qed.

Lemma walk_marker_start v path e s :
  e_ptag e = tag_COMMENT_RANGE_START ->
  walk v path (AE e []) s = (id <- attr_w_req e s_id ;; start_comment_range v id s).
Proof.
  intro Ht. rewrite walk_AE. cbv zeta. rewrite marker_no_depth by (rewrite Ht; reflexivity).
  cbn [set_caret bind]. unfold open_tag, close_tag. cbv zeta. rewrite Ht.
  change (str_eqb tag_COMMENT_RANGE_START tag_HYPERLINK) with false.
  change (str_eqb tag_COMMENT_RANGE_START tag_PARAGRAPH) with false.
  change (str_eqb tag_COMMENT_RANGE_START tag_RUN) with false.
  change (str_eqb tag_COMMENT_RANGE_START tag_COMMENT_RANGE_END) with false.
  change (str_eqb tag_COMMENT_RANGE_START tag_COMMENT_RANGE_START) with true.
  change (str_eqb tag_COMMENT_RANGE_START tag_TABLE_CELL) with false.
  cbv iota. cbn [bind].
  destruct (attr_w_req e s_id) as [id|x]; [|reflexivity]. cbn [bind].
  destruct (start_comment_range v id s) as [s1|x]; reflexivity.
Qed.

Lemma walk_marker_end v path e s :
  e_ptag e = tag_COMMENT_RANGE_END ->
  walk v path (AE e []) s = (id <- attr_w_req e s_id ;; end_comment_range v id s).
Proof.
  intro Ht. rewrite walk_AE. cbv zeta. rewrite marker_no_depth by (rewrite Ht; reflexivity).
  cbn [set_caret bind]. unfold open_tag, close_tag. cbv zeta. rewrite Ht.
  change (str_eqb tag_COMMENT_RANGE_END tag_HYPERLINK) with false.
  change (str_eqb tag_COMMENT_RANGE_END tag_PARAGRAPH) with false.
  change (str_eqb tag_COMMENT_RANGE_END tag_RUN) with false.
  change (str_eqb tag_COMMENT_RANGE_END tag_COMMENT_RANGE_END) with true.
  change (str_eqb tag_COMMENT_RANGE_END tag_TABLE_CELL) with false.
  cbv iota. cbn [bind].
  destruct (attr_w_req e s_id) as [id|x]; [|reflexivity]. cbn [bind].
  destruct (end_comment_range v id s) as [s1|x]; reflexivity.
Qed.

Definition marker_or_inline (t : anode) : bool :=
  plain_inline t
  || match t with
     | AE e [] => str_eqb (e_ptag e) tag_COMMENT_RANGE_START
                  || str_eqb (e_ptag e) tag_COMMENT_RANGE_END
     | _ => false
     end.

Section OnePar.
  Variable v : env.
  Variable ps : list par.              (* the concluded paragraphs *)
  Variable a : list (list str).        (* their run strings *)
  Hypothesis Ha : mapM (par_run_strings (html_on v)) ps = Ok a.
  Variable R0 : list (str * (nat * nat)).   (* the ranges recorded before this paragraph *)

  Let n0 := length (concat a).

  (* inside the paragraph: one open paragraph q, and every range recorded
     since the start lies between n0 and the present count *)
  Definition J (st : cst) : Prop :=
    exists q, c_open st = [q] /\ c_queued st = [] /\ pars_at 4%nat (c_tree st) = Ok ps
      /\ forall id b en, dict_get id (c_ranges st) = Some (b, en) -> dict_get id R0 = None ->
           (n0 <= b /\ b <= en /\ en <= n0 + open_count q)%nat.

  Lemma count_in_par st q n :
    c_open st = [q] -> pars_at 4%nat (c_tree st) = Ok ps ->
    count_runs v st = Ok n -> n = (n0 + open_count q)%nat.
  Proof.
    intros Ho Hp H. destruct (count_runs_is_length v st n H) as (l & Hl & <-).
    destruct (rsf_one v st q l Ho Hl) as (ps' & a' & lo & Eps & Ea & Elo & ->).
    rewrite Hp in Eps. injection Eps as <-. rewrite Ha in Ea. injection Ea as <-.
    rewrite app_length, (open_strs_length _ _ _ Elo). reflexivity.
  Qed.

  Lemma J_inline t path st st' :
    plain_inline t = true -> J st -> walk v path t st = Ok st' -> J st'.
  Proof.
    intros Hpl (q & Ho & Hq & Hp & Hr) Hw.
    destruct (walk_count_mono v t path Hpl st q [] st' Ho Hw) as (rs' & -> & L). unfold Rn in L.
    exists (with_runs q rs'). split; [reflexivity|]. split; [exact Hq|]. split; [exact Hp|].
    intros id b en Hg Hn. cbn [c_ranges set_open] in Hg.
    destruct (Hr id b en Hg Hn) as (A & B & C). unfold open_count in *.
    cbn [p_hstyle p_runs with_runs]. lia.
  Qed.

  Lemma J_start id st st' : J st -> start_comment_range v id st = Ok st' -> J st'.
  Proof.
    intros (q & Ho & Hq & Hp & Hr) H. unfold start_comment_range in H.
    bind_inv H as n En. injection H as <-.
    pose proof (count_in_par st q n Ho Hp En) as ->.
    exists q. split; [exact Ho|]. split; [exact Hq|]. split; [exact Hp|].
    intros id' b en Hg Hn. cbn [c_ranges set_ranges] in Hg. rewrite ranges_get_set in Hg.
    destruct (str_eqb id' id).
    - injection Hg as <- <-. lia.
    - apply (Hr id' b en Hg Hn).
  Qed.

  Lemma J_end id st st' : J st -> end_comment_range v id st = Ok st' -> J st'.
  Proof.
    intros (q & Ho & Hq & Hp & Hr) H. unfold end_comment_range in H.
    destruct (dict_get id (c_ranges st)) as [[b0 e0]|] eqn:Eg.
    2:{ injection H as <-. exists q. auto. }
    bind_inv H as n En. injection H as <-.
    pose proof (count_in_par st q n Ho Hp En) as ->.
    exists q. split; [exact Ho|]. split; [exact Hq|]. split; [exact Hp|].
    intros id' b en Hg Hn. cbn [c_ranges set_ranges] in Hg. rewrite ranges_get_set in Hg.
    destruct (str_eqb id' id) eqn:Ei.
    - apply str_eqb_eq in Ei. subst id'. injection Hg as <- <-.
      destruct (Hr id b0 e0 Eg Hn) as (A & B & C). lia.
    - apply (Hr id' b en Hg Hn).
  Qed.

  Lemma J_child t path st st' :
    marker_or_inline t = true -> J st -> walk v path t st = Ok st' -> J st'.
  Proof.
    intros Hm HJ Hw. unfold marker_or_inline in Hm. apply orb_true_iff in Hm.
    destruct Hm as [Hpl|Hm]; [exact (J_inline t path st st' Hpl HJ Hw)|].
    destruct t as [e [|k ks]|tl]; try discriminate Hm.
    apply orb_true_iff in Hm. destruct Hm as [Hm|Hm]; apply str_eqb_eq in Hm.
    - rewrite (walk_marker_start v path e st Hm) in Hw. bind_inv Hw as id Eid.
      exact (J_start id st st' HJ Hw).
    - rewrite (walk_marker_end v path e st Hm) in Hw. bind_inv Hw as id Eid.
      exact (J_end id st st' HJ Hw).
  Qed.

  Lemma J_kids path : forall ks i st st',
    forallb marker_or_inline ks = true -> J st -> kids_loop v path ks i st = Ok st' -> J st'.
  Proof.
    induction ks as [|k r IH]; intros i st st' Hks HJ H; cbn [kids_loop] in H.
    - injection H as <-. exact HJ.
    - cbn [forallb] in Hks. apply andb_true_iff in Hks. destruct Hks as [K1 K2].
      bind_inv H as st1 E1. apply (IH (S i) st1 st' K2); [|exact H].
      exact (J_child k (i :: path) st st1 K1 HJ E1).
  Qed.
End OnePar.

(* the walk of a paragraph element from a state without open paragraph, in
   its phases: s2 is the state in which the first child is walked, s3 the one
   after the last child *)
Lemma par_walk_decompose : forall v e ks path s s',
  str_eqb (e_ptag e) tag_PARAGRAPH = true -> c_open s = [] -> walk v path (AE e ks) s = Ok s' ->
  exists s2 q2 s3 s4,
    c_open s2 = [q2] /\ settled q2 /\ c_queued s2 = [] /\ c_ranges s2 = c_ranges s
    /\ keeps_pars s s2
    /\ kids_loop v path ks 0%nat s2 = Ok s3
    /\ conclude_paragraph s3 = Ok s4 /\ set_caret (Some 4%nat) None s4 = Ok s'.
Proof.
  intros v e ks path s s' Ht Hopen H.
  pose proof (proj1 (str_eqb_eq _ _) Ht) as Htag.
  assert (Hd : elem_depth (AE e ks) = Some 4%nat).
  { unfold elem_depth. rewrite min_par_depth_AE, Htag. reflexivity. }
  rewrite walk_AE in H. cbv zeta in H. rewrite Hd in H.
  bind_inv H as s1 E1. apply set_caret_frame in E1.
  destruct E1 as ((O1 & Q1 & R1 & C1) & K1 & D1 & L1).
  rewrite Htag in H. change (str_eqb tag_PARAGRAPH tag_HYPERLINK) with false in H.
  cbv iota in H. cbn [bind] in H.
  bind_inv H as s2r Eo. destruct s2r as [s2 rec].
  unfold open_tag in Eo. cbv zeta in Eo. rewrite Ht in Eo.
  bind_inv Eo as s1b Ecp.
  destruct (get_par_number (to_numtable v) (c_counters s1b) (get_bullet_fmt (AE e ks)))
    as [cs number] eqn:Epn.
  bind_inv Eo as bl Ebl. bind_inv Eo as s2a Eins.
  destruct (c_open s2a) as [|p2 rest2] eqn:Eo2; [discriminate Eo|]. injection Eo as <- <-.
  (* commence_paragraph *)
  unfold commence_paragraph in Ecp.
  bind_inv Ecp as s1a Ec1. bind_inv Ecp as hs Ehs. bind_inv Ecp as pst Epst.
  cbv zeta in Ecp. injection Ecp as <-.
  apply set_caret_frame in Ec1. destruct Ec1 as ((O1a & Q1a & R1a & C1a) & K1a & D1a & L1a).
  assert (Oe : c_open s1a = []) by (rewrite O1a, O1; exact Hopen).
  (* the list marker *)
  match type of Eins with insert_text_as_new_run _ _ ?st = _ =>
    destruct (settled_after_insert _ _ st s2a _ _ eq_refl Eins) as (p' & Op' & Sp');
    destruct (realizes_inv _ _ st _ _ _ (realizes_insert v (raw bl))
                (eq_refl : c_open st = _ :: _) Eins)
      as (em0 & rs0 & _ & -> & _)
  end.
  rewrite Op' in Eo2. injection Eo2 as <- <-.
  cbn [c_open set_open] in Op'. injection Op' as Ep'.
  (* the rest *)
  bind_inv H as s3 Ek. bind_inv H as s4 Ec. unfold close_tag in Ec. cbv zeta in Ec. rewrite Ht in Ec.
  match type of Ek with kids_loop _ _ _ _ ?st = _ => exists st end. eexists. exists s3, s4.
  split; [cbn [c_open set_open]; rewrite Oe; reflexivity|].
  split; [exact Sp'|].
  split; [reflexivity|].
  split; [cbn [c_ranges set_open set_counters set_queued]; rewrite R1a, R1; reflexivity|].
  split; [intros ps Hps; cbn [c_tree set_open set_counters set_queued]; apply K1a, K1, Hps|].
  split; [exact Ek|]. split; [exact Ec|exact H].
Qed.

(* the whole paragraph: what it leaves behind *)
Lemma par_with_markers_frame : forall v e ks path s s' ps a,
  str_eqb (e_ptag e) tag_PARAGRAPH = true -> forallb marker_or_inline ks = true ->
  c_open s = [] -> walk v path (AE e ks) s = Ok s' ->
  pars_at 4%nat (c_tree s) = Ok ps -> mapM (par_run_strings (html_on v)) ps = Ok a ->
  exists q, c_open s' = [] /\ c_queued s' = [] /\ pars_at 4%nat (c_tree s') = Ok (ps ++ [q])
    /\ forall id b en, dict_get id (c_ranges s') = Some (b, en) -> dict_get id (c_ranges s) = None ->
         (length (concat a) <= b /\ b <= en /\ en <= length (concat a) + open_count q)%nat.
Proof.
  intros v e ks path s s' ps a Ht Hks Hopen H Hps Ha.
  destruct (par_walk_decompose v e ks path s s' Ht Hopen H)
    as (s2 & q2 & s3 & s4 & O2 & _ & Q2 & R2 & K2 & Ek & Ec & E5).
  assert (J2 : J ps a (c_ranges s) s2).
  { exists q2. split; [exact O2|]. split; [exact Q2|]. split; [apply K2, Hps|].
    intros id b en Hg Hn. rewrite R2, Hn in Hg. discriminate Hg. }
  pose proof (J_kids v ps a Ha (c_ranges s) path ks O s2 s3 Hks J2 Ek) as (q & O3 & Q3 & P3 & Hr3).
  destruct (conclude_one s3 s4 q O3 Ec) as (O4 & R4 & Q4 & _ & K4).
  apply set_caret_frame in E5. destruct E5 as ((O5 & Q5 & R5 & C5) & K5 & D5 & L5).
  exists q. split; [rewrite O5; exact O4|].
  split; [rewrite Q5, Q4; exact Q3|].
  split; [apply K5, K4, P3|].
  intros id b en Hg Hn. rewrite R5, R4 in Hg. exact (Hr3 id b en Hg Hn).
Qed.

(* MAIN: the strings seen before the paragraph are a prefix of those seen after
   it, and every range recorded inside it lies within the new part.  The
   hypothesis that the final strings exist cannot be dropped: see
   par_with_markers_prefix_counterexample below. *)
Lemma par_with_markers_bounds : forall v e ks path s s' l l',
  str_eqb (e_ptag e) tag_PARAGRAPH = true -> forallb marker_or_inline ks = true ->
  c_open s = [] -> Inv s -> walk v path (AE e ks) s = Ok s' ->
  runs_so_far v s = Ok l -> runs_so_far v s' = Ok l' ->
  c_open s' = [] /\ c_queued s' = []
  /\ exists x, l' = l ++ x
     /\ forall id b en, dict_get id (c_ranges s') = Some (b, en) -> dict_get id (c_ranges s) = None ->
          (length l <= b /\ b <= en /\ en <= length l')%nat.
Proof.
  intros v e ks path s s' l l' Ht Hks Hopen _ Hw Hl Hl'.
  destruct (rsf_none v s l Hopen Hl) as (ps & a & Eps & Ea & ->).
  destruct (par_with_markers_frame v e ks path s s' ps a Ht Hks Hopen Hw Eps Ea)
    as (q & O' & Q' & P' & Hr).
  split; [exact O'|]. split; [exact Q'|].
  destruct (rsf_none v s' l' O' Hl') as (ps' & a' & Eps' & Ea' & ->).
  rewrite P' in Eps'. injection Eps' as <-.
  apply mapM_app_inv in Ea'. destruct Ea' as (y1 & y2 & E1 & E2 & ->).
  rewrite Ea in E1. injection E1 as <-.
  cbn [mapM] in E2. bind_inv E2 as lq Elq. cbn [bind] in E2. injection E2 as <-.
  exists lq. split.
  { rewrite concat_app. cbn [concat]. rewrite app_nil_r. reflexivity. }
  intros id b en Hg Hn. destruct (Hr id b en Hg Hn) as (A & B & C).
  pose proof (closed_strs_length _ _ _ Elq) as L.
  rewrite concat_app, app_length. cbn [concat]. rewrite app_nil_r. lia.
Qed.

Lemma par_with_markers_prefix_partial : forall v e ks path s s' l l',
  str_eqb (e_ptag e) tag_PARAGRAPH = true -> forallb marker_or_inline ks = true ->
  c_open s = [] -> Inv s -> walk v path (AE e ks) s = Ok s' ->
  runs_so_far v s = Ok l -> runs_so_far v s' = Ok l' ->
  exists x, l' = l ++ x
    /\ forall id b en, dict_get id (c_ranges s') = Some (b, en) -> dict_get id (c_ranges s) = None ->
         (length l <= b <= length l')%nat /\ (en = b \/ (b <= en <= length l')%nat).
Proof.
  intros v e ks path s s' l l' Ht Hks Hopen Hs Hw Hl Hl'.
  destruct (par_with_markers_bounds v e ks path s s' l l' Ht Hks Hopen Hs Hw Hl Hl')
    as (_ & _ & x & Hx & Hr).
  exists x. split; [exact Hx|]. intros id b en Hg Hn.
  destruct (Hr id b en Hg Hn) as (A & B & C). split; [lia|right; lia].
Qed.

(* without that hypothesis the statement is false: the walk does not render
   anything unless it meets a marker, so a run whose style has no first word
   (here: queued before the paragraph) only fails when the strings are asked for *)
Definition cx_env : env := {| env_x2h := []; env_rels := []; env_dup := false; env_numtbl := [] |}.
Definition cx_par : einfo :=
  {| e_ptag := tag_PARAGRAPH; e_uri := None; e_local := [112]; e_wuri := None; e_ruri := None;
     e_attrs := []; e_text := None; e_tail := None |}.
Definition cx_st : cst := set_queued [{| r_style := [[]]; r_toks := [TRaw 97] |}] init_cst.

Lemma par_with_markers_prefix_counterexample :
  exists s',
    str_eqb (e_ptag cx_par) tag_PARAGRAPH = true /\ forallb marker_or_inline [] = true
    /\ c_open cx_st = [] /\ Inv cx_st /\ walk cx_env [] (AE cx_par []) cx_st = Ok s'
    /\ runs_so_far cx_env cx_st = Ok [] /\ runs_so_far cx_env s' = Err IndexError.
Proof.
  eexists. split; [reflexivity|]. split; [reflexivity|]. split; [reflexivity|].
  split; [apply set_queued_inv, init_inv|].
  split; [vm_compute; reflexivity|]. split; vm_compute; reflexivity.
Qed.

(* ================================================================== *)
(* C3b: the strings counted at a marker are a prefix of all later ones  *)
(* ================================================================== *)
(* second instance of the frame: every run but the last ones is kept *)
Definition Rp (rs rs' : list run) : Prop :=
  forall pre tl, rs = pre ++ tl -> tl <> [] -> exists tl', rs' = pre ++ tl' /\ tl' <> [].

Lemma upd_last_app {A} (f : A -> A) : forall pre tl,
  tl <> [] -> upd_last f (pre ++ tl) = pre ++ upd_last f tl.
Proof.
  induction pre as [|y pre IH]; intros tl H; [reflexivity|].
  cbn [app]. destruct (pre ++ tl) as [|z l] eqn:E.
  - destruct pre; [cbn in E; congruence|discriminate E].
  - change (upd_last f (y :: z :: l)) with (y :: upd_last f (z :: l)).
    rewrite <- E, IH by exact H. reflexivity.
Qed.

Lemma upd_last_nonnil {A} (f : A -> A) tl : tl <> [] -> upd_last f tl <> [].
Proof. destruct tl as [|x [|y r]]; cbn [upd_last]; [congruence|discriminate|discriminate]. Qed.

Lemma Rp_refl rs : Rp rs rs.
Proof. intros pre tl E N. exists tl. auto. Qed.
Lemma Rp_trans a b c : Rp a b -> Rp b c -> Rp a c.
Proof.
  intros H1 H2 pre tl E N. destruct (H1 _ _ E N) as (tl1 & E1 & N1). exact (H2 _ _ E1 N1).
Qed.

Lemma walk_keeps v t path : plain_inline t = true -> mono Rp (walk v path t).
Proof.
  intro H. refine (walk_mono Rp Rp_refl Rp_trans _ _ _ v t H path); unfold Rp.
  - intros rs x pre tl -> N. exists (tl ++ x). split; [rewrite app_assoc; reflexivity|].
    destruct tl; [congruence|discriminate].
  - intros rs pre tl -> N. exists tl. split; [|exact N].
    destruct (pre ++ tl) eqn:E; [|reflexivity].
    apply app_eq_nil in E. destruct E as [_ E]. congruence.
  - intros ts rs _ pre tl -> N. eexists. split; [apply upd_last_app; exact N|].
    apply upd_last_nonnil, N.
Qed.

(* from a settled paragraph, runs related by Rp show the same strings first *)
Lemma settled_keeps_visible rs rs' ys ys' :
  settled_runs rs -> Rp rs rs' -> mapM run_toks rs = Ok ys -> mapM run_toks rs' = Ok ys' ->
  exists z, filter nonempty ys' = filter nonempty ys ++ z.
Proof.
  intros Hs HR Ey Ey'. destruct (settled_runs_cases _ Hs) as [E|(rs0 & r & E & Er)].
  - rewrite E in Ey. cbn in Ey. injection Ey as <-. cbn [filter app]. eauto.
  - destruct (HR rs0 [r] E) as (tl' & E' & _); [discriminate|].
    rewrite E in Ey. rewrite E' in Ey'.
    apply mapM_app_inv in Ey. destruct Ey as (ya & yb & Ea & Eb & ->).
    apply mapM_app_inv in Ey'. destruct Ey' as (ya' & yb' & Ea' & Eb' & ->).
    rewrite Ea in Ea'. injection Ea' as <-.
    cbn [mapM] in Eb. rewrite (run_toks_empty _ Er) in Eb. cbn [bind] in Eb. injection Eb as <-.
    rewrite !filter_app. cbn [filter nonempty]. rewrite app_nil_r. eauto.
Qed.

Lemma prefix_set_runs : forall v st st' l l' q rs',
  c_open st = [q] -> c_open st' = [with_runs q rs'] -> c_tree st' = c_tree st ->
  settled q -> Rp (p_runs q) rs' ->
  runs_so_far v st = Ok l -> runs_so_far v st' = Ok l' -> exists x, l' = l ++ x.
Proof.
  intros v st st' l l' q rs' Ho Ho' Ht Hs HR Hl Hl'.
  destruct (rsf_one v st q l Ho Hl) as (ps & a & lo & Eps & Ea & Elo & ->).
  destruct (rsf_one v st' (with_runs q rs') l' Ho' Hl') as (ps' & a' & lo' & Eps' & Ea' & Elo' & ->).
  rewrite Ht, Eps in Eps'. injection Eps' as <-. rewrite Ea in Ea'. injection Ea' as <-.
  apply open_strs_spec in Elo. destruct Elo as (ys & Ey & ->).
  apply open_strs_spec in Elo'. destruct Elo' as (ys' & Ey' & ->).
  cbn [p_runs with_runs] in Ey'.
  destruct (settled_keeps_visible _ _ _ _ Hs HR Ey Ey') as (z & Ez).
  exists (map (render (html_on v)) z).
  change (hdr (with_runs q rs')) with (hdr q).
  rewrite Ez, app_assoc, map_app, app_assoc. reflexivity.
Qed.

(* C1 lifted from the primitives to whole inline subtrees *)
Lemma inline_prefix_from_settled : forall v t path s s' q l l',
  plain_inline t = true -> c_open s = [q] -> settled q -> walk v path t s = Ok s' ->
  runs_so_far v s = Ok l -> runs_so_far v s' = Ok l' -> exists x, l' = l ++ x.
Proof.
  intros v t path s s' q l l' Hpl Ho Hs Hw Hl Hl'.
  destruct (walk_keeps v t path Hpl s q [] s' Ho Hw) as (rs' & -> & HR).
  exact (prefix_set_runs v s (set_open [with_runs q rs'] s) l l' q rs' Ho eq_refl eq_refl Hs HR Hl Hl').
Qed.

(* a child of the paragraph, marker or inline: the open paragraph keeps its
   runs up to the last one, the tree is untouched *)
Lemma marker_state_start v id st st' :
  start_comment_range v id st = Ok st' -> c_open st' = c_open st /\ c_tree st' = c_tree st.
Proof.
  unfold start_comment_range. intro H. bind_inv H as n En. injection H as <-. split; reflexivity.
Qed.
Lemma marker_state_end v id st st' :
  end_comment_range v id st = Ok st' -> c_open st' = c_open st /\ c_tree st' = c_tree st.
Proof.
  unfold end_comment_range. intro H. destruct (dict_get id (c_ranges st)) as [[b e0]|].
  - bind_inv H as n En. injection H as <-. split; reflexivity.
  - injection H as <-. split; reflexivity.
Qed.

Lemma marker_walk_state v path e st st' :
  str_eqb (e_ptag e) tag_COMMENT_RANGE_START || str_eqb (e_ptag e) tag_COMMENT_RANGE_END = true ->
  walk v path (AE e []) st = Ok st' -> c_open st' = c_open st /\ c_tree st' = c_tree st.
Proof.
  intros Hm Hw. apply orb_true_iff in Hm. destruct Hm as [Hm|Hm]; apply str_eqb_eq in Hm.
  - rewrite (walk_marker_start v path e st Hm) in Hw. bind_inv Hw as id Eid.
    exact (marker_state_start v id st st' Hw).
  - rewrite (walk_marker_end v path e st Hm) in Hw. bind_inv Hw as id Eid.
    exact (marker_state_end v id st st' Hw).
Qed.

Lemma child_follows v t path st st' q :
  marker_or_inline t = true -> c_open st = [q] -> walk v path t st = Ok st' ->
  exists rs', c_open st' = [with_runs q rs'] /\ c_tree st' = c_tree st /\ Rp (p_runs q) rs'.
Proof.
  intros Hm Ho Hw. unfold marker_or_inline in Hm. apply orb_true_iff in Hm.
  destruct Hm as [Hpl|Hm].
  - destruct (walk_keeps v t path Hpl st q [] st' Ho Hw) as (rs' & -> & HR).
    exists rs'. auto.
  - destruct t as [e [|k ks]|tl]; try discriminate Hm.
    destruct (marker_walk_state v path e st st' Hm Hw) as [O' T'].
    exists (p_runs q). rewrite with_runs_id, O'. split; [exact Ho|]. split; [exact T'|apply Rp_refl].
Qed.

Lemma kids_follow v path : forall ks i st st' q,
  forallb marker_or_inline ks = true -> c_open st = [q] -> kids_loop v path ks i st = Ok st' ->
  exists rs', c_open st' = [with_runs q rs'] /\ c_tree st' = c_tree st /\ Rp (p_runs q) rs'.
Proof.
  induction ks as [|k r IH]; intros i st st' q Hks Ho H; cbn [kids_loop] in H.
  - injection H as <-. exists (p_runs q). rewrite with_runs_id. auto using Rp_refl.
  - cbn [forallb] in Hks. apply andb_true_iff in Hks. destruct Hks as [K1 K2].
    bind_inv H as st1 E1.
    destruct (child_follows v k (i :: path) st st1 q K1 Ho E1) as (rs1 & O1 & T1 & R1).
    destruct (IH (S i) st1 st' (with_runs q rs1) K2 O1 H) as (rs2 & O2 & T2 & R2).
    exists rs2. split; [exact O2|]. split; [rewrite T2; exact T1|].
    cbn [p_runs with_runs] in R2. exact (Rp_trans _ _ _ R1 R2).
Qed.

(* the children after which the paragraph is settled again: runs (and
   comments / processing instructions, which do nothing) and markers *)
Definition run_or_marker (t : anode) : bool :=
  match t with
  | AX _ => true
  | AE e ks =>
      (str_eqb (e_ptag e) tag_RUN && forallb plain_inline ks)
      || match ks with
         | [] => str_eqb (e_ptag e) tag_COMMENT_RANGE_START
                 || str_eqb (e_ptag e) tag_COMMENT_RANGE_END
         | _ => false
         end
  end.

Lemma run_is_inline e ks :
  str_eqb (e_ptag e) tag_RUN = true -> forallb plain_inline ks = true ->
  plain_inline (AE e ks) = true.
Proof.
  intros Ht Hks. apply str_eqb_eq in Ht. cbn [plain_inline]. rewrite Ht, Hks. reflexivity.
Qed.

Lemma run_or_marker_inline t : run_or_marker t = true -> marker_or_inline t = true.
Proof.
  destruct t as [e ks|tl]; [|reflexivity]. unfold run_or_marker, marker_or_inline. intro H.
  apply orb_true_iff in H. apply orb_true_iff. destruct H as [H|H].
  - left. apply andb_true_iff in H. destruct H as [Ht Hks]. apply run_is_inline; assumption.
  - right. exact H.
Qed.

Lemma run_or_marker_all ks :
  forallb run_or_marker ks = true -> forallb marker_or_inline ks = true.
Proof.
  induction ks as [|k r IH]; [reflexivity|]. cbn [forallb]. intro H.
  apply andb_true_iff in H. destruct H as [K1 K2].
  rewrite (run_or_marker_inline _ K1), (IH K2). reflexivity.
Qed.

Definition Rtop (_ _ : list run) : Prop := True.

Lemma settled_child v t path st st' q :
  run_or_marker t = true -> c_open st = [q] -> settled q -> walk v path t st = Ok st' ->
  exists q', c_open st' = [q'] /\ settled q'.
Proof.
  intros Hm Ho Hs Hw. destruct t as [e ks|tl].
  2:{ cbn in Hw. injection Hw as <-. exists q. auto. }
  unfold run_or_marker in Hm. apply orb_true_iff in Hm. destruct Hm as [Hm|Hm].
  - apply andb_true_iff in Hm. destruct Hm as [Ht Hks].
    pose proof (run_is_inline e ks Ht Hks) as Hpl.
    destruct (walk_inline_split' Rtop (fun _ => I) (fun _ _ _ _ _ => I) (fun _ _ => I)
                (fun _ => I) (fun _ _ _ => I) v e ks path st q [] st' Hpl Ho Hw)
      as (rs3 & _ & Ec).
    unfold close_tag in Ec. cbv zeta in Ec. apply str_eqb_eq in Ht. rewrite Ht in Ec.
    change (str_eqb tag_RUN tag_PARAGRAPH) with false in Ec.
    change (str_eqb tag_RUN tag_RUN) with true in Ec. cbv iota in Ec.
    exact (settled_after_commence_run v [] (set_open [with_runs q rs3] st) st' (with_runs q rs3) []
             eq_refl Ec).
  - destruct ks as [|k ks]; [|discriminate Hm].
    destruct (marker_walk_state v path e st st' Hm Hw) as [O' _].
    exists q. rewrite O'. auto.
Qed.

Lemma settled_kids v path : forall ks i st st' q,
  forallb run_or_marker ks = true -> c_open st = [q] -> settled q ->
  kids_loop v path ks i st = Ok st' -> exists q', c_open st' = [q'] /\ settled q'.
Proof.
  induction ks as [|k r IH]; intros i st st' q Hks Ho Hs H; cbn [kids_loop] in H.
  - injection H as <-. exists q. auto.
  - cbn [forallb] in Hks. apply andb_true_iff in Hks. destruct Hks as [K1 K2].
    bind_inv H as st1 E1.
    destruct (settled_child v k (i :: path) st st1 q K1 Ho Hs E1) as (q1 & O1 & S1).
    exact (IH (S i) st1 st' q1 K2 O1 S1 H).
Qed.

(* the state met by a marker that follows runs and markers only shows a
   prefix of what every later state of the same paragraph shows *)
Theorem marker_snapshot_is_prefix : forall v path ks1 ks2 i j st st1 st2 q l1 l2,
  forallb run_or_marker ks1 = true -> forallb marker_or_inline ks2 = true ->
  c_open st = [q] -> settled q ->
  kids_loop v path ks1 i st = Ok st1 -> kids_loop v path ks2 j st1 = Ok st2 ->
  runs_so_far v st1 = Ok l1 -> runs_so_far v st2 = Ok l2 -> exists x, l2 = l1 ++ x.
Proof.
  intros v path ks1 ks2 i j st st1 st2 q l1 l2 H1 H2 Ho Hs E1 E2 Hl1 Hl2.
  destruct (settled_kids v path ks1 i st st1 q H1 Ho Hs E1) as (q1 & O1 & S1).
  destruct (kids_follow v path ks2 j st1 st2 q1 H2 O1 E2) as (rs2 & O2 & T2 & R2).
  exact (prefix_set_runs v st1 st2 l1 l2 q1 rs2 O1 O2 T2 S1 R2 Hl1 Hl2).
Qed.

Lemma kids_loop_app v path : forall a b i s,
  kids_loop v path (a ++ b) i s
  = (s1 <- kids_loop v path a i s ;; kids_loop v path b (i + length a)%nat s1).
Proof.
  induction a as [|k r IH]; intros b i s.
  - cbn [app kids_loop length bind]. rewrite Nat.add_0_r. reflexivity.
  - cbn [app kids_loop length]. destruct (walk v (i :: path) k s) as [s1|x]; [|reflexivity].
    cbn [bind]. rewrite IH, Nat.add_succ_r. reflexivity.
Qed.

Lemma rsf_same v s s' l :
  c_open s' = c_open s -> keeps_pars s s' -> runs_so_far v s = Ok l -> runs_so_far v s' = Ok l.
Proof.
  intros Ho K H. unfold runs_so_far in *. bind_inv H as ps Eps. rewrite (K ps Eps), Ho.
  exact H.
Qed.

(* the same for the whole paragraph: st1 is the state in which the walk
   reaches the children ks2 (the value a marker at the head of ks2 records is
   the length of runs_so_far there); its strings are a prefix of the strings
   after the paragraph *)
Theorem par_marker_snapshot_prefix : forall v e ks1 ks2 path s s' l',
  str_eqb (e_ptag e) tag_PARAGRAPH = true ->
  forallb run_or_marker ks1 = true -> forallb marker_or_inline ks2 = true ->
  c_open s = [] -> walk v path (AE e (ks1 ++ ks2)) s = Ok s' ->
  runs_so_far v s' = Ok l' ->
  exists s2 st1 s3 s4,
    keeps_pars s s2 /\ c_ranges s2 = c_ranges s
    /\ kids_loop v path ks1 0%nat s2 = Ok st1
    /\ kids_loop v path ks2 (length ks1) st1 = Ok s3
    /\ conclude_paragraph s3 = Ok s4 /\ set_caret (Some 4%nat) None s4 = Ok s'
    /\ forall l1, runs_so_far v st1 = Ok l1 -> exists x, l' = l1 ++ x.
Proof.
  intros v e ks1 ks2 path s s' l' Ht H1 H2 Hopen Hw Hl'.
  destruct (par_walk_decompose v e (ks1 ++ ks2) path s s' Ht Hopen Hw)
    as (s2 & q2 & s3 & s4 & O2 & S2 & Q2 & R2 & K2 & Ek & Ec & E5).
  rewrite kids_loop_app in Ek. bind_inv Ek as st1 Ek1. cbn [Nat.add] in Ek.
  exists s2, st1, s3, s4. repeat (split; [assumption|]).
  intros l1 Hl1.
  destruct (settled_kids v path ks1 O s2 st1 q2 H1 O2 S2 Ek1) as (q1 & O1 & S1).
  destruct (kids_follow v path ks2 (length ks1) st1 s3 q1 H2 O1 Ek) as (rs3 & O3 & T3 & R3).
  (* the strings after the paragraph extend those of s3 *)
  destruct (conclude_one s3 s4 _ O3 Ec) as (O4 & _ & _ & _ & K4).
  apply set_caret_frame in E5. destruct E5 as ((O5 & _) & K5 & _).
  assert (Hl4 : runs_so_far v s4 = Ok l').
  { unfold runs_so_far in Hl' |- *. rewrite O5 in Hl'.
    destruct (pars_at 4%nat (c_tree s4)) as [ps4|x] eqn:E4.
    - rewrite (K5 ps4 E4) in Hl'. exact Hl'.
    - (* pars_at of s4 succeeds: it is that of s3 plus the concluded paragraph *)
      exfalso. destruct (rsf_one v st1 q1 l1 O1 Hl1) as (ps & a & lo & Eps & _).
      rewrite <- T3 in Eps. discriminate (K4 ps Eps). }
  destruct (rsf_one v st1 q1 l1 O1 Hl1) as (ps & a & lo & Eps & Ea & Elo & El1).
  destruct (rsf_none v s4 l' O4 Hl4) as (ps4 & a4 & Eps4 & Ea4 & ->).
  rewrite <- T3 in Eps. rewrite (K4 ps Eps) in Eps4. injection Eps4 as <-.
  apply mapM_app_inv in Ea4. destruct Ea4 as (y1 & y2 & E1 & E2 & ->).
  rewrite Ea in E1. injection E1 as <-.
  cbn [mapM] in E2. bind_inv E2 as lq Elq. cbn [bind] in E2. injection E2 as <-.
  destruct (closed_strs_spec _ _ _ Elq) as (lo3 & z & Elo3 & ->).
  apply open_strs_spec in Elo. destruct Elo as (ys & Ey & ->).
  apply open_strs_spec in Elo3. destruct Elo3 as (ys3 & Ey3 & ->).
  cbn [p_runs with_runs] in Ey3.
  destruct (settled_keeps_visible _ _ _ _ S1 R3 Ey Ey3) as (z3 & Ez3).
  exists (map (render (html_on v)) z3 ++ z). subst l1.
  change (hdr (with_runs q1 rs3)) with (hdr q1).
  rewrite concat_app. cbn [concat]. rewrite app_nil_r, Ez3.
  rewrite (app_assoc (hdr q1)), map_app, <- !app_assoc. reflexivity.
Qed.

(* ================================================================== *)
(* C4: the public attribute                                             *)
(* ================================================================== *)
Lemma comments_none_without_part : forall a o fs od rest dc,
  files a = Ok fs -> files_of_type fs s_officeDocument = od :: rest ->
  part_collector a fs o od = Ok dc ->
  files_of_type fs s_comments = [] -> c_ranges dc = [] ->
  comments a o = Ok (Some []).
Proof.
  intros a o fs od rest dc Hfs Hod Hdc Hc Hr. unfold comments.
  rewrite Hfs. cbn [bind]. rewrite Hod, Hdc. cbn [bind]. rewrite Hc. cbn [bind].
  rewrite Hr. reflexivity.
Qed.

Lemma comments_mismatch_without_part : forall a o fs od rest dc,
  files a = Ok fs -> files_of_type fs s_officeDocument = od :: rest ->
  part_collector a fs o od = Ok dc ->
  files_of_type fs s_comments = [] -> c_ranges dc <> [] ->
  comments a o = Ok None.
Proof.
  intros a o fs od rest dc Hfs Hod Hdc Hc Hr. unfold comments.
  rewrite Hfs. cbn [bind]. rewrite Hod, Hdc. cbn [bind]. rewrite Hc. cbn [bind].
  destruct (c_ranges dc); [congruence|reflexivity].
Qed.

Print Assumptions count_runs_is_length.
Print Assumptions prefix_insert_run.
Print Assumptions prefix_commence_run.
Print Assumptions prefix_add_toks.
Print Assumptions settled_after_insert.
Print Assumptions settled_after_commence_run.
Print Assumptions add_toks_unsettled_not_prefix.
Print Assumptions conclude_prefix.
Print Assumptions walk_count_mono.
Print Assumptions par_with_markers_frame.
Print Assumptions par_with_markers_bounds.
Print Assumptions par_with_markers_prefix_partial.
Print Assumptions par_with_markers_prefix_counterexample.
Print Assumptions inline_prefix_from_settled.
Print Assumptions marker_snapshot_is_prefix.
Print Assumptions par_marker_snapshot_prefix.
Print Assumptions comments_none_without_part.
Print Assumptions comments_mismatch_without_part.
