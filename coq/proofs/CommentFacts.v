(* CommentFacts.v — C12: each comment is returned with its exact anchored text.
   A comment range marker records count_runs = the number of run strings seen
   so far; the anchored text is later cut out of the final list of run strings
   by those numbers.  Here: what count_runs counts, when the list of run
   strings seen so far is a prefix of the later lists, and the bounds of the
   recorded numbers. *)
From Coq Require Import List NArith ZArith Bool Arith Lia.
From D2P Require Import Str Err Xml TableTypes Tables Fmt NumFmt Bullets Merge Collector Walk.
From D2P Require Import Iter Output Paths Package Content.
From D2P Require Import ShapeFacts TokFacts FrameFacts BulletsFacts.
Import ListNotations.
Open Scope N_scope.

(* ================================================================== *)
(* The run strings seen so far                                          *)
(* ================================================================== *)
Definition runs_so_far (v : env) (s : cst) : res (list str) :=
  ps <- pars_at 4%nat (c_tree s) ;;
  a <- mapM (par_run_strings (html_on v)) ps ;;
  b <- mapM (fun p => rs <- par_run_strings (html_on v) p ;;
                      Ok (match p_hstyle p with [] => rs | _ => removelast rs end))
            (rev (c_open s)) ;;
  Ok (concat a ++ concat b).

Lemma count_runs_is_length : forall v s n,
  count_runs v s = Ok n -> exists l, runs_so_far v s = Ok l /\ length l = n.
Proof.
  intros v s n H. unfold count_runs in H.
  bind_inv H as ps Eps. bind_inv H as a Ea. bind_inv H as b Eb. injection H as <-.
  unfold runs_so_far. rewrite Eps. cbn [bind]. rewrite Ea. cbn [bind]. rewrite Eb. cbn [bind].
  eexists. split; [reflexivity|]. apply app_length.
Qed.

Lemma length_is_count_runs : forall v s l,
  runs_so_far v s = Ok l -> count_runs v s = Ok (length l).
Proof.
  intros v s l H. unfold runs_so_far in H.
  bind_inv H as ps Eps. bind_inv H as a Ea. bind_inv H as b Eb. injection H as <-.
  unfold count_runs. rewrite Eps. cbn [bind]. rewrite Ea. cbn [bind]. rewrite Eb. cbn [bind].
  rewrite app_length. reflexivity.
Qed.

(* the strings of an open paragraph: its closing tag is not due yet *)
Definition open_strs (html : bool) (p : par) : res (list str) :=
  rs <- par_run_strings html p ;;
  Ok (match p_hstyle p with [] => rs | _ => removelast rs end).

Definition hdr (p : par) : list (list tok) :=
  match p_hstyle p with [] => [] | hs => [map TOpen hs] end.

Lemma open_strs_spec html p l :
  open_strs html p = Ok l ->
  exists ys, mapM run_toks (p_runs p) = Ok ys
             /\ l = map (render html) (hdr p ++ filter nonempty ys).
Proof.
  unfold open_strs, par_run_strings, par_run_toks, hdr. intro H.
  bind_inv H as rs E. bind_inv E as ts Et. bind_inv Et as ys Ey. cbv zeta in Et.
  exists ys. split; [reflexivity|].
  destruct (p_hstyle p) as [|h hs].
  - injection Et as <-. injection E as <-. injection H as <-. reflexivity.
  - bind_inv Et as cl Ecl. injection Et as <-. injection E as <-. injection H as <-.
    change (map TOpen (h :: hs) :: filter nonempty ys ++ [cl])
      with ((map TOpen (h :: hs) :: filter nonempty ys) ++ [cl]).
    rewrite map_app. change (map (render html) [cl]) with [render html cl].
    rewrite removelast_last.
    destruct (map (render html) (filter nonempty ys) ++ [render html cl]) eqn:E0.
    + destruct (map (render html) (filter nonempty ys)); discriminate E0.
    + reflexivity.
Qed.

(* the strings of a concluded paragraph are those of the open one, plus the
   closing tag when it has an html style *)
Lemma closed_strs_spec html p l :
  par_run_strings html p = Ok l ->
  exists lo z, open_strs html p = Ok lo /\ l = lo ++ z.
Proof.
  intro H. unfold open_strs. rewrite H. cbn [bind].
  destruct (p_hstyle p) as [|h hs] eqn:Eh.
  - exists l, []. rewrite app_nil_r. auto.
  - assert (N : l <> []).
    { unfold par_run_strings, par_run_toks in H. bind_inv H as ts Et. bind_inv Et as ys Ey.
      cbv zeta in Et. rewrite Eh in Et. bind_inv Et as cl Ecl. injection Et as <-.
      injection H as <-. discriminate. }
    exists (removelast l), [last l []]. split; [reflexivity|].
    apply app_removelast_last. exact N.
Qed.

(* with exactly one open paragraph *)
Lemma rsf_one v s p l :
  c_open s = [p] -> runs_so_far v s = Ok l ->
  exists ps a lo, pars_at 4%nat (c_tree s) = Ok ps
    /\ mapM (par_run_strings (html_on v)) ps = Ok a
    /\ open_strs (html_on v) p = Ok lo /\ l = concat a ++ lo.
Proof.
  intros Ho H. unfold runs_so_far in H. rewrite Ho in H. cbn [rev app mapM] in H.
  bind_inv H as ps Eps. bind_inv H as a Ea. bind_inv H as b Eb. injection H as <-.
  bind_inv Eb as lo Elo. cbn [bind] in Eb. injection Eb as <-.
  exists ps, a, lo. cbn [concat]. rewrite app_nil_r. auto.
Qed.

Lemma rsf_none v s l :
  c_open s = [] -> runs_so_far v s = Ok l ->
  exists ps a, pars_at 4%nat (c_tree s) = Ok ps
    /\ mapM (par_run_strings (html_on v)) ps = Ok a /\ l = concat a.
Proof.
  intros Ho H. unfold runs_so_far in H. rewrite Ho in H. cbn [rev mapM] in H.
  bind_inv H as ps Eps. bind_inv H as a Ea. cbn [bind concat] in H. injection H as <-.
  exists ps, a. rewrite app_nil_r. auto.
Qed.

(* ================================================================== *)
(* C1: the primitives that touch the open paragraph                     *)
(* ================================================================== *)
(* every run string of the paragraph is final: the last run is still empty *)
Definition settled_runs (rs : list run) : Prop :=
  match last_opt rs with Some r => r_toks r = [] | None => True end.
Definition settled (p : par) : Prop := settled_runs (p_runs p).

Lemma last_opt_snoc {A} (l : list A) x : last_opt (l ++ [x]) = Some x.
Proof.
  induction l as [|y l IH]; [reflexivity|].
  cbn [app]. destruct (l ++ [x]) eqn:E.
  - destruct l; discriminate E.
  - cbn [last_opt]. cbn [last_opt] in IH. exact IH.
Qed.

Lemma settled_runs_cases rs :
  settled_runs rs -> rs = [] \/ exists rs0 r, rs = rs0 ++ [r] /\ r_toks r = [].
Proof.
  intro H. destruct rs as [|x rs']; [left; reflexivity|right].
  destruct (@exists_last _ (x :: rs')) as (rs0 & r & E); [discriminate|].
  exists rs0, r. split; [exact E|]. unfold settled_runs in H. rewrite E, last_opt_snoc in H.
  exact H.
Qed.

Lemma upd_last_snoc {A} (f : A -> A) l x : upd_last f (l ++ [x]) = l ++ [f x].
Proof.
  induction l as [|y l IH]; [reflexivity|].
  cbn [app]. destruct (l ++ [x]) eqn:E.
  - destruct l; discriminate E.
  - change (upd_last f (y :: a :: l0)) with (y :: upd_last f (a :: l0)). rewrite IH. reflexivity.
Qed.

Lemma run_toks_empty r : r_toks r = [] -> run_toks r = Ok [].
Proof. intro H. unfold run_toks. rewrite H. reflexivity. Qed.

(* the generic step: the open paragraph's runs change from rs to F rs, and
   the visible run token lists only get longer at the end *)
Lemma prefix_upd_runs : forall v F s s' l l' p,
  c_open s = [p] -> upd_open_runs v F s = Ok s' ->
  runs_so_far v s = Ok l -> runs_so_far v s' = Ok l' ->
  (forall ys ys', mapM run_toks (p_runs p) = Ok ys -> mapM run_toks (F (p_runs p)) = Ok ys' ->
                  exists z, filter nonempty ys' = filter nonempty ys ++ z) ->
  exists x, l' = l ++ x.
Proof.
  intros v F s s' l l' p Ho Hu Hl Hl' HF.
  rewrite (upd_open_runs_open _ _ _ _ _ Ho) in Hu. injection Hu as <-.
  destruct (rsf_one v s p l Ho Hl) as (ps & a & lo & Eps & Ea & Elo & ->).
  destruct (rsf_one v (set_open [with_runs p (F (p_runs p))] s) (with_runs p (F (p_runs p))) l'
              eq_refl Hl')
    as (ps' & a' & lo' & Eps' & Ea' & Elo' & ->).
  cbn [c_tree set_open] in Eps'. rewrite Eps in Eps'. injection Eps' as <-.
  rewrite Ea in Ea'. injection Ea' as <-.
  apply open_strs_spec in Elo. destruct Elo as (ys & Ey & ->).
  apply open_strs_spec in Elo'. destruct Elo' as (ys' & Ey' & ->).
  cbn [p_runs with_runs] in Ey'.
  destruct (HF ys ys' Ey Ey') as (z & Ez).
  exists (map (render (html_on v)) z).
  change (hdr (with_runs p (F (p_runs p)))) with (hdr p).
  rewrite Ez, app_assoc, map_app, app_assoc. reflexivity.
Qed.

Lemma ensure_run_toks rs ys ya :
  mapM run_toks rs = Ok ys -> mapM run_toks (ensure_run rs) = Ok ya ->
  filter nonempty ya = filter nonempty ys.
Proof.
  intros H1 H2. destruct rs as [|r rs'].
  - cbn in H1, H2. injection H1 as <-. injection H2 as <-. reflexivity.
  - cbn [ensure_run] in H2. rewrite H1 in H2. injection H2 as <-. reflexivity.
Qed.

(* a new run never disturbs the strings before it: no side condition *)
Lemma prefix_insert_run : forall v ts s s' l l' p,
  c_open s = [p] -> insert_text_as_new_run v ts s = Ok s' ->
  runs_so_far v s = Ok l -> runs_so_far v s' = Ok l' -> exists x, l' = l ++ x.
Proof.
  intros v ts s s' l l' p Ho Hi Hl Hl'. unfold insert_text_as_new_run in Hi.
  apply (prefix_upd_runs v _ s s' l l' p Ho Hi Hl Hl').
  intros ys ys' Ey Ey'. cbv zeta in Ey'.
  apply mapM_app_inv in Ey'. destruct Ey' as (ya & yb & Ea & Eb & ->).
  rewrite filter_app, (ensure_run_toks _ _ _ Ey Ea). eauto.
Qed.

Lemma prefix_commence_run : forall v st s s' l l' p,
  c_open s = [p] -> commence_run v st s = Ok s' ->
  runs_so_far v s = Ok l -> runs_so_far v s' = Ok l' -> exists x, l' = l ++ x.
Proof.
  intros v st s s' l l' p Ho Hi Hl Hl'. unfold commence_run in Hi.
  apply (prefix_upd_runs v _ s s' l l' p Ho Hi Hl Hl').
  intros ys ys' Ey Ey'.
  apply mapM_app_inv in Ey'. destruct Ey' as (ya & yb & Ea & Eb & ->).
  rewrite Ey in Ea. injection Ea as <-. rewrite filter_app. eauto.
Qed.

(* text goes into the last run: the strings before it are undisturbed when
   that run was empty (hence invisible) so far *)
Lemma add_toks_settled_shape : forall v ts s p rest,
  c_open s = p :: rest -> settled p ->
  exists rs0 st,
    (p_runs p = [] /\ rs0 = [] \/ exists r, p_runs p = rs0 ++ [r] /\ r_toks r = [] /\ r_style r = st)
    /\ add_toks v ts s
       = Ok (set_open (with_runs p (rs0 ++ [{| r_style := st; r_toks := ts |}]) :: rest) s).
Proof.
  intros v ts s p rest Ho Hs. unfold add_toks. rewrite (upd_open_runs_open _ _ _ _ _ Ho).
  destruct (settled_runs_cases _ Hs) as [E|(rs0 & r & E & Er)].
  - exists [], []. split; [left; auto|]. rewrite E. reflexivity.
  - exists rs0, (r_style r). split; [right; exists r; auto|]. rewrite E.
    assert (En : ensure_run (rs0 ++ [r]) = rs0 ++ [r]) by (destruct rs0; reflexivity).
    rewrite En, upd_last_snoc, Er. reflexivity.
Qed.

Lemma prefix_add_toks : forall v ts s s' l l' p,
  c_open s = [p] -> settled p -> add_toks v ts s = Ok s' ->
  runs_so_far v s = Ok l -> runs_so_far v s' = Ok l' -> exists x, l' = l ++ x.
Proof.
  intros v ts s s' l l' p Ho Hs Hi Hl Hl'. unfold add_toks in Hi.
  apply (prefix_upd_runs v _ s s' l l' p Ho Hi Hl Hl').
  intros ys ys' Ey Ey'.
  destruct (settled_runs_cases _ Hs) as [E|(rs0 & r & E & Er)].
  - rewrite E in Ey. cbn in Ey. injection Ey as <-. cbn [filter app]. eauto.
  - rewrite E in Ey, Ey'.
    assert (En : ensure_run (rs0 ++ [r]) = rs0 ++ [r]) by (destruct rs0; reflexivity).
    rewrite En, upd_last_snoc in Ey'.
    apply mapM_app_inv in Ey. destruct Ey as (ya & yb & Ea & Eb & ->).
    apply mapM_app_inv in Ey'. destruct Ey' as (ya' & yb' & Ea' & Eb' & ->).
    rewrite Ea in Ea'. injection Ea' as <-.
    cbn [mapM] in Eb. rewrite (run_toks_empty _ Er) in Eb. cbn [bind] in Eb. injection Eb as <-.
    rewrite !filter_app. cbn [filter nonempty]. rewrite app_nil_r. eauto.
Qed.

Lemma prefix_add_text : forall v txt s s' l l' p,
  c_open s = [p] -> settled p -> add_text_into_open_run v txt s = Ok s' ->
  runs_so_far v s = Ok l -> runs_so_far v s' = Ok l' -> exists x, l' = l ++ x.
Proof. intros v txt. apply prefix_add_toks. Qed.

Lemma prefix_add_code : forall v ts s s' l l' p,
  c_open s = [p] -> settled p -> add_code_into_open_run v ts s = Ok s' ->
  runs_so_far v s = Ok l -> runs_so_far v s' = Ok l' -> exists x, l' = l ++ x.
Proof. intros v ts. apply prefix_add_toks. Qed.

(* which primitives leave the paragraph settled *)
Lemma settled_after_insert : forall v ts s s' p rest,
  c_open s = p :: rest -> insert_text_as_new_run v ts s = Ok s' ->
  exists p', c_open s' = p' :: rest /\ settled p'.
Proof.
  intros v ts s s' p rest Ho H. unfold insert_text_as_new_run in H.
  rewrite (upd_open_runs_open _ _ _ _ _ Ho) in H. injection H as <-.
  eexists. split; [reflexivity|]. unfold settled, settled_runs. cbn [p_runs with_runs].
  cbv zeta.
  change (ensure_run (p_runs p) ++ [?a; ?b]) with (ensure_run (p_runs p) ++ [a] ++ [b]).
  rewrite app_assoc, last_opt_snoc. reflexivity.
Qed.

Lemma settled_after_commence_run : forall v st s s' p rest,
  c_open s = p :: rest -> commence_run v st s = Ok s' ->
  exists p', c_open s' = p' :: rest /\ settled p'.
Proof.
  intros v st s s' p rest Ho H. unfold commence_run in H.
  rewrite (upd_open_runs_open _ _ _ _ _ Ho) in H. injection H as <-.
  eexists. split; [reflexivity|]. unfold settled, settled_runs. cbn [p_runs with_runs].
  rewrite last_opt_snoc. reflexivity.
Qed.

(* the side condition is needed: text added to a run that is already visible
   changes a string that was counted before *)
Lemma add_toks_unsettled_not_prefix : forall v,
  exists s s' p l l',
    c_open s = [p] /\ add_toks v [TRaw 98] s = Ok s'
    /\ runs_so_far v s = Ok l /\ runs_so_far v s' = Ok l' /\ ~ exists x, l' = l ++ x.
Proof.
  intro v.
  set (p := with_runs blank_par [{| r_style := []; r_toks := [TRaw 97] |}]).
  exists (set_open [p] init_cst), (set_open [with_runs p [{| r_style := []; r_toks := [TRaw 97; TRaw 98] |}]] init_cst),
         p, [[97]], [[97; 98]].
  split; [reflexivity|]. split; [reflexivity|]. split; [reflexivity|]. split; [reflexivity|].
  intros (x & Hx). discriminate Hx.
Qed.

(* ================================================================== *)
(* C2: concluding the open paragraph                                    *)
(* ================================================================== *)
Lemma conclude_one s s' p :
  c_open s = [p] -> conclude_paragraph s = Ok s' ->
  c_open s' = [] /\ c_ranges s' = c_ranges s /\ c_queued s' = c_queued s
  /\ c_counters s' = c_counters s
  /\ forall ps, pars_at 4%nat (c_tree s) = Ok ps -> pars_at 4%nat (c_tree s') = Ok (ps ++ [p]).
Proof.
  intros Ho H. unfold conclude_paragraph in H. rewrite Ho in H.
  bind_inv H as s1 E1. bind_inv H as t Et. injection H as <-.
  apply set_caret_frame in E1. destruct E1 as ((O1 & Q1 & R1 & C1) & K1 & _).
  cbn [c_open c_ranges c_queued c_counters c_tree set_tree set_open] in *.
  repeat split; auto.
  intros ps Hps. apply (spine_app_NP_pars 3%nat _ _ _ _ Et). apply K1. exact Hps.
Qed.

Lemma conclude_prefix : forall v s s' l l' p,
  c_open s = [p] -> Inv s -> conclude_paragraph s = Ok s' ->
  runs_so_far v s = Ok l -> runs_so_far v s' = Ok l' -> exists x, l' = l ++ x.
Proof.
  intros v s s' l l' p Ho _ Hc Hl Hl'.
  destruct (conclude_one s s' p Ho Hc) as (O' & _ & _ & _ & K).
  destruct (rsf_one v s p l Ho Hl) as (ps & a & lo & Eps & Ea & Elo & ->).
  destruct (rsf_none v s' l' O' Hl') as (ps' & a' & Eps' & Ea' & ->).
  rewrite (K ps Eps) in Eps'. injection Eps' as <-.
  apply mapM_app_inv in Ea'. destruct Ea' as (y1 & y2 & E1 & E2 & ->).
  rewrite Ea in E1. injection E1 as <-.
  cbn [mapM] in E2. bind_inv E2 as lp Elp. cbn [bind] in E2. injection E2 as <-.
  destruct (closed_strs_spec _ _ _ Elp) as (lo' & z & Elo' & ->).
  rewrite Elo in Elo'. injection Elo' as <-.
  exists z. rewrite concat_app. cbn [concat]. rewrite app_nil_r, app_assoc. reflexivity.
Qed.

(* ================================================================== *)
(* C4: the public attribute                                             *)
(* ================================================================== *)
Lemma comments_none_without_part : forall a o fs od rest dc,
  files a = Ok fs -> files_of_type fs s_officeDocument = od :: rest ->
  part_collector a fs o od = Ok dc ->
  files_of_type fs s_comments = [] -> c_ranges dc = [] ->
  comments a o = Ok (Some []).
Proof.
  intros a o fs od rest dc Hfs Hod Hdc Hc Hr. unfold comments.
  rewrite Hfs. cbn [bind]. rewrite Hod, Hdc. cbn [bind]. rewrite Hc. cbn [bind].
  rewrite Hr. reflexivity.
Qed.

Lemma comments_mismatch_without_part : forall a o fs od rest dc,
  files a = Ok fs -> files_of_type fs s_officeDocument = od :: rest ->
  part_collector a fs o od = Ok dc ->
  files_of_type fs s_comments = [] -> c_ranges dc <> [] ->
  comments a o = Ok None.
Proof.
  intros a o fs od rest dc Hfs Hod Hdc Hc Hr. unfold comments.
  rewrite Hfs. cbn [bind]. rewrite Hod, Hdc. cbn [bind]. rewrite Hc. cbn [bind].
  destruct (c_ranges dc); [congruence|reflexivity].
Qed.

Print Assumptions count_runs_is_length.
Print Assumptions prefix_insert_run.
Print Assumptions prefix_commence_run.
Print Assumptions prefix_add_toks.
Print Assumptions settled_after_insert.
Print Assumptions settled_after_commence_run.
Print Assumptions add_toks_unsettled_not_prefix.
Print Assumptions conclude_prefix.
Print Assumptions comments_none_without_part.
Print Assumptions comments_mismatch_without_part.
