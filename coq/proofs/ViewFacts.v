(* ViewFacts.v — C03: the string, run and record views of the extracted
   content agree; document and text are concatenations. *)
From Coq Require Import List NArith Bool Arith Lia.
From D2P Require Import Str Err Xml TableTypes Tables Fmt Bullets Merge Collector Walk Iter
     Output Paths Package Content ShapeFacts.
Import ListNotations.
Open Scope nat_scope.

(* ================================================================== *)
(* Definitions                                                          *)
(* ================================================================== *)
(* a rose tree that is exactly d levels of lists above leaves *)
Fixpoint deep {A} (d : nat) (t : rose A) : Prop :=
  match d, t with
  | O, RA _ => True
  | S d', RL l =>
      (fix all (l : list (rose A)) : Prop :=
         match l with [] => True | x :: r => deep d' x /\ all r end) l
  | _, _ => False
  end.

Lemma deep_RL {A} d (l : list (rose A)) : deep (S d) (RL l) <-> Forall (deep d) l.
Proof.
  induction l as [|x l IH].
  - simpl. split; intros; [constructor|exact I].
  - split.
    + intros [Hx Hl]. constructor; [exact Hx|]. apply IH. exact Hl.
    + intros H. inversion H as [|? ? Hx Hl]; subst. split; [exact Hx|]. apply IH. exact Hl.
Qed.

Lemma deep_S_inv {A} d (t : rose A) : deep (S d) t -> exists l, t = RL l /\ Forall (deep d) l.
Proof.
  destruct t as [l|a]; intros H.
  - exists l. split; [reflexivity|]. apply deep_RL. exact H.
  - destruct H.
Qed.

Lemma deep_O_inv {A} (t : rose A) : deep 0 t -> exists a, t = RA a.
Proof. destruct t as [l|a]; intros H; [destruct H|eauto]. Qed.

Definition rlen {A} (x : rose A) : nat := match x with RL l => length l | RA _ => 0 end.

(* k+1 nested list levels around f *)
Fixpoint lev {A B} (k : nat) (f : rose A -> res (rose B)) : rose A -> res (rose B) :=
  match k with
  | O => gps_level f
  | S k' => gps_level (lev k' f)
  end.

Lemma gps_is_lev html : get_par_strings html = lev 3 (gps_par html).
Proof. reflexivity. Qed.
Lemma join_runs_is_lev : join_runs = lev 3 jr_par.
Proof. reflexivity. Qed.

(* ================================================================== *)
(* The error monad, mapM                                                *)
(* ================================================================== *)
Lemma bind_inv {A B} (r : res A) (k : A -> res B) b :
  bind r k = Ok b -> exists a, r = Ok a /\ k a = Ok b.
Proof. destruct r as [a|e]; simpl; intro H; [eauto|discriminate H]. Qed.

Lemma mapM_Forall2 {A B} (f : A -> res B) l r :
  mapM f l = Ok r <-> Forall2 (fun x y => f x = Ok y) l r.
Proof.
  revert r; induction l as [|x l IH]; intros r; simpl.
  - split; intros H.
    + inversion H; constructor.
    + inversion H; reflexivity.
  - split; intros H.
    + apply bind_inv in H. destruct H as [y [Ey H]].
      apply bind_inv in H. destruct H as [ys [Eys H]].
      inversion H; subst. constructor; [exact Ey|]. apply IH. exact Eys.
    + inversion H as [|? ? ? ? Ey Hr]; subst. rewrite Ey. simpl.
      apply IH in Hr. rewrite Hr. reflexivity.
Qed.

Lemma mapM_app {A B} (f : A -> res B) l1 l2 :
  mapM f (l1 ++ l2) = (xs <- mapM f l1 ;; ys <- mapM f l2 ;; Ok (xs ++ ys)).
Proof.
  induction l1 as [|x l1 IH]; simpl.
  - destruct (mapM f l2); reflexivity.
  - destruct (f x); simpl; [|reflexivity]. rewrite IH.
    destruct (mapM f l1); simpl; [|reflexivity].
    destruct (mapM f l2); reflexivity.
Qed.

Lemma mapM_total {A B} (f : A -> res B) l :
  Forall (fun x => exists y, f x = Ok y) l -> exists r, mapM f l = Ok r.
Proof.
  induction 1 as [|x l [y Ey] _ [r Er]]; simpl.
  - eauto.
  - rewrite Ey, Er. simpl. eauto.
Qed.

Lemma gps_level_inv {A B} (f : rose A -> res (rose B)) t r :
  gps_level f t = Ok r ->
  exists l xs, t = RL l /\ r = RL xs /\ Forall2 (fun x y => f x = Ok y) l xs.
Proof.
  destruct t as [l|a]; simpl; intros H; [|discriminate].
  apply bind_inv in H. destruct H as [xs [E H]]. inversion H; subst.
  exists l, xs. repeat split. apply mapM_Forall2. exact E.
Qed.

Lemma gps_level_intro {A B} (f : rose A -> res (rose B)) l xs :
  Forall2 (fun x y => f x = Ok y) l xs -> gps_level f (RL l) = Ok (RL xs).
Proof. intros H. apply mapM_Forall2 in H. simpl. rewrite H. reflexivity. Qed.

(* ================================================================== *)
(* 3. Concatenation at the top level                                    *)
(* ================================================================== *)
Lemma gps_level_app {A B} (f : rose A -> res (rose B)) l1 l2 r1 r2 :
  gps_level f (RL l1) = Ok (RL r1) -> gps_level f (RL l2) = Ok (RL r2) ->
  gps_level f (RL (l1 ++ l2)) = Ok (RL (r1 ++ r2)).
Proof.
  intros H1 H2.
  apply gps_level_inv in H1. destruct H1 as [l1' [x1 [E1 [E1' F1]]]].
  apply gps_level_inv in H2. destruct H2 as [l2' [x2 [E2 [E2' F2]]]].
  inversion E1; inversion E1'; inversion E2; inversion E2'; subst.
  apply gps_level_intro. apply Forall2_app; assumption.
Qed.

Lemma gps_level_app_inv {A B} (f : rose A -> res (rose B)) l1 l2 r :
  gps_level f (RL (l1 ++ l2)) = Ok r ->
  exists r1 r2, r = RL (r1 ++ r2) /\ gps_level f (RL l1) = Ok (RL r1)
                /\ gps_level f (RL l2) = Ok (RL r2).
Proof.
  intros H. apply gps_level_inv in H. destruct H as [l [xs [E [E' F]]]].
  inversion E; subst. apply Forall2_app_inv_l in F.
  destruct F as [r1 [r2 [F1 [F2 Exs]]]]. subst xs.
  exists r1, r2. split; [reflexivity|]. split; apply gps_level_intro; assumption.
Qed.

Lemma gps_app : forall html l1 l2 r1 r2,
  get_par_strings html (RL l1) = Ok (RL r1) -> get_par_strings html (RL l2) = Ok (RL r2) ->
  get_par_strings html (RL (l1 ++ l2)) = Ok (RL (r1 ++ r2)).
Proof. intros html l1 l2 r1 r2. unfold get_par_strings. apply gps_level_app. Qed.

Lemma gps_app_inv : forall html l1 l2 r,
  get_par_strings html (RL (l1 ++ l2)) = Ok r ->
  exists r1 r2, r = RL (r1 ++ r2) /\ get_par_strings html (RL l1) = Ok (RL r1)
                /\ get_par_strings html (RL l2) = Ok (RL r2).
Proof. intros html l1 l2 r. unfold get_par_strings. apply gps_level_app_inv. Qed.

Lemma join_runs_app : forall l1 l2 t1 t2,
  join_runs (RL l1) = Ok (RL t1) -> join_runs (RL l2) = Ok (RL t2) ->
  join_runs (RL (l1 ++ l2)) = Ok (RL (t1 ++ t2)).
Proof. intros l1 l2 t1 t2. unfold join_runs. apply gps_level_app. Qed.

Lemma join_runs_app_inv : forall l1 l2 r,
  join_runs (RL (l1 ++ l2)) = Ok r ->
  exists t1 t2, r = RL (t1 ++ t2) /\ join_runs (RL l1) = Ok (RL t1)
                /\ join_runs (RL l2) = Ok (RL t2).
Proof. intros l1 l2 r. unfold join_runs. apply gps_level_app_inv. Qed.

Lemma gps_level_RL {A B} (f : rose A -> res (rose B)) t r :
  gps_level f t = Ok r -> exists l, r = RL l.
Proof. intros H. apply gps_level_inv in H. destruct H as [l [xs [_ [E _]]]]. eauto. Qed.

Lemma gps_level_nil {A B} (f : rose A -> res (rose B)) : gps_level f (RL []) = Ok (RL []).
Proof. reflexivity. Qed.

(* ================================================================== *)
(* 4. The document attributes                                           *)
(* ================================================================== *)
Lemma pars_of_is_RL : forall a o ty p, pars_of a o ty = Ok p -> exists l, p = RL l.
Proof.
  intros a o ty p H. unfold pars_of in H. apply bind_inv in H.
  destruct H as [l [_ H]]. inversion H. eauto.
Qed.

Lemma runs_of_is_gps : forall a o ty p,
  pars_of a o ty = Ok p -> runs_of a o ty = get_par_strings (o_html o) p.
Proof. intros a o ty p H. unfold runs_of. rewrite H. reflexivity. Qed.

Lemma plain_of_is_join : forall a o ty r,
  runs_of a o ty = Ok r -> plain_of a o ty = join_runs r.
Proof. intros a o ty r H. unfold plain_of. rewrite H. reflexivity. Qed.

Lemma app_rose_inv {A} (x y z : rose A) :
  app_rose x y = Ok z -> exists l1 l2, x = RL l1 /\ y = RL l2 /\ z = RL (l1 ++ l2).
Proof.
  destruct x as [l1|?], y as [l2|?]; simpl; intros H; try discriminate.
  inversion H. eauto.
Qed.

(* document_of over an arbitrary list of part types and accumulator *)
Definition doc_fold {A} (attr : str -> res (rose A)) (tys : list str) (acc : rose A) :=
  foldM (fun acc ty => x <- attr ty ;; app_rose acc x) tys acc.

Lemma document_of_fold {A} (attr : str -> res (rose A)) :
  document_of attr = doc_fold attr part_order (RL []).
Proof. reflexivity. Qed.

(* a view F that is a monoid homomorphism on top-level lists commutes with
   document_of *)
Lemma doc_fold_hom {A B} (F : rose A -> res (rose B))
      (attr1 : str -> res (rose A)) (attr2 : str -> res (rose B)) :
  (forall l1 l2 r1 r2, F (RL l1) = Ok (RL r1) -> F (RL l2) = Ok (RL r2) ->
                       F (RL (l1 ++ l2)) = Ok (RL (r1 ++ r2))) ->
  (forall ty x, attr1 ty = Ok x -> attr2 ty = F x) ->
  forall tys acc1 acc2 p r,
    F acc1 = Ok acc2 ->
    doc_fold attr1 tys acc1 = Ok p -> doc_fold attr2 tys acc2 = Ok r ->
    F p = Ok r.
Proof.
  intros Happ Hattr tys. induction tys as [|ty tys IH]; intros acc1 acc2 p r Hacc H1 H2.
  - simpl in H1, H2. inversion H1; inversion H2; subst. exact Hacc.
  - unfold doc_fold in H1, H2. simpl in H1, H2.
    apply bind_inv in H1. destruct H1 as [acc1' [S1 H1]].
    apply bind_inv in H2. destruct H2 as [acc2' [S2 H2]].
    apply bind_inv in S1. destruct S1 as [x [Ex S1]].
    apply bind_inv in S2. destruct S2 as [y [Ey S2]].
    apply app_rose_inv in S1. destruct S1 as [a1 [lx [-> [-> ->]]]].
    apply app_rose_inv in S2. destruct S2 as [a2 [ly [-> [-> ->]]]].
    rewrite (Hattr _ _ Ex) in Ey.
    apply (IH (RL (a1 ++ lx)) (RL (a2 ++ ly)) p r); auto.
Qed.

Lemma document_runs_of_pars : forall a o p r,
  document_pars a o = Ok p -> document_runs a o = Ok r ->
  get_par_strings (o_html o) p = Ok r.
Proof.
  intros a o p r H1 H2. unfold document_pars, document_runs in *.
  rewrite document_of_fold in H1. rewrite document_of_fold in H2.
  refine (doc_fold_hom (get_par_strings (o_html o)) (pars_of a o) (runs_of a o) _ _
            part_order (RL []) (RL []) p r eq_refl H1 H2).
  - intros. apply gps_app; assumption.
  - intros ty x E. apply runs_of_is_gps. exact E.
Qed.

Lemma document_of_runs : forall a o r t,
  document_runs a o = Ok r -> document a o = Ok t -> join_runs r = Ok t.
Proof.
  intros a o r t H1 H2. unfold document, document_runs in *.
  rewrite document_of_fold in H1. rewrite document_of_fold in H2.
  refine (doc_fold_hom join_runs (runs_of a o) (plain_of a o) _ _
            part_order (RL []) (RL []) r t eq_refl H1 H2).
  - intros. apply join_runs_app; assumption.
  - intros ty x E. apply plain_of_is_join. exact E.
Qed.

Lemma document_of_is_concat {A} (attr : str -> res (rose A)) h b f fn en :
  attr s_header = Ok (RL h) -> attr s_officeDocument = Ok (RL b) ->
  attr s_footer = Ok (RL f) -> attr s_footnotes = Ok (RL fn) ->
  attr s_endnotes = Ok (RL en) ->
  document_of attr = Ok (RL (h ++ b ++ f ++ fn ++ en)).
Proof.
  intros H1 H2 H3 H4 H5. unfold document_of, part_order. simpl.
  rewrite H1; simpl. rewrite H2; simpl. rewrite H3; simpl. rewrite H4; simpl.
  rewrite H5; simpl. rewrite <- !app_assoc. reflexivity.
Qed.

Lemma document_is_concat : forall a o h b f fn en,
  plain_of a o s_header = Ok (RL h) -> plain_of a o s_officeDocument = Ok (RL b) ->
  plain_of a o s_footer = Ok (RL f) ->
  plain_of a o s_footnotes = Ok (RL fn) -> plain_of a o s_endnotes = Ok (RL en) ->
  document a o = Ok (RL (h ++ b ++ f ++ fn ++ en)).
Proof. intros a o. unfold document. apply document_of_is_concat. Qed.

Lemma document_runs_is_concat : forall a o h b f fn en,
  runs_of a o s_header = Ok (RL h) -> runs_of a o s_officeDocument = Ok (RL b) ->
  runs_of a o s_footer = Ok (RL f) ->
  runs_of a o s_footnotes = Ok (RL fn) -> runs_of a o s_endnotes = Ok (RL en) ->
  document_runs a o = Ok (RL (h ++ b ++ f ++ fn ++ en)).
Proof. intros a o. unfold document_runs. apply document_of_is_concat. Qed.

Lemma document_pars_is_concat : forall a o h b f fn en,
  pars_of a o s_header = Ok (RL h) -> pars_of a o s_officeDocument = Ok (RL b) ->
  pars_of a o s_footer = Ok (RL f) ->
  pars_of a o s_footnotes = Ok (RL fn) -> pars_of a o s_endnotes = Ok (RL en) ->
  document_pars a o = Ok (RL (h ++ b ++ f ++ fn ++ en)).
Proof. intros a o. unfold document_pars. apply document_of_is_concat. Qed.

(* ================================================================== *)
(* 1. Depth of the views; totality                                      *)
(* ================================================================== *)
Lemma gps_level_deep {A B} (f : rose A -> res (rose B)) d d' :
  (forall x y, deep d x -> f x = Ok y -> deep d' y) ->
  forall t r, deep (S d) t -> gps_level f t = Ok r -> deep (S d') r.
Proof.
  intros Hf t r Ht H. apply gps_level_inv in H. destruct H as [l [xs [-> [-> F]]]].
  apply deep_RL in Ht. apply deep_RL.
  induction F as [|x y l xs Hxy F IH]; [constructor|].
  inversion Ht; subst. constructor; eauto.
Qed.

Lemma gps_par_deep html x y : deep 0 x -> gps_par html x = Ok y -> deep 1 y.
Proof.
  intros Hx H. apply deep_O_inv in Hx. destruct Hx as [p ->]. simpl in H.
  apply bind_inv in H. destruct H as [ss [_ H]]. inversion H. apply deep_RL.
  apply Forall_forall. intros z Hz. apply in_map_iff in Hz. destruct Hz as [s [<- _]]. exact I.
Qed.

Lemma jr_par_deep x y : deep 1 x -> jr_par x = Ok y -> deep 0 y.
Proof.
  intros Hx H. apply deep_S_inv in Hx. destruct Hx as [l [-> _]]. simpl in H.
  apply bind_inv in H. destruct H as [ss [_ H]]. inversion H. exact I.
Qed.

Lemma gps_deep : forall html t r,
  deep 4%nat t -> get_par_strings html t = Ok r -> deep 5%nat r.
Proof.
  intros html. unfold get_par_strings. do 4 apply gps_level_deep. apply gps_par_deep.
Qed.

Lemma join_runs_deep : forall r t, deep 5%nat r -> join_runs r = Ok t -> deep 4%nat t.
Proof. unfold join_runs. do 4 apply gps_level_deep. apply jr_par_deep. Qed.

(* every record leaf satisfies C *)
Definition leaves_ok {A} (C : A -> Prop) (t : rose A) : Prop :=
  forall addr p, index t addr = Some (RA p) -> C p.

Lemma leaves_ok_RL {A} (C : A -> Prop) l : leaves_ok C (RL l) -> Forall (leaves_ok C) l.
Proof.
  intros H. apply Forall_forall. intros x Hx. apply In_nth_error in Hx.
  destruct Hx as [i Hi]. intros addr p E. apply (H (i :: addr) p). simpl. rewrite Hi. exact E.
Qed.

Lemma gps_level_total {A B} (C : A -> Prop) (f : rose A -> res (rose B)) d :
  (forall x, deep d x -> leaves_ok C x -> exists y, f x = Ok y) ->
  forall t, deep (S d) t -> leaves_ok C t -> exists r, gps_level f t = Ok r.
Proof.
  intros Hf t Ht Hc. apply deep_S_inv in Ht. destruct Ht as [l [-> Hl]].
  apply leaves_ok_RL in Hc.
  destruct (mapM_total f l) as [r E].
  { rewrite Forall_forall in *. intros x Hx. apply Hf; auto. }
  simpl. rewrite E. simpl. eauto.
Qed.

Lemma gps_total : forall html t,
  deep 4%nat t ->
  (forall addr p, index t addr = Some (RA p) -> exists ss, par_run_strings html p = Ok ss) ->
  exists r, get_par_strings html t = Ok r.
Proof.
  intros html t Ht Hc. revert t Ht Hc. unfold get_par_strings.
  change (forall t : rose par, deep 4 t ->
            leaves_ok (fun p => exists ss, par_run_strings html p = Ok ss) t ->
            exists r, gps_level (gps_level (gps_level (gps_level (gps_par html)))) t = Ok r).
  do 4 apply gps_level_total.
  intros x Hx Hc. apply deep_O_inv in Hx. destruct Hx as [p ->].
  destruct (Hc [] p eq_refl) as [ss E]. simpl. rewrite E. simpl. eauto.
Qed.

Lemma jr_par_total x : deep 1 x -> exists y, jr_par x = Ok y.
Proof.
  intros H. apply deep_S_inv in H. destruct H as [l [-> Hl]].
  destruct (mapM_total leaf_str l) as [ss E].
  { eapply Forall_impl; [|exact Hl]. intros z Hz. apply deep_O_inv in Hz.
    destruct Hz as [s ->]. simpl. eauto. }
  simpl. rewrite E. simpl. eauto.
Qed.

Lemma join_runs_total : forall r, deep 5%nat r -> exists t, join_runs r = Ok t.
Proof.
  intros r Hr.
  assert (Hc : leaves_ok (fun _ : str => True) r) by (intros ? ? _; exact I).
  revert r Hr Hc. unfold join_runs. do 4 apply gps_level_total.
  intros x Hx _. apply jr_par_total. exact Hx.
Qed.

(* ================================================================== *)
(* 6. From the collector's shape invariant to [deep]                    *)
(* ================================================================== *)
Lemma shape_deep : forall n d, shapeb d n = true -> deep (4 - d) (rose_of_node n).
Proof.
  fix IH 1. intros [l|p] d H.
  - rewrite shapeb_NL in H. apply andb_true_iff in H. destruct H as [Hlt Hl].
    apply Nat.ltb_lt in Hlt. cbn [rose_of_node].
    replace (4 - d) with (S (4 - S d)) by lia. apply deep_RL.
    induction l as [|x l IHl]; [constructor|].
    cbn [map forallb] in *. apply andb_true_iff in Hl. destruct Hl as [Hx Hl].
    constructor; [apply IH; exact Hx|apply IHl; exact Hl].
  - simpl in H. apply Nat.eqb_eq in H. subst. exact I.
Qed.

Lemma pars_view_deep : forall s, tree_ok (unrev_list (c_tree s)) -> deep 4%nat (pars_view s).
Proof.
  intros s. unfold pars_view, tree_ok. generalize (unrev_list (c_tree s)). intros l H.
  apply deep_RL. induction l as [|x l IH]; [constructor|].
  cbn [map forallb] in *. apply andb_true_iff in H. destruct H as [Hx Hl].
  constructor; [exact (shape_deep x 1 Hx)|apply IH; exact Hl].
Qed.

(* ================================================================== *)
(* 2. Address-wise agreement                                            *)
(* ================================================================== *)
Lemma Forall2_nth_error {A B} (R : A -> B -> Prop) l xs :
  Forall2 R l xs -> forall i,
  match nth_error l i, nth_error xs i with
  | Some x, Some y => R x y
  | None, None => True
  | _, _ => False
  end.
Proof.
  induction 1 as [|x y l xs Hxy F IH]; intros [|i]; simpl.
  - exact I.
  - exact I.
  - exact Hxy.
  - apply IH.
Qed.

Lemma Forall2_len {A B} (R : A -> B -> Prop) l xs : Forall2 R l xs -> length l = length xs.
Proof. induction 1; simpl; congruence. Qed.

Lemma deep_index {A} : forall addr d (t z : rose A),
  deep (length addr + d) t -> index t addr = Some z -> deep d z.
Proof.
  induction addr as [|i addr IH]; intros d t z Ht H.
  - simpl in H. inversion H; subst. exact Ht.
  - apply (deep_S_inv (length addr + d)) in Ht. destruct Ht as [l [-> Hl]].
    simpl in H. destruct (nth_error l i) as [x|] eqn:E; [|discriminate].
    apply (IH d x z); [|exact H]. rewrite Forall_forall in Hl. apply Hl.
    eapply nth_error_In. exact E.
Qed.

Section IndexRel.
  Context {A B : Type} (g : rose A -> res (rose B)).

  (* at addresses of length k, f acts as g on the addressed item *)
  Definition idx_rel (k : nat) (f : rose A -> res (rose B)) : Prop :=
    forall x y, f x = Ok y -> forall addr, length addr = k ->
      match index x addr with
      | Some z => exists w, g z = Ok w /\ index y addr = Some w
      | None => index y addr = None
      end.

  Lemma idx_rel_0 : idx_rel 0 g.
  Proof. intros x y H addr L. destruct addr; [|discriminate]. simpl. eauto. Qed.

  Lemma idx_rel_S k f : idx_rel k f -> idx_rel (S k) (gps_level f).
  Proof.
    intros IH x y H addr L. apply gps_level_inv in H. destruct H as [l [xs [-> [-> F]]]].
    destruct addr as [|i addr]; [discriminate|]. simpl in L. injection L as L. simpl.
    pose proof (Forall2_nth_error _ _ _ F i) as Hn.
    destruct (nth_error l i), (nth_error xs i); try contradiction.
    - apply IH; assumption.
    - reflexivity.
  Qed.

  (* shorter addresses: lists of equal lengths *)
  Definition shp_rel (k : nat) (f : rose A -> res (rose B)) : Prop :=
    forall x y, f x = Ok y -> forall addr, length addr < k ->
      option_map rlen (index x addr) = option_map rlen (index y addr).

  Lemma shp_rel_0 f : shp_rel 0 f.
  Proof. intros x y _ addr L. lia. Qed.

  Lemma shp_rel_S k f : shp_rel k f -> shp_rel (S k) (gps_level f).
  Proof.
    intros IH x y H addr L. apply gps_level_inv in H. destruct H as [l [xs [-> [-> F]]]].
    destruct addr as [|i addr]; simpl.
    - f_equal. eapply Forall2_len. exact F.
    - simpl in L. pose proof (Forall2_nth_error _ _ _ F i) as Hn.
      destruct (nth_error l i), (nth_error xs i); try contradiction.
      + apply IH; [assumption|lia].
      + reflexivity.
  Qed.
End IndexRel.

Lemma gps_index : forall html t r, deep 4%nat t -> get_par_strings html t = Ok r ->
  forall addr, length addr = 4%nat ->
    match index t addr with
    | Some (RA p) => exists ss, par_run_strings html p = Ok ss /\ index r addr = Some (RL (map RA ss))
    | _ => index r addr = None
    end.
Proof.
  intros html t r Ht H addr L.
  assert (R : idx_rel (gps_par html) 4 (get_par_strings html)).
  { unfold get_par_strings. do 4 apply idx_rel_S. apply idx_rel_0. }
  specialize (R t r H addr L).
  destruct (index t addr) as [z|] eqn:E; [|exact R].
  assert (Hz : deep 0 z).
  { apply (deep_index addr 0 t z); [rewrite L; exact Ht|exact E]. }
  apply deep_O_inv in Hz. destruct Hz as [p ->].
  destruct R as [w [Hw Iw]]. simpl in Hw. apply bind_inv in Hw.
  destruct Hw as [ss [Ess Hw]]. inversion Hw; subst. eauto.
Qed.

Lemma join_runs_index : forall r t, deep 5%nat r -> join_runs r = Ok t ->
  forall addr, length addr = 4%nat ->
    match index r addr with
    | Some (RL l) => exists ss, mapM leaf_str l = Ok ss /\ index t addr = Some (RA (concat ss))
    | _ => index t addr = None
    end.
Proof.
  intros r t Hr H addr L.
  assert (R : idx_rel jr_par 4 join_runs).
  { unfold join_runs. do 4 apply idx_rel_S. apply idx_rel_0. }
  specialize (R r t H addr L).
  destruct (index r addr) as [z|] eqn:E; [|exact R].
  assert (Hz : deep 1 z).
  { apply (deep_index addr 1 r z); [rewrite L; exact Hr|exact E]. }
  apply deep_S_inv in Hz. destruct Hz as [l [-> _]].
  destruct R as [w [Hw Iw]]. simpl in Hw. apply bind_inv in Hw.
  destruct Hw as [ss [Ess Hw]]. inversion Hw; subst. eauto.
Qed.

Lemma gps_same_shape : forall html t r, deep 4%nat t -> get_par_strings html t = Ok r ->
  forall addr, (length addr < 4)%nat ->
    option_map (fun x => match x with RL l => length l | RA _ => 0%nat end) (index t addr)
    = option_map (fun x => match x with RL l => length l | RA _ => 0%nat end) (index r addr).
Proof.
  intros html t r _ H addr L.
  assert (R : shp_rel 4 (get_par_strings html)).
  { unfold get_par_strings. do 4 apply shp_rel_S. apply shp_rel_0. }
  exact (R t r H addr L).
Qed.

Lemma join_runs_same_shape : forall r t, deep 5%nat r -> join_runs r = Ok t ->
  forall addr, (length addr < 4)%nat ->
    option_map (fun x => match x with RL l => length l | RA _ => 0%nat end) (index r addr)
    = option_map (fun x => match x with RL l => length l | RA _ => 0%nat end) (index t addr).
Proof.
  intros r t _ H addr L.
  assert (R : shp_rel 4 join_runs).
  { unfold join_runs. do 4 apply shp_rel_S. apply shp_rel_0. }
  exact (R r t H addr L).
Qed.

(* the iff form of the same fact *)
Lemma gps_same_lists : forall html t r, deep 4%nat t -> get_par_strings html t = Ok r ->
  forall addr, (length addr < 4)%nat ->
    (exists l, index t addr = Some (RL l)) <-> (exists l', index r addr = Some (RL l')).
Proof.
  intros html t r Ht H addr L.
  pose proof (gps_same_shape html t r Ht H addr L) as Sh.
  pose proof (gps_deep html t r Ht H) as Hr.
  split; intros [l E].
  - rewrite E in Sh. destruct (index r addr) as [z|] eqn:Ez; [|discriminate].
    assert (Hz : deep (5 - length addr) z).
    { apply (deep_index addr _ r z); [|exact Ez].
      replace (length addr + (5 - length addr)) with 5 by lia. exact Hr. }
    replace (5 - length addr) with (S (4 - length addr)) in Hz by lia.
    apply deep_S_inv in Hz. destruct Hz as [l' [-> _]]. eauto.
  - rewrite E in Sh. destruct (index t addr) as [z|] eqn:Ez; [|discriminate].
    assert (Hz : deep (4 - length addr) z).
    { apply (deep_index addr _ t z); [|exact Ez].
      replace (length addr + (4 - length addr)) with 4 by lia. exact Ht. }
    replace (4 - length addr) with (S (3 - length addr)) in Hz by lia.
    apply deep_S_inv in Hz. destruct Hz as [l' [-> _]]. eauto.
Qed.

Lemma join_runs_same_lists : forall r t, deep 5%nat r -> join_runs r = Ok t ->
  forall addr, (length addr < 4)%nat ->
    (exists l, index r addr = Some (RL l)) <-> (exists l', index t addr = Some (RL l')).
Proof.
  intros r t Hr H addr L.
  pose proof (join_runs_same_shape r t Hr H addr L) as Sh.
  pose proof (join_runs_deep r t Hr H) as Ht.
  split; intros [l E].
  - rewrite E in Sh. destruct (index t addr) as [z|] eqn:Ez; [|discriminate].
    assert (Hz : deep (4 - length addr) z).
    { apply (deep_index addr _ t z); [|exact Ez].
      replace (length addr + (4 - length addr)) with 4 by lia. exact Ht. }
    replace (4 - length addr) with (S (3 - length addr)) in Hz by lia.
    apply deep_S_inv in Hz. destruct Hz as [l' [-> _]]. eauto.
  - rewrite E in Sh. destruct (index r addr) as [z|] eqn:Ez; [|discriminate].
    assert (Hz : deep (5 - length addr) z).
    { apply (deep_index addr _ r z); [|exact Ez].
      replace (length addr + (5 - length addr)) with 5 by lia. exact Hr. }
    replace (5 - length addr) with (S (4 - length addr)) in Hz by lia.
    apply deep_S_inv in Hz. destruct Hz as [l' [-> _]]. eauto.
Qed.

(* ================================================================== *)
(* 5. text                                                              *)
(* ================================================================== *)
Section EnumLev.
  Context {A B : Type} (f : rose A -> res (rose B)).

  Definition erel (e : list nat * rose A) (e' : list nat * rose B) : Prop :=
    fst e = fst e' /\ f (snd e) = Ok (snd e').

  Lemma enum0_rel l xs : Forall2 (fun x y => f x = Ok y) l xs -> forall i,
    Forall2 erel
      (map (fun ix : nat * rose A => ([fst ix], snd ix)) (combine (seq i (length l)) l))
      (map (fun ix : nat * rose B => ([fst ix], snd ix)) (combine (seq i (length xs)) xs)).
  Proof.
    induction 1 as [|x y l xs Hxy F IH]; intros i; simpl; constructor.
    - split; [reflexivity|exact Hxy].
    - apply IH.
  Qed.

  Lemma enum_from_rel (inner : rose A -> res (list (list nat * rose A)))
        (inner' : rose B -> res (list (list nat * rose B))) (g : rose A -> res (rose B)) :
    (forall x y es, g x = Ok y -> inner x = Ok es ->
                    exists es', inner' y = Ok es' /\ Forall2 erel es es') ->
    forall l xs, Forall2 (fun x y => g x = Ok y) l xs ->
    forall i es, enum_from inner i l = Ok es ->
    exists es', enum_from inner' i xs = Ok es' /\ Forall2 erel es es'.
  Proof.
    intros Hin l xs F. induction F as [|x y l xs Hxy F IH]; intros i es H; simpl in *.
    - inversion H; subst. exists []. split; [reflexivity|constructor].
    - apply bind_inv in H. destruct H as [ys [Eys H]].
      apply bind_inv in H. destruct H as [rest [Er H]]. inversion H; subst.
      destruct (Hin _ _ _ Hxy Eys) as [ys' [Eys' Fy]].
      destruct (IH _ _ Er) as [rest' [Er' Fr]].
      rewrite Eys'; simpl. rewrite Er'; simpl. eexists; split; [reflexivity|].
      apply Forall2_app; [|exact Fr].
      clear - Fy. induction Fy as [|e e' ys ys' He Fy IHy]; simpl; constructor; auto.
      destruct He as [H1 H2]. split; simpl; [f_equal; exact H1|exact H2].
  Qed.

  (* enumeration at depth k+1 commutes with a (k+1)-level map *)
  Lemma enum_lev k : forall t t' es,
    lev k f t = Ok t' -> enum_depth k t = Ok es ->
    exists es', enum_depth k t' = Ok es' /\ Forall2 erel es es'.
  Proof.
    induction k as [|k IH]; intros t t' es H E; simpl in H;
      apply gps_level_inv in H; destruct H as [l [xs [-> [-> F]]]].
    - simpl in E. inversion E; subst. simpl. eexists; split; [reflexivity|].
      apply enum0_rel. exact F.
    - simpl in E |- *. eapply enum_from_rel; [|exact F|exact E].
      intros x y es0 Hxy Ees0. exact (IH x y es0 Hxy Ees0).
  Qed.

  Lemma erel_mapM es es' : Forall2 erel es es' -> mapM f (map snd es) = Ok (map snd es').
  Proof.
    intros F. apply mapM_Forall2.
    induction F as [|e e' es es' He F IH]; simpl; constructor; auto. apply He.
  Qed.
End EnumLev.

Lemma mapM_comp_inv {A B C} (f : A -> res B) (g : B -> res C) l : forall xs r,
  mapM f l = Ok xs -> mapM (fun p => x <- f p ;; g x) l = Ok r -> mapM g xs = Ok r.
Proof.
  induction l as [|a l IH]; intros xs r H1 H2; simpl in *.
  - inversion H1; subst. exact H2.
  - apply bind_inv in H1. destruct H1 as [y [Ey H1]].
    apply bind_inv in H1. destruct H1 as [ys [Eys H1]]. inversion H1; subst.
    rewrite Ey in H2. simpl in H2.
    apply bind_inv in H2. destruct H2 as [z [Ez H2]].
    apply bind_inv in H2. destruct H2 as [zs [Ezs H2]]. inversion H2; subst.
    simpl. rewrite Ez. simpl. rewrite (IH _ _ Eys Ezs). reflexivity.
Qed.

(* iter_at_depth 4 commutes with join_runs *)
Lemma join_runs_iter : forall r t ps,
  join_runs r = Ok t -> iter_at_depth r 4%nat = Ok ps ->
  exists leaves, iter_at_depth t 4%nat = Ok leaves /\ mapM jr_par ps = Ok leaves.
Proof.
  intros r t ps Hj Eps.
  unfold iter_at_depth in Eps. apply bind_inv in Eps. destruct Eps as [es [Ees Eps]].
  inversion Eps; subst.
  change (enum_at_depth r 4) with (enum_depth 3 r) in Ees.
  destruct (enum_lev jr_par 3 r t es Hj Ees) as [es' [Ees' F]].
  exists (map snd es'). split.
  - unfold iter_at_depth. change (enum_at_depth t 4) with (enum_depth 3 t).
    rewrite Ees'. reflexivity.
  - apply erel_mapM. exact F.
Qed.

Lemma flatten_text_is_join : forall r t s,
  join_runs r = Ok t -> flatten_text r = Ok s ->
  exists leaves ss, iter_at_depth t 4%nat = Ok leaves /\ mapM leaf_str leaves = Ok ss
                    /\ s = join s_nn ss.
Proof.
  intros r t s Hj Ht. unfold flatten_text in Ht.
  apply bind_inv in Ht. destruct Ht as [ps [Eps Ht]].
  apply bind_inv in Ht. destruct Ht as [ss [Ess Ht]]. inversion Ht; subst.
  destruct (join_runs_iter r t ps Hj Eps) as [leaves [El Em]].
  exists leaves, ss. split; [exact El|]. split; [|reflexivity].
  exact (mapM_comp_inv jr_par leaf_str ps leaves ss Em Ess).
Qed.

Lemma text_is_join : forall a o r t s,
  document_runs a o = Ok r -> deep 5%nat r -> join_runs r = Ok t -> text a o = Ok s ->
  exists leaves ss, iter_at_depth t 4%nat = Ok leaves /\ mapM leaf_str leaves = Ok ss
                    /\ s = join s_nn ss.
Proof.
  intros a o r t s Hr _ Hj Ht. unfold text in Ht. rewrite Hr in Ht. cbn [bind] in Ht.
  exact (flatten_text_is_join r t s Hj Ht).
Qed.

(* ================================================================== *)
Print Assumptions gps_app.
Print Assumptions gps_app_inv.
Print Assumptions join_runs_app.
Print Assumptions join_runs_app_inv.
Print Assumptions document_runs_of_pars.
Print Assumptions document_of_runs.
Print Assumptions document_is_concat.
Print Assumptions document_runs_is_concat.
Print Assumptions document_pars_is_concat.
Print Assumptions runs_of_is_gps.
Print Assumptions plain_of_is_join.
Print Assumptions pars_of_is_RL.
Print Assumptions gps_deep.
Print Assumptions gps_total.
Print Assumptions join_runs_deep.
Print Assumptions join_runs_total.
Print Assumptions pars_view_deep.
Print Assumptions gps_index.
Print Assumptions join_runs_index.
Print Assumptions gps_same_shape.
Print Assumptions join_runs_same_shape.
Print Assumptions gps_same_lists.
Print Assumptions join_runs_same_lists.
Print Assumptions text_is_join.
