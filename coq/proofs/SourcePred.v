(* SourcePred.v — iterators.is_tbl / is_tr / is_tc AS TRANSLATED FROM THE SOURCE TEXT
   (gen/Source.v: `with suppress(StopIteration)`, `next(iter_at_depth(...))`, lineage[i] == name)
   equal the model's predicates (model/Predicates.v) the C05 theorems are about. *)
From Coq Require Import List NArith ZArith Bool Arith Lia.
From D2P Require Import Str Err Xml Merge Collector Iter Output Predicates PyVal Source SourceBase SourceIter.
Import ListNotations.

Definition k_lineage : str := [108;105;110;101;97;103;101]%N.
Definition s_document : str := [100;111;99;117;109;101;110;116]%N.
Definition enc_ostr (o : option str) : pv := match o with Some s => VStr s | None => VNone end.
(* Par.lineage = ("document", slot1, slot2, slot3, slot4) *)
Definition enc_lineage (l : lineage) : pv :=
  match l with (a, b, c, d) => VTuple [VStr s_document; enc_ostr a; enc_ostr b; enc_ostr c; enc_ostr d] end.
Definition enc_par_lin (p : par) : pv := VObj k_Par [(k_lineage, enc_lineage (p_lineage p))].
Definition lift_bool (r : res bool) : res pv :=
  match r with Ok b => Ok (VBool b) | Err e => Err e end.

(* ---------- helpers ---------- *)
Lemma atomic_enc_par_lin : atomic_leaves enc_par_lin.
Proof. intros p. reflexivity. Qed.

(* the model's iterators only fail with TypeError / ValueError: never StopIteration *)
Lemma enum_from_err A (inner : rose A -> res (list (list nat * rose A))) e : forall l i,
  enum_from inner i l = Err e -> exists x, In x l /\ inner x = Err e.
Proof.
  induction l as [|x l IH]; intros i H; cbn in H; [discriminate|].
  destruct (inner x) as [ys|e'] eqn:Ex; cbn in H.
  - destruct (enum_from inner (S i) l) as [rest|e''] eqn:El; cbn in H; [discriminate|].
    inversion H; subst. destruct (IH _ El) as [y [Hy Hey]].
    exists y. split; [right; exact Hy | exact Hey].
  - inversion H; subst. exists x. split; [left; reflexivity | exact Ex].
Qed.

Lemma enum_depth_err A : forall k (t : rose A) e, enum_depth k t = Err e -> e = TypeError.
Proof.
  induction k as [|k IH]; intros t e H; destruct t as [l|a]; cbn in H.
  - discriminate.
  - inversion H; reflexivity.
  - apply enum_from_err in H. destruct H as [x [_ Hx]]. eapply IH; exact Hx.
  - inversion H; reflexivity.
Qed.

Lemma iter_at_depth_err A (t : rose A) d e :
  iter_at_depth t d = Err e -> e = TypeError \/ e = ValueError.
Proof.
  unfold iter_at_depth. intros H.
  destruct (enum_at_depth t d) as [r|e'] eqn:E; cbn in H; [discriminate|].
  inversion H; subst e'. clear H.
  unfold enum_at_depth in E.
  destruct d as [|[|[|[|[|[|d]]]]]];
    try (inversion E; right; reflexivity);
    left; eapply enum_depth_err; exact E.
Qed.

(* the common shape of the three translated predicates *)
Definition S_pred (fuel : nat) (v : pv) (d i : Z) (name : str) : res pv :=
  fn_result (S:=unit) (
    'tt <~~ py_suppress StopIteration (
      t1 <~ S_iter_at_depth fuel v (VInt d) ;;;
      t2 <~ py_next t1 ;;;
      let v_first_par := t2 in
      t3 <~ py_attr v_first_par ([108;105;110;101;97;103;101]%N (* lineage *)) ;;;
      t4 <~ py_index t3 (VInt i) ;;;
      t5 <~ py_eq t4 (VStr name) ;;;
      Rt t5
    ) tt ;;;
    Rt (VBool false)
  ).

Lemma src_pred : forall (x : rose par) fuel d i name,
  (5 < fuel)%nat -> (1 <= i <= 4)%nat ->
  S_pred fuel (enc_rose enc_par_lin x) (Z.of_nat d) (Z.of_nat i) name
  = lift_bool (first_par_has x d i name).
Proof.
  intros x fuel d i name Hf Hi. unfold S_pred, first_par_has.
  rewrite (src_iter_at_depth par enc_par_lin x d fuel atomic_enc_par_lin Hf).
  destruct (iter_at_depth x d) as [ps|e] eqn:E.
  - destruct ps as [|[l|p] r].
    + reflexivity.
    + reflexivity.
    + cbn [lift_items map enc_rose binde bind].
      unfold enc_par_lin at 1.
      destruct (p_lineage p) as [[[a b] c] dd] eqn:El.
      destruct i as [|[|[|[|[|i]]]]]; try lia;
        [destruct a | destruct b | destruct c | destruct dd]; reflexivity.
  - apply iter_at_depth_err in E. destruct E as [-> | ->]; reflexivity.
Qed.

Theorem src_is_tbl : forall (x : rose par) fuel, (5 < fuel)%nat ->
  S_is_tbl fuel (enc_rose enc_par_lin x) = lift_bool (is_tbl x).
Proof.
  intros x fuel Hf.
  change (S_is_tbl fuel (enc_rose enc_par_lin x))
    with (S_pred fuel (enc_rose enc_par_lin x) (Z.of_nat 3) (Z.of_nat 1) s_tbl).
  unfold is_tbl. apply src_pred; [exact Hf | lia].
Qed.

Theorem src_is_tr : forall (x : rose par) fuel, (5 < fuel)%nat ->
  S_is_tr fuel (enc_rose enc_par_lin x) = lift_bool (is_tr x).
Proof.
  intros x fuel Hf.
  change (S_is_tr fuel (enc_rose enc_par_lin x))
    with (S_pred fuel (enc_rose enc_par_lin x) (Z.of_nat 2) (Z.of_nat 2) s_tr).
  unfold is_tr. apply src_pred; [exact Hf | lia].
Qed.

Theorem src_is_tc : forall (x : rose par) fuel, (5 < fuel)%nat ->
  S_is_tc fuel (enc_rose enc_par_lin x) = lift_bool (is_tc x).
Proof.
  intros x fuel Hf.
  change (S_is_tc fuel (enc_rose enc_par_lin x))
    with (S_pred fuel (enc_rose enc_par_lin x) (Z.of_nat 1) (Z.of_nat 3) s_tc).
  unfold is_tc. apply src_pred; [exact Hf | lia].
Qed.

Print Assumptions src_is_tbl.
Print Assumptions src_is_tr.
Print Assumptions src_is_tc.
