(* MarkerFacts.v — C10: hyperlinks and note references are rendered as exact
   markers.  What the marker elements contribute to the open paragraph
   (FrameFacts.emit), how that contribution renders, and how the label of a
   footnote / endnote reaches the first paragraph of the note. *)
From Coq Require Import List NArith ZArith Bool Arith Lia.
From D2P Require Import Str Err Xml TableTypes Tables Fmt NumFmt Bullets Merge Collector Walk.
From D2P Require Import ShapeFacts TokFacts FrameFacts BulletsFacts.
Import ListNotations.
Open Scope N_scope.

(* ================================================================== *)
(* Tools                                                                *)
(* ================================================================== *)
(* evaluate every test between two tag constants *)
Ltac tag_eval :=
  repeat match goal with
         | |- context [str_eqb ?a ?b] =>
             let r := eval vm_compute in (str_eqb a b) in
             match r with true => idtac | false => idtac end;
             change (str_eqb a b) with r
         end;
  cbv iota; cbn [orb].

Lemma blank_inv : Inv blank_st.
Proof. apply set_open_inv, init_inv. Qed.

(* the caret movement of any element succeeds on a well-shaped state and
   leaves the open paragraphs alone *)
Lemma set_caret_any t name s :
  Inv s -> exists s', set_caret (elem_depth t) name s = Ok s' /\ Inv s' /\ c_open s' = c_open s.
Proof.
  intro Hs. destruct (elem_depth t) as [d|] eqn:Ed.
  - destruct (set_caret_inv d name s (elem_depth_range _ _ Ed) Hs) as (s1 & E & I1 & _ & O1 & _).
    exists s1. auto.
  - exists s. auto.
Qed.

(* an element whose open handler is one insert_text_as_new_run and which has
   no close handler contributes exactly the inserted tokens *)
Lemma emit_via_insert v path e ks body ts b :
  (if str_eqb (e_ptag e) tag_HYPERLINK then below_loop v path ks 0%nat else Ok []) = Ok body ->
  (forall s, open_tag v path (AE e ks) e ks body s
             = (s' <- insert_text_as_new_run v ts s ;; Ok (s', b))) ->
  (b = true -> ks = []) ->
  (forall s, close_tag v e ks s = Ok s) ->
  emit v path (AE e ks) = Ok ts.
Proof.
  intros Hb Ho Hk Hc. unfold emit. rewrite walk_AE. cbv zeta.
  destruct (set_caret_any (AE e ks) (Some (e_local e)) blank_st blank_inv) as (s1 & E1 & I1 & O1).
  rewrite E1. cbn [bind]. rewrite Hb. cbn [bind]. rewrite Ho.
  destruct (realizes_insert v ts s1 blank_par [] O1) as (rs' & Ei & T).
  rewrite Ei. cbn [bind].
  assert (I2 : Inv (set_open [with_runs blank_par rs'] s1)) by (apply set_open_inv; exact I1).
  destruct (set_caret_any (AE e ks) None _ I2) as (s5 & E5 & _ & O5).
  destruct b.
  - pose proof (Hk eq_refl) as K. subst ks. cbn [kids_loop bind]. rewrite Hc. cbn [bind].
    rewrite E5. cbn [bind]. rewrite O5. cbn [c_open set_open p_runs with_runs].
    rewrite T. reflexivity.
  - cbn [bind]. rewrite Hc. cbn [bind].
    rewrite E5. cbn [bind]. rewrite O5. cbn [c_open set_open p_runs with_runs].
    rewrite T. reflexivity.
Qed.

(* ================================================================== *)
(* M1: note references                                                  *)
(* ================================================================== *)
Lemma render_raw : forall html s, render html (raw s) = s.
Proof.
  intros html s. unfold render, raw. induction s as [|c s IH]; [reflexivity|].
  cbn [map concat render_tok app]. f_equal. exact IH.
Qed.

Lemma open_note_ref v path t e ks body s kind :
  (e_ptag e = tag_FOOTNOTE_REFERENCE /\ kind = s_footnote)
  \/ (e_ptag e = tag_ENDNOTE_REFERENCE /\ kind = s_endnote) ->
  open_tag v path t e ks body s = note_ref v kind e s.
Proof.
  intros [[Ht ->]|[Ht ->]]; unfold open_tag; cbv zeta; rewrite Ht; tag_eval; reflexivity.
Qed.

Lemma emit_note_ref : forall v path e, e_ptag e = tag_FOOTNOTE_REFERENCE ->
  forall id, attr_w_req e s_id = Ok id ->
  emit v path (AE e []) = Ok (raw (s_dashes ++ s_footnote ++ id ++ s_dashes)).
Proof.
  intros v path e Ht id Hid. apply (emit_via_insert v path e [] [] _ true).
  - rewrite Ht. reflexivity.
  - intro s. rewrite (open_note_ref _ _ _ _ _ _ _ s_footnote) by (left; auto).
    unfold note_ref. rewrite Hid. reflexivity.
  - reflexivity.
  - intro s. unfold close_tag. cbv zeta. rewrite Ht. reflexivity.
Qed.

Lemma emit_endnote_ref : forall v path e, e_ptag e = tag_ENDNOTE_REFERENCE ->
  forall id, attr_w_req e s_id = Ok id ->
  emit v path (AE e []) = Ok (raw (s_dashes ++ s_endnote ++ id ++ s_dashes)).
Proof.
  intros v path e Ht id Hid. apply (emit_via_insert v path e [] [] _ true).
  - rewrite Ht. reflexivity.
  - intro s. rewrite (open_note_ref _ _ _ _ _ _ _ s_endnote) by (right; auto).
    unfold note_ref. rewrite Hid. reflexivity.
  - reflexivity.
  - intro s. unfold close_tag. cbv zeta. rewrite Ht. reflexivity.
Qed.

(* the reference is a run of its own *)
Lemma note_ref_is_one_run : forall v path t e ks body kind id s p rest,
  (e_ptag e = tag_FOOTNOTE_REFERENCE /\ kind = s_footnote)
  \/ (e_ptag e = tag_ENDNOTE_REFERENCE /\ kind = s_endnote) ->
  attr_w_req e s_id = Ok id -> c_open s = p :: rest ->
  open_tag v path t e ks body s
  = Ok (set_open
          (with_runs p
             (ensure_run (p_runs p)
              ++ [{| r_style := []; r_toks := raw (s_dashes ++ kind ++ id ++ s_dashes) |};
                  {| r_style := match last_opt (ensure_run (p_runs p)) with
                                | Some r => r_style r | None => [] end;
                     r_toks := [] |}]) :: rest) s, true).
Proof.
  intros v path t e ks body kind id s p rest Hk Hid Ho.
  rewrite (open_note_ref _ _ _ _ _ _ _ kind Hk). unfold note_ref. rewrite Hid. cbn [bind].
  unfold insert_text_as_new_run. rewrite (upd_open_runs_open _ _ _ _ _ Ho). reflexivity.
Qed.

(* ================================================================== *)
(* M2: hyperlinks                                                       *)
(* ================================================================== *)
Definition link_target (link : str) (anchor : option str) : str :=
  match link, anchor with
  | _ :: _, Some (a :: r) => link ++ 35 :: a :: r
  | _, _ => link
  end.

Lemma close_hyperlink v e ks s : e_ptag e = tag_HYPERLINK -> close_tag v e ks s = Ok s.
Proof. intro Ht. unfold close_tag. cbv zeta. rewrite Ht. reflexivity. Qed.

Lemma hyperlink_body v path e ks :
  e_ptag e = tag_HYPERLINK ->
  (if str_eqb (e_ptag e) tag_HYPERLINK then below_loop v path ks 0%nat else Ok [])
  = below_loop v path ks 0%nat.
Proof. intro Ht. rewrite Ht. reflexivity. Qed.

(* the handler, for a link whose relationship resolves *)
Lemma open_hyperlink_inserts_gen : forall v path t e ks body rid link anchor s,
  e_ptag e = tag_HYPERLINK -> attr_r_req e s_id = Ok rid ->
  dict_get rid (env_rels v) = Some link -> attr_w e s_anchor = Ok anchor ->
  open_tag v path t e ks body s
  = (s' <- insert_text_as_new_run v (link_toks (link_target link anchor) body) s ;; Ok (s', false)).
Proof.
  intros v path t e ks body rid link anchor s Ht Hrid Hrel Han.
  unfold open_tag. cbv zeta. rewrite Ht. tag_eval. rewrite Hrid, Hrel, Han. reflexivity.
Qed.

Lemma open_hyperlink_inserts : forall v path t e ks body rid link s,
  e_ptag e = tag_HYPERLINK -> attr_r_req e s_id = Ok rid ->
  dict_get rid (env_rels v) = Some link -> attr_w e s_anchor = Ok None ->
  open_tag v path t e ks body s
  = (s' <- insert_text_as_new_run v (link_toks link body) s ;; Ok (s', false)).
Proof.
  intros v path t e ks body rid link s Ht Hrid Hrel Han.
  rewrite (open_hyperlink_inserts_gen _ _ _ _ _ _ _ _ _ _ Ht Hrid Hrel Han).
  destruct link; reflexivity.
Qed.

(* the handler, for a link without a usable relationship *)
Lemma open_hyperlink_plain : forall v path t e ks body s,
  e_ptag e = tag_HYPERLINK ->
  (attr_r_req e s_id = Err KeyError
   \/ exists rid, attr_r_req e s_id = Ok rid /\ dict_get rid (env_rels v) = None) ->
  open_tag v path t e ks body s = (s' <- insert_text_as_new_run v body s ;; Ok (s', false)).
Proof.
  intros v path t e ks body s Ht H.
  unfold open_tag. cbv zeta. rewrite Ht. tag_eval.
  destruct H as [H|(rid & H & Hn)].
  - rewrite H. reflexivity.
  - rewrite H, Hn. reflexivity.
Qed.

Lemma emit_link_resolved : forall v path e ks rid link body, e_ptag e = tag_HYPERLINK ->
  attr_r_req e s_id = Ok rid -> dict_get rid (env_rels v) = Some link ->
  attr_w e s_anchor = Ok None ->
  below_loop v path ks 0%nat = Ok body ->
  emit v path (AE e ks) = Ok (link_toks link body).
Proof.
  intros v path e ks rid link body Ht Hrid Hrel Han Hb.
  apply (emit_via_insert v path e ks body _ false).
  - rewrite hyperlink_body by exact Ht. exact Hb.
  - intro s. apply (open_hyperlink_inserts _ _ _ _ _ _ rid); assumption.
  - discriminate.
  - intro s. apply close_hyperlink, Ht.
Qed.

Lemma emit_link_anchor : forall v path e ks rid c l a r body, e_ptag e = tag_HYPERLINK ->
  attr_r_req e s_id = Ok rid -> dict_get rid (env_rels v) = Some (c :: l) ->
  attr_w e s_anchor = Ok (Some (a :: r)) ->
  below_loop v path ks 0%nat = Ok body ->
  emit v path (AE e ks) = Ok (link_toks ((c :: l) ++ 35 :: a :: r) body).
Proof.
  intros v path e ks rid c l a r body Ht Hrid Hrel Han Hb.
  apply (emit_via_insert v path e ks body _ false).
  - rewrite hyperlink_body by exact Ht. exact Hb.
  - intro s. rewrite (open_hyperlink_inserts_gen _ _ _ _ _ _ _ _ _ _ Ht Hrid Hrel Han).
    reflexivity.
  - discriminate.
  - intro s. apply close_hyperlink, Ht.
Qed.

(* every resolved link, whatever the anchor attribute *)
Lemma emit_link_gen : forall v path e ks rid link anchor body, e_ptag e = tag_HYPERLINK ->
  attr_r_req e s_id = Ok rid -> dict_get rid (env_rels v) = Some link ->
  attr_w e s_anchor = Ok anchor ->
  below_loop v path ks 0%nat = Ok body ->
  emit v path (AE e ks) = Ok (link_toks (link_target link anchor) body).
Proof.
  intros v path e ks rid link anchor body Ht Hrid Hrel Han Hb.
  apply (emit_via_insert v path e ks body _ false).
  - rewrite hyperlink_body by exact Ht. exact Hb.
  - intro s. apply (open_hyperlink_inserts_gen _ _ _ _ _ _ rid); assumption.
  - discriminate.
  - intro s. apply close_hyperlink, Ht.
Qed.

Lemma emit_link_fallback : forall v path e ks body, e_ptag e = tag_HYPERLINK ->
  (attr_r_req e s_id = Err KeyError
   \/ exists rid, attr_r_req e s_id = Ok rid /\ dict_get rid (env_rels v) = None) ->
  below_loop v path ks 0%nat = Ok body ->
  emit v path (AE e ks) = Ok body.
Proof.
  intros v path e ks body Ht H Hb.
  apply (emit_via_insert v path e ks body _ false).
  - rewrite hyperlink_body by exact Ht. exact Hb.
  - intro s. apply open_hyperlink_plain; assumption.
  - discriminate.
  - intro s. apply close_hyperlink, Ht.
Qed.

(* <a href="LINK">BODY</a> *)
Lemma render_app html a b : render html (a ++ b) = render html a ++ render html b.
Proof. unfold render. rewrite map_app, concat_app. reflexivity. Qed.

Lemma link_render : forall html link body,
  render html (link_toks link body)
  = [60;97;32;104;114;101;102;61;34] ++ link ++ [34;62] ++ render html body ++ [60;47;97;62].
Proof.
  intros html link body. unfold link_toks.
  change (TOpen (s_a_href ++ link ++ [34]) :: body ++ [TClose s_a])
    with ([TOpen (s_a_href ++ link ++ [34])] ++ body ++ [TClose s_a]).
  rewrite !render_app. unfold render. cbn [map concat render_tok].
  rewrite !app_nil_r. unfold s_a_href, s_a. rewrite <- !app_assoc. cbn [app].
  rewrite <- !app_assoc. cbn [app]. reflexivity.
Qed.

(* the link is ONE run of the open paragraph, between the runs before it and
   a fresh empty run carrying the style of the run it interrupted *)
Lemma link_is_one_run : forall v path t e ks rid link body s p rest,
  e_ptag e = tag_HYPERLINK -> attr_r_req e s_id = Ok rid ->
  dict_get rid (env_rels v) = Some link -> attr_w e s_anchor = Ok None ->
  c_open s = p :: rest ->
  open_tag v path t e ks body s
  = Ok (set_open
          (with_runs p
             (ensure_run (p_runs p)
              ++ [{| r_style := []; r_toks := link_toks link body |};
                  {| r_style := match last_opt (ensure_run (p_runs p)) with
                                | Some r => r_style r | None => [] end;
                     r_toks := [] |}]) :: rest) s, false).
Proof.
  intros v path t e ks rid link body s p rest Ht Hrid Hrel Han Ho.
  rewrite (open_hyperlink_inserts _ _ _ _ _ _ _ _ _ Ht Hrid Hrel Han).
  unfold insert_text_as_new_run. rewrite (upd_open_runs_open _ _ _ _ _ Ho). reflexivity.
Qed.

(* ================================================================== *)
(* M3: note labels                                                      *)
(* ================================================================== *)
Lemma open_note v path t e ks body s kind :
  (e_ptag e = tag_FOOTNOTE /\ kind = s_footnote)
  \/ (e_ptag e = tag_ENDNOTE /\ kind = s_endnote) ->
  open_tag v path t e ks body s = note_label v kind e s.
Proof.
  intros [[Ht ->]|[Ht ->]]; unfold open_tag; cbv zeta; rewrite Ht; tag_eval; reflexivity.
Qed.

Lemma note_label_queued : forall v path t e ks body s id, e_ptag e = tag_FOOTNOTE ->
  attr_w e s_type = Ok None -> attr_w_req e s_id = Ok id ->
  open_tag v path t e ks body s
  = Ok (queue_run_for_next_paragraph (raw (s_footnote ++ id ++ [41; 9])) s, true).
Proof.
  intros v path t e ks body s id Ht Hty Hid.
  rewrite (open_note _ _ _ _ _ _ _ s_footnote) by (left; auto).
  unfold note_label. rewrite Hty. cbn [bind ostr lower map].
  change (contains s_separator []) with false. cbv iota. rewrite Hid. reflexivity.
Qed.

Lemma endnote_label_queued : forall v path t e ks body s id, e_ptag e = tag_ENDNOTE ->
  attr_w e s_type = Ok None -> attr_w_req e s_id = Ok id ->
  open_tag v path t e ks body s
  = Ok (queue_run_for_next_paragraph (raw (s_endnote ++ id ++ [41; 9])) s, true).
Proof.
  intros v path t e ks body s id Ht Hty Hid.
  rewrite (open_note _ _ _ _ _ _ _ s_endnote) by (right; auto).
  unfold note_label. rewrite Hty. cbn [bind ostr lower map].
  change (contains s_separator []) with false. cbv iota. rewrite Hid. reflexivity.
Qed.

(* a note with a type that does not mention "separator" is labelled too *)
Lemma note_label_queued_typed : forall v path t e ks body s kind ty id,
  (e_ptag e = tag_FOOTNOTE /\ kind = s_footnote)
  \/ (e_ptag e = tag_ENDNOTE /\ kind = s_endnote) ->
  attr_w e s_type = Ok ty -> contains s_separator (lower (ostr ty)) = false ->
  attr_w_req e s_id = Ok id ->
  open_tag v path t e ks body s
  = Ok (queue_run_for_next_paragraph (raw (kind ++ id ++ [41; 9])) s, true).
Proof.
  intros v path t e ks body s kind ty id Hk Hty Hc Hid.
  rewrite (open_note _ _ _ _ _ _ _ kind Hk).
  unfold note_label. rewrite Hty. cbn [bind]. rewrite Hc, Hid. reflexivity.
Qed.

Lemma note_separator_not_labelled : forall v path t e ks body s ty, e_ptag e = tag_FOOTNOTE ->
  attr_w e s_type = Ok (Some ty) -> contains s_separator (lower ty) = true ->
  open_tag v path t e ks body s = Ok (s, true).
Proof.
  intros v path t e ks body s ty Ht Hty Hc.
  rewrite (open_note _ _ _ _ _ _ _ s_footnote) by (left; auto).
  unfold note_label. rewrite Hty. cbn [bind ostr]. rewrite Hc. reflexivity.
Qed.

Lemma endnote_separator_not_labelled : forall v path t e ks body s ty, e_ptag e = tag_ENDNOTE ->
  attr_w e s_type = Ok (Some ty) -> contains s_separator (lower ty) = true ->
  open_tag v path t e ks body s = Ok (s, true).
Proof.
  intros v path t e ks body s ty Ht Hty Hc.
  rewrite (open_note _ _ _ _ _ _ _ s_endnote) by (right; auto).
  unfold note_label. rewrite Hty. cbn [bind ostr]. rewrite Hc. reflexivity.
Qed.

(* the queued label is the beginning of the next paragraph, and is used up *)
Lemma queued_label_prefixes_next_paragraph : forall v e ks path s s' ps kind id,
  simple_par (AE e ks) = true -> Inv s -> walk v path (AE e ks) s = Ok s' ->
  pars_at 4%nat (c_tree s) = Ok ps ->
  c_queued s = [{| r_style := []; r_toks := raw (kind ++ id ++ [41; 9]) |}] ->
  exists p rest,
    pars_at 4%nat (c_tree s') = Ok (ps ++ [p]) /\ c_queued s' = []
    /\ p_elem p = Some path
    /\ toks_of (p_runs p) = raw (kind ++ id ++ [41; 9]) ++ rest.
Proof.
  intros v e ks path s s' ps kind id Hsp Hs Hw Hps Hq.
  destruct (simple_par_walk v e ks path s s' ps Hsp Hs Hw Hps)
    as (p & Hp & _ & Hq' & _ & _ & He & _ & _ & _ & (bl & number & cs & _ & _ & _ & _ & ems & _ & T)).
  exists p, (raw bl ++ concat ems). split; [exact Hp|]. split; [exact Hq'|]. split; [exact He|].
  rewrite T, Hq. unfold toks_of. cbn [map concat r_toks]. rewrite app_nil_r. reflexivity.
Qed.

(* together: a footnote element followed by a simple paragraph *)
Lemma footnote_label_then_paragraph : forall v e path0 t0 ks0 body0 s0 s1 b id pe pks path s' ps,
  e_ptag e = tag_FOOTNOTE -> attr_w e s_type = Ok None -> attr_w_req e s_id = Ok id ->
  c_queued s0 = [] ->
  open_tag v path0 t0 e ks0 body0 s0 = Ok (s1, b) ->
  simple_par (AE pe pks) = true -> Inv s1 -> walk v path (AE pe pks) s1 = Ok s' ->
  pars_at 4%nat (c_tree s1) = Ok ps ->
  exists p rest,
    pars_at 4%nat (c_tree s') = Ok (ps ++ [p]) /\ c_queued s' = []
    /\ toks_of (p_runs p) = raw (s_footnote ++ id ++ [41; 9]) ++ rest.
Proof.
  intros v e path0 t0 ks0 body0 s0 s1 b id pe pks path s' ps Ht Hty Hid Hq0 Ho Hsp I1 Hw Hps.
  rewrite (note_label_queued _ _ _ _ _ _ _ id Ht Hty Hid) in Ho. injection Ho as <- <-.
  destruct (queued_label_prefixes_next_paragraph v pe pks path _ s' ps s_footnote id Hsp I1 Hw Hps)
    as (p & rest & A & B & _ & C).
  { unfold queue_run_for_next_paragraph. cbn [c_queued set_queued]. rewrite Hq0. reflexivity. }
  exists p, rest. auto.
Qed.

Print Assumptions render_raw.
Print Assumptions emit_note_ref.
Print Assumptions emit_endnote_ref.
Print Assumptions note_ref_is_one_run.
Print Assumptions open_hyperlink_inserts.
Print Assumptions emit_link_resolved.
Print Assumptions emit_link_anchor.
Print Assumptions emit_link_gen.
Print Assumptions emit_link_fallback.
Print Assumptions link_render.
Print Assumptions link_is_one_run.
Print Assumptions note_label_queued.
Print Assumptions endnote_label_queued.
Print Assumptions note_label_queued_typed.
Print Assumptions note_separator_not_labelled.
Print Assumptions endnote_separator_not_labelled.
Print Assumptions queued_label_prefixes_next_paragraph.
Print Assumptions footnote_label_then_paragraph.
