(* SourceNumbering.v — docx_context.collect_numAttrs AS TRANSLATED FROM THE SOURCE TEXT (gen/Source.v; with
   namespace.find_by_qn / findall_by_qn and the dataclass NumIdAttrs) is equal to the model's collect_numAttrs
   (model/Package.v): the table numId -> [format, start value per level] read from word/numbering.xml, which
   every C08 theorem about list markers takes as given.  Two nested loops filling a dict of lists, `continue`,
   a dict lookup that raises KeyError for a w:num pointing at a missing abstractNum, int() of w:start.
   Elements are read as in SourceFmt.v. *)
From Coq Require Import List NArith ZArith Bool Arith Lia.
From D2P Require Import Str Err Xml TableTypes Tables Fmt NumFmt Bullets Merge Collector Walk Paths Package
                        PyVal Source SourceBase SourceElem SourceForms SourceBullets.
Import ListNotations.

Definition n_NumIdAttrs : str := [78;117;109;73;100;65;116;116;114;115]%N.
Definition n_fmt : str := [102;109;116]%N.
Definition n_start : str := [115;116;97;114;116]%N.

Definition enc_lvl (x : option str * option Z) : pv :=
  VObj n_NumIdAttrs [(n_fmt, enc_ostr (fst x));
                     (n_start, match snd x with Some z => VInt z | None => VNone end)].
Definition enc_numtable (d : list (str * list (option str * option Z))) : pv :=
  VDict None (map (fun kv => (VStr (fst kv), VList (map enc_lvl (snd kv)))) d).

Theorem src_find_by_qn_w : forall e ks name, ~ In 58%N name -> braceless name -> kid_names_ok ks ->
  S_find_by_qn (enc_fel (AE e ks)) (VStr ([119; 58]%N ++ name))
  = match children_w e ks name with
    | Ok (x :: _) => Ok (enc_fel x)
    | Ok [] => Ok VNone
    | Err x => Err x
    end.
Proof.
  intros e ks name Hn Hb Hk. unfold S_find_by_qn.
  rewrite (src_qn_w e ks name Hn). unfold children_w.
  destruct (e_wuri e) as [u|]; cbn [binde]; [|reflexivity].
  change (@pair (option str) (list N) (Some u) name) with (@pair (option str) str (Some u) name).
  unfold py_find. rewrite (sf_iterfind e ks (Some u) name Hb Hk). cbn [bind].
  destruct (find_children (Some u) name ks) as [|x rest]; reflexivity.
Qed.

Theorem src_findall_by_qn_w : forall e ks name, ~ In 58%N name -> braceless name -> kid_names_ok ks ->
  S_findall_by_qn (enc_fel (AE e ks)) (VStr ([119; 58]%N ++ name))
  = match children_w e ks name with Ok l => Ok (VList (map enc_fel l)) | Err x => Err x end.
Proof.
  intros e ks name Hn Hb Hk. unfold S_findall_by_qn.
  rewrite (src_qn_w e ks name Hn). unfold children_w.
  destruct (e_wuri e) as [u|]; cbn [binde]; [|reflexivity].
  change (@pair (option str) (list N) (Some u) name) with (@pair (option str) str (Some u) name).
  unfold py_findall. rewrite (sf_iterfind e ks (Some u) name Hb Hk). reflexivity.
Qed.

(* ---------- names ---------- *)
Ltac snu_names :=
  unfold braceless, s_abstractNum, s_abstractNumId, s_lvl, s_numFmt, s_start, s_num, s_numId, s_val;
  repeat split; sfo_notin.
Lemma snu_no58_abstractNum : ~ In 58%N s_abstractNum. Proof. snu_names. Qed.
Lemma snu_braceless_abstractNum : braceless s_abstractNum. Proof. snu_names. Qed.
Lemma snu_no58_abstractNumId : ~ In 58%N s_abstractNumId. Proof. snu_names. Qed.
Lemma snu_braceless_abstractNumId : braceless s_abstractNumId. Proof. snu_names. Qed.
Lemma snu_no58_lvl : ~ In 58%N s_lvl. Proof. snu_names. Qed.
Lemma snu_braceless_lvl : braceless s_lvl. Proof. snu_names. Qed.
Lemma snu_no58_numFmt : ~ In 58%N s_numFmt. Proof. snu_names. Qed.
Lemma snu_braceless_numFmt : braceless s_numFmt. Proof. snu_names. Qed.
Lemma snu_no58_start : ~ In 58%N s_start. Proof. snu_names. Qed.
Lemma snu_braceless_start : braceless s_start. Proof. snu_names. Qed.
Lemma snu_no58_num : ~ In 58%N s_num. Proof. snu_names. Qed.
Lemma snu_braceless_num : braceless s_num. Proof. snu_names. Qed.

(* the calls, spelled as in the generated text *)
Definition snu_all (e : einfo) (ks : list anode) (name : str) : res pv :=
  match children_w e ks name with Ok l => Ok (VList (map enc_fel l)) | Err x => Err x end.
Definition snu_first (e : einfo) (ks : list anode) (name : str) : res pv :=
  match children_w e ks name with
  | Ok (x :: _) => Ok (enc_fel x)
  | Ok [] => Ok VNone
  | Err x => Err x
  end.
Lemma snu_findall_abstractNum : forall e ks, kid_names_ok ks ->
  S_findall_by_qn (enc_fel (AE e ks)) (VStr [119;58;97;98;115;116;114;97;99;116;78;117;109]%N)
  = snu_all e ks s_abstractNum.
Proof. intros e ks Hk. exact (src_findall_by_qn_w e ks s_abstractNum snu_no58_abstractNum snu_braceless_abstractNum Hk). Qed.
Lemma snu_findall_lvl : forall e ks, kid_names_ok ks ->
  S_findall_by_qn (enc_fel (AE e ks)) (VStr [119;58;108;118;108]%N) = snu_all e ks s_lvl.
Proof. intros e ks Hk. exact (src_findall_by_qn_w e ks s_lvl snu_no58_lvl snu_braceless_lvl Hk). Qed.
Lemma snu_findall_num : forall e ks, kid_names_ok ks ->
  S_findall_by_qn (enc_fel (AE e ks)) (VStr [119;58;110;117;109]%N) = snu_all e ks s_num.
Proof. intros e ks Hk. exact (src_findall_by_qn_w e ks s_num snu_no58_num snu_braceless_num Hk). Qed.
Lemma snu_find_numFmt : forall e ks, kid_names_ok ks ->
  S_find_by_qn (enc_fel (AE e ks)) (VStr [119;58;110;117;109;70;109;116]%N) = snu_first e ks s_numFmt.
Proof. intros e ks Hk. exact (src_find_by_qn_w e ks s_numFmt snu_no58_numFmt snu_braceless_numFmt Hk). Qed.
Lemma snu_find_start : forall e ks, kid_names_ok ks ->
  S_find_by_qn (enc_fel (AE e ks)) (VStr [119;58;115;116;97;114;116]%N) = snu_first e ks s_start.
Proof. intros e ks Hk. exact (src_find_by_qn_w e ks s_start snu_no58_start snu_braceless_start Hk). Qed.
Lemma snu_find_abstractNumId : forall e ks, kid_names_ok ks ->
  S_find_by_qn (enc_fel (AE e ks)) (VStr [119;58;97;98;115;116;114;97;99;116;78;117;109;73;100]%N)
  = snu_first e ks s_abstractNumId.
Proof. intros e ks Hk. exact (src_find_by_qn_w e ks s_abstractNumId snu_no58_abstractNumId snu_braceless_abstractNumId Hk). Qed.
Lemma snu_attr_abstractNumId : forall e ks, attr_names_ok e ->
  S_get_attrib_by_qn (enc_fel (AE e ks)) (VStr [119;58;97;98;115;116;114;97;99;116;78;117;109;73;100]%N)
  = lift_str (attr_w_req e s_abstractNumId).
Proof. intros e ks Ha. exact (src_get_attrib_by_qn_w e ks s_abstractNumId snu_no58_abstractNumId snu_braceless_abstractNumId Ha). Qed.
Lemma snu_attr_numId : forall e ks, attr_names_ok e ->
  S_get_attrib_by_qn (enc_fel (AE e ks)) (VStr [119;58;110;117;109;73;100]%N)
  = lift_str (attr_w_req e s_numId).
Proof. intros e ks Ha. exact (src_get_attrib_by_qn_w e ks s_numId sbu_no58_numId sbu_braceless_numId Ha). Qed.

(* ---------- the pieces of the generated function ---------- *)
Definition snu_lvl_body (v_id_ : pv) : pv -> pv * pv * pv * pv * pv * pv -> out (pv * pv * pv * pv * pv * pv) :=
  fun t6 '(v_abstractNumId2Attrs, v_fmt, v_numFmtEl, v_qn, v_start, v_startEl) =>
            let v_lvl := t6 in
            t7 <~ S_find_by_qn v_lvl (VStr ([119;58;110;117;109;70;109;116]%N (* w:numFmt *))) ;;;
            let v_numFmtEl := t7 in
            let v_fmt := VNone in
            t8 <~ py_is_none v_numFmtEl ;;;
            t9 <~ py_not t8 ;;;
            v_fmt <~~ (if py_truth t9 then (
              t10 <~ S_get_attrib_by_qn v_numFmtEl (VStr ([119;58;118;97;108]%N (* w:val *))) ;;;
              t11 <~ S_str t10 ;;;
              let v_fmt := t11 in
              Nx v_fmt
            ) else (
              Nx v_fmt
            )) ;;;
            t12 <~ S_find_by_qn v_lvl (VStr ([119;58;115;116;97;114;116]%N (* w:start *))) ;;;
            let v_startEl := t12 in
            let v_start := VNone in
            t13 <~ py_is_none v_startEl ;;;
            t14 <~ py_not t13 ;;;
            '(v_qn, v_start) <~~ (if py_truth t14 then (
              t15 <~ S_get_attrib_by_qn v_startEl (VStr ([119;58;118;97;108]%N (* w:val *))) ;;;
              let v_qn := t15 in
              t16 <~ py_int v_qn ;;;
              let v_start := t16 in
              Nx (v_qn, v_start)
            ) else (
              Nx (v_qn, v_start)
            )) ;;;
            v_abstractNumId2Attrs <~ py_update_path v_abstractNumId2Attrs [v_id_] (fun c_ => py_append c_ (VObj ([78;117;109;73;100;65;116;116;114;115]%N (* NumIdAttrs *)) [(([102;109;116]%N (* fmt *)), v_fmt); (([115;116;97;114;116]%N (* start *)), v_start)])) ;;;
            Nx (v_abstractNumId2Attrs, v_fmt, v_numFmtEl, v_qn, v_start, v_startEl).

Definition snu_abs_body : pv -> pv * pv * pv * pv * pv * pv * pv -> out (pv * pv * pv * pv * pv * pv * pv) :=
  fun t2 '(v_abstractNumId2Attrs, v_fmt, v_id_, v_numFmtEl, v_qn, v_start, v_startEl) =>
        let v_abstractNum := t2 in
        t3 <~ S_get_attrib_by_qn v_abstractNum (VStr ([119;58;97;98;115;116;114;97;99;116;78;117;109;73;100]%N (* w:abstractNumId *))) ;;;
        t4 <~ S_str t3 ;;;
        let v_id_ := t4 in
        v_abstractNumId2Attrs <~ py_update_path v_abstractNumId2Attrs [] (fun c_ => py_setitem c_ v_id_ (VList [])) ;;;
        t5 <~ S_findall_by_qn v_abstractNum (VStr ([119;58;108;118;108]%N (* w:lvl *))) ;;;
        '(v_abstractNumId2Attrs, v_fmt, v_numFmtEl, v_qn, v_start, v_startEl) <~~ py_for t5 (snu_lvl_body v_id_) (v_abstractNumId2Attrs, v_fmt, v_numFmtEl, v_qn, v_start, v_startEl) ;;;
        Nx (v_abstractNumId2Attrs, v_fmt, v_id_, v_numFmtEl, v_qn, v_start, v_startEl).

Definition snu_num_body (v_abstractNumId2Attrs : pv) : pv -> pv * pv * pv * pv -> out (pv * pv * pv * pv) :=
  fun t18 '(v_abstractNumId, v_abstractNumIdval, v_numId, v_numId2attrs) =>
        let v_num := t18 in
        t19 <~ S_get_attrib_by_qn v_num (VStr ([119;58;110;117;109;73;100]%N (* w:numId *))) ;;;
        let v_numId := t19 in
        t20 <~ S_find_by_qn v_num (VStr ([119;58;97;98;115;116;114;97;99;116;78;117;109;73;100]%N (* w:abstractNumId *))) ;;;
        let v_abstractNumId := t20 in
        t21 <~ py_is_none v_abstractNumId ;;;
        if py_truth t21 then (
          Nx (v_abstractNumId, v_abstractNumIdval, v_numId, v_numId2attrs)
        ) else (
          t22 <~ S_get_attrib_by_qn v_abstractNumId (VStr ([119;58;118;97;108]%N (* w:val *))) ;;;
          let v_abstractNumIdval := t22 in
          t23 <~ S_str v_abstractNumIdval ;;;
          t24 <~ py_index v_abstractNumId2Attrs t23 ;;;
          t25 <~ S_str v_numId ;;;
          v_numId2attrs <~ py_update_path v_numId2attrs [] (fun c_ => py_setitem c_ t25 t24) ;;;
          Nx (v_abstractNumId, v_abstractNumIdval, v_numId, v_numId2attrs)
        ).

Lemma snu_unfold : forall v_numFmts_root,
  S_collect_numAttrs v_numFmts_root
  = fn_result (S:=unit) (
    t1 <~ S_findall_by_qn v_numFmts_root (VStr ([119;58;97;98;115;116;114;97;99;116;78;117;109]%N)) ;;;
    '(v_abstractNumId2Attrs, v_fmt, v_id_, v_numFmtEl, v_qn, v_start, v_startEl) <~~
       py_for t1 snu_abs_body (VDict None [], VNone, VNone, VNone, VNone, VNone, VNone) ;;;
    t17 <~ S_findall_by_qn v_numFmts_root (VStr ([119;58;110;117;109]%N)) ;;;
    '(v_abstractNumId, v_abstractNumIdval, v_numId, v_numId2attrs) <~~
       py_for t17 (snu_num_body v_abstractNumId2Attrs) (VNone, VNone, VNone, VDict None []) ;;;
    Rt v_numId2attrs).
Proof. reflexivity. Qed.

(* ---------- dicts keyed by strings, any value encoding ---------- *)
Lemma snu_assoc_set : forall {V} (f : V -> pv) k v (d : list (str * V)),
  assoc_set (VStr k) (f v) (map (fun kv => (VStr (fst kv), f (snd kv))) d)
  = map (fun kv => (VStr (fst kv), f (snd kv))) (dict_set k v d).
Proof.
  intros V f k v d. induction d as [|[k' v'] r IH]; cbn [map assoc_set dict_set fst snd]; [reflexivity|].
  rewrite sf_pv_eqb_str. destruct (str_eqb k k') eqn:E.
  - apply sf_str_eqb_eq in E. subst. reflexivity.
  - cbn [map fst snd]. rewrite IH. reflexivity.
Qed.
Lemma snu_assoc : forall {V} (f : V -> pv) k (d : list (str * V)),
  assoc (VStr k) (map (fun kv => (VStr (fst kv), f (snd kv))) d) = option_map f (dict_get k d).
Proof.
  intros V f k d. induction d as [|[k' v'] r IH]; cbn [map assoc dict_get fst snd]; [reflexivity|].
  rewrite sf_pv_eqb_str. destruct (str_eqb k k'); [reflexivity|exact IH].
Qed.
Lemma snu_dict_get_set : forall {V} k (v : V) d, dict_get k (dict_set k v d) = Some v.
Proof.
  intros V k v d. induction d as [|[k' v'] r IH]; cbn [dict_set dict_get].
  - rewrite sf_str_eqb_refl. reflexivity.
  - destruct (str_eqb k k') eqn:E; cbn [dict_get].
    + rewrite sf_str_eqb_refl. reflexivity.
    + rewrite E. exact IH.
Qed.
Lemma snu_dict_set_set : forall {V} k (v1 v2 : V) d, dict_set k v2 (dict_set k v1 d) = dict_set k v2 d.
Proof.
  intros V k v1 v2 d. induction d as [|[k' v'] r IH]; cbn [dict_set].
  - rewrite sf_str_eqb_refl. reflexivity.
  - destruct (str_eqb k k') eqn:E; cbn [dict_set].
    + rewrite sf_str_eqb_refl. reflexivity.
    + rewrite E, IH. reflexivity.
Qed.

Definition snu_enc_items (d : list (str * list (option str * option Z))) : list (pv * pv) :=
  map (fun kv => (VStr (fst kv), (fun l => VList (map enc_lvl l)) (snd kv))) d.
Lemma snu_enc_numtable : forall d, enc_numtable d = VDict None (snu_enc_items d).
Proof. reflexivity. Qed.
Lemma snu_setitem : forall d k v,
  py_setitem (enc_numtable d) (VStr k) (VList (map enc_lvl v)) = Ok (enc_numtable (dict_set k v d)).
Proof.
  intros d k v. rewrite !snu_enc_numtable. unfold snu_enc_items. cbn [py_setitem].
  rewrite (snu_assoc_set (fun l => VList (map enc_lvl l)) k v d). reflexivity.
Qed.
Lemma snu_index : forall d k,
  py_index (enc_numtable d) (VStr k)
  = match dict_get k d with Some v => Ok (VList (map enc_lvl v)) | None => Err KeyError end.
Proof.
  intros d k. rewrite snu_enc_numtable. unfold snu_enc_items. cbn [py_index].
  rewrite (snu_assoc (fun l => VList (map enc_lvl l)) k d).
  destruct (dict_get k d); reflexivity.
Qed.

(* ---------- a loop whose body refines a step of the model, on the live part of the state ---------- *)
Definition snu_sim {S D} (live : S -> pv) (enc : D -> pv) (o : out S) (r : res D) : Prop :=
  match r with
  | Ok d' => exists s', o = Nx s' /\ live s' = enc d'
  | Err x => o = Ex x
  end.
Lemma snu_for_go : forall {S A D} (live : S -> pv) (enc : D -> pv) (body : pv -> S -> out S)
    (f : D -> A -> res D) (encA : A -> pv) (P : A -> Prop),
  (forall a d s, P a -> live s = enc d -> snu_sim live enc (body (encA a) s) (f d a)) ->
  forall l d s, (forall a, In a l -> P a) -> live s = enc d ->
  snu_sim live enc (for_go body (map encA l) s) (foldM f l d).
Proof.
  intros S A D live enc body f encA P Hstep.
  induction l as [|a r IH]; intros d s HP Hl; cbn [map for_go foldM].
  - exists s. split; [reflexivity|exact Hl].
  - pose proof (Hstep a d s (HP a (or_introl eq_refl)) Hl) as Hs. unfold snu_sim in Hs.
    destruct (f d a) as [d1|x]; cbn [bind].
    + destruct Hs as [s1 [Hs1 Hl1]]. rewrite Hs1. cbn [bindo].
      apply IH; [|exact Hl1]. intros a0 Hin. apply HP. right. exact Hin.
    + rewrite Hs. reflexivity.
Qed.
Lemma snu_foldM_mapM : forall {A B} (g : A -> res B) l acc,
  foldM (fun acc a => x <- g a ;; Ok (acc ++ [x])) l acc = (xs <- mapM g l ;; Ok (acc ++ xs)).
Proof.
  intros A B g. induction l as [|a r IH]; intro acc; cbn [foldM mapM bind].
  - rewrite app_nil_r. reflexivity.
  - destruct (g a) as [y|x]; cbn [bind]; [|reflexivity].
    rewrite IH. destruct (mapM g r) as [ys|x]; cbn [bind]; [|reflexivity].
    rewrite <- app_assoc. reflexivity.
Qed.

(* ---------- the children found are elements whose names are fine one level less deep ---------- *)
Lemma snu_children_ok : forall n e ks name l, tree_names_ok (S n) (AE e ks) ->
  children_w e ks name = Ok l ->
  forall x, In x l -> tree_names_ok n x /\ exists xe xks, x = AE xe xks.
Proof.
  intros n e ks name l Ht Hc x Hin. cbn [tree_names_ok] in Ht. destruct Ht as [_ [_ Hks]].
  unfold children_w in Hc. destruct (e_wuri e) as [u|]; [|discriminate Hc].
  inversion Hc; subst l. destruct (sf_find_children_in (Some u) name ks x Hin) as [Hk Hae].
  split; [exact (Hks x Hk)|exact Hae].
Qed.

(* ---------- one w:lvl ---------- *)
Definition snu_mfmt (nf : list anode) : res (option str) :=
  match nf with
  | [] => Ok None
  | x :: _ => xe <- einfo_of x ;; v <- attr_w_req xe s_val ;; Ok (Some v)
  end.
Definition snu_mstart (st : list anode) : res (option Z) :=
  match st with
  | [] => Ok None
  | x :: _ => xe <- einfo_of x ;; v <- attr_w_req xe s_val ;;
              z <- of_opt ValueError (int_of_str v) ;; Ok (Some z)
  end.
Lemma snu_collect_lvl_eq : forall le lks,
  collect_lvl (AE le lks)
  = match children_w le lks s_numFmt with
    | Err x => Err x
    | Ok nf =>
        match snu_mfmt nf with
        | Err x => Err x
        | Ok fmt =>
            match children_w le lks s_start with
            | Err x => Err x
            | Ok st => match snu_mstart st with Err x => Err x | Ok start => Ok (fmt, start) end
            end
        end
    end.
Proof. reflexivity. Qed.

Definition snu_junk (l : list anode) : pv := match l with x :: _ => enc_fel x | [] => VNone end.
Definition snu_qn (st : list anode) (v_qn : pv) : pv :=
  match st with
  | AE xe _ :: _ => match attr_w_req xe s_val with Ok v => VStr v | Err _ => v_qn end
  | _ => v_qn
  end.
Definition snu_enc_oz (o : option Z) : pv := match o with Some z => VInt z | None => VNone end.

Definition snu_fmt_part {S} (v_lvl : pv) (K : pv -> pv -> out S) : out S :=
  t7 <~ S_find_by_qn v_lvl (VStr ([119;58;110;117;109;70;109;116]%N (* w:numFmt *))) ;;;
  t8 <~ py_is_none t7 ;;;
  t9 <~ py_not t8 ;;;
  v_fmt <~~ (if py_truth t9 then (
    t10 <~ S_get_attrib_by_qn t7 (VStr ([119;58;118;97;108]%N (* w:val *))) ;;;
    t11 <~ S_str t10 ;;;
    Nx t11
  ) else (
    Nx VNone
  )) ;;;
  K t7 v_fmt.
Definition snu_start_part {S} (v_lvl v_qn : pv) (K : pv -> pv -> pv -> out S) : out S :=
  t12 <~ S_find_by_qn v_lvl (VStr ([119;58;115;116;97;114;116]%N (* w:start *))) ;;;
  t13 <~ py_is_none t12 ;;;
  t14 <~ py_not t13 ;;;
  '(v_qn, v_start) <~~ (if py_truth t14 then (
    t15 <~ S_get_attrib_by_qn t12 (VStr ([119;58;118;97;108]%N (* w:val *))) ;;;
    t16 <~ py_int t15 ;;;
    Nx (t15, t16)
  ) else (
    Nx (v_qn, VNone)
  )) ;;;
  K t12 v_qn v_start.

Lemma snu_lvl_body_eq : forall v_id_ v_lvl dv b c dd e f,
  snu_lvl_body v_id_ v_lvl (dv, b, c, dd, e, f)
  = snu_fmt_part v_lvl (fun v_numFmtEl v_fmt =>
      snu_start_part v_lvl dd (fun v_startEl v_qn v_start =>
        dv' <~ py_update_path dv [v_id_] (fun c_ => py_append c_
                 (VObj n_NumIdAttrs [(n_fmt, v_fmt); (n_start, v_start)])) ;;;
        Nx (dv', v_fmt, v_numFmtEl, v_qn, v_start, v_startEl))).
Proof. reflexivity. Qed.

Lemma snu_is_none_el : forall xe xks, py_is_none (enc_fel (AE xe xks)) = Ok (VBool false).
Proof. reflexivity. Qed.

Lemma snu_fmt_part_eq : forall {S} le lks (K : pv -> pv -> out S), tree_names_ok 2 (AE le lks) ->
  snu_fmt_part (enc_fel (AE le lks)) K
  = match children_w le lks s_numFmt with
    | Err x => Ex x
    | Ok nf => match snu_mfmt nf with
               | Ok fmt => K (snu_junk nf) (enc_ostr fmt)
               | Err x => Ex x
               end
    end.
Proof.
  intros S le lks K Ht. pose proof Ht as Ht'. cbn [tree_names_ok] in Ht'. destruct Ht' as [_ [Hlk _]].
  unfold snu_fmt_part. rewrite (snu_find_numFmt le lks Hlk). unfold snu_first.
  destruct (children_w le lks s_numFmt) as [nf|x] eqn:E; [|reflexivity].
  destruct nf as [|x r]; [reflexivity|].
  destruct (snu_children_ok 1 le lks s_numFmt (x :: r) Ht E x (or_introl eq_refl)) as [Hx [xe [xks Eq]]].
  subst x. cbn [tree_names_ok] in Hx. destruct Hx as [Ha _].
  cbn [binde]. rewrite snu_is_none_el. cbn [binde py_not py_truth negb].
  rewrite (sfo_attr_val xe xks Ha). unfold snu_mfmt. cbn [einfo_of bind snu_junk].
  destruct (attr_w_req xe s_val) as [v|x]; reflexivity.
Qed.

Lemma snu_start_part_eq : forall {S} le lks v_qn (K : pv -> pv -> pv -> out S), tree_names_ok 2 (AE le lks) ->
  snu_start_part (enc_fel (AE le lks)) v_qn K
  = match children_w le lks s_start with
    | Err x => Ex x
    | Ok st => match snu_mstart st with
               | Ok start => K (snu_junk st) (snu_qn st v_qn) (snu_enc_oz start)
               | Err x => Ex x
               end
    end.
Proof.
  intros S le lks v_qn K Ht. pose proof Ht as Ht'. cbn [tree_names_ok] in Ht'. destruct Ht' as [_ [Hlk _]].
  unfold snu_start_part. rewrite (snu_find_start le lks Hlk). unfold snu_first.
  destruct (children_w le lks s_start) as [st|x] eqn:E; [|reflexivity].
  destruct st as [|x r]; [reflexivity|].
  destruct (snu_children_ok 1 le lks s_start (x :: r) Ht E x (or_introl eq_refl)) as [Hx [xe [xks Eq]]].
  subst x. cbn [tree_names_ok] in Hx. destruct Hx as [Ha _].
  cbn [binde]. rewrite snu_is_none_el. cbn [binde py_not py_truth negb].
  rewrite (sfo_attr_val xe xks Ha). unfold snu_mstart. cbn [einfo_of bind snu_junk snu_qn].
  destruct (attr_w_req xe s_val) as [v|x]; [|reflexivity].
  cbn [lift_str binde py_int bind].
  destruct (int_of_str v) as [z|]; reflexivity.
Qed.

Lemma snu_append_entry : forall d id attrs x, dict_get id d = Some attrs ->
  py_update_path (enc_numtable d) [VStr id] (fun c_ => py_append c_ (enc_lvl x))
  = Ok (enc_numtable (dict_set id (attrs ++ [x]) d)).
Proof.
  intros d id attrs x Hg. cbn [py_update_path]. rewrite snu_index, Hg. cbn [bind py_append].
  change [enc_lvl x] with (map enc_lvl [x]). rewrite <- map_app. apply snu_setitem.
Qed.

Definition snu_live6 (s : pv * pv * pv * pv * pv * pv) : pv := let '(a, _, _, _, _, _) := s in a.

Lemma snu_lvl_step : forall le lks id d attrs s, tree_names_ok 2 (AE le lks) ->
  dict_get id d = Some attrs -> snu_live6 s = enc_numtable d ->
  snu_sim snu_live6 enc_numtable (snu_lvl_body (VStr id) (enc_fel (AE le lks)) s)
    (x <- collect_lvl (AE le lks) ;; Ok (dict_set id (attrs ++ [x]) d)).
Proof.
  intros le lks id d attrs s Ht Hg Hl.
  destruct s as [[[[[a b] c] dd] e'] f]. cbn [snu_live6] in Hl. subst a.
  rewrite snu_lvl_body_eq, snu_collect_lvl_eq, (snu_fmt_part_eq le lks _ Ht).
  destruct (children_w le lks s_numFmt) as [nf|x]; [|reflexivity].
  destruct (snu_mfmt nf) as [fmt|x]; [|reflexivity].
  rewrite (snu_start_part_eq le lks dd _ Ht).
  destruct (children_w le lks s_start) as [st|x]; [|reflexivity].
  destruct (snu_mstart st) as [start|x]; [|reflexivity].
  cbn [bind snu_sim].
  change (VObj n_NumIdAttrs [(n_fmt, enc_ostr fmt); (n_start, snu_enc_oz start)]) with (enc_lvl (fmt, start)).
  rewrite (snu_append_entry d id attrs (fmt, start) Hg). cbn [binde].
  eexists. split; [reflexivity|reflexivity].
Qed.

(* ---------- one w:abstractNum: its w:lvl children, appended one by one ---------- *)
Definition snu_live7 (s : pv * pv * pv * pv * pv * pv * pv) : pv := let '(a, _, _, _, _, _, _) := s in a.
Definition snu_abs_step (d : list (str * list (option str * option Z))) (an : anode)
  : res (list (str * list (option str * option Z))) :=
  ae <- einfo_of an ;;
  id <- attr_w_req ae s_abstractNumId ;;
  lvls <- children_w ae (kids_of an) s_lvl ;;
  attrs <- mapM collect_lvl lvls ;;
  Ok (dict_set id attrs d).
Definition snu_elem_ok (n : nat) (a : anode) : Prop := tree_names_ok n a /\ exists xe xks, a = AE xe xks.

Lemma snu_setitem_nil : forall d k,
  py_setitem (enc_numtable d) (VStr k) (VList []) = Ok (enc_numtable (dict_set k [] d)).
Proof. intros d k. exact (snu_setitem d k []). Qed.

Lemma snu_lvl_loop : forall id d lvls s, (forall a, In a lvls -> snu_elem_ok 2 a) ->
  snu_live6 s = enc_numtable (dict_set id [] d) ->
  snu_sim snu_live6 enc_numtable (for_go (snu_lvl_body (VStr id)) (map enc_fel lvls) s)
    (attrs <- mapM collect_lvl lvls ;; Ok (dict_set id attrs d)).
Proof.
  intros id d lvls s HP Hl.
  pose proof (snu_for_go snu_live6 (fun acc => enc_numtable (dict_set id acc d)) (snu_lvl_body (VStr id))
                (fun acc a => x <- collect_lvl a ;; Ok (acc ++ [x])) enc_fel (snu_elem_ok 2)) as Hgo.
  assert (Hstep : forall a acc s0, snu_elem_ok 2 a -> snu_live6 s0 = enc_numtable (dict_set id acc d) ->
            snu_sim snu_live6 (fun acc => enc_numtable (dict_set id acc d))
              (snu_lvl_body (VStr id) (enc_fel a) s0) (x <- collect_lvl a ;; Ok (acc ++ [x]))).
  { intros a acc s0 [Ha [le [lks Eq]]] Hl0. subst a.
    pose proof (snu_lvl_step le lks id (dict_set id acc d) acc s0 Ha (snu_dict_get_set id acc d) Hl0) as Hs.
    destruct (collect_lvl (AE le lks)) as [x|x]; cbn [bind snu_sim] in Hs |- *; [|exact Hs].
    rewrite snu_dict_set_set in Hs. exact Hs. }
  pose proof (Hgo Hstep lvls [] s HP Hl) as Hloop.
  rewrite snu_foldM_mapM in Hloop.
  destruct (mapM collect_lvl lvls) as [attrs|x]; cbn [bind snu_sim app] in Hloop |- *; exact Hloop.
Qed.

Lemma snu_abs_step_ok : forall a d s, snu_elem_ok 3 a -> snu_live7 s = enc_numtable d ->
  snu_sim snu_live7 enc_numtable (snu_abs_body (enc_fel a) s) (snu_abs_step d a).
Proof.
  intros a d s [Ht [ae [aks Eq]]] Hl. subst a.
  destruct s as [[[[[[dv b] c] dd] e'] f] g]. cbn [snu_live7] in Hl. subst dv.
  pose proof Ht as Ht'. cbn [tree_names_ok] in Ht'. destruct Ht' as [Ha [Hk _]].
  unfold snu_abs_body, snu_abs_step. cbv beta iota zeta. cbn [einfo_of kids_of bind].
  rewrite (snu_attr_abstractNumId ae aks Ha).
  destruct (attr_w_req ae s_abstractNumId) as [id|x]; cbn [lift_str binde bind]; [|reflexivity].
  cbn [S_str_1 py_str binde py_update_path]. rewrite snu_setitem_nil. cbn [binde].
  rewrite (snu_findall_lvl ae aks Hk). unfold snu_all.
  destruct (children_w ae aks s_lvl) as [lvls|x] eqn:El; cbn [binde bind]; [|reflexivity].
  unfold py_for. cbn [py_iter binde].
  assert (HP : forall x, In x lvls -> snu_elem_ok 2 x).
  { intros x Hin. exact (snu_children_ok 2 ae aks s_lvl lvls Ht El x Hin). }
  pose proof (snu_lvl_loop id d lvls (enc_numtable (dict_set id [] d), b, dd, e', f, g) HP eq_refl) as Hloop.
  destruct (mapM collect_lvl lvls) as [attrs|x]; cbn [bind snu_sim] in Hloop |- *.
  - destruct Hloop as [s1 [E1 L1]]. rewrite E1. cbn [bindo].
    destruct s1 as [[[[[dv1 b1] c1] d1] e1] f1]. cbn [snu_live6] in L1. subst dv1.
    eexists. split; reflexivity.
  - rewrite Hloop. reflexivity.
Qed.

(* ---------- one w:num ---------- *)
Definition snu_live4 (s : pv * pv * pv * pv) : pv := let '(_, _, _, a) := s in a.
Definition snu_num_step (abs d : list (str * list (option str * option Z))) (num : anode)
  : res (list (str * list (option str * option Z))) :=
  ne <- einfo_of num ;;
  numId <- attr_w_req ne s_numId ;;
  an <- children_w ne (kids_of num) s_abstractNumId ;;
  match an with
  | [] => Ok d
  | x :: _ =>
      xe <- einfo_of x ;;
      v <- attr_w_req xe s_val ;;
      attrs <- of_opt KeyError (dict_get v abs) ;;
      Ok (dict_set numId attrs d)
  end.

Lemma snu_num_step_ok : forall abs a d s, snu_elem_ok 2 a -> snu_live4 s = enc_numtable d ->
  snu_sim snu_live4 enc_numtable (snu_num_body (enc_numtable abs) (enc_fel a) s) (snu_num_step abs d a).
Proof.
  intros abs a d s [Ht [ne [nks Eq]]] Hl. subst a.
  destruct s as [[[b c] dd] dv]. cbn [snu_live4] in Hl. subst dv.
  pose proof Ht as Ht'. cbn [tree_names_ok] in Ht'. destruct Ht' as [Ha [Hk _]].
  unfold snu_num_body, snu_num_step. cbv beta iota zeta. cbn [einfo_of kids_of bind].
  rewrite (snu_attr_numId ne nks Ha).
  destruct (attr_w_req ne s_numId) as [numId|x]; cbn [lift_str binde bind]; [|reflexivity].
  rewrite (snu_find_abstractNumId ne nks Hk). unfold snu_first.
  destruct (children_w ne nks s_abstractNumId) as [an|x] eqn:E; cbn [binde bind]; [|reflexivity].
  destruct an as [|x r].
  - cbn [binde py_is_none py_truth snu_sim]. eexists. split; reflexivity.
  - destruct (snu_children_ok 1 ne nks s_abstractNumId (x :: r) Ht E x (or_introl eq_refl)) as [Hx [xe [xks Eq]]].
    subst x. cbn [tree_names_ok] in Hx. destruct Hx as [Hxa _].
    cbn [binde]. rewrite snu_is_none_el. cbn [binde py_truth].
    rewrite (sfo_attr_val xe xks Hxa). cbn [einfo_of bind].
    destruct (attr_w_req xe s_val) as [v|x]; cbn [lift_str binde bind S_str_1 py_str]; [|reflexivity].
    rewrite snu_index.
    destruct (dict_get v abs) as [attrs|]; cbn [of_opt binde bind S_str_1 py_str py_update_path]; [|reflexivity].
    rewrite snu_setitem. cbn [binde snu_sim]. eexists. split; reflexivity.
Qed.

Lemma snu_collect_eq : forall e ks,
  collect_numAttrs (AE e ks)
  = (ans <- children_w e ks s_abstractNum ;;
     abs <- foldM snu_abs_step ans [] ;;
     nums <- children_w e ks s_num ;;
     foldM (snu_num_step abs) nums []).
Proof. reflexivity. Qed.

Theorem src_collect_numAttrs : forall e ks, tree_names_ok 4 (AE e ks) ->
  S_collect_numAttrs (enc_fel (AE e ks))
  = match collect_numAttrs (AE e ks) with Ok d => Ok (enc_numtable d) | Err x => Err x end.
Proof.
  intros e ks Ht. rewrite snu_unfold, snu_collect_eq.
  pose proof Ht as Ht'. cbn [tree_names_ok] in Ht'. destruct Ht' as [_ [Hk _]].
  rewrite (snu_findall_abstractNum e ks Hk). unfold snu_all.
  destruct (children_w e ks s_abstractNum) as [ans|x] eqn:Ea; cbn [binde bind]; [|reflexivity].
  unfold py_for at 1. cbn [py_iter binde].
  assert (HP : forall x, In x ans -> snu_elem_ok 3 x).
  { intros x Hin. exact (snu_children_ok 3 e ks s_abstractNum ans Ht Ea x Hin). }
  pose proof (snu_for_go snu_live7 enc_numtable snu_abs_body snu_abs_step enc_fel (snu_elem_ok 3)
                (fun a d s => snu_abs_step_ok a d s) ans []
                (VDict None [], VNone, VNone, VNone, VNone, VNone, VNone) HP eq_refl) as H1.
  destruct (foldM snu_abs_step ans []) as [abs|x]; cbn [bind snu_sim] in H1 |- *.
  - destruct H1 as [s1 [E1 L1]]. rewrite E1. cbn [bindo].
    destruct s1 as [[[[[[dv1 b1] c1] d1] e1] f1] g1]. cbn [snu_live7] in L1. subst dv1.
    rewrite (snu_findall_num e ks Hk). unfold snu_all.
    destruct (children_w e ks s_num) as [nums|x] eqn:En; cbn [binde bind]; [|reflexivity].
    unfold py_for. cbn [py_iter binde].
    assert (HP2 : forall x, In x nums -> snu_elem_ok 2 x).
    { intros x Hin. destruct (snu_children_ok 3 e ks s_num nums Ht En x Hin) as [Hx Hae].
      split; [exact (sbu_tree_names_le 2 x Hx)|exact Hae]. }
    pose proof (snu_for_go snu_live4 enc_numtable (snu_num_body (enc_numtable abs)) (snu_num_step abs) enc_fel
                  (snu_elem_ok 2) (fun a d s => snu_num_step_ok abs a d s) nums []
                  (VNone, VNone, VNone, VDict None []) HP2 eq_refl) as H2.
    destruct (foldM (snu_num_step abs) nums []) as [res|x]; cbn [snu_sim] in H2 |- *.
    + destruct H2 as [s2 [E2 L2]]. rewrite E2. cbn [bindo].
      destruct s2 as [[[a2 b2] c2] dv2]. cbn [snu_live4] in L2. subst dv2. reflexivity.
    + rewrite H2. reflexivity.
  - rewrite H1. reflexivity.
Qed.

Print Assumptions src_find_by_qn_w.
Print Assumptions src_findall_by_qn_w.
Print Assumptions src_collect_numAttrs.
