(* SourceForms.v — forms.get_checkBox_entry / get_ddList_entry and namespace.get_attrib_by_qn /
   iterfind_by_qn AS TRANSLATED FROM THE SOURCE TEXT (gen/Source.v; nested function with a closure over
   the parameter, `with suppress(StopIteration, KeyError)` with a return inside, try / except, a dict
   display indexed by the result, int()) are equal to the model's get_checkBox_entry / get_ddList_entry
   (model/Walk.v), which C13's "on/off spellings, empty drop-downs degrade to a fallback string" and the
   form clauses of C02 are about.  Elements are read as in SourceFmt.v (enc_fel: tag, localname, nsmap,
   attrib, children); local names are NCNames (no brace). *)
From Coq Require Import List NArith ZArith Bool Arith Lia.
From D2P Require Import Str Err Xml TableTypes Tables Fmt Bullets Merge Collector Walk PyVal Source SourceBase SourceElem.
Import ListNotations.

(* names below the form element: its children's local names and their attributes' local names hold no brace *)
Definition form_names_ok (ks : list anode) : Prop :=
  kid_names_ok ks /\ forall e ks', In (AE e ks') ks -> attr_names_ok e.

(* ---------- names ---------- *)
Ltac sfo_notin :=
  let H := fresh "H" in
  cbn [In]; intro H; repeat (destruct H as [H|H]; [discriminate H|]); exact H.
Ltac sfo_names :=
  unfold braceless, s_val, s_checked, s_default, s_listEntry, s_result;
  repeat split; sfo_notin.

Lemma sfo_no58_val : ~ In 58%N s_val. Proof. sfo_names. Qed.
Lemma sfo_braceless_val : braceless s_val. Proof. sfo_names. Qed.
Lemma sfo_no58_checked : ~ In 58%N s_checked. Proof. sfo_names. Qed.
Lemma sfo_braceless_checked : braceless s_checked. Proof. sfo_names. Qed.
Lemma sfo_no58_default : ~ In 58%N s_default. Proof. sfo_names. Qed.
Lemma sfo_braceless_default : braceless s_default. Proof. sfo_names. Qed.
Lemma sfo_no58_listEntry : ~ In 58%N s_listEntry. Proof. sfo_names. Qed.
Lemma sfo_braceless_listEntry : braceless s_listEntry. Proof. sfo_names. Qed.
Lemma sfo_no58_result : ~ In 58%N s_result. Proof. sfo_names. Qed.
Lemma sfo_braceless_result : braceless s_result. Proof. sfo_names. Qed.

Lemma sfo_attr_core : forall (e : einfo) (name : str) (u : str), braceless name -> attr_names_ok e ->
  fn_result (S:=unit) (
    t3 <~ py_index (VDict None (map (fun kv => (VStr (fclark (fst kv)), VStr (snd kv))) (e_attrs e)))
                   (VStr (fclark (Some u, name))) ;;;
    Rt t3)
  = lift_str (of_opt KeyError (alookup (Some u, name) (e_attrs e))).
Proof.
  intros e name u Hb Ha. cbn [py_index].
  rewrite (sf_assoc_attrs (Some u, name) (e_attrs e) Hb Ha).
  destruct (alookup (Some u, name) (e_attrs e)) as [v|]; reflexivity.
Qed.

(* elem.attrib[qn(elem, "w:NAME")] *)
Theorem src_get_attrib_by_qn_w : forall e ks name, ~ In 58%N name -> braceless name -> attr_names_ok e ->
  S_get_attrib_by_qn (enc_fel (AE e ks)) (VStr ([119; 58]%N ++ name)) = lift_str (attr_w_req e name).
Proof.
  intros e ks name Hn Hb Ha. unfold S_get_attrib_by_qn.
  rewrite sf_attr_attrib. cbn [binde]. rewrite (src_qn_w e ks name Hn).
  unfold attr_w_req, attr_w.
  destruct (e_wuri e) as [u|]; cbn [binde bind]; [|reflexivity].
  exact (sfo_attr_core e name u Hb Ha).
Qed.

(* list(iterfind_by_qn(elem, "w:NAME")) = the model's children_w *)
Theorem src_iterfind_by_qn_w : forall e ks name, ~ In 58%N name -> braceless name -> kid_names_ok ks ->
  S_iterfind_by_qn (enc_fel (AE e ks)) (VStr ([119; 58]%N ++ name))
  = match children_w e ks name with Ok l => Ok (VList (map enc_fel l)) | Err x => Err x end.
Proof.
  intros e ks name Hn Hb Hk. unfold S_iterfind_by_qn. cbv zeta.
  rewrite (src_qn_w e ks name Hn). unfold children_w.
  destruct (e_wuri e) as [u|]; cbn [binde]; [|reflexivity].
  change (@pair (option str) (list N) (Some u) name) with (@pair (option str) str (Some u) name).
  rewrite (sf_iterfind e ks (Some u) name Hb Hk).
  cbn [binde py_list py_iter bind py_add app fn_result]. reflexivity.
Qed.

(* the instances the forms use, spelled as in the generated text *)
Definition sfo_kids (e : einfo) (ks : list anode) (name : str) : res pv :=
  match e_wuri e with
  | Some u => Ok (VList (map enc_fel (find_children (Some u) name ks)))
  | None => Err KeyError
  end.
Lemma sfo_iterfind_kids : forall e ks name, ~ In 58%N name -> braceless name -> kid_names_ok ks ->
  S_iterfind_by_qn (enc_fel (AE e ks)) (VStr ([119; 58]%N ++ name)) = sfo_kids e ks name.
Proof.
  intros e ks name Hn Hb Hk. rewrite (src_iterfind_by_qn_w e ks name Hn Hb Hk).
  unfold children_w, sfo_kids. destruct (e_wuri e); reflexivity.
Qed.
Lemma sfo_if_checked : forall e ks, kid_names_ok ks ->
  S_iterfind_by_qn (enc_fel (AE e ks)) (VStr [119;58;99;104;101;99;107;101;100]%N) = sfo_kids e ks s_checked.
Proof. intros e ks Hk. exact (sfo_iterfind_kids e ks s_checked sfo_no58_checked sfo_braceless_checked Hk). Qed.
Lemma sfo_if_default : forall e ks, kid_names_ok ks ->
  S_iterfind_by_qn (enc_fel (AE e ks)) (VStr [119;58;100;101;102;97;117;108;116]%N) = sfo_kids e ks s_default.
Proof. intros e ks Hk. exact (sfo_iterfind_kids e ks s_default sfo_no58_default sfo_braceless_default Hk). Qed.
Lemma sfo_if_listEntry : forall e ks, kid_names_ok ks ->
  S_iterfind_by_qn (enc_fel (AE e ks)) (VStr [119;58;108;105;115;116;69;110;116;114;121]%N) = sfo_kids e ks s_listEntry.
Proof. intros e ks Hk. exact (sfo_iterfind_kids e ks s_listEntry sfo_no58_listEntry sfo_braceless_listEntry Hk). Qed.
Lemma sfo_if_result : forall e ks, kid_names_ok ks ->
  S_iterfind_by_qn (enc_fel (AE e ks)) (VStr [119;58;114;101;115;117;108;116]%N) = sfo_kids e ks s_result.
Proof. intros e ks Hk. exact (sfo_iterfind_kids e ks s_result sfo_no58_result sfo_braceless_result Hk). Qed.
Lemma sfo_attr_val : forall e ks, attr_names_ok e ->
  S_get_attrib_by_qn (enc_fel (AE e ks)) (VStr [119;58;118;97;108]%N) = lift_str (attr_w_req e s_val).
Proof. intros e ks Ha. exact (src_get_attrib_by_qn_w e ks s_val sfo_no58_val sfo_braceless_val Ha). Qed.

(* elem.attrib[...] raises nothing but KeyError *)
Lemma sfo_attr_w_req_err : forall e name x, attr_w_req e name = Err x -> x = KeyError.
Proof.
  intros e name x. unfold attr_w_req, attr_w.
  destruct (e_wuri e) as [u|]; cbn [bind].
  - destruct (alookup (Some u, name) (e_attrs e)); cbn [of_opt]; intro H; inversion H; reflexivity.
  - intro H; inversion H; reflexivity.
Qed.

(* ---------- get_checkBox_entry ---------- *)
Definition sfo_wval (e : einfo) (ks : list anode) : res (option str) :=
  chk <- children_w e ks s_checked ;;
  match chk with
  | AE ce _ :: _ =>
      v <- attr_w ce s_val ;;
      Ok (Some (match v with Some (c :: r) => c :: r | _ => [49]%N end))
  | _ =>
      Ok (match children_w e ks s_default with
          | Ok (AE de _ :: _) =>
              match attr_w_req de s_val with Ok x => Some x | Err _ => None end
          | _ => None
          end)
  end.

Lemma sfo_checkBox_wval : forall e ks,
  get_checkBox_entry e ks
  = wval <- sfo_wval e ks ;;
    match wval with
    | None => Ok checkbox_none
    | Some w => of_opt KeyError (dict_get w checkbox_table)
    end.
Proof.
  intros e ks. unfold get_checkBox_entry, sfo_wval.
  destruct (children_w e ks s_checked) as [chk|x]; reflexivity.
Qed.

Lemma sfo_get_wval : forall e ks, form_names_ok ks ->
  S_get_checkBox_entry_get_wval (enc_fel (AE e ks))
  = match sfo_wval e ks with Ok o => Ok (enc_opt o) | Err x => Err x end.
Proof.
  intros e ks [Hk Ha]. unfold S_get_checkBox_entry_get_wval, sfo_wval, children_w.
  rewrite (sfo_if_checked e ks Hk), (sfo_if_default e ks Hk). unfold sfo_kids.
  destruct (e_wuri e) as [u|]; [|reflexivity].
  cbn [bind binde].
  pose proof (sf_find_children_in (Some u) s_checked ks) as Hin.
  destruct (find_children (Some u) s_checked ks) as [|c rest].
  - cbn [map py_next py_iter bind binde py_suppress exn_eqb exn_code Nat.eqb bindo].
    pose proof (sf_find_children_in (Some u) s_default ks) as Hin2.
    destruct (find_children (Some u) s_default ks) as [|d rest2]; [reflexivity|].
    destruct (Hin2 d (or_introl eq_refl)) as [Hd [de [dks Ed]]]. subst d.
    cbn [map py_next py_iter bind binde].
    rewrite (sfo_attr_val de dks (Ha de dks Hd)).
    pose proof (sfo_attr_w_req_err de s_val) as Herr.
    destruct (attr_w_req de s_val) as [x|x]; [reflexivity|].
    rewrite (Herr x eq_refl). reflexivity.
  - destruct (Hin c (or_introl eq_refl)) as [Hc [ce [cks Ec]]]. subst c.
    cbn [map py_next py_iter bind binde].
    rewrite sf_attr_attrib. cbn [binde]. rewrite sf_qn_w_val.
    unfold attr_w. destruct (e_wuri ce) as [cu|]; [|reflexivity].
    cbn [binde bind py_dict_get].
    rewrite (sf_assoc_attrs (Some cu, s_val) (e_attrs ce) sfo_braceless_val (Ha ce cks Hc)).
    destruct (alookup (Some cu, s_val) (e_attrs ce)) as [[|ch s]|]; reflexivity.
Qed.

Definition sfo_enc_tbl (t : list (str * str)) : list (pv * pv) :=
  map (fun kv => (VStr (fst kv), VStr (snd kv))) t.

Lemma sfo_assoc_str : forall w t v,
  assoc (VStr w) (sfo_enc_tbl t ++ [(VNone, v)]) = option_map VStr (dict_get w t).
Proof.
  intros w t v. unfold sfo_enc_tbl.
  induction t as [|[k x] r IH]; cbn [map app assoc dict_get fst snd]; [reflexivity|].
  rewrite sf_pv_eqb_str. destruct (str_eqb w k); [reflexivity|exact IH].
Qed.
Lemma sfo_assoc_none : forall t v, assoc VNone (sfo_enc_tbl t ++ [(VNone, v)]) = Some v.
Proof.
  intros t v. unfold sfo_enc_tbl.
  induction t as [|[k x] r IH]; cbn [map app assoc fst snd]; [reflexivity|].
  cbn [pv_eqb]. exact IH.
Qed.

Lemma sfo_cb_index : forall o,
  py_index (VDict None [((VStr ([48]%N)), (VStr ([9744]%N))); ((VStr ([102;97;108;115;101]%N)), (VStr ([9744]%N))); ((VStr ([49]%N)), (VStr ([9746]%N))); ((VStr ([116;114;117;101]%N)), (VStr ([9746]%N))); ((VStr ([111;110]%N)), (VStr ([9746]%N))); ((VStr ([111;102;102]%N)), (VStr ([9744]%N))); (VNone, (VStr ([45;45;45;45;99;104;101;99;107;98;111;120;32;102;97;105;108;101;100;45;45;45;45]%N)))])
    (enc_opt o)
  = lift_str (match o with
              | None => Ok checkbox_none
              | Some w => of_opt KeyError (dict_get w checkbox_table)
              end).
Proof.
  intro o.
  change (VDict None _) with (VDict None (sfo_enc_tbl checkbox_table ++ [(VNone, VStr checkbox_none)])).
  cbn [py_index]. destruct o as [w|]; cbn [enc_opt].
  - rewrite sfo_assoc_str. destruct (dict_get w checkbox_table); reflexivity.
  - rewrite sfo_assoc_none. reflexivity.
Qed.

Theorem src_get_checkBox_entry : forall e ks, form_names_ok ks ->
  S_get_checkBox_entry (enc_fel (AE e ks)) = lift_str (get_checkBox_entry e ks).
Proof.
  intros e ks H. unfold S_get_checkBox_entry.
  rewrite (sfo_get_wval e ks H), sfo_checkBox_wval.
  destruct (sfo_wval e ks) as [o|x]; cbn [binde bind]; [|reflexivity].
  rewrite sfo_cb_index.
  destruct (match o with
            | Some w => of_opt KeyError (dict_get w checkbox_table)
            | None => Ok checkbox_none
            end) as [s|x]; reflexivity.
Qed.

(* ---------- get_ddList_entry ---------- *)
Lemma sfo_comp_vals : forall l,
  (forall k, In k l -> exists ke kks, k = AE ke kks /\ attr_names_ok ke) ->
  comp_go always (fun t3 => t4 <- S_get_attrib_by_qn t3 (VStr [119;58;118;97;108]%N) ;; Ok [t4]) (map enc_fel l)
  = match mapM (fun k => match k with
                         | AE ke _ => attr_w_req ke s_val
                         | AX _ => Err ModelError
                         end) l with
    | Ok vs => Ok (map VStr vs)
    | Err x => Err x
    end.
Proof.
  induction l as [|k r IH]; intro H; cbn [map comp_go mapM]; [reflexivity|].
  destruct (H k (or_introl eq_refl)) as [ke [kks [Ek Hke]]]. subst k.
  cbn [always bind py_truth]. rewrite (sfo_attr_val ke kks Hke).
  destruct (attr_w_req ke s_val) as [v|x]; cbn [lift_str bind]; [|reflexivity].
  rewrite IH; [|intros k Hin; apply H; right; exact Hin].
  destruct (mapM _ r) as [vs|x]; reflexivity.
Qed.

Lemma sfo_index_nth : forall (vals : list str) idx,
  py_index (VList (map VStr vals)) (VInt idx)
  = match py_nth vals idx with Some x => Ok (VStr x) | None => Err IndexError end.
Proof.
  intros vals idx. cbn [py_index int_like]. rewrite map_length.
  unfold norm_index, py_nth. cbv zeta.
  destruct (0 <=? idx)%Z eqn:E0.
  - apply Z.leb_le in E0.
    destruct (idx <? 0)%Z eqn:E1; [apply Z.ltb_lt in E1; lia|].
    rewrite E1. cbn [orb]. rewrite Z.leb_antisym.
    destruct (idx <? Z.of_nat (length vals))%Z; cbn [negb]; [|reflexivity].
    rewrite nth_error_map. destruct (nth_error vals (Z.to_nat idx)); reflexivity.
  - apply Z.leb_gt in E0.
    rewrite (proj2 (Z.ltb_lt idx 0) E0).
    rewrite (Z.ltb_antisym 0 (Z.of_nat (length vals) + idx)).
    destruct (0 <=? Z.of_nat (length vals) + idx)%Z; cbn [negb orb]; [|reflexivity].
    rewrite (proj2 (Z.leb_gt (Z.of_nat (length vals)) (Z.of_nat (length vals) + idx))) by lia.
    rewrite nth_error_map.
    destruct (nth_error vals (Z.to_nat (Z.of_nat (length vals) + idx))); reflexivity.
Qed.

(* try: list_entries[list_index] except IndexError: "" *)
Lemma sfo_tail : forall (vals : list str) idx,
  fn_result (S:=unit) (
    'tt <~~ py_try (
      t9 <~ py_index (VList (map VStr vals)) (VInt idx) ;;;
      t10 <~ S_str t9 ;;;
      Rt t10
    ) [IndexError] (
      Rt (VStr ([]%N))
    ) ;;;
    Rt VNone)
  = Ok (VStr (match py_nth vals idx with Some x => x | None => [] end)).
Proof.
  intros vals idx. rewrite sfo_index_nth.
  destruct (py_nth vals idx) as [x|]; reflexivity.
Qed.

Theorem src_get_ddList_entry : forall e ks, form_names_ok ks ->
  S_get_ddList_entry (enc_fel (AE e ks)) = lift_str (get_ddList_entry e ks).
Proof.
  intros e ks [Hk Ha]. unfold S_get_ddList_entry, get_ddList_entry, children_w. cbv zeta.
  rewrite (sfo_if_listEntry e ks Hk), (sfo_if_result e ks Hk). unfold sfo_kids.
  destruct (e_wuri e) as [u|]; [|reflexivity].
  cbn [bind binde]. unfold py_comp. cbn [py_iter bind].
  rewrite sfo_comp_vals.
  2:{ intros k Hin. destruct (sf_find_children_in _ _ _ _ Hin) as [Hks [ke [kks Ek]]]. subst k.
      exists ke, kks. split; [reflexivity|exact (Ha ke kks Hks)]. }
  destruct (mapM _ (find_children (Some u) s_listEntry ks)) as [vals|x]; [|reflexivity].
  cbn [binde bind].
  pose proof (sf_find_children_in (Some u) s_result ks) as Hin.
  destruct (find_children (Some u) s_result ks) as [|r rest].
  - exact (sfo_tail vals 0%Z).
  - destruct (Hin r (or_introl eq_refl)) as [Hr [re [rks Er]]]. subst r.
    cbn [map py_next py_iter bind binde].
    rewrite (sfo_attr_val re rks (Ha re rks Hr)).
    pose proof (sfo_attr_w_req_err re s_val) as Herr.
    destruct (attr_w_req re s_val) as [sv|x].
    + cbn [lift_str binde py_int]. destruct (int_of_str sv) as [z|].
      * exact (sfo_tail vals z).
      * reflexivity.
    + rewrite (Herr x eq_refl). exact (sfo_tail vals 0%Z).
Qed.

Print Assumptions src_get_attrib_by_qn_w.
Print Assumptions src_iterfind_by_qn_w.
Print Assumptions src_get_checkBox_entry.
Print Assumptions src_get_ddList_entry.
