(* SerialFacts.v — property C18: the extraction does not depend on
   serialisation-level choices of the XML.

   A. the view only resolves the prefixes w and r, and commutes with a
      consistent renaming of namespace URIs;
   B. every accessor the model uses commutes with an injective renaming;
   C. attribute order is unobservable (attributes are read through alookup);
   D. merge_elems commutes with an injective renaming, and walk/collect_from
      give EQUAL collector states on the renamed tree. *)
From Coq Require Import List NArith ZArith Bool Arith Lia Permutation.
From D2P Require Import Str Err Xml TableTypes Tables Fmt NumFmt Bullets Merge Collector Walk.
From D2P Require Import BulletsFacts.
Import ListNotations.
Open Scope N_scope.

(* ------------------------------------------------------------------ *)
(* definitions                                                         *)
(* ------------------------------------------------------------------ *)
Definition ren_o (f : str -> str) (o : option str) : option str := option_map f o.
Definition ren_attrs (f : str -> str) (a : list (aname * str)) : list (aname * str) :=
  map (fun kv => ((ren_o f (fst (fst kv)), snd (fst kv)), snd kv)) a.
(* the same document with every namespace URI u replaced by f u, consistently
   (e.g. transitional -> strict ISO URIs) *)
Fixpoint rename_uris (f : str -> str) (r : rnode) : rnode :=
  match r with
  | RX tl => RX tl
  | RE p u l m a tx tl ks =>
      RE p (ren_o f u) l (map (fun pu => (fst pu, f (snd pu))) m) (ren_attrs f a) tx tl (map (rename_uris f) ks)
  end.
Definition ren_einfo (f : str -> str) (e : einfo) : einfo :=
  {| e_ptag := e_ptag e; e_uri := ren_o f (e_uri e); e_local := e_local e;
     e_wuri := ren_o f (e_wuri e); e_ruri := ren_o f (e_ruri e);
     e_attrs := ren_attrs f (e_attrs e); e_text := e_text e; e_tail := e_tail e |}.
Fixpoint arename (f : str -> str) (t : anode) : anode :=
  match t with AX tl => AX tl | AE e ks => AE (ren_einfo f e) (map (arename f) ks) end.
Definition injective (f : str -> str) : Prop := forall a b, f a = f b -> a = b.

(* ------------------------------------------------------------------ *)
(* nested induction principles, small monad lemmas                      *)
(* ------------------------------------------------------------------ *)
Lemma anode_ind' (P : anode -> Prop) :
  (forall tl, P (AX tl)) -> (forall e ks, Forall P ks -> P (AE e ks)) -> forall t, P t.
Proof.
  intros HX HE. fix IH 1. intros [e ks|tl].
  - apply HE.
    exact ((fix go (l : list anode) : Forall P l :=
              match l with
              | [] => Forall_nil P
              | x :: r => Forall_cons x (IH x) (go r)
              end) ks).
  - apply HX.
Qed.

Lemma rnode_ind' (P : rnode -> Prop) :
  (forall tl, P (RX tl)) ->
  (forall p u l m a tx tl ks, Forall P ks -> P (RE p u l m a tx tl ks)) -> forall r, P r.
Proof.
  intros HX HE. fix IH 1. intros [p u l m a tx tl ks|tl].
  - apply HE.
    exact ((fix go (l0 : list rnode) : Forall P l0 :=
              match l0 with
              | [] => Forall_nil P
              | x :: r => Forall_cons x (IH x) (go r)
              end) ks).
  - apply HX.
Qed.

Definition res_map {A B} (g : A -> B) (r : res A) : res B :=
  match r with Ok a => Ok (g a) | Err x => Err x end.

Lemma mapM_map_ext : forall {A B C} (g : B -> res C) (h : A -> B) (g' : A -> res C) l,
  (forall x, g (h x) = g' x) -> mapM g (map h l) = mapM g' l.
Proof.
  intros A B C g h g' l H. induction l as [|x l IH]; cbn [map mapM]; [reflexivity|].
  rewrite H, IH. reflexivity.
Qed.

Lemma foldM_map_ext : forall {A B S} (g : S -> B -> res S) (h : A -> B) (g' : S -> A -> res S) l s,
  (forall s x, g s (h x) = g' s x) -> foldM g (map h l) s = foldM g' l s.
Proof.
  intros A B S g h g' l s H. revert s. induction l as [|x l IH]; intro s; cbn [map foldM]; [reflexivity|].
  rewrite H. destruct (g' s x); cbn [bind]; [apply IH|reflexivity].
Qed.

(* ------------------------------------------------------------------ *)
(* PART A — the view                                                   *)
(* ------------------------------------------------------------------ *)
Lemma ns_lookup_rename : forall f p m,
  ns_lookup p (map (fun pu => (fst pu, f (snd pu))) m) = ren_o f (ns_lookup p m).
Proof.
  intros f p m. induction m as [|[q u] m IH]; cbn [map ns_lookup fst snd]; [reflexivity|].
  destruct (ostr_eqb p q); [reflexivity|exact IH].
Qed.

Lemma view_rename : forall f r, view (rename_uris f r) = arename f (view r).
Proof.
  intro f. apply rnode_ind'.
  - reflexivity.
  - intros p u l m a tx tl ks HF. cbn [rename_uris view arename]. f_equal.
    + unfold ren_einfo. cbn [e_ptag e_uri e_local e_wuri e_ruri e_attrs e_text e_tail].
      rewrite !ns_lookup_rename. reflexivity.
    + rewrite !map_map. apply map_ext_Forall. exact HF.
Qed.

Lemma view_ignores_other_prefixes : forall p u l m m' a tx tl ks,
  ns_lookup (Some s_w) m = ns_lookup (Some s_w) m' ->
  ns_lookup (Some s_r) m = ns_lookup (Some s_r) m' ->
  view (RE p u l m a tx tl ks) = view (RE p u l m' a tx tl ks).
Proof.
  intros p u l m m' a tx tl ks Hw Hr. cbn [view]. rewrite Hw, Hr. reflexivity.
Qed.

(* ------------------------------------------------------------------ *)
(* PART B — accessors commute with an injective renaming               *)
(* ------------------------------------------------------------------ *)
Lemma str_eqb_inj : forall f, injective f -> forall a b, str_eqb (f a) (f b) = str_eqb a b.
Proof.
  intros f Hf a b. destruct (str_eqb a b) eqn:E.
  - apply str_eqb_eq in E. subst. apply str_eqb_refl.
  - apply str_eqb_neq. apply str_eqb_neq in E. intro H. apply E, Hf, H.
Qed.

Lemma ostr_eqb_rename : forall f, injective f ->
  forall a b, ostr_eqb (ren_o f a) (ren_o f b) = ostr_eqb a b.
Proof.
  intros f Hf [a|] [b|]; cbn; try reflexivity. apply str_eqb_inj, Hf.
Qed.

Lemma aname_eqb_rename : forall f, injective f ->
  forall u n u' n', aname_eqb (ren_o f u, n) (ren_o f u', n') = aname_eqb (u, n) (u', n').
Proof.
  intros f Hf u n u' n'. unfold aname_eqb. cbn [fst snd].
  rewrite ostr_eqb_rename by exact Hf. reflexivity.
Qed.

Lemma alookup_rename : forall f, injective f ->
  forall u n a, alookup (ren_o f u, n) (ren_attrs f a) = alookup (u, n) a.
Proof.
  intros f Hf u n a. unfold ren_attrs.
  induction a as [|[[u' n'] val] a IH]; cbn [map alookup fst snd]; [reflexivity|].
  rewrite aname_eqb_rename by exact Hf. rewrite IH. reflexivity.
Qed.

Lemma attr_w_rename : forall f e n, injective f -> attr_w (ren_einfo f e) n = attr_w e n.
Proof.
  intros f e n Hf. unfold attr_w. cbn [ren_einfo e_wuri e_attrs].
  destruct (e_wuri e) as [u|]; cbn [ren_o option_map]; [|reflexivity].
  f_equal. exact (alookup_rename f Hf (Some u) n (e_attrs e)).
Qed.

Lemma attr_r_rename : forall f e n, injective f -> attr_r (ren_einfo f e) n = attr_r e n.
Proof.
  intros f e n Hf. unfold attr_r. cbn [ren_einfo e_ruri e_attrs].
  destruct (e_ruri e) as [u|]; cbn [ren_o option_map]; [|reflexivity].
  f_equal. exact (alookup_rename f Hf (Some u) n (e_attrs e)).
Qed.

Lemma attr_w_req_rename : forall f e n, injective f -> attr_w_req (ren_einfo f e) n = attr_w_req e n.
Proof. intros f e n Hf. unfold attr_w_req. rewrite attr_w_rename by exact Hf. reflexivity. Qed.

Lemma attr_r_req_rename : forall f e n, injective f -> attr_r_req (ren_einfo f e) n = attr_r_req e n.
Proof. intros f e n Hf. unfold attr_r_req. rewrite attr_r_rename by exact Hf. reflexivity. Qed.

Lemma attr_plain_rename : forall f e n, injective f -> attr_plain (ren_einfo f e) n = attr_plain e n.
Proof.
  intros f e n Hf. unfold attr_plain. cbn [ren_einfo e_attrs].
  exact (alookup_rename f Hf None n (e_attrs e)).
Qed.

Lemma is_elem_named_rename : forall f, injective f ->
  forall u l t, is_elem_named (ren_o f u) l (arename f t) = is_elem_named u l t.
Proof.
  intros f Hf u l [e ks|tl]; cbn [arename is_elem_named ren_einfo e_uri e_local]; [|reflexivity].
  rewrite ostr_eqb_rename by exact Hf. reflexivity.
Qed.

Lemma find_children_rename : forall f, injective f ->
  forall u l ks, find_children (ren_o f u) l (map (arename f) ks) = map (arename f) (find_children u l ks).
Proof.
  intros f Hf u l ks. unfold find_children.
  induction ks as [|k ks IH]; cbn [map filter]; [reflexivity|].
  rewrite is_elem_named_rename by exact Hf.
  destruct (is_elem_named u l k); cbn [map]; rewrite IH; reflexivity.
Qed.

Lemma find_child_rename : forall f, injective f ->
  forall u l ks, find_child (ren_o f u) l (map (arename f) ks) = option_map (arename f) (find_child u l ks).
Proof.
  intros f Hf u l ks. unfold find_child. rewrite find_children_rename by exact Hf.
  destruct (find_children u l ks); reflexivity.
Qed.

Lemma children_w_rename : forall f e ks n, injective f ->
  children_w (ren_einfo f e) (map (arename f) ks) n = res_map (map (arename f)) (children_w e ks n).
Proof.
  intros f e ks n Hf. unfold children_w. cbn [ren_einfo e_wuri].
  destruct (e_wuri e) as [u|]; cbn [ren_o option_map res_map]; [|reflexivity].
  f_equal. exact (find_children_rename f Hf (Some u) n ks).
Qed.

Lemma kids_of_rename : forall f t, kids_of (arename f t) = map (arename f) (kids_of t).
Proof. intros f [e ks|tl]; reflexivity. Qed.

Lemma itertext_inner_rename : forall f t, itertext_inner (arename f t) = itertext_inner t.
Proof.
  intro f. apply anode_ind'.
  - reflexivity.
  - intros e ks HF. cbn [arename itertext_inner ren_einfo e_text e_tail]. f_equal. f_equal.
    induction HF as [|k r Hk _ IH]; cbn [map]; [reflexivity|].
    rewrite Hk, IH. reflexivity.
Qed.

Lemma itertext_rename : forall f t, itertext (arename f t) = itertext t.
Proof.
  intros f [e ks|tl]; cbn [arename itertext ren_einfo e_text]; [|reflexivity].
  f_equal. rewrite map_map. f_equal. apply map_ext. intro k. apply itertext_inner_rename.
Qed.

Lemma has_content_rename : forall f t, has_content (arename f t) = has_content t.
Proof.
  intro f. apply anode_ind'.
  - reflexivity.
  - intros e ks HF. cbn [arename has_content ren_einfo e_ptag]. f_equal.
    induction HF as [|k r Hk _ IH]; cbn [map]; [reflexivity|].
    rewrite Hk, IH. reflexivity.
Qed.

Lemma min_par_depth_rename : forall f t, min_par_depth (arename f t) = min_par_depth t.
Proof.
  intro f. apply anode_ind'.
  - reflexivity.
  - intros e ks HF. cbn [arename min_par_depth ren_einfo e_ptag].
    destruct (str_eqb (e_ptag e) tag_PARAGRAPH); [reflexivity|]. f_equal.
    induction HF as [|k r Hk _ IH]; cbn [map]; [reflexivity|].
    rewrite Hk, IH. reflexivity.
Qed.

Lemma elem_depth_rename : forall f t, elem_depth (arename f t) = elem_depth t.
Proof.
  intros f [e ks|tl]; [|reflexivity].
  unfold elem_depth. rewrite min_par_depth_rename. reflexivity.
Qed.

Lemma height_rename : forall f t, height (arename f t) = height t.
Proof.
  intro f. apply anode_ind'.
  - reflexivity.
  - intros e ks HF. cbn [arename height]. f_equal.
    induction HF as [|k r Hk _ IH]; cbn [map fold_right]; [reflexivity|].
    rewrite Hk, IH. reflexivity.
Qed.

(* ---- Fmt.v ---- *)
Lemma sub_val_of_rename : forall f t, injective f -> sub_val_of (arename f t) = sub_val_of t.
Proof.
  intros f [e ks|tl] Hf; cbn [arename sub_val_of]; [|reflexivity].
  rewrite attr_w_rename by exact Hf. reflexivity.
Qed.

Lemma gather_Pr_rename : forall f e ks, injective f ->
  gather_Pr (ren_einfo f e) (map (arename f) ks) = gather_Pr e ks.
Proof.
  intros f e ks Hf. unfold gather_Pr. cbn [ren_einfo e_uri e_local].
  rewrite find_child_rename by exact Hf.
  destruct (find_child (e_uri e) (e_local e ++ s_Pr) ks) as [pr|]; cbn [option_map]; [|reflexivity].
  rewrite kids_of_rename. apply foldM_map_ext.
  intros d k. destruct k as [ke kks|tl]; [|reflexivity].
  rewrite sub_val_of_rename by exact Hf. reflexivity.
Qed.

Lemma get_pStyle_rename : forall f e ks, injective f ->
  get_pStyle (ren_einfo f e) (map (arename f) ks) = get_pStyle e ks.
Proof. intros f e ks Hf. unfold get_pStyle. rewrite gather_Pr_rename by exact Hf. reflexivity. Qed.

Lemma get_run_formatting_rename : forall f e ks x2h, injective f ->
  get_run_formatting (ren_einfo f e) (map (arename f) ks) x2h = get_run_formatting e ks x2h.
Proof. intros f e ks x2h Hf. unfold get_run_formatting. rewrite gather_Pr_rename by exact Hf. reflexivity. Qed.

Lemma get_paragraph_formatting_rename : forall f e ks x2h, injective f ->
  get_paragraph_formatting (ren_einfo f e) (map (arename f) ks) x2h = get_paragraph_formatting e ks x2h.
Proof.
  intros f e ks x2h Hf. unfold get_paragraph_formatting. rewrite get_pStyle_rename by exact Hf. reflexivity.
Qed.

Lemma get_html_formatting_rename : forall f e ks x2h, injective f ->
  get_html_formatting (ren_einfo f e) (map (arename f) ks) x2h = get_html_formatting e ks x2h.
Proof.
  intros f e ks x2h Hf. unfold get_html_formatting. cbn [ren_einfo e_ptag].
  rewrite get_run_formatting_rename, get_paragraph_formatting_rename by exact Hf. reflexivity.
Qed.

(* ---- Bullets.v ---- *)
Lemma first_child_w_rename : forall f t n, injective f ->
  first_child_w (arename f t) n = option_map (arename f) (first_child_w t n).
Proof.
  intros f [e ks|tl] n Hf; cbn [arename first_child_w]; [|reflexivity].
  rewrite children_w_rename by exact Hf.
  destruct (children_w e ks n) as [[|x r]|x]; reflexivity.
Qed.

Lemma child_val_w_rename : forall f t n, injective f ->
  child_val_w (arename f t) n = child_val_w t n.
Proof.
  intros f t n Hf. unfold child_val_w. rewrite first_child_w_rename by exact Hf.
  destruct (first_child_w t n) as [[e ks|tl]|]; cbn [option_map arename]; try reflexivity.
  rewrite attr_w_req_rename by exact Hf. reflexivity.
Qed.

Lemma get_bullet_fmt_rename : forall f t, injective f -> get_bullet_fmt (arename f t) = get_bullet_fmt t.
Proof.
  intros f t Hf. unfold get_bullet_fmt. rewrite first_child_w_rename by exact Hf.
  destruct (first_child_w t s_pPr) as [ppr|]; cbn [option_map]; [|reflexivity].
  rewrite first_child_w_rename by exact Hf.
  destruct (first_child_w ppr s_numPr) as [numpr|]; cbn [option_map]; [|reflexivity].
  rewrite !child_val_w_rename by exact Hf. reflexivity.
Qed.

(* ------------------------------------------------------------------ *)
(* PART C — attribute order                                            *)
(* ------------------------------------------------------------------ *)
Lemma ostr_eqb_eq : forall a b, ostr_eqb a b = true <-> a = b.
Proof.
  intros [a|] [b|]; cbn [ostr_eqb]; split; intro H; try discriminate; try reflexivity.
  - apply str_eqb_eq in H. subst. reflexivity.
  - inversion H. apply str_eqb_refl.
Qed.

Lemma aname_eqb_eq : forall k k', aname_eqb k k' = true <-> k = k'.
Proof.
  intros [u n] [u' n']. unfold aname_eqb. cbn [fst snd].
  rewrite andb_true_iff, ostr_eqb_eq, str_eqb_eq. split.
  - intros [H1 H2]. subst. reflexivity.
  - intro H. inversion H. split; reflexivity.
Qed.

Lemma alookup_perm : forall k a a', Permutation a a' -> NoDup (map fst a) -> alookup k a' = alookup k a.
Proof.
  intros k a a' HP. induction HP as [|x l l' HP IH|x y l|l l' l'' HP1 IH1 HP2 IH2]; intro ND.
  - reflexivity.
  - destruct x as [k' v']. cbn [alookup]. cbn [map fst] in ND. inversion ND; subst.
    rewrite IH by assumption. reflexivity.
  - destruct x as [kx vx], y as [ky vy]. cbn [alookup]. cbn [map fst] in ND.
    destruct (aname_eqb k kx) eqn:E1, (aname_eqb k ky) eqn:E2; try reflexivity.
    apply aname_eqb_eq in E1. apply aname_eqb_eq in E2. subst kx ky.
    inversion ND as [|? ? Hnin _]; subst. exfalso. apply Hnin. left. reflexivity.
  - rewrite IH2, IH1; [reflexivity|exact ND|].
    eapply Permutation_NoDup; [apply Permutation_map; exact HP1|exact ND].
Qed.

(* ------------------------------------------------------------------ *)
(* PART D — the whole extraction                                       *)
(* ------------------------------------------------------------------ *)
(* ---- 5. element keys ---- *)
Definition ren_key (f : str -> str) (k : ekey) : ekey :=
  let '(t, g, fm) := k in ((ren_o f (fst t), snd t), g, fm).

Lemma elem_key_rename : forall f v e ks, injective f ->
  elem_key v (ren_einfo f e) (map (arename f) ks)
  = (k <- elem_key v e ks ;; Ok (let '(t, g, fm) := k in ((ren_o f (fst t), snd t), g, fm))).
Proof.
  intros f v e ks Hf. unfold elem_key. cbv zeta.
  change (is_mergeable (ren_einfo f e)) with (is_mergeable e).
  change (e_uri (ren_einfo f e)) with (ren_o f (e_uri e)).
  change (e_local (ren_einfo f e)) with (e_local e).
  change (e_attrs (ren_einfo f e)) with (ren_attrs f (e_attrs e)).
  change (e_ruri (ren_einfo f e)) with (ren_o f (e_ruri e)).
  rewrite get_html_formatting_rename by exact Hf.
  destruct (negb (is_mergeable e)); [reflexivity|].
  assert (Hrid : match ren_o f (e_ruri e) with
                 | Some u => alookup (Some u, s_id) (ren_attrs f (e_attrs e))
                 | None => None
                 end
               = match e_ruri e with
                 | Some u => alookup (Some u, s_id) (e_attrs e)
                 | None => None
                 end).
  { destruct (e_ruri e) as [u|]; cbn [ren_o option_map]; [|reflexivity].
    exact (alookup_rename f Hf (Some u) s_id (e_attrs e)). }
  rewrite Hrid.
  destruct (match e_ruri e with
            | Some u => alookup (Some u, s_id) (e_attrs e)
            | None => None
            end) as [[|c r]|]; cbn [bind].
  - destruct (get_html_formatting e ks (env_x2h v)); reflexivity.
  - destruct (dict_get (c :: r) (env_rels v)); [reflexivity|].
    destruct (get_html_formatting e ks (env_x2h v)); reflexivity.
  - destruct (get_html_formatting e ks (env_x2h v)); reflexivity.
Qed.

Lemma elem_key_rename' : forall f v e ks, injective f ->
  elem_key v (ren_einfo f e) (map (arename f) ks) = res_map (ren_key f) (elem_key v e ks).
Proof.
  intros f v e ks Hf. rewrite elem_key_rename by exact Hf.
  destruct (elem_key v e ks); reflexivity.
Qed.

Lemma ekey_eqb_rename : forall f, injective f ->
  forall a b, ekey_eqb (ren_key f a) (ren_key f b) = ekey_eqb a b.
Proof.
  intros f Hf [[[u n] g] fm] [[[u' n'] g'] fm']. cbn [ren_key ekey_eqb fst snd].
  rewrite aname_eqb_rename by exact Hf. reflexivity.
Qed.

(* ---- 7. the walk ---- *)
Lemma commence_paragraph_rename : forall f v e ks path s, injective f ->
  commence_paragraph v (Some (ren_einfo f e, map (arename f) ks, path)) s
  = commence_paragraph v (Some (e, ks, path)) s.
Proof.
  intros f v e ks path s Hf. unfold commence_paragraph.
  change (e_local (ren_einfo f e)) with (e_local e).
  rewrite get_paragraph_formatting_rename, get_pStyle_rename by exact Hf. reflexivity.
Qed.

Lemma get_checkBox_entry_rename : forall f e ks, injective f ->
  get_checkBox_entry (ren_einfo f e) (map (arename f) ks) = get_checkBox_entry e ks.
Proof.
  intros f e ks Hf. unfold get_checkBox_entry. rewrite !children_w_rename by exact Hf.
  assert (Hd : match res_map (map (arename f)) (children_w e ks s_default) with
               | Ok (AE de _ :: _) =>
                   match attr_w_req de s_val with Ok x => Some x | Err _ => None end
               | _ => None
               end
             = match children_w e ks s_default with
               | Ok (AE de _ :: _) =>
                   match attr_w_req de s_val with Ok x => Some x | Err _ => None end
               | _ => None
               end).
  { destruct (children_w e ks s_default) as [[|[de dks|tl] r']|x]; cbn [res_map map arename];
      try reflexivity.
    rewrite attr_w_req_rename by exact Hf. reflexivity. }
  destruct (children_w e ks s_checked) as [chk|x]; cbn [res_map bind]; [|reflexivity].
  destruct chk as [|[ce cks|tl] r]; cbn [map arename].
  - rewrite Hd. reflexivity.
  - rewrite attr_w_rename by exact Hf. reflexivity.
  - rewrite Hd. reflexivity.
Qed.

Lemma get_ddList_entry_rename : forall f e ks, injective f ->
  get_ddList_entry (ren_einfo f e) (map (arename f) ks) = get_ddList_entry e ks.
Proof.
  intros f e ks Hf. unfold get_ddList_entry. rewrite !children_w_rename by exact Hf.
  destruct (children_w e ks s_listEntry) as [ents|x]; cbn [res_map bind]; [|reflexivity].
  rewrite (mapM_map_ext _ (arename f)
             (fun k => match k with
                       | AE ke _ => attr_w_req ke s_val
                       | AX _ => Err ModelError
                       end)).
  2:{ intros [ke kks|tl]; cbn [arename]; [apply attr_w_req_rename; exact Hf|reflexivity]. }
  destruct (mapM _ ents) as [vals|x]; cbn [bind]; [|reflexivity].
  destruct (children_w e ks s_result) as [[|[re rks|tl] r']|x]; cbn [res_map map arename];
    try reflexivity.
  rewrite attr_w_req_rename by exact Hf. reflexivity.
Qed.

Lemma open_tag_rename : forall f v path t e ks body s, injective f ->
  open_tag v path (arename f t) (ren_einfo f e) (map (arename f) ks) body s
  = open_tag v path t e ks body s.
Proof.
  intros f v path t e ks body s Hf. unfold open_tag, note_label, note_ref. cbv zeta.
  change (e_ptag (ren_einfo f e)) with (e_ptag e).
  change (e_text (ren_einfo f e)) with (e_text e).
  rewrite commence_paragraph_rename, get_bullet_fmt_rename, get_run_formatting_rename,
    itertext_rename, get_checkBox_entry_rename, get_ddList_entry_rename by exact Hf.
  rewrite !attr_w_req_rename, !attr_r_req_rename, !attr_w_rename, attr_plain_rename by exact Hf.
  reflexivity.
Qed.

Lemma close_table_cell_rename : forall f v e ks s, injective f ->
  close_table_cell v (ren_einfo f e) (map (arename f) ks) s = close_table_cell v e ks s.
Proof.
  intros f v e ks s Hf. unfold close_table_cell. rewrite gather_Pr_rename by exact Hf. reflexivity.
Qed.

Lemma close_tag_rename : forall f v e ks s, injective f ->
  close_tag v (ren_einfo f e) (map (arename f) ks) s = close_tag v e ks s.
Proof.
  intros f v e ks s Hf. unfold close_tag. cbv zeta.
  change (e_ptag (ren_einfo f e)) with (e_ptag e).
  rewrite close_table_cell_rename by exact Hf. reflexivity.
Qed.

(* the two local loops of [walk], named *)
Section Loops.
  Variables (v : env) (path : list nat).
  Fixpoint below_loop (l : list anode) (i : nat) : res (list tok) :=
    match l with
    | [] => Ok []
    | k :: r =>
        sk <- walk v (i :: path) k init_cst ;;
        sk' <- finish v sk ;;
        ps <- tree_par_toks (c_tree sk') ;;
        rest <- below_loop r (S i) ;;
        Ok (join_toks par_sep ps ++ rest)
    end.
  Fixpoint kids_loop (l : list anode) (i : nat) (s : cst) : res cst :=
    match l with
    | [] => Ok s
    | k :: r => s' <- walk v (i :: path) k s ;; kids_loop r (S i) s'
    end.
End Loops.

Lemma walk_AE v path e ks s :
  walk v path (AE e ks) s =
  (let d := elem_depth (AE e ks) in
   s1 <- set_caret d (Some (e_local e)) s ;;
   body <- (if str_eqb (e_ptag e) tag_HYPERLINK then below_loop v path ks O else Ok []) ;;
   '(s2, recurse) <- open_tag v path (AE e ks) e ks body s1 ;;
   s3 <- (if recurse : bool then kids_loop v path ks O s2 else Ok s2) ;;
   s4 <- close_tag v e ks s3 ;;
   set_caret d None s4).
Proof. reflexivity. Qed.

Definition walk_same (f : str -> str) (v : env) (t : anode) : Prop :=
  forall path s, walk v path (arename f t) s = walk v path t s.

Lemma below_loop_rename f v path ks :
  Forall (walk_same f v) ks ->
  forall i, below_loop v path (map (arename f) ks) i = below_loop v path ks i.
Proof.
  induction 1 as [|k r Hk _ IH]; intro i; cbn [map below_loop]; [reflexivity|].
  rewrite Hk. rewrite IH. reflexivity.
Qed.

Lemma kids_loop_rename f v path ks :
  Forall (walk_same f v) ks ->
  forall i s, kids_loop v path (map (arename f) ks) i s = kids_loop v path ks i s.
Proof.
  induction 1 as [|k r Hk _ IH]; intros i s; cbn [map kids_loop]; [reflexivity|].
  rewrite Hk. destruct (walk v (i :: path) k s); cbn [bind]; [apply IH|reflexivity].
Qed.

Lemma walk_rename : forall f v t path s, injective f ->
  walk v path (arename f t) s = walk v path t s.
Proof.
  intros f v t path s Hf. revert t path s.
  apply (anode_ind' (walk_same f v)).
  - intros tl path s. reflexivity.
  - intros e ks HF path s.
    change (arename f (AE e ks)) with (AE (ren_einfo f e) (map (arename f) ks)).
    rewrite !walk_AE. cbv zeta.
    change (AE (ren_einfo f e) (map (arename f) ks)) with (arename f (AE e ks)).
    rewrite elem_depth_rename.
    change (e_local (ren_einfo f e)) with (e_local e).
    change (e_ptag (ren_einfo f e)) with (e_ptag e).
    rewrite (below_loop_rename f v path ks HF).
    destruct (set_caret (elem_depth (AE e ks)) (Some (e_local e)) s) as [s1|x]; cbn [bind];
      [|reflexivity].
    destruct (if str_eqb (e_ptag e) tag_HYPERLINK then below_loop v path ks 0%nat else Ok [])
      as [body|x]; cbn [bind]; [|reflexivity].
    rewrite open_tag_rename by exact Hf.
    destruct (open_tag v path (AE e ks) e ks body s1) as [[s2 rec]|x];
      cbn [bind]; [|reflexivity].
    rewrite (kids_loop_rename f v path ks HF).
    destruct (if rec then kids_loop v path ks 0%nat s2 else Ok s2) as [s3|x]; cbn [bind];
      [|reflexivity].
    rewrite close_tag_rename by exact Hf. reflexivity.
Qed.

Lemma collect_rename : forall f v path t, injective f ->
  collect_from v path (arename f t) = collect_from v path t.
Proof.
  intros f v path t Hf. unfold collect_from. rewrite walk_rename by exact Hf. reflexivity.
Qed.

(* ---- 6. merge_elems ---- *)
Definition ren_group (f : str -> str) (g : group) : group :=
  {| g_key := ren_key f (g_key g); g_merge := g_merge g;
     g_e := ren_einfo f (g_e g); g_kids := map (arename f) (g_kids g);
     g_n := g_n g; g_texts := g_texts g;
     g_pending := map (arename f) (g_pending g) |}.

Lemma flush_rename : forall f g out,
  flush (option_map (ren_group f) g) (map (arename f) out) = map (arename f) (flush g out).
Proof.
  intros f [g|] out; cbn [option_map flush]; [|reflexivity].
  cbn [ren_group g_e g_n g_texts g_kids g_pending].
  change (is_text_like (ren_einfo f (g_e g))) with (is_text_like (g_e g)).
  rewrite map_app. cbn [map].
  destruct (is_text_like (g_e g) && Nat.ltb 1 (g_n g))%bool; reflexivity.
Qed.

Lemma merge_sibs_go_rename : forall f v, injective f -> forall ks g out,
  merge_sibs_go v (map (arename f) ks) (option_map (ren_group f) g) (map (arename f) out)
  = res_map (map (arename f)) (merge_sibs_go v ks g out).
Proof.
  intros f v Hf. induction ks as [|k r IH]; intros g out; cbn [map merge_sibs_go].
  - rewrite flush_rename. cbn [res_map]. rewrite map_rev. reflexivity.
  - rewrite has_content_rename. destruct (has_content k); cbn [negb].
    + destruct k as [e eks|tl]; cbn [arename]; [|reflexivity].
      rewrite elem_key_rename' by exact Hf.
      destruct (elem_key v e eks) as [key|x]; cbn [res_map bind]; [|reflexivity].
      change (is_mergeable (ren_einfo f e)) with (is_mergeable e).
      change (e_text (ren_einfo f e)) with (e_text e).
      destruct g as [g0|]; cbn [option_map].
      * cbn [ren_group g_key g_merge g_e g_kids g_n g_texts g_pending].
        rewrite ekey_eqb_rename by exact Hf.
        destruct (ekey_eqb (g_key g0) key && g_merge g0)%bool.
        -- rewrite <- map_app.
           exact (IH (Some {| g_key := g_key g0; g_merge := true; g_e := g_e g0;
                              g_kids := g_kids g0 ++ eks; g_n := S (g_n g0);
                              g_texts := g_texts g0 ++ [ostr (e_text e)];
                              g_pending := g_pending g0 |}) out).
        -- change (flush (Some (ren_group f g0)) (map (arename f) out))
             with (flush (option_map (ren_group f) (Some g0)) (map (arename f) out)).
           rewrite flush_rename.
           exact (IH (Some {| g_key := key; g_merge := is_mergeable e; g_e := e;
                              g_kids := eks; g_n := 1;
                              g_texts := [ostr (e_text e)]; g_pending := [] |})
                     (flush (Some g0) out)).
      * exact (IH (Some {| g_key := key; g_merge := is_mergeable e; g_e := e;
                           g_kids := eks; g_n := 1;
                           g_texts := [ostr (e_text e)]; g_pending := [] |}) out).
    + destruct g as [g0|]; cbn [option_map].
      * exact (IH (Some {| g_key := g_key g0; g_merge := g_merge g0; g_e := g_e g0;
                           g_kids := g_kids g0; g_n := g_n g0; g_texts := g_texts g0;
                           g_pending := k :: g_pending g0 |}) out).
      * exact (IH None (k :: out)).
Qed.

Lemma merge_sibs_rename : forall f v ks, injective f ->
  merge_sibs v (map (arename f) ks) = res_map (map (arename f)) (merge_sibs v ks).
Proof.
  intros f v ks Hf. unfold merge_sibs. exact (merge_sibs_go_rename f v Hf ks None []).
Qed.

Lemma merge_fuel_rename : forall f v, injective f -> forall n t,
  merge_fuel n v (arename f t) = (t' <- merge_fuel n v t ;; Ok (arename f t')).
Proof.
  intros f v Hf. induction n as [|n IH]; intro t; [reflexivity|].
  destruct t as [e ks|tl]; cbn [arename merge_fuel]; [|reflexivity].
  rewrite merge_sibs_rename by exact Hf.
  destruct (merge_sibs v ks) as [ks'|x]; cbn [res_map bind]; [|reflexivity].
  assert (HM : forall l, mapM (merge_fuel n v) (map (arename f) l)
                         = res_map (map (arename f)) (mapM (merge_fuel n v) l)).
  { induction l as [|k l IHl]; cbn [map mapM]; [reflexivity|].
    rewrite IH. destruct (merge_fuel n v k) as [k'|x]; cbn [bind]; [|reflexivity].
    rewrite IHl. destruct (mapM (merge_fuel n v) l); reflexivity. }
  rewrite HM. destruct (mapM (merge_fuel n v) ks'); reflexivity.
Qed.

Lemma merge_rename : forall f v t, injective f ->
  merge_elems v (arename f t) = (t' <- merge_elems v t ;; Ok (arename f t')).
Proof.
  intros f v t Hf. unfold merge_elems. rewrite height_rename.
  apply merge_fuel_rename. exact Hf.
Qed.

(* ---- 8. the whole extraction of one part ---- *)
Theorem extract_rename : forall f v path r, injective f ->
  (m <- merge_elems v (view (rename_uris f r)) ;; collect_from v path m)
  = (m <- merge_elems v (view r) ;; collect_from v path m).
Proof.
  intros f v path r Hf. rewrite view_rename, merge_rename by exact Hf.
  destruct (merge_elems v (view r)) as [m|x]; cbn [bind]; [|reflexivity].
  apply collect_rename. exact Hf.
Qed.

Print Assumptions view_rename.
Print Assumptions view_ignores_other_prefixes.
Print Assumptions alookup_rename.
Print Assumptions attr_w_rename.
Print Assumptions attr_r_rename.
Print Assumptions attr_w_req_rename.
Print Assumptions attr_r_req_rename.
Print Assumptions attr_plain_rename.
Print Assumptions find_children_rename.
Print Assumptions itertext_rename.
Print Assumptions has_content_rename.
Print Assumptions elem_depth_rename.
Print Assumptions height_rename.
Print Assumptions gather_Pr_rename.
Print Assumptions get_pStyle_rename.
Print Assumptions get_run_formatting_rename.
Print Assumptions get_paragraph_formatting_rename.
Print Assumptions get_html_formatting_rename.
Print Assumptions get_bullet_fmt_rename.
Print Assumptions aname_eqb_eq.
Print Assumptions alookup_perm.
Print Assumptions elem_key_rename.
Print Assumptions ekey_eqb_rename.
Print Assumptions open_tag_rename.
Print Assumptions close_tag_rename.
Print Assumptions close_table_cell_rename.
Print Assumptions get_checkBox_entry_rename.
Print Assumptions get_ddList_entry_rename.
Print Assumptions merge_sibs_go_rename.
Print Assumptions merge_rename.
Print Assumptions walk_rename.
Print Assumptions collect_rename.
Print Assumptions extract_rename.
